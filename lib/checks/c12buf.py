"""C12, part "bufconc" - StringBufs shared between threads through script constants.

Spec: spec/BufConc.tla (+ MCBufConc.tla: operation alphabet; GenBufConc.tla: behaviours as a controller of real
threads sees them).  Called from lib/checks/c12.py as `run_buf(tier, ev, verd)`; stand-alone:
`python3 lib/checks/c12buf.py [--tier quick|thorough]` (prints verdict lines, writes no evidence file).

1. Probes: fixed schedules on the real code (through the cfg-guarded "buf_acquire" schedule points before every
   Mutex::lock of src/value/string_buf.rs) determine the locking discipline the code follows: in which order ==
   takes its two locks compared with the address order of the two buffers (EqOrder), whether it still holds the
   first while taking the second (EqHold), whether push_string is one locked section (PushAtomic).
2. TLC model-checks BufConc with exactly that discipline, for both address orders of the two buffers (AddrLess):
   TypeOK, MutualExclusion, Linearizable, deadlock freedom.  A violated invariant / a deadlock is a design-level
   counterexample; the generator then emits the behaviours of that discipline which the specification itself marks
   non-linearizable / stuck, they are imposed on the real code, and a VIOLATION is reported only if the real code
   really returns that result / really deadlocks.  The regressed disciplines are also checked every run as the
   models of the defects (EqOrder = "operand" must deadlock, EqHold = FALSE and PushAtomic = FALSE must violate
   Linearizable): the properties are not vacuous.
3. Conformance S->I: every behaviour of 2 threads x 1 operation plus seeded TLC simulation walks of bigger
   instances are imposed step by step on real threads calling into one freshly compiled package; after every
   controller step the real code must be where the specification says: blocked inside Mutex::lock or not, parked
   before the lock of which buffer, operation completed, its result; at the end the contents of both buffers.
"""
import copy
import json
import os
import re
import sys

sys.path.insert(0, os.path.dirname(os.path.dirname(os.path.abspath(__file__))))
import vlib  # noqa: E402
from vlib import run_tlc, require_tlc_ok  # noqa: E402

PID = "C12"
PART = "bufconc"
BIN = "c12buf"
ALL_OPS = ["pushc_a", "pushc_b", "pushs_a", "pushs_b", "get_a", "get_b", "eq_ab", "eq_ba", "eq_aa"]
REDUCED = ["pushc_a", "pushs_a", "pushs_b", "get_a", "eq_ab", "eq_ba"]
KINDS = ["PushChar", "PushString", "AsString", "Eq"]
CORRECT = {"EqOrder": "address", "EqHold": True, "PushAtomic": True}
INIT = ["x", "x"]


# ------------------------------------------------------------------------------- cfg files

def tla(v):
    if isinstance(v, bool):
        return "TRUE" if v else "FALSE"
    if isinstance(v, str):
        return '"%s"' % v
    return str(v)


def write_cfg(name, disc, addrless, threads, maxops, ops, gen=False):
    path = os.path.join(vlib.workdir(PID, "cfg"), "buf_%s.cfg" % name)
    with open(path, "w") as f:
        f.write("SPECIFICATION %s\nCONSTANTS\n  Threads = {%s}\n  Bufs = {1, 2}\n  MaxOps = %d\n  Ops <- MCOps\n"
                "  InitBuf <- MCInitBuf\n  EqOrder = %s\n  AddrLess = %d\n  EqHold = %s\n  PushAtomic = %s\n  OpKinds = {%s}\n"
                % ("GSpec" if gen else "Spec", ", ".join(str(t) for t in range(1, threads + 1)), maxops,
                   tla(disc["EqOrder"]), addrless, tla(disc["EqHold"]), tla(disc["PushAtomic"]),
                   ", ".join(tla(o) for o in ops)))
        if gen:
            f.write("INVARIANTS Emit\nCHECK_DEADLOCK FALSE\n")
        else:
            f.write("VIEW View\nINVARIANTS TypeOK MutualExclusion Linearizable\n")
    return path


def tlc_trace(r):
    """the counterexample TLC printed, as the list of its action labels (text only, for the report)"""
    return re.findall(r"^State \d+: <(.*?) line \d+", r.stdout, re.M)


# ------------------------------------------------------------------------------- representation mapping

def impl_op(o):
    """abstract operation (characters as sequences) -> what the driver calls"""
    out = {"k": o["k"]}
    for f in ("a", "b"):
        if f in o:
            out[f] = o[f]
    if "c" in o:
        out["c"] = o["c"]
    if "s" in o:
        out["s"] = "".join(o["s"])
    return out


def impl_case(c, block_ms=None, limit_ms=None):
    steps = []
    for s in c["steps"]:
        st = {"t": s["t"], "ctl": s["ctl"]}
        if s["ctl"] == "start":
            st["op"] = impl_op(s["op"])
        if s.get("blocked"):
            st["may_block"] = True
        steps.append(st)
    out = {"init": ["".join(b) for b in c["init"]], "threads": c["threads"], "addrless": c["addrless"], "steps": steps}
    if block_ms:
        out["block_ms"] = block_ms
    if limit_ms:
        out["limit_ms"] = limit_ms
    return out


def concrete(v):
    """abstract result -> the driver's representation (a sequence of characters is a string)"""
    return "".join(v) if isinstance(v, list) else v


def sched_of(c):
    return [(s["t"], s["ctl"], s["op"]["k"] + "".join(str(s["op"].get(f, "")) for f in ("a", "b")) if s["ctl"] == "start" else
             "+".join(a["a"] for a in s["acts"])) for s in c["steps"]]


def inflight_ops(c, upto):
    """kinds of the operations in flight at step `upto` (the one completing there included)"""
    cur = {}
    for k, s in enumerate(c["steps"][:upto + 1]):
        if s["ctl"] == "start":
            cur[s["t"]] = s["op"]["k"]
        if s["done"] and k < upto:
            cur.pop(s["t"], None)
    return "+".join(sorted(cur.values()))


# ------------------------------------------------------------------------------- comparison

def first_difference(c, res):
    """(step index or 'final', kind_of_failure, text) of the first place where the real code is not where the
    specification says, or None.  Expectations are those of the BufConc behaviour `c`; nothing is computed here."""
    r = res["r"]
    im_steps = r["steps"]
    for k, sp in enumerate(c["steps"]):
        if k >= len(im_steps):
            return k, "step-differs", "the driver stopped before step %d" % k
        im = im_steps[k]
        who = "thread %d, step %d (%s %s)" % (sp["t"], k, sp["ctl"], "+".join(a["a"] for a in sp["acts"]))
        if "error" in im:
            return k, "step-differs", "%s is impossible on the real code: %s" % (who, im["error"])
        if isinstance(im.get("res"), dict) and "panic" in im["res"]:
            return k, "panic", "%s: the operation panicked: %s" % (who, im["res"]["panic"])
        if im["blocked"] != sp["blocked"]:
            if im["blocked"]:
                kind = "deadlock" if r.get("deadlocked") else "step-differs"
                return k, kind, ("%s: the thread did not come back from Mutex::lock (stuck threads at the end: %s); BufConc "
                                 "says the lock is free and the thread runs to %s" %
                                 (who, r.get("stuck_threads"), "completion" if sp["done"] else "its next lock (buffer %s)" % sp["parked"]))
            return k, "step-differs", ("%s: BufConc says the thread blocks inside Mutex::lock of buffer %s (held by another "
                                       "thread); the real thread went through: parked=%s done=%s res=%r" %
                                       (who, sp["acts"][0]["b"], im["parked"], im["done"], im["res"]))
        if sp["blocked"]:
            continue
        exp_park = sp["parked"] or None
        if im["done"] != sp["done"] or im["parked"] != exp_park or not im.get("parked_id_known", True):
            return k, "step-differs", ("%s: BufConc expects parked-before-lock-of=%s done=%s, the real code is at parked=%s%s "
                                       "done=%s" % (who, exp_park, sp["done"], im["parked"],
                                                    "" if im.get("parked_id_known", True) else " (a lock of neither constant)", im["done"]))
        if sp["done"] and im["res"] != concrete(sp["res"]):
            return k, "non-linearizable", ("%s: the operation returned %r; the abstract StringBuf at its linearization point "
                                           "(BufConc.Finish) returns %r" % (who, im["res"], concrete(sp["res"])))
    if c["deadlock"] != bool(r.get("deadlocked")):
        if r.get("deadlocked"):
            return "final", "deadlock", "threads %s never came back although BufConc lets every operation finish" % r.get("stuck_threads")
        return "final", "step-differs", "BufConc says the threads are stuck for ever, the real threads all finished"
    if not c["deadlock"]:
        want = [concrete(b) for b in c["final"]]
        if r.get("final") != want:
            return "final", "non-linearizable", ("final contents %r, the abstract StringBufs hold %r (a push was lost, torn or "
                                                 "reordered)" % (r.get("final"), want))
    return None


def run_cases(cases, tag, nproc=12, **kw):
    return vlib.run_batch(BIN, [impl_case(c, **kw) for c in cases], nproc=nproc, stall=60, pid=PID, tag="buf_" + tag)


def judge(cases, results, verd, what):
    """Reports the behaviours the real code does not follow.  A behaviour that differs is run a second time and
    reported only if the difference recurs at the same step (at most three behaviours per failure signature are
    run again: a tree that differs everywhere must not take hours).  Returns the (case, result) that conform."""
    groups = {}
    good = []
    for c, res in zip(cases, results):
        if "r" not in res:
            sig = (vlib.outcome_of(res).split(":")[0], "+".join(sorted(s["op"]["k"] for s in c["steps"] if s["ctl"] == "start")))
            groups.setdefault(sig, []).append((c, res, None))
            continue
        d = first_difference(c, res)
        if d is None:
            good.append((c, res))
        else:
            sig = (d[1], inflight_ops(c, d[0] if isinstance(d[0], int) else len(c["steps"])))
            groups.setdefault(sig, []).append((c, res, d))
    suspicious = [m for sig in sorted(groups) for m in groups[sig][:3]]
    if suspicious:
        vlib.log("C12/bufconc: %d behaviours differ (%d signatures); running %d of them again" %
                 (sum(len(g) for g in groups.values()), len(groups), len(suspicious)))
        again = run_cases([c for c, _, _ in suspicious], "again", nproc=4, block_ms=400, limit_ms=20000)
        for (c, res, d), res2 in zip(suspicious, again):
            if "r" not in res2:
                oc = vlib.outcome_of(res2).split(":")[0]
                ops = "+".join(sorted(s["op"]["k"] for s in c["steps"] if s["ctl"] == "start"))
                verd.report({"part": PART, "kind_of_failure": oc, "ops": ops},
                            "%s: the real StringBuf code did not survive the imposed schedule %s: %s" % (what, sched_of(c), res2),
                            {"part": PART, "case": c, "result": res2})
                continue
            d2 = first_difference(c, res2)
            if d2 is None or (d is not None and (d2[0], d2[1]) != (d[0], d[1])):
                vlib.log("C12/bufconc: a difference did not recur and is not reported:", d, "->", d2, sched_of(c))
                if d2 is None:
                    good.append((c, res2))
                continue
            k, kind, text = d2
            verd.report({"part": PART, "kind_of_failure": kind, "ops": inflight_ops(c, k if isinstance(k, int) else len(c["steps"]))},
                        "%s, AddrLess=%d, schedule %s: %s" % (what, c["addrless"], sched_of(c), text),
                        {"part": PART, "case": c, "result": res2})
    return good


# ------------------------------------------------------------------------------- 1. probes

def probe_cases():
    def st(t, ctl, op=None, mb=False):
        s = {"t": t, "ctl": ctl}
        if op:
            s["op"] = op
        if mb:
            s["may_block"] = True
        return s
    cs = {}
    for w in (1, 2):
        base = {"init": INIT, "threads": 2, "addrless": w}
        cs["eq12_w%d" % w] = dict(base, steps=[st(1, "start", {"k": "Eq", "a": 1, "b": 2})])
        cs["eq21_w%d" % w] = dict(base, steps=[st(1, "start", {"k": "Eq", "a": 2, "b": 1})])
        for x in (1, 2):
            # does == still hold its first lock when it is about to take the second?  as_string on buffer x blocks iff so
            cs["hold%d_w%d" % (x, w)] = dict(base, steps=[st(1, "start", {"k": "Eq", "a": 1, "b": 2}), st(1, "grant"),
                                                         st(2, "start", {"k": "AsString", "b": x}), st(2, "grant", mb=True)])
        cs["push_w%d" % w] = dict(base, steps=[st(1, "start", {"k": "PushString", "b": 1, "s": "ab"}), st(1, "grant")])
    return cs


def detect_discipline(verd):
    pcs = probe_cases()
    names = sorted(pcs)
    res = vlib.run_batch(BIN, [pcs[n] for n in names], nproc=2, stall=60, pid=PID, tag="buf_probe")
    out = {}
    for n, r in zip(names, res):
        if "r" not in r:
            oc = vlib.outcome_of(r).split(":")[0]
            verd.report({"part": PART, "kind_of_failure": oc, "ops": "probe:" + n.split("_")[0]},
                        "probe schedule %s did not survive on the real StringBuf code: %s" % (n, r), {"part": PART, "case": pcs[n], "result": r})
            return None, {"probe_failed": n}
        out[n] = r["r"]
    info = {}
    orders = []
    holds = []
    atomic = []
    for w in (1, 2):
        got_w = out["eq12_w%d" % w]["addrless"]
        f12 = out["eq12_w%d" % w]["steps"][0].get("parked")
        f21 = out["eq21_w%d" % w]["steps"][0].get("parked")
        if f12 not in (1, 2) or f21 not in (1, 2):
            raise vlib.ToolError("probe: A == B did not stop before a lock of A or B: %s" % out["eq12_w%d" % w])
        if (f12, f21) == (1, 2):
            o = "operand"
        elif f12 == f21 == got_w and out["eq21_w%d" % w]["addrless"] == got_w:
            o = "address"
        else:
            o = "other"
        orders.append(o)
        info["AddrLess=%d" % w] = {"measured_smaller_address": got_w, "roles_swapped": out["eq12_w%d" % w]["roles_swapped"],
                                   "first_lock_of_A==B": f12, "first_lock_of_B==A": f21, "order": o}
        hp = out["hold%d_w%d" % (f12, w)]["steps"]
        ok = len(hp) == 4 and hp[1].get("parked") == 3 - f12
        info["AddrLess=%d" % w]["first_lock_held_while_taking_second"] = bool(ok and hp[3]["blocked"])
        holds.append(bool(hp[3]["blocked"]) if ok else True)
        pp = out["push_w%d" % w]["steps"]
        info["AddrLess=%d" % w]["push_string_one_locked_section"] = bool(len(pp) == 2 and pp[1]["done"])
        atomic.append(bool(len(pp) == 2 and pp[1]["done"]))
    # only a discipline BufConc has a model of is selected; anything else is checked against the repaired one
    disc = {"EqOrder": "operand" if all(o == "operand" for o in orders) else "address",
            "EqHold": all(holds), "PushAtomic": all(atomic)}
    info["selected"] = dict(disc)
    return disc, info


# ------------------------------------------------------------------------------- 2. design

def model_check(tier, disc, ev, stats):
    from concurrent.futures import ThreadPoolExecutor
    plans = [(2, 2, ALL_OPS, "all"), (2, 3, ALL_OPS, "all")]
    if tier == "thorough":
        plans += [(3, 1, ALL_OPS, "all"), (3, 2, ALL_OPS, "all"), (2, 4, ALL_OPS, "all"), (3, 3, REDUCED, "reduced")]
    jobs = []
    for (nt, mo, ops, oname) in plans:
        for w in (1, 2):
            jobs.append(("mc %dx%d %s AddrLess=%d" % (nt, mo, oname, w),
                         write_cfg("mc_%d_%d_%s_w%d" % (nt, mo, oname, w), disc, w, nt, mo, ops), 6 if nt * mo >= 6 else 2))
    demos = {"operand": dict(CORRECT, EqOrder="operand"), "nohold": dict(CORRECT, EqHold=False),
             "torn": dict(CORRECT, PushAtomic=False)}
    for n, d in demos.items():
        jobs.append(("demo " + n, write_cfg("demo_" + n, d, 1, 2, 1, ALL_OPS), 1))
    with ThreadPoolExecutor(max_workers=3) as ex:
        futs = [(k, ex.submit(run_tlc, "MCBufConc", cfg, workers=wk, timeout=3000, heap="6g", coverage=False)) for k, cfg, wk in jobs]
        res = [(k, f.result()) for k, f in futs]
    design = {}
    stats["model_checking"] = []
    for k, r in res:
        ev.add_tlc(r)
        if k.startswith("demo"):
            continue
        verdict = "ok" if r.ok else ("Deadlock" if r.deadlock else r.invariant_violated)
        if verdict is None:
            require_tlc_ok(r, "MCBufConc " + k)
        if verdict != "ok":
            design.setdefault(verdict, {"run": k, "trace": tlc_trace(r)})
        stats["model_checking"].append({"run": k, "verdict": verdict, "distinct_states": r.distinct, "states_generated": r.generated,
                                        "depth": r.diameter, "wall_s": round(r.wall, 1)})
    d = dict(res)
    # the models of the defects: TLC must find them (otherwise the properties are vacuous)
    r = d["demo operand"]
    if not r.deadlock:
        raise vlib.ToolError("EqOrder = \"operand\": TLC did not find the deadlock of a == b || b == a (inv=%s err=%s)" %
                             (r.invariant_violated, r.error))
    stats["defect_models"] = {"EqOrder=operand": {"verdict": "Deadlock", "trace": tlc_trace(r), "distinct_states": r.distinct}}
    for n, const in (("nohold", "EqHold=FALSE"), ("torn", "PushAtomic=FALSE")):
        r = d["demo " + n]
        if r.invariant_violated != "Linearizable":
            raise vlib.ToolError("%s: TLC did not find the Linearizable violation (inv=%s deadlock=%s err=%s)" %
                                 (const, r.invariant_violated, r.deadlock, r.error))
        stats["defect_models"][const] = {"verdict": "Linearizable violated", "trace": tlc_trace(r), "distinct_states": r.distinct}
    if disc == CORRECT and design:
        raise vlib.ToolError("BufConc with the repaired discipline violates %s: the specification is wrong" % sorted(design))
    return design


# ------------------------------------------------------------------------------- 3. behaviours

def dedupe(cases):
    seen = {}
    for c in cases:
        seen.setdefault(vlib.shash([c["addrless"], c["threads"], c["steps"]]), c)
    return list(seen.values())


def generate(tier, disc, ev, stats):
    from concurrent.futures import ThreadPoolExecutor
    walks = [(2, 2, 150, 24), (3, 1, 60, 20), (2, 3, 60, 34)] if tier == "quick" else \
            [(2, 2, 1200, 24), (3, 1, 400, 20), (2, 3, 900, 34), (3, 2, 900, 40), (3, 3, 500, 60), (2, 5, 300, 56)]
    jobs = []
    for w in (1, 2):
        jobs.append(("all 2x1 w%d" % w, write_cfg("gen_2_1_w%d" % w, disc, w, 2, 1, ALL_OPS, gen=True), {}))
        for (nt, mo, num, depth) in walks:
            jobs.append(("walk %dx%d w%d" % (nt, mo, w), write_cfg("sim_%d_%d_w%d" % (nt, mo, w), disc, w, nt, mo, ALL_OPS, gen=True),
                         {"simulate": num, "depth": depth, "tlc_seed": vlib.seed() + w}))
    with ThreadPoolExecutor(max_workers=4) as ex:
        futs = [(k, ex.submit(run_tlc, "GenBufConc", cfg, workers=1, timeout=3000, heap="4g", coverage=False, **kw)) for k, cfg, kw in jobs]
        res = [(k, f.result()) for k, f in futs]
    cases = []
    stats["generation"] = []
    for k, r in res:
        if not r.ok:
            require_tlc_ok(r, "GenBufConc " + k)
        ev.add_tlc(r)
        cs = dedupe(r.replay)
        stats["generation"].append({"run": k, "behaviours": len(cs), "states_generated": r.generated})
        if k.startswith("all") and len(cs) < 100:
            raise vlib.ToolError("GenBufConc %s emitted only %d behaviours" % (k, len(cs)))
        cases += cs
    return dedupe(cases)


def racing_eq_orders(c):
    """bookkeeping for the evidence: A == B and B == A in flight at the same time"""
    cur = {}
    for s in c["steps"]:
        if s["ctl"] == "start" and not s["done"]:
            cur[s["t"]] = (s["op"]["k"], s["op"].get("a"), s["op"].get("b"))
        elif s["done"]:
            cur.pop(s["t"], None)
        v = set(cur.values())
        if ("Eq", 1, 2) in v and ("Eq", 2, 1) in v:
            return True
    return False


def binding_selftest(good, stats):
    """A corrupted expectation must be flagged (otherwise the comparison proves nothing): for one conforming behaviour
    each of the expected fields is changed in turn and compared with the unchanged real result."""
    pick = None
    for c, res in good:
        ks = [s for s in c["steps"]]
        if any(s["blocked"] for s in ks) and any(s["done"] and isinstance(s["res"], bool) for s in ks) and \
                any(s["parked"] for s in ks) and any(s["done"] and isinstance(s["res"], list) for s in ks):
            pick = (c, res)
            break
    if pick is None:
        raise vlib.ToolError("binding self-test: no conforming behaviour with a blocked step, a parked step, an == and an as_string")
    c, res = pick
    flagged = {}

    def corrupt(name, pred, change):
        c2 = copy.deepcopy(c)
        for s in c2["steps"]:
            if pred(s):
                change(s)
                break
        else:
            raise vlib.ToolError("binding self-test: nothing to corrupt for " + name)
        d = first_difference(c2, res)
        if d is None:
            raise vlib.ToolError("binding self-test: a behaviour whose expected %s was changed still conforms" % name)
        flagged[name] = d[1]

    corrupt("eq result", lambda s: s["done"] and isinstance(s["res"], bool), lambda s: s.update(res=not s["res"]))
    corrupt("as_string result", lambda s: s["done"] and isinstance(s["res"], list), lambda s: s.update(res=s["res"] + ["c"]))
    corrupt("parked buffer", lambda s: s["parked"], lambda s: s.update(parked=3 - s["parked"]))
    corrupt("blocked", lambda s: s["blocked"], lambda s: s.update(blocked=False, parked=s["acts"][0]["b"]))
    corrupt("completion", lambda s: s["done"], lambda s: s.update(done=False, parked=1))
    c2 = copy.deepcopy(c)
    c2["final"][0] = c2["final"][0] + ["c"]
    if first_difference(c2, res) is None:
        raise vlib.ToolError("binding self-test: changed final contents still conform")
    flagged["final contents"] = first_difference(c2, res)[1]
    stats["binding_selftest_corrupted_expectations_flagged"] = flagged


def run_buf(tier, ev, verd):
    """The shared-StringBuf part of C12.  ev: vlib.Evidence, verd: vlib.Verdicts (both of the caller, PID C12)."""
    stats = {}
    ev.extra[PART] = stats
    vlib.build_harness([BIN])
    disc, info = detect_discipline(verd)
    stats["locking_discipline_detected"] = info
    vlib.log("C12/bufconc discipline", info)
    if disc is None:
        return
    stats["model_constants"] = dict(disc)

    design = model_check(tier, disc, ev, stats)
    stats["design_violations_of_detected_discipline"] = design
    vlib.log("C12/bufconc model checked; design violations:", sorted(design), "t=%.1fs" % (vlib.time.time() - ev.t0))

    cases = generate(tier, disc, ev, stats)
    counts = {"op_instances": {}, "op_kinds": {}, "controller_steps": {"start": 0, "grant": 0, "wake": 0},
              "spec_actions": {}, "behaviours_with_a_blocked_step": 0, "behaviours_with_both_eq_orders_racing": 0,
              "behaviours_per_addrless": {"1": 0, "2": 0}, "behaviours_spec_marks_non_linearizable": 0,
              "behaviours_spec_marks_deadlocked": 0}
    for c in cases:
        for s in c["steps"]:
            counts["controller_steps"][s["ctl"]] += 1
            for a in s["acts"]:
                counts["spec_actions"][a["a"]] = counts["spec_actions"].get(a["a"], 0) + 1
            if s["ctl"] == "start":
                o = s["op"]
                name = {"PushChar": "pushc_", "PushString": "pushs_", "AsString": "get_", "Eq": "eq_"}[o["k"]] + \
                       ("ab"[o["a"] - 1] if o["k"] == "Eq" else "") + "ab"[o["b"] - 1]
                counts["op_instances"][name] = counts["op_instances"].get(name, 0) + 1
                counts["op_kinds"][o["k"]] = counts["op_kinds"].get(o["k"], 0) + 1
        counts["behaviours_with_a_blocked_step"] += any(s["blocked"] for s in c["steps"])
        counts["behaviours_with_both_eq_orders_racing"] += racing_eq_orders(c)
        counts["behaviours_per_addrless"][str(c["addrless"])] += 1
        counts["behaviours_spec_marks_non_linearizable"] += (not c["lin"])
        counts["behaviours_spec_marks_deadlocked"] += bool(c["deadlock"])
    stats["replayed"] = counts
    missing = [o for o in ALL_OPS if not counts["op_instances"].get(o)] + [k for k in KINDS if not counts["op_kinds"].get(k)]
    # a thread can only be found blocked if some operation keeps a lock across a schedule point (== with EqHold)
    need = ["Start", "Acquire", "Finish"] + (["Blocked"] if disc["EqHold"] else []) + \
           (["Crit"] if not (disc["EqHold"] and disc["PushAtomic"]) else [])
    missing += [a for a in need if not counts["spec_actions"].get(a)]
    if disc["EqHold"] and not counts["controller_steps"]["wake"]:
        missing.append("wake step")
    if not counts["behaviours_with_both_eq_orders_racing"]:
        missing.append("A == B racing with B == A")
    if min(counts["behaviours_per_addrless"].values()) == 0:
        missing.append("one of the two address orders")
    if missing:
        raise vlib.ToolError("C12/bufconc: never generated (vacuous run): %s" % missing)

    results = run_cases(cases, "replay")
    good = judge(cases, results, verd, "BufConc behaviour imposed on the real StringBufs")
    steps_compared = 0
    how = {"requested_order_obtained_by_recompiling": 0, "roles_of_A_and_B_swapped": 0, "compile_attempts": 0}
    for c, res in zip(cases, results):
        inter = len({s["t"] for s in c["steps"]}) > 1
        ev.case({"part": PART, "threads": c["threads"], "addrless": c["addrless"], "schedule": [list(x) for x in sched_of(c)]},
                inter, key="buf:" + vlib.shash([c["addrless"], c["steps"]]))
        ev.traces += 1
        if "r" in res:
            steps_compared += min(len(res["r"]["steps"]), len(c["steps"]))
            how["roles_of_A_and_B_swapped" if res["r"]["roles_swapped"] else "requested_order_obtained_by_recompiling"] += 1
            how["compile_attempts"] += res["r"]["compile_attempts"]
    for a in counts["spec_actions"]:
        ev.impl_actions.add("BufConc." + a)
    stats["behaviours_replayed"] = len(cases)
    stats["behaviours_conforming"] = len(good)
    stats["controller_steps_compared"] = steps_compared
    stats["address_order_of_the_package"] = how

    # design-level counterexamples of the detected discipline, confirmed on the real code: the behaviours the
    # specification itself marks as non-linearizable / stuck were followed step by step with the specified results
    confirmed = set()
    for c, res in good:
        if not c["lin"] and "Linearizable" in design and "Linearizable" not in confirmed:
            k = max(i for i, s in enumerate(c["steps"]) if s["done"])
            rep = verd.report({"part": PART, "kind_of_failure": "non-linearizable", "ops": inflight_ops(c, len(c["steps"]))},
                              "the locking discipline the code follows (%s) violates BufConc.Linearizable (TLC: %s) and the real code "
                              "reproduces it: under schedule %s (AddrLess=%d) the operations returned %s, final contents %s; no "
                              "atomic execution at the operations' linearization points gives that" %
                              (disc, " -> ".join(design["Linearizable"]["trace"]), sched_of(c), c["addrless"],
                               [res["r"]["steps"][i]["res"] for i, s in enumerate(c["steps"]) if s["done"]], res["r"]["final"]),
                              {"part": PART, "case": c, "result": res, "last_completion_step": k})
            confirmed.add("Linearizable")
            stats.setdefault("confirmed_on_real_code", []).append(["Linearizable", rep])
        if c["deadlock"] and "Deadlock" not in confirmed:
            rep = verd.report({"part": PART, "kind_of_failure": "deadlock", "ops": inflight_ops(c, len(c["steps"]))},
                              "the locking discipline the code follows (%s) deadlocks in BufConc (TLC: %s) and the real code "
                              "does: under schedule %s (AddrLess=%d) threads %s wait for each other's lock for ever" %
                              (disc, " -> ".join(design.get("Deadlock", {}).get("trace", [])), sched_of(c), c["addrless"],
                               res["r"]["stuck_threads"]), {"part": PART, "case": c, "result": res})
            confirmed.add("Deadlock")
            stats.setdefault("confirmed_on_real_code", []).append(["Deadlock", rep])
    stats["design_violations_not_confirmed_on_real_code"] = sorted(set(design) - confirmed)
    if not verd.violations and not verd.known_hits:
        binding_selftest(good, stats)
    ev.assumptions.append(
        "bufconc: threads can be stopped only at the schedule points before every Mutex::lock of string_buf.rs; BufConc is "
        "exhaustive for the stated thread/operation bounds, two buffers with initial contents \"x\", pushes of 'c' and \"ab\"; "
        "two threads are never left blocked on the same lock (the wake-up order of a mutex is unspecified)")
    vlib.log("C12/bufconc: %d behaviours replayed, %d conform, %d controller steps compared, t=%.1fs" %
             (len(cases), len(good), steps_compared, vlib.time.time() - ev.t0))


def replay_buf(obj, verd):
    """re-run one reported behaviour (the `replay` object of a violation file with part = bufconc)"""
    vlib.build_harness([BIN])
    c = obj["case"]
    if "acts" not in (c["steps"] or [{}])[0]:
        res = vlib.run_batch(BIN, [c], nproc=1, stall=60, pid=PID, tag="buf_rp")[0]
        print(json.dumps(res)[:3000])
        return
    res = run_cases([c], "rp", nproc=1, block_ms=400, limit_ms=20000)[0]
    print(json.dumps(res)[:3000])
    good = judge([c], [res], verd, "replay")
    for c2, r2 in good:
        if c2["deadlock"]:
            verd.report({"part": PART, "kind_of_failure": "deadlock", "ops": inflight_ops(c2, len(c2["steps"]))},
                        "the real code deadlocks under schedule %s" % sched_of(c2), {"part": PART, "case": c2, "result": r2})
        elif not c2["lin"]:
            verd.report({"part": PART, "kind_of_failure": "non-linearizable", "ops": inflight_ops(c2, len(c2["steps"]))},
                        "the real code reproduces the non-linearizable behaviour %s" % sched_of(c2), {"part": PART, "case": c2, "result": r2})


if __name__ == "__main__":
    import argparse
    ap = argparse.ArgumentParser()
    ap.add_argument("--tier", default="quick", choices=["quick", "thorough"])
    ap.add_argument("--replay", default=None)
    a = ap.parse_args()
    os.chdir(vlib.VERIF)
    _verd = vlib.Verdicts(PID)
    try:
        if a.replay:
            replay_buf(json.load(open(a.replay))["replay"], _verd)
        else:
            _ev = vlib.Evidence(PID, a.tier)      # never written by this runner
            run_buf(a.tier, _ev, _verd)
            print(json.dumps(_ev.extra[PART], indent=1)[:20000])
            print("states=%d transitions=%d traces=%d evaluations=%d distinct_nontrivial=%d wall=%.1fs" %
                  (_ev.states, _ev.transitions, _ev.traces, _ev.evaluations, len(_ev.distinct), vlib.time.time() - _ev.t0))
        rc = _verd.finish()
        print("C12/bufconc:", "held" if rc == 0 else "VIOLATED")
        sys.exit(rc)
    except vlib.ToolError as e:
        print("TOOL-ERROR property=%s part=%s %s" % (PID, PART, e), file=sys.stderr)
        sys.exit(2)
