"""C18 - registration is validated and makes items reachable where declared.

Spec: spec/Registration.tla (+ MCRegistration.tla, TraceRegistration.tla).
S->I: TLC enumerates libraries over a fixed item vocabulary (modules, nested modules, types, functions
      with signatures over i32/T/U, impl blocks with a method and a static method, constants, uses) x all
      item orders x at most one injected defect x one or two Add calls, and evaluates Registration!Add on
      each: the specified outcome (Ok / Err / left open) and, after Ok, every probe (path, kind,
      signature) with the tag it must observe, plus paths that must NOT be usable.  Mode "refuse": sequences of
      two / three adds with a REFUSED one (a namesake of an earlier item with another value / tag / type): the items
      of the earlier adds are probed again after the refusal and after the add that follows.  The harness builds every
      library with the public item constructors (a few fixed shapes with library!), calls Runtime::add
      under catch_unwind and compiles + runs a script per probe; outcomes and tags are compared here.
I->S: seeded random libraries (nested up to 4 deep, 4 host types, up to 3 adds per runtime) are generated
      and registered by the harness, which logs add outcomes and probe observations (after a refused add: of
      the items of the earlier adds, then the next library follows); TLC validates the log against Registration
      (TraceRegistration.tla).
"""
import copy
import json
import os
import random

import vlib
from vlib import Evidence, Verdicts, run_tlc, require_tlc_ok

PID = "C18"

BUILTIN_ROOT = ["bool", "u8", "u16", "u32", "u64", "i8", "i16", "i32", "i64", "f32", "f64", "char", "Asn",
                "IpAddr", "Prefix", "String", "StringBytes", "StringChars", "StringLines", "StringBuf",
                "List", "Option", "Verdict", "Result"]

# abstract name (lexical class representative of the spec) -> concrete strings (rotated over the cases)
REPS = {
    "#kw": ["accept", "fn", "import", "std", "filtermap", "return", "super", "test"],
    "#digit": ["1a", "9", "0x1"],
    "#dot": ["a.b", "a.", ".a"],
    "#space": ["a b", "f ", " f", "a\n", "a\tb", "f\t", "\tf", "\nf", "double  "],
    "#comment": ["double // twice", "f //", "f// x", "f //\n"],
    "#empty": [""],
    "#bool": ["true", "false"],
    "#hyphen": ["a-b", "-a", "a+"],
    "#na1": ["é1"],
    "#na2": ["東京"],
}
DEFECTS = ["none", "bad-keyword", "bad-digit", "bad-dot", "bad-space", "bad-comment", "nonascii", "dup-name", "taken-builtin",
           "taken-builtin-prim", "prim-name-in-module", "dup-rust-type", "use-empty", "use-missing", "use-missing-mid", "child-order",
           "split", "readd", "macro", "usetree", "dup-first", "sig/root", "sig/root-rev", "sig/module", "sig/no-type"]
DEFECTS_THOROUGH = ["bad-empty", "bad-boollit", "bad-hyphen"]
KINDS = ["mod", "type", "fn", "const", "impl", "use"]
WHYS = ["badname", "taken", "duptype", "unregistered"]


USE_TREE_LEAVES = 3     # bound of the use-tree grammar (Mode "usetree"); the compiled table must be regenerated if changed


def mc_cfg(path, n, nd, mode, light):
    with open(path, "w") as f:
        f.write("""SPECIFICATION MCSpec
CONSTANTS
  BuiltinRoot = {%s}
  BuiltinAlias = {"Some", "None", "Ok", "Err"}
  ValidCls = {"ascii", "nonascii"}
  UB = %d
  N = %d
  ND = %d
  Mode = "%s"
  Light = %s
INVARIANTS Inv NoPanic Emit
%sCHECK_DEADLOCK FALSE
""" % (", ".join('"%s"' % b for b in BUILTIN_ROOT), USE_TREE_LEAVES if mode == "usetree" else 1, n, nd, mode,
       "TRUE" if light else "FALSE", "PROPERTIES RefusedKeeps\n" if mode == "refuse" else ""))


def render_use_tree(tr):
    """use tree record of the spec -> Rust source of the tree (what follows `use `)"""
    if tr["t"] == "name":
        return tr["x"]
    if tr["t"] == "path":
        return tr["x"] + "::" + render_use_tree(tr["kids"][0])
    return "{" + ", ".join(render_use_tree(k) for k in tr["kids"]) + "}"


def ty_args(t):
    """components of a type code (see spec/Registration.tla: TyKind, TyArgs)"""
    if t < 100:
        return 0, []
    if t < 1000:
        k, a = t // 100, [(t // 10) % 10, t % 10]
    else:
        k, a = t // 1000000, [(t // 1000) % 1000, t % 1000]
    return k, (a[:1] if k <= 2 else a)


def _ty(t, leaf, fmt):
    k, a = ty_args(t)
    if k == 0:
        return leaf[t]
    return fmt[k] % tuple(_ty(x, leaf, fmt) for x in a)


def rust_ty(t):
    return _ty(t, {0: "i32", 1: "Val<TA>", 5: "u32", 6: "bool", 7: "RotoString"},
               {1: "Option<%s>", 2: "List<%s>", 3: "Result<%s, %s>", 4: "Verdict<%s, %s>"})


def roto_ty(t):
    return _ty(t, {0: "i32", 1: "T", 2: "U", 3: "W", 4: "X", 5: "u32", 6: "bool", 7: "String"},
               {1: "Option[%s]", 2: "List[%s]", 3: "Result[%s, %s]", 4: "Verdict[%s, %s]"})


def sig_codes_of(cases):
    """type codes >= 5 that occur in the signatures of the cases"""
    out = set()

    def walk(items):
        for it in items:
            for t in list(it["ps"]) + [it["r"], it["ty"]]:
                if t >= 5:
                    out.add(t)
            walk(it["items"])
    for c in cases:
        for a in c["adds"]:
            walk(a["lib"])
    return out


def table_sig_codes():
    import re
    p = os.path.join(vlib.VERIF, "harness", "src", "tables", "c18_sigs.rs")
    if not os.path.exists(p):
        return set()
    m = re.search(r"SIG_CODES: &\[i64\] = &\[([^\]]*)\]", open(p).read())
    return set(int(x) for x in m.group(1).split(",") if x.strip()) if m else set()


def table_use_trees():
    """the use trees compiled into the harness (harness/src/tables/c18_usetrees.rs)"""
    import re
    p = os.path.join(vlib.VERIF, "harness", "src", "tables", "c18_usetrees.rs")
    if not os.path.exists(p):
        return set()
    txt = open(p).read()
    txt = txt[txt.index("USE_TREES"):txt.index("];")]
    return set(re.findall(r'^    "([^"]*)",$', txt, re.M))


# ----------------------------------------------------------------- representation mapping

def _map_names(obj, f):
    """Apply f to every Roto name in a case (item names, use paths, probe paths, type paths)."""
    if isinstance(obj, list):
        return [_map_names(x, f) for x in obj]
    if isinstance(obj, dict):
        out = {}
        for k, v in obj.items():
            if k == "name" and isinstance(v, str):
                out[k] = f(v)
            elif k in ("path",) and isinstance(v, list):
                out[k] = [f(x) for x in v]
            elif k == "paths" and isinstance(v, list):
                out[k] = [[f(x) for x in p] for p in v]
            elif k == "dangling" and isinstance(v, list):
                out[k] = [f(x) for x in v]
            else:
                out[k] = _map_names(v, f)
        return out
    return obj


def concretize(case, idx, counters=None):
    """abstract class representatives ('#kw' ..) -> concrete names; adds the harness-level fields.
    The representatives of a class are rotated separately for every kind of item that carries the name,
    so that every concrete string meets every item kind."""
    kind_of = {}

    def walk(items):
        for it in items:
            if it.get("name") in REPS:
                kind_of.setdefault(it["name"], it["k"])
            walk(it["items"])
    for a in case["adds"]:
        walk(a["lib"])
    chosen = {}
    for ph in REPS:
        r = REPS[ph]
        if counters is not None and ph in kind_of:
            key = (ph, kind_of[ph])
            n = counters.get(key, 0)
            counters[key] = n + 1
            chosen[ph] = r[n % len(r)]
            counters.setdefault("seen", set()).add((ph, kind_of[ph], chosen[ph]))
        else:
            chosen[ph] = r[idx % len(r)]

    def f(s):
        return chosen.get(s, s)
    c = _map_names(case, f)
    c["from_lib"] = idx % 2 == 1      # Runtime::from_lib(lib) instead of Runtime::new() + add(lib) for the first add
    for a in c["adds"]:
        a["tys"] = {str(t["ty"]): t["path"] for t in a["tys"]}
        # a use of something that does not exist: whatever add says, a script naming the alias must not
        # take the compiler down (the specification has no outcome Panic)
        a["nprobes"] = len(a["probes"])
        for n in a["dangling"]:
            a["probes"].append({"kind": "fn", "path": [n], "ps": [], "r": 0, "ty": 0, "tag": -3, "via": "dangling", "neg": True})
        if a.get("macro") == "usetree":
            # the library! invocation with this `use` tree is compiled into the harness (tables/c18_usetrees.rs)
            a["tree"] = render_use_tree(a["tree"][0])
        elif a.get("macro"):
            a.pop("tree", None)
        else:
            a.pop("macro", None)
            a.pop("tree", None)
    return c


def abstract_names(events):
    """concrete non-ASCII names -> ASCII placeholders (TLC reads the trace; names are opaque strings there)."""
    table = {}

    def f(s):
        if all(ord(ch) < 128 for ch in s):
            return s
        if s not in table:
            table[s] = "#u%d" % len(table)
        return table[s]
    return _map_names(events, f), table


# ------------------------------------------------------------------------------ S -> I

def generate_cases(tier, ev):
    d = vlib.workdir(PID, "cfg")
    if tier == "quick":
        plan = [("single", 3, 3, True), ("split", 3, 0, True), ("readd", 2, 2, True), ("macro", 1, 0, True),
                ("dup1", 1, 0, True), ("dup2", 1, 0, True), ("usetree", 1, 0, True), ("sig", 1, 0, True),
                ("refuse", 1, 0, True)]
    else:
        plan = [("single", 3, 3, False), ("single", 4, 2, True), ("split", 4, 0, True), ("readd", 3, 3, True),
                ("macro", 1, 0, True), ("dup1", 1, 0, True), ("dup2", 1, 0, True), ("usetree", 1, 0, True),
                ("sig", 1, 0, True), ("refuse", 1, 0, False)]
    cases = []
    parts = []
    for (mode, n, nd, light) in plan:
        cfg = os.path.join(d, "mc_%s_%d_%d.cfg" % (mode, n, nd))
        mc_cfg(cfg, n, nd, mode, light)
        r = run_tlc("MCRegistration", cfg, workers=6, timeout=3000, heap="8g", coverage=False)
        require_tlc_ok(r, "MCRegistration %s N=%d" % (mode, n))
        ev.add_tlc(r)
        cases.extend(r.replay)
        parts.append("%s:N=%d:defects<=%d items:%s:%d cases" % (mode, n, nd, "light" if light else "full", len(r.replay)))
    # the same library may be reached in two modes; keep one
    seen = set()
    uniq = []
    for c in cases:
        k = vlib.shash([[(a["lib"], a["defect"], a["macro"], a["tree"]) for a in c["adds"]]])
        if k not in seen:
            seen.add(k)
            uniq.append(c)
    return uniq, parts


def vacuity(cases, tier, ev):
    from collections import Counter
    defects, kinds, whys, outs, probes = Counter(), Counter(), Counter(), Counter(), Counter()

    def walk(items):
        for it in items:
            kinds[it["k"]] += 1
            walk(it["items"])
    for c in cases:
        for a in c["adds"]:
            defects[a["defect"]] += 1
            outs[a["out"]] += 1
            for w in a["why"]:
                whys[w] += 1
            walk(a["lib"])
            for p in a["probes"]:
                probes["%s/%s" % (p["kind"], p["via"])] += 1
    # duplicate registrations: every cell of kind x ident x place1 x place2 x (one library, reversed, two adds)
    dupcells = [d for d in defects if d.startswith("dup/")]
    if len(dupcells) != 5 * 2 * 3 * 5 * 3:
        raise vlib.ToolError("duplicate-registration matrix incomplete: %d cells of 450" % len(dupcells))
    dupout = Counter()
    for c in cases:
        a = c["adds"][-1]
        if a["defect"].startswith("dup/"):
            f = a["defect"].split("/")
            scope = "same-scope" if f[3] == f[4] else "other-scope"
            dupout["%s/%s/%s/%s:%s" % (f[1], f[2], scope, "two-adds" if f[5] == "two-adds" else "one-lib", a["out"])] += 1
    for must in ("type-same/same/other-scope/one-lib:Err", "type-same/same/other-scope/two-adds:Err",
                 "type-same/diff/other-scope/one-lib:Err", "type-other/same/other-scope/one-lib:Ok",
                 "type-other/same/same-scope/one-lib:Err", "fn/same/other-scope/one-lib:Ok", "fn/same/same-scope/one-lib:Err",
                 "const/same/other-scope/two-adds:Ok", "method/same/other-scope/one-lib:Err", "method/diff/other-scope/two-adds:Ok"):
        if dupout[must] == 0:
            raise vlib.ToolError("duplicate-registration family missing: %s (have %s)" % (must, dict(dupout)))
    ev.extra["duplicate_registration_matrix"] = dict(dupout)
    # use trees of library!: shapes
    shapes = Counter()
    for c in cases:
        a = c["adds"][0]
        if a["macro"] == "usetree":
            t = a["tree"][0]["kids"][0]          # below `a::`
            if t["t"] != "group":
                shapes["plain-path" if "{" not in render_use_tree(t) else "path-then-group"] += 1
            else:
                multi = [k["t"] == "path" for k in t["kids"]]
                nested = any("{" in render_use_tree(k) for k in t["kids"])
                if not any(multi):
                    shapes["flat-group"] += 1
                else:
                    if multi[0] and len(multi) > 1:
                        shapes["multi-segment-entry-first"] += 1
                    if multi[-1] and len(multi) > 1:
                        shapes["multi-segment-entry-last"] += 1
                    if len(multi) == 3 and multi[1]:
                        shapes["multi-segment-entry-middle"] += 1
                if nested:
                    shapes["nested-group"] += 1
    for must in ("plain-path", "path-then-group", "flat-group", "multi-segment-entry-first", "multi-segment-entry-middle",
                 "multi-segment-entry-last", "nested-group"):
        if shapes[must] == 0:
            raise vlib.ToolError("use-tree shape missing from the generated cases: %s" % must)
    ev.extra["use_tree_shapes"] = dict(shapes)
    have = table_use_trees()
    stale = [render_use_tree(c["adds"][0]["tree"][0]) for c in cases if c["adds"][0]["macro"] == "usetree"
             and render_use_tree(c["adds"][0]["tree"][0]) not in have]
    if stale:
        raise vlib.ToolError("harness/src/tables/c18_usetrees.rs lacks %d use trees of the spec (e.g. `%s`): "
                             "run tools/gen_c18_usetrees.py" % (len(stale), stale[0]))
    # compound signatures: Result / Verdict with different component types in return and parameter position,
    # every type constructor, nesting, and every probe form
    sigfam = Counter()

    def sigwalk(items):
        for it in items:
            if it["k"] == "fn":
                for pos, ts in (("ret", [it["r"]]), ("par", it["ps"])):
                    for t in ts:
                        k, a = ty_args(t)
                        if k:
                            name = {1: "Option", 2: "List", 3: "Result", 4: "Verdict"}[k]
                            sigfam["%s/%s" % (name, pos)] += 1
                            if len(a) == 2 and a[0] != a[1]:
                                sigfam["%s/%s/different-components" % (name, pos)] += 1
                            if t >= 1000000:
                                sigfam["nested/%s" % pos] += 1
            if it["k"] == "const" and it["ty"] >= 100:
                sigfam["const"] += 1
            sigwalk(it["items"])
    for c in cases:
        for a in c["adds"]:
            if a["defect"].startswith("sig/"):
                sigwalk(a["lib"])
                for q in a["probes"]:
                    if q["obs"]:
                        sigfam["probe/%s" % q["kind"]] += 1
    for must in ["%s/%s" % (n, pos) for n in ("Option", "List", "Result", "Verdict") for pos in ("ret", "par")] + \
                ["%s/%s/different-components" % (n, pos) for n in ("Result", "Verdict") for pos in ("ret", "par")] + \
                ["nested/ret", "nested/par", "const", "probe/fn", "probe/method", "probe/const", "probe/match", "probe/cons"]:
        if sigfam[must] == 0:
            raise vlib.ToolError("compound-signature family missing from the generated cases: %s" % must)
    ev.extra["compound_signature_families"] = dict(sigfam)
    missing_codes = sig_codes_of(cases) - table_sig_codes()
    if missing_codes:
        raise vlib.ToolError("harness/src/tables/c18_sigs.rs lacks type codes %s of the spec: run tools/gen_c18_sigs.py" %
                             sorted(missing_codes)[:5])
    refused_add_vacuity(cases, ev)
    need = DEFECTS + (DEFECTS_THOROUGH if tier != "quick" else [])
    missing = [x for x in need if defects[x] == 0] + [x for x in KINDS if kinds[x] == 0] + \
              [x for x in WHYS if whys[x] == 0] + [x for x in ("Ok", "Err", "Unspec") if outs[x] == 0] + \
              [x for x in ("fn/decl", "fn/use", "method/decl", "const/decl", "type/decl", "type/use", "fn/neg", "const/use", "fn/sig")
               if probes[x] == 0]
    if missing:
        raise vlib.ToolError("case families missing from the generated cases (vacuous run): %s" % missing)
    ev.extra["case_families"] = {"defect": dict(defects), "item_kinds": dict(kinds), "err_reasons": dict(whys),
                                 "specified_outcomes": dict(outs), "probes": dict(probes)}


# what the names of the base library of Mode "refuse" (RBase of spec/MCRegistration.tla) are (for counting only)
REFUSE_TARGET = {"C2": "const", "C3": "const", "KU": "const", "C4": "assoc-const", "f3": "fn", "T": "type", "ma": "mod",
                 "f1": "alias-of-fn", "C5": "alias-of-const", "g1": "method", "g2": "static-method"}
REFUSE_SHAPES = ("ok-ref", "ok-ref-ok", "ok-ok-ref", "ok-ref-ref")


def refused_add_vacuity(cases, ev):
    """Anti-vacuity of the family 'a refused add leaves the items of earlier adds unchanged': every sequence shape x
    every kind of earlier item x every kind of namesake must occur with a refused add that the specification calls Err,
    followed by probes of the earlier items - for a constant a probe that reads its value."""
    from collections import Counter
    fam, reads, seqs = Counter(), Counter(), Counter()
    nprobes = 0
    for c in cases:
        if c.get("mode") != "refuse":
            continue
        f = c["adds"][-1]["defect"].split("/")       # refuse/<shape>/<tk>/<name>/<col>/<pos>/<step>  |  refuse/<shape>/macro/<m>/<step>
        shape, tk = f[1], f[2]
        seqs["%s:%s" % (shape, ",".join(a["out"] for a in c["adds"]))] += 1
        refused = [a for a in c["adds"] if a["defect"].endswith("/refused")]
        if len(refused) != 1 or refused[0]["out"] != "Err" or not refused[0]["after"] or not refused[0]["probes"]:
            raise vlib.ToolError("refused-add case %s: the add that must be refused is specified %s with %d probes" %
                                 (c["adds"][-1]["defect"], [a["out"] for a in refused], sum(len(a["probes"]) for a in refused)))
        if [a["out"] for a in c["adds"] if not a["defect"].split("/")[-1].startswith("refused")] != \
                ["Ok"] * (len(c["adds"]) - sum(1 for a in c["adds"] if a["defect"].split("/")[-1].startswith("refused"))):
            raise vlib.ToolError("refused-add case %s: an add that must succeed is specified %s" %
                                 (c["adds"][-1]["defect"], [a["out"] for a in c["adds"]]))
        r = refused[0]
        asserted = [p for p in r["probes"] if p["tag"] >= 0]
        nprobes += len(asserted)
        if tk == "macro":
            key = "%s/library!/%s" % (shape, f[3])
        else:
            name, col = f[3], f[4]
            key = "%s/%s/%s<-%s" % (shape, tk, REFUSE_TARGET[name] if tk != "modkids" else "module-with-namesake-children", col)
            if REFUSE_TARGET[name] in ("const", "assoc-const") and tk != "modkids":
                # the constant that owns the name is read (for its value) after the refused add
                owner = (["T"] if tk == "impl" else []) + [name]
                if not any(p["kind"] == "const" and p["path"] == owner and (p["tag"] > 0 or p["obs"]) for p in asserted):
                    raise vlib.ToolError("refused-add case %s: constant %s is not read after the refused add" % (r["defect"], owner))
                reads["%s<-%s" % (REFUSE_TARGET[name], col)] += 1
        fam[key] += 1
        # every later add is followed by probes of the earlier constants as well
        for a in c["adds"][c["adds"].index(r):]:
            for owner in (["C2"], ["C3"], ["KU"], ["T", "C4"], ["ma", "C1"], ["ma", "n", "C5"]):
                if not any(p["kind"] == "const" and p["path"] == owner and p["tag"] >= 0 for p in a["probes"]):
                    raise vlib.ToolError("refused-add case %s: constant %s is not read after add %s" % (r["defect"], owner, a["defect"]))
    must = []
    for sh in REFUSE_SHAPES:
        for t, cols in (("root/const", ("const-value", "const-type", "fn", "type", "mod")), ("root/fn", ("const-value", "fn", "type", "mod")),
                        ("root/type", ("const-value", "fn", "type", "mod")), ("root/mod", ("const-value", "fn", "type", "mod")),
                        ("root/alias-of-fn", ("const-value", "fn")), ("root/alias-of-const", ("const-value", "const-type", "fn")),
                        ("impl/assoc-const", ("const-value", "const-type", "fn", "method")), ("impl/method", ("const-value", "method", "fn")),
                        ("impl/static-method", ("const-value", "method", "fn")), ("modkids/module-with-namesake-children", ("mod",))):
            must += ["%s/%s<-%s" % (sh, t, c) for c in cols]
    for sh in ("ok-ref", "ok-ref-ok"):
        must += ["%s/library!/%s" % (sh, m) for m in ("rconst", "rconstty", "rassoc", "rfn")]
    missing = [m for m in must if fam[m] == 0]
    if missing:
        raise vlib.ToolError("refused-add families missing from the generated cases (vacuous run): %s" % missing[:8])
    for m in ("const<-const-value", "const<-const-type", "assoc-const<-const-value", "assoc-const<-const-type"):
        if reads[m] == 0:
            raise vlib.ToolError("refused-add family: no constant is read after a refused %s" % m)
    ev.extra["refused_add_families"] = dict(fam)
    ev.extra["refused_add_sequences"] = dict(seqs)
    ev.extra["refused_add_constant_value_reads"] = dict(reads)
    ev.extra["refused_add_asserted_probes_after_refusal"] = nprobes


def injected(add):
    """kind:name of the item that carries the injected name (for signatures)."""
    out = []

    def walk(items):
        for it in items:
            if it.get("cls") not in (None, "ascii") or (add["defect"].startswith("taken-builtin") and it["name"] in BUILTIN_ROOT):
                out.append("%s:%s" % (it["k"], json.dumps(it["name"], ensure_ascii=False)))
            walk(it["items"])
    walk(add["lib"])
    return ",".join(out)


def injected_item(add):
    """the item whose name was replaced by the injected defect (None if the defect is not a renaming)"""
    if not (add["defect"].startswith("bad-") or add["defect"] in ("nonascii", "taken-builtin", "taken-builtin-prim", "prim-name-in-module")):
        return None
    target = {"taken-builtin": "Option", "taken-builtin-prim": "String", "prim-name-in-module": "u32"}.get(add["defect"])
    found = []

    def walk(items):
        for it in items:
            if (target is None and it.get("cls") != "ascii") or (target is not None and it["name"] == target):
                found.append(it)
            walk(it["items"])
    walk(add["lib"])
    return found[0] if found else None


def padded(add):
    def walk(items):
        for it in items:
            if it.get("cls") == "space" and it["name"].strip() != it["name"] and " " not in it["name"].strip() and "\t" not in it["name"].strip():
                return True
            if walk(it["items"]):
                return True
        return False
    return walk(add["lib"])


def libtxt(a):
    t = json.dumps(a["lib"], ensure_ascii=False)
    if a.get("macro") == "usetree":
        return "library! { use %s; } over the module world " % a["tree"] + t
    return t


def compare(case, res, verd):
    """Compare one replayed case with the specification's expectations. Returns True if it conforms."""
    oc = vlib.outcome_of(res)
    if oc != "returned":
        verd.report({"kind_of_failure": oc.split(":")[0], "stage": "harness-process"},
                    "registration case did not return normally (%s): %s" % (oc, json.dumps(res)[:300]),
                    {"case": case, "result": res})
        return False
    ok = True
    for k, (a, got) in enumerate(zip(case["adds"], res["r"]["adds"])):
        what = {"defect": a["defect"], "specified": a["out"], "add": str(k)}
        if a.get("macro") == "usetree":
            what["use_tree"] = a["tree"]
        if got["out"] == "panic":
            verd.report(dict(what, kind_of_failure="panic", stage=got.get("stage", "?"), loc=got.get("loc", "?")),
                        "Runtime::add / item constructor panicked (%s at %s) for a library with defect=%s: %s" %
                        (got.get("msg"), got.get("loc"), a["defect"], libtxt(a)[:400]),
                        {"case": case, "add": k, "got": got})
            return False
        if a["out"] == "Err" and got["out"] == "ok":
            sig = dict(what, kind_of_failure="accepted", why=",".join(a["why"]), item=injected(a).split(":")[0],
                       name_form="padded-with-whitespace" if padded(a) else "other", injected=injected(a))
            verd.report(sig, "Registration must fail (%s; defect=%s %s) but Runtime::add returned Ok: %s" %
                        (",".join(a["why"]), a["defect"], injected(a), libtxt(a)[:500]),
                        {"case": case, "add": k, "got": got})
            return False
        if a["out"] == "Ok" and got["out"] == "err":
            verd.report(dict(what, kind_of_failure="rejected", stage=got.get("stage", "?")),
                        "Registration must succeed (defect=%s) but failed at %s with: %s; library %s" %
                        (a["defect"], got.get("stage"), got.get("msg"), libtxt(a)[:500]),
                        {"case": case, "add": k, "got": got})
            return False
        # a refused add (specified Err, marked `after` by the specification): the probes that follow are those of the
        # items of the EARLIER adds - they must be reachable and mean what they meant
        kept = got["out"] == "err" and a["out"] == "Err" and a.get("after") is True and "probes" in got
        if got["out"] != "ok" and not kept:
            break
        inj = injected_item(a)
        for p, pr in zip(a["probes"], got["probes"]):
            touches = inj is not None and (inj["name"] in p["path"] or (inj["k"] == "type" and inj["ty"] in ([p.get("r"), p.get("ty")] + list(p.get("ps", [])))))
            where = dict(what, probe_kind=p["kind"], via=p["via"], touches_injected="yes" if touches else "no")
            desc = "%s %s (%s)" % (p["kind"], ".".join(p["path"]), p["via"])
            if kept:
                where["after_refused_add"] = "yes"
                desc = "[item of an earlier successful add, probed after Runtime::add REFUSED (%s) the library below] %s" % (
                    got.get("msg"), desc)
            elif any(b["out"] == "Err" for b in case["adds"][:k]):
                where["after_refused_add"] = "earlier"
                desc = "[an earlier add of this runtime was refused: %s] %s" % (
                    "; then ".join("%s -> %s" % (libtxt(b)[:300], b["out"]) for b in case["adds"][:k]), desc)
            tyc = next((t for t in [p.get("r", 0), p.get("ty", 0)] + list(p.get("ps", [])) if t >= 5), 0)
            if tyc:
                desc += " [signature over %s, i.e. Rust %s]" % (roto_ty(tyc), rust_ty(tyc))
                where["type"] = roto_ty(tyc)
            if pr["st"] == "panic":
                verd.report(dict(where, kind_of_failure="probe-panic", loc=pr.get("loc", "?")),
                            "compiling / running a script that uses %s panicked: %s at %s; library %s" %
                            (desc, pr.get("msg"), pr.get("loc"), libtxt(a)[:400]),
                            {"case": case, "add": k, "probe": p, "got": pr})
                ok = False
                continue
            if p["tag"] == -3:
                continue   # left open by the specification; only "no panic" is required
            if p["neg"]:
                if pr["st"] == "ok":
                    verd.report(dict(where, kind_of_failure="usable-with-wrong-signature" if p["via"] == "sig" else "reachable-where-not-declared"),
                                "%s must not be usable (%s) but the script compiled "
                                "and returned tag %s; library %s" % (desc, "signature %s -> %s is not the declared one" % (p["ps"], p["r"]) if p["via"] == "sig"
                                                                     else "nothing is declared or imported there", pr.get("tag"),
                                                                     libtxt(a)[:400]),
                                {"case": case, "add": k, "probe": p, "got": pr})
                    ok = False
            elif pr["st"] == "ok" and pr["tag"] == p["tag"] and p.get("obs") and pr.get("obs") != p["obs"]:
                verd.report(dict(where, kind_of_failure="wrong-value"),
                            "%s with a signature over %s: the values observed through it must be %s (canonical values 0..3 of "
                            "that type), observed %s; library %s" % (desc, roto_ty(tyc), p["obs"], pr.get("obs"), libtxt(a)),
                            {"case": case, "add": k, "probe": p, "got": pr})
                ok = False
            elif pr["st"] != "ok" or pr["tag"] != p["tag"]:
                verd.report(dict(where, kind_of_failure="unreachable" if pr["st"] != "ok" else "wrong-item"),
                            "%s must be usable and return tag %d; observed %s; library %s" %
                            (desc, p["tag"], json.dumps(pr, ensure_ascii=False)[:300], libtxt(a)[:400]),
                            {"case": case, "add": k, "probe": p, "got": pr})
                ok = False
    return ok


def nontrivial(case):
    """more than one item is involved (nesting, several items or several adds)"""
    n = 0

    def walk(items):
        nonlocal n
        for it in items:
            n += 1
            walk(it["items"])
    for a in case["adds"]:
        walk(a["lib"])
    return n >= 2


def spec_to_impl(tier, ev, verd):
    cases, parts = generate_cases(tier, ev)
    vacuity(cases, tier, ev)
    ev.extra["exhaustive_parts"] = parts
    # deterministic order (TLC's workers print in any order), then class representatives are rotated per item kind
    cases.sort(key=lambda c: vlib.shash(c))
    counters = {}
    conc = [concretize(c, i, counters) for i, c in enumerate(cases)]
    seen = counters.get("seen", set())
    lacking = [(ph, k, r) for ph in ("#space", "#comment", "#kw", "#digit", "#dot") for k in ("fn", "mod", "const", "type")
               for r in REPS[ph] if (ph, k, r) not in seen]
    if lacking:
        raise vlib.ToolError("invalid-name forms that never met an item kind: %s" % lacking[:6])
    ev.extra["invalid_name_forms"] = {ph: REPS[ph] for ph in ("#space", "#comment", "#kw", "#digit", "#dot")}
    results = vlib.run_batch("c18", conc, extra=["replay"], nproc=8, pid=PID, tag="replay", stall=60)
    nconf = 0
    for c, res in zip(conc, results):
        if compare(c, res, verd):
            nconf += 1
        ev.traces += 1
        ev.case({"adds": [{"lib": a["lib"], "defect": a["defect"], "specified": a["out"],
                           "probes": len(a["probes"])} for a in c["adds"]]},
                nontrivial(c), key=vlib.shash([a["lib"] for a in c["adds"]]))
        ev.impl_actions.add("Add")
    ev.extra["replayed_cases"] = len(conc)
    ev.extra["replayed_conforming"] = nconf
    ev.extra["probes_run"] = sum(len(a["probes"]) for c in conc for a in c["adds"])


# ------------------------------------------------------------------------------ I -> S

def split_runs(events):
    runs, cur = [], []
    for e in events:
        if e["op"] == "new" and cur:
            runs.append(cur)
            cur = []
        cur.append(e)
    if cur:
        runs.append(cur)
    return runs


def impl_to_spec(tier, ev, verd):
    rng = random.Random(vlib.seed() * 31 + 18)
    nruns = 600 if tier == "quick" else 15000
    cases = [{"seed": rng.getrandbits(48), "defect_percent": 35} for _ in range(nruns)]
    results = vlib.run_batch("c18", cases, extra=["record"], nproc=8, pid=PID, tag="record", stall=60)
    runs = []
    for c, res in zip(cases, results):
        if vlib.outcome_of(res) != "returned":
            verd.report({"kind_of_failure": vlib.outcome_of(res).split(":")[0], "stage": "record"},
                        "recording run seed=%s did not return normally: %s" % (c["seed"], json.dumps(res)[:300]),
                        {"record_seed": c, "result": res})
            continue
        evs = res["r"]["events"]
        evs[0]["seed"] = c["seed"]
        runs.append(evs)
    d = vlib.workdir(PID, "trace")
    nadds = nprobes = 0
    outs = {}
    for it in range(25):
        flat = [e for r in runs for e in r]
        mapped, table = abstract_names(flat)
        for e in mapped:
            e.pop("detail", None)
            e.pop("panic", None)
            e.pop("own", None)
        path = os.path.join(d, "trace.ndjson")
        vlib.write_ndjson(path, mapped)
        r = vlib.validate_trace("TraceRegistration", "TraceRegistration.cfg", path, timeout=1500, heap="6g")
        ev.add_tlc(r)
        if r.ok:
            from collections import Counter
            cnt = Counter("%s:%s" % (t, v) for (t, v) in r.prints)
            ev.extra["recorded_spec_outcomes"] = {k.split(":")[1]: v for k, v in cnt.items() if k.startswith("OUTCOME")}
            ev.extra["recorded_probe_expectations"] = {k.split(":")[1]: v for k, v in cnt.items() if k.startswith("PROBE")}
            kept = {k.split(":")[1]: v for k, v in cnt.items() if k.startswith("KEPT")}
            ev.extra["recorded_probes_asserted_after_refused_add"] = kept
            if not verd.violations and (kept.get("const", 0) == 0 or kept.get("fn", 0) == 0):
                raise vlib.ToolError("recorded runs never probe a constant / function of an earlier add after a refused add: %s" % kept)
            for e in flat:
                if e["op"] == "add":
                    nadds += 1
                    outs[e["out"]] = outs.get(e["out"], 0) + 1
                    ev.impl_actions.add("Add")
                elif e["op"] == "probe":
                    nprobes += 1
                    ev.impl_actions.add("Expect")
            ev.traces += len(runs)
            break
        if not (r.postcondition_failed and r.replay):
            raise vlib.ToolError("trace validation failed to run: %s\n%s" % (r.error, r.stdout[-2000:]))
        un = r.replay[0]
        line = un["line"]
        # find the run the unmatched event belongs to (events are numbered from 1)
        k, acc = 0, 0
        while acc + len(runs[k]) < line:
            acc += len(runs[k])
            k += 1
        bad = runs.pop(k)
        e = flat[line - 1]
        if e["op"] == "add":
            sig = {"kind_of_failure": "panic" if e["out"] == "panic" else "trace-rejected-add", "got": e["out"],
                   "loc": e.get("panic", {}).get("loc", "")}
            desc = "recorded Runtime::add outcome %s is not allowed by Registration for library %s" % (
                e["out"], json.dumps(e["lib"], ensure_ascii=False)[:600])
        else:
            sig = {"kind_of_failure": "probe-panic" if e["res"] == -9 else "trace-rejected-probe",
                   "probe_kind": e["q"]["kind"], "loc": e.get("detail", {}).get("loc", "")}
            desc = "recorded probe %s observed %s which Registration does not allow (run seed %s) %s" % (
                json.dumps(e["q"], ensure_ascii=False), e["res"], bad[0].get("seed"), json.dumps(e.get("detail", ""))[:200])
        verd.report(sig, desc, {"record_seed": {"seed": bad[0].get("seed"), "defect_percent": 35}, "unmatched": e,
                                "line_in_run": line - acc})
    else:
        # every rejected run has been reported as a violation; the remaining runs stay unvalidated
        ev.extra["recorded_runs_not_validated"] = len(runs)
    ev.extra["recorded_runs"] = nruns
    ev.extra["recorded_adds"] = nadds
    ev.extra["recorded_add_outcomes"] = outs
    ev.extra["recorded_probes"] = nprobes
    if not verd.violations and (outs.get("ok", 0) == 0 or outs.get("err", 0) == 0 or nprobes == 0):
        raise vlib.ToolError("recorded runs are vacuous: outcomes %s probes %d" % (outs, nprobes))


def run(tier):
    ev = Evidence(PID, tier)
    verd = Verdicts(PID)
    vlib.build_harness(["c18"])
    ev.rule = ("cases = libraries emitted by TLC from MCRegistration (vocabulary of 13 items x all orders x at most one "
               "injected defect x one/two adds; refused adds: 4 sequence shapes of 2-3 adds x namesake of every kind of earlier item) replayed into roto::Runtime; distinct = distinct concrete library "
               "sequences; non-trivial = at least two items are involved (nesting, several items or several adds), "
               "i.e. the outcome depends on scope lookups between items and not on one constructor call")
    try:
        spec_to_impl(tier, ev, verd)
        impl_to_spec(tier, ev, verd)
    except vlib.ToolError as e:
        # a tool problem must never hide violations that were already established
        if not verd.violations:
            raise
        vlib.log("TOOL-ERROR (after violations were found) property=%s %s" % (PID, e))
    ev.exhaustive = True
    ev.assumptions = [
        "names are representatives of lexical classes (several concrete strings per class, rotated over the cases)",
        "exhaustive over the stated vocabulary and bounds only; deeper nesting and larger libraries are seeded random (I->S)",
        "where the property statement is silent (use of a missing/empty path, alias name equal to a declared name, "
        "where the alias of a use inside a module lands, items other than fn/const inside impl) only 'no panic' is required",
        "error messages are not compared; after an Err nothing is asserted about the items of the refused library (it may "
        "have been registered in part: its names and new Rust types are left open), the items of earlier adds must be unchanged",
    ]
    rc = verd.finish()
    ev.write(len(verd.violations))
    return rc


def replay(path):
    obj = json.load(open(path))["replay"]
    vlib.build_harness(["c18"])
    verd = Verdicts(PID)
    if "case" in obj:
        res = vlib.run_batch("c18", [obj["case"]], extra=["replay"], nproc=1, pid=PID, tag="replay1")
        compare(obj["case"], res[0], verd)
    elif "record_seed" in obj:
        res = vlib.run_batch("c18", [obj["record_seed"]], extra=["record"], nproc=1, pid=PID, tag="record1")
        if vlib.outcome_of(res[0]) != "returned":
            verd.report({"kind_of_failure": vlib.outcome_of(res[0]).split(":")[0], "stage": "record"}, "run did not return", obj)
        else:
            evs = res[0]["r"]["events"]
            mapped, _ = abstract_names(evs)
            for e in mapped:
                e.pop("detail", None)
                e.pop("panic", None)
                e.pop("own", None)
            p = os.path.join(vlib.workdir(PID, "trace"), "replay.ndjson")
            vlib.write_ndjson(p, mapped)
            r = vlib.validate_trace("TraceRegistration", "TraceRegistration.cfg", p)
            if not r.ok:
                un = r.replay[0] if r.replay else {}
                verd.report({"kind_of_failure": "trace-rejected"}, "recorded run rejected at %s" % json.dumps(un)[:500], obj)
    return verd.finish()
