------------------------------- MODULE Layout -------------------------------
(***************************************************************************)
(* The representation rule of the host boundary (property C05).            *)
(*                                                                         *)
(* Roto computes the layout of its types itself and both sides - the code  *)
(* the compiler emits and the Rust types the host hands over - must follow *)
(* the same rule (src/mir/ty.rs layout_of, src/runtime/layout.rs,          *)
(* src/value/{option,result,verdict}.rs):                                  *)
(*   - a primitive has the size and alignment of itself;                   *)
(*   - String, IpAddr, Prefix, List and registered `Val<T>` types are      *)
(*     opaque: size and alignment of the Rust type;                        *)
(*   - an enum (Option, Result, Verdict) is the union of one C struct per  *)
(*     variant `(u8 tag, fields...)`: the tag is byte 0, a field sits at   *)
(*     the end of what precedes it rounded up to its own alignment, the    *)
(*     alignment is the largest alignment involved and the size is a       *)
(*     multiple of the alignment in which every variant fits;              *)
(*   - the tag value of a variant is its index in declaration order        *)
(*     (Some 0, None 1; Ok 0, Err 1; Accept 0, Reject 1);                  *)
(*   - a value is handed over in a register (scalars), through a pointer   *)
(*     to its image in memory (everything else), or not at all (types of   *)
(*     size zero are dropped from signatures on both sides);               *)
(*   - a function returns through a hidden pointer iff its return type is  *)
(*     handed over by pointer.                                             *)
(*                                                                         *)
(* Type terms are tuples as in TypeGate: <<leaf>>, <<"Option", t>>,        *)
(* <<"List", t>>, <<"Result", t, e>>, <<"Verdict", a, r>>.  Values are     *)
(* records: [k |-> "v", c |-> class] for a leaf (the class names a         *)
(* concrete value, see the harness), [k |-> "Some", p |-> v], [k |->       *)
(* "None"], Ok/Err, Accept/Reject likewise, [k |-> "L", e |-> <<v..>>].    *)
(***************************************************************************)
EXTENDS Naturals, Sequences, FiniteSets, TLC

Leaf(l)   == <<l>>
Opt(t)    == <<"Option", t>>
Lst(t)    == <<"List", t>>
Res(t, e) == <<"Result", t, e>>
Ver(a, r) == <<"Verdict", a, r>>
IsLeaf(t) == Len(t) = 1
IsEnum(t) == t[1] \in {"Option", "Result", "Verdict"} /\ Len(t) > 1
IsList(t) == t[1] = "List" /\ Len(t) = 2

(* ---- leaves ------------------------------------------------------------ *)
(* scalars: handed over by value in a register *)
Scalars == {"bool", "u8", "u16", "u32", "u64", "i8", "i16", "i32", "i64", "f32", "f64", "char", "Asn"}
(* opaque leaves: Rust types whose layout roto takes from rustc (std::alloc::Layout::new) *)
Opaque  == {"IpAddr", "Prefix", "String", "()", "Z0", "C1", "T24"}
Leaves  == Scalars \cup Opaque

LeafSize(l) ==
  CASE l \in {"bool", "u8", "i8", "C1"} -> 1
    [] l \in {"u16", "i16"} -> 2
    [] l \in {"u32", "i32", "f32", "char", "Asn"} -> 4
    [] l \in {"u64", "i64", "f64"} -> 8
    [] l = "IpAddr" -> 17          \* std::net::IpAddr: tag + 16 address bytes
    [] l = "Prefix" -> 32          \* inetnum::addr::Prefix: u128 bits + length byte
    [] l = "String" -> 16          \* RotoString = Arc<str>: pointer + length
    [] l = "T24" -> 24             \* registered 24-byte clone type of the harness
    [] l \in {"()", "Z0"} -> 0     \* unit and the registered zero-sized type
LeafAlign(l) ==
  CASE l \in {"bool", "u8", "i8", "C1", "IpAddr", "()", "Z0"} -> 1
    [] l \in {"u16", "i16"} -> 2
    [] l \in {"u32", "i32", "f32", "char", "Asn"} -> 4
    [] l \in {"u64", "i64", "f64", "String", "T24"} -> 8
    [] l = "Prefix" -> 16
PtrSize == 8                        \* List<T> is one pointer (Arc)

(* ---- the C layout rule -------------------------------------------------- *)
MaxN(a, b) == IF a >= b THEN a ELSE b
RoundUp(n, a) == ((n + a - 1) \div a) * a

(* variants of an enum type: the field types of each variant, in declaration order *)
Variants(t) ==
  CASE t[1] = "Option"  -> << <<t[2]>>, <<>> >>
    [] t[1] = "Result"  -> << <<t[2]>>, <<t[3]>> >>
    [] t[1] = "Verdict" -> << <<t[2]>>, <<t[3]>> >>
VariantNames(t) ==
  CASE t[1] = "Option"  -> <<"Some", "None">>
    [] t[1] = "Result"  -> <<"Ok", "Err">>
    [] t[1] = "Verdict" -> <<"Accept", "Reject">>

(* C struct of `u8 tag` followed by fields with the given layouts:           *)
(* [size, align, offs] where offs[j] is the offset of field j                *)
RECURSIVE StructFrom(_, _, _, _)
StructFrom(ls, size, align, offs) ==
  IF ls = <<>> THEN [size |-> RoundUp(size, align), align |-> align, offs |-> offs]
  ELSE LET f == Head(ls)
           o == RoundUp(size, f.align)
       IN StructFrom(Tail(ls), o + f.size, MaxN(align, f.align), Append(offs, o))
TaggedStruct(ls) == StructFrom(ls, 1, 1, <<>>)        \* the tag occupies byte 0

RECURSIVE CLayout(_)
CLayout(t) ==
  IF IsLeaf(t) THEN [size |-> LeafSize(t[1]), align |-> LeafAlign(t[1]), offs |-> <<>>]
  ELSE IF IsList(t) THEN [size |-> PtrSize, align |-> PtrSize, offs |-> <<>>]
  ELSE LET vs == Variants(t)
           ss == [i \in 1..Len(vs) |-> TaggedStruct([j \in 1..Len(vs[i]) |-> CLayout(vs[i][j])])]
           al == MaxN(ss[1].align, ss[2].align)
       IN [size  |-> RoundUp(MaxN(ss[1].size, ss[2].size), al),
           align |-> al,
           offs  |-> [i \in 1..Len(vs) |-> ss[i].offs]]

ZeroSized(t) == CLayout(t).size = 0

(* how a value of the type is handed over / whether a function returning it uses a return pointer *)
PassBy(t) ==
  IF ZeroSized(t) THEN "dropped"
  ELSE IF IsLeaf(t) /\ t[1] \in Scalars THEN "value"
  ELSE "pointer"
RetByPtr(t) == PassBy(t) = "pointer"

(* argument slots: zero-sized parameters are dropped from the signature on both sides; *)
(* Slots(ts)[j] = index of the parameter that occupies the j-th slot                   *)
Slots(ts) == SelectSeq([i \in 1..Len(ts) |-> i], LAMBDA i : ~ZeroSized(ts[i]))

(* ---- the Rust side of a type --------------------------------------------------------- *)
(* What Rust hands over is `T`, what a script reads is `T::Transformed`.  Leaves, lists (the     *)
(* elements are converted one by one when they are stored) and Verdict over such types are their *)
(* own mirror; Option / Result are not: the mirror is a C-layout enum with the tag rule above,   *)
(* while rustc is free to choose (it numbers None 0 / Some 1, or uses a niche of the payload).   *)
RECURSIVE OwnMirror(_)
OwnMirror(t) == IsLeaf(t) \/ IsList(t) \/ (t[1] = "Verdict" /\ OwnMirror(t[2]) /\ OwnMirror(t[3]))
(* a conversion happens somewhere when a value of the type is stored for a script to read *)
RECURSIVE Converts(_)
Converts(t) == ~IsLeaf(t) /\ (t[1] \in {"Option", "Result"} \/ \E i \in 2..Len(t) : Converts(t[i]))
(* leaves without a spare bit pattern: rustc gives Option[l] a tag of its own, so the Rust type  *)
(* and its mirror have the same size and alignment, and a different encoding                     *)
NoNiche == {"u8", "u16", "u32", "u64", "i8", "i16", "i32", "i64", "f32", "f64", "Asn", "C1", "T24"}
SameShape(t) == t[1] = "Option" /\ Len(t) = 2 /\ IsLeaf(t[2]) /\ t[2][1] \in NoNiche

(* ---- invariants of the rule (checked by TLC for every type of the grammar) ---------- *)
RECURSIVE LayoutOK(_)
LayoutOK(t) ==
  LET l == CLayout(t) IN
  /\ l.align \in {1, 2, 4, 8, 16}
  /\ l.size % l.align = 0
  /\ IsLeaf(t) \/ IsList(t) \/
       LET vs == Variants(t) IN
       /\ l.size >= 1                                           \* room for the tag
       /\ \A i \in 1..Len(vs) : \A j \in 1..Len(vs[i]) :
            LET f == CLayout(vs[i][j])
                o == l.offs[i][j]
            IN /\ o >= 1                                        \* the payload never overlaps the tag
               /\ o % f.align = 0                               \* alignment divides the offset
               /\ o < 1 + f.align                               \* no more padding than necessary
               /\ o + f.size <= l.size                          \* every variant fits
               /\ l.align % f.align = 0
               /\ LayoutOK(vs[i][j])
  /\ IsList(t) => LayoutOK(t[2])
  /\ (PassBy(t) = "dropped") <=> (l.size = 0)
  /\ RetByPtr(t) => ~ZeroSized(t)

(* ---- values -------------------------------------------------------------------------- *)
LeafV(c)   == [k |-> "v", c |-> c]
SomeV(v)   == [k |-> "Some", p |-> v]
NoneV      == [k |-> "None"]
EnumV(n, v) == [k |-> n, p |-> v]
ListV(s)   == [k |-> "L", e |-> s]

(* tag byte of an enum value = index of its variant, counted from 0 *)
VariantIndex(t, v) == CHOOSE i \in 1..2 : VariantNames(t)[i] = v.k
Tag(t, v) == VariantIndex(t, v) - 1
HasPayload(t, v) == Variants(t)[VariantIndex(t, v)] # <<>>
PayloadType(t, v) == Variants(t)[VariantIndex(t, v)][1]

(* ---- memory images --------------------------------------------------------------------- *)
(* Encode(t, v, base): the bytes the sender writes, as a set of <<address, cell>>.  A leaf    *)
(* value fills its bytes with cells naming the value and the byte index; a list is a pointer  *)
(* to shared storage (cells naming the list content); an enum writes its tag and the payload  *)
(* of the chosen variant at that variant's offset.  Padding is not written.                   *)
RECURSIVE Encode(_, _, _)
Encode(t, v, base) ==
  IF IsLeaf(t) THEN {<<base + i, [leaf |-> t[1], c |-> v.c, i |-> i]>> : i \in 0..(LeafSize(t[1]) - 1)}
  ELSE IF IsList(t) THEN {<<base + i, [list |-> v, i |-> i]>> : i \in 0..(PtrSize - 1)}
  ELSE LET i == VariantIndex(t, v) IN
       {<<base, [tag |-> i - 1]>>}
       \cup (IF HasPayload(t, v) THEN Encode(PayloadType(t, v), v.p, base + CLayout(t).offs[i][1]) ELSE {})

Addrs(E) == {p[1] : p \in E}
NoOverlap(E) == Cardinality(Addrs(E)) = Cardinality(E)
(* the cell the image holds at an address *)
Cell(E, a) == (CHOOSE p \in E : p[1] = a)[2]

(* the single value of a zero-sized leaf: nothing is read *)
UnitClass(l) == IF l = "()" THEN "unit" ELSE "z"

(* Decode(t, E, base): what the receiver reads from the image E following the same rule *)
RECURSIVE Decode(_, _, _)
Decode(t, E, base) ==
  IF IsLeaf(t) THEN
       IF LeafSize(t[1]) = 0 THEN LeafV(UnitClass(t[1])) ELSE LeafV(Cell(E, base).c)
  ELSE IF IsList(t) THEN Cell(E, base).list
  ELSE LET i  == Cell(E, base).tag + 1
           fs == Variants(t)[i]
       IN IF fs = <<>> THEN [k |-> VariantNames(t)[i]]
          ELSE EnumV(VariantNames(t)[i], Decode(fs[1], E, base + CLayout(t).offs[i][1]))

(* what arrives when a value of type t is handed over *)
Deliver(t, v) ==
  CASE PassBy(t) = "dropped" -> Decode(t, {}, 0)            \* nothing travels: the type has one value
    [] PassBy(t) = "value"   -> v                            \* the register holds the bits
    [] PassBy(t) = "pointer" -> Decode(t, Encode(t, v, 0), 0)

(* the image of a value is a function (no byte written twice), stays inside the type's   *)
(* size, every written leaf is aligned, and reading it back gives the value              *)
ImageOK(t, v) ==
  LET E == Encode(t, v, 0) IN
  /\ NoOverlap(E)
  /\ \A a \in Addrs(E) : a < CLayout(t).size
  /\ \A p \in E : "leaf" \in DOMAIN p[2] /\ p[2].i = 0 => p[1] % LeafAlign(p[2].leaf) = 0
  /\ Deliver(t, v) = v
=============================================================================
