---------------------------- MODULE TraceListSeq ----------------------------
(* I->S binding for C15: a history recorded from the real roto::List /      *)
(* compiled scripts (one ndjson event per operation, logged after the call  *)
(* returned, with its arguments and its result) must be a behaviour of      *)
(* ListSeq.  Every event is bound to the ListSeq action of the same name    *)
(* and the action's specified observation must equal the logged result;     *)
(* for drop-tracked element types the specified live-element count must     *)
(* equal the measured one.  "reset" starts a new run in the same file.      *)
EXTENDS ListSeq, Json, IOUtils, TLCExt

Rec == ndJsonDeserialize(IOEnv.TRACE)

VARIABLE l
tvars == <<heap, hmap, obs, l>>

Ev == Rec[l]
IsEv(name) == l <= Len(Rec) /\ Ev.op = name /\ l' = l + 1
Has(f) == f \in DOMAIN Ev
ResOk == obs' = Ev.res /\ (Has("live") => Live' = Ev.live)

TraceInit == Init /\ l = 1

TraceNext ==
  \/ IsEv("reset") /\ heap' = <<>> /\ hmap' = [h \in Handles |-> 0] /\ obs' = "init"
  \/ IsEv("new") /\ New(Ev.h) /\ ResOk
  \/ IsEv("from_vec") /\ FromVec(Ev.h, Ev.s) /\ ResOk
  \/ IsEv("push") /\ Push(Ev.h, Ev.v) /\ ResOk
  \/ IsEv("get") /\ Get(Ev.h, Ev.i) /\ ResOk
  \/ IsEv("len") /\ LenOp(Ev.h) /\ ResOk
  \/ IsEv("is_empty") /\ IsEmpty(Ev.h) /\ ResOk
  \/ IsEv("capacity") /\ Capacity(Ev.h) /\ ResOk
  \/ IsEv("swap") /\ Swap(Ev.h, Ev.i, Ev.j) /\ ResOk
  \/ IsEv("concat") /\ Concat(Ev.a, Ev.b, Ev.c) /\ ResOk
  \/ IsEv("contains") /\ Contains(Ev.h, Ev.v) /\ ResOk
  \/ IsEv("index") /\ Index(Ev.h, Ev.v) /\ ResOk
  \/ IsEv("eq") /\ Eq(Ev.a, Ev.b) /\ ResOk
  \/ IsEv("to_vec") /\ ToVec(Ev.h) /\ ResOk
  \/ IsEv("iter") /\ Iter(Ev.h) /\ ResOk
  \/ IsEv("iter_push") /\ IterPush(Ev.h, Ev.n) /\ ResOk
  \/ IsEv("clone") /\ CloneHandle(Ev.a, Ev.b) /\ ResOk
  \/ IsEv("drop") /\ DropHandle(Ev.h) /\ ResOk

TraceSpec == TraceInit /\ [][TraceNext]_tvars

(* accepted iff every recorded event was matched by a ListSeq step *)
TraceAccepted ==
  LET d == TLCGet("stats").diameter IN
  IF d - 1 = Len(Rec) THEN TRUE
  ELSE /\ PrintT(<<"UNMATCHED", ToJson([line |-> d, ev |-> Rec[d]])>>)
       /\ FALSE
=============================================================================
