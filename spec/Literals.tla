------------------------------ MODULE Literals ------------------------------
(* C09 - source text means what the documented grammar says (literal part). *)
(*                                                                          *)
(* A *spelling* is a record that describes one literal (or identifier, or   *)
(* commented program) as a sequence of abstract symbols; python turns it    *)
(* into text by concatenating the symbols (pure renaming, see c09.py).      *)
(* `Denote(sp)` is what docs/source/reference/language_reference.md says    *)
(* that text means:                                                         *)
(*                                                                          *)
(*   [cls |-> "val", must |-> b, v |-> value]   denotes `value`; with       *)
(*        must = TRUE the manual also promises that it is accepted, with    *)
(*        must = FALSE only "if accepted then this value" is claimed        *)
(*   [cls |-> "reject", why]   not a literal of that type: must not compile *)
(*   [cls |-> "any"]       the manual is silent: nothing is claimed         *)
(*                                                                          *)
(* Values never use TLC integers wider than 31 bits: integers are decimal   *)
(* digit sequences (compared digit by digit), floats are sign, odd mantissa *)
(* (digit sequence) and binary exponent of an exactly representable dyadic  *)
(* number, strings are code point sequences, addresses are octet sequences. *)
(*                                                                          *)
(* Symbols are one-character strings: "0".."9", "a".."f", "A".."F", "_".    *)
EXTENDS Naturals, Integers, Sequences, FiniteSets, TLC

Reject(why) == [cls |-> "reject", why |-> why]
NoClaim    == [cls |-> "any"]
Val(v)       == [cls |-> "val", must |-> TRUE,  v |-> v]
ValMay(v, m) == [cls |-> "val", must |-> m, v |-> v]

-----------------------------------------------------------------------------
(* digit symbols *)
DecSyms == {"0", "1", "2", "3", "4", "5", "6", "7", "8", "9"}
HexSyms == DecSyms \cup {"a", "b", "c", "d", "e", "f", "A", "B", "C", "D", "E", "F"}
DV(s) == CASE s = "0" -> 0 [] s = "1" -> 1 [] s = "2" -> 2 [] s = "3" -> 3 [] s = "4" -> 4
           [] s = "5" -> 5 [] s = "6" -> 6 [] s = "7" -> 7 [] s = "8" -> 8 [] s = "9" -> 9
           [] s \in {"a", "A"} -> 10 [] s \in {"b", "B"} -> 11 [] s \in {"c", "C"} -> 12
           [] s \in {"d", "D"} -> 13 [] s \in {"e", "E"} -> 14 [] s \in {"f", "F"} -> 15

NoUnderscore(syms) == SelectSeq(syms, LAMBDA s : s # "_")
AllIn(syms, S) == \A i \in 1..Len(syms) : syms[i] \in S

(* small numbers (TLC integers), used for exponents, escapes, octets        *)
RECURSIVE SmallVal(_, _, _)
SmallVal(syms, base, acc) ==
  IF syms = <<>> THEN acc ELSE SmallVal(Tail(syms), base, acc * base + DV(Head(syms)))

-----------------------------------------------------------------------------
(* Big naturals: little-endian digit sequences while computing, big-endian  *)
(* canonical digit sequences (no leading zero, <<0>> for zero) as values.   *)
RECURSIVE DigitsLE(_)
DigitsLE(c) == IF c = 0 THEN <<>> ELSE <<c % 10>> \o DigitsLE(c \div 10)

RECURSIVE MulAddLE(_, _, _)
MulAddLE(ds, m, c) ==                 \* ds * m + c
  IF ds = <<>> THEN DigitsLE(c)
  ELSE LET v == ds[1] * m + c IN <<v % 10>> \o MulAddLE(Tail(ds), m, v \div 10)

RECURSIVE Rev(_)
Rev(s) == IF s = <<>> THEN <<>> ELSE Append(Rev(Tail(s)), Head(s))

RECURSIVE StripZ(_)
StripZ(ds) == IF Len(ds) > 1 /\ ds[1] = 0 THEN StripZ(Tail(ds)) ELSE ds

Canon(le) == IF le = <<>> THEN <<0>> ELSE StripZ(Rev(le))

RECURSIVE FoldBaseLE(_, _, _)
FoldBaseLE(syms, base, acc) ==
  IF syms = <<>> THEN acc ELSE FoldBaseLE(Tail(syms), base, MulAddLE(acc, base, DV(Head(syms))))

(* the natural number written by the digit symbols in the given base *)
BigOf(syms, base) == Canon(FoldBaseLE(syms, base, <<>>))

BigMulSmall(be, m) == Canon(MulAddLE(Rev(be), m, 0))

RECURSIVE QuotBE(_, _, _)
QuotBE(ds, d, r) ==
  IF ds = <<>> THEN <<>>
  ELSE LET v == r * 10 + ds[1] IN <<v \div d>> \o QuotBE(Tail(ds), d, v % d)
RECURSIVE RemBE(_, _, _)
RemBE(ds, d, r) == IF ds = <<>> THEN r ELSE RemBE(Tail(ds), d, (r * 10 + ds[1]) % d)

BigDivSmall(be, d) == StripZ(QuotBE(be, d, 0))
BigModSmall(be, d) == RemBE(be, d, 0)
BigZero(be) == be = <<0>>

RECURSIVE LexLeq(_, _)
LexLeq(a, b) ==
  IF a = <<>> THEN TRUE
  ELSE IF a[1] < b[1] THEN TRUE
  ELSE IF a[1] > b[1] THEN FALSE
  ELSE LexLeq(Tail(a), Tail(b))
BigLeq(a, b) == Len(a) < Len(b) \/ (Len(a) = Len(b) /\ LexLeq(a, b))

RECURSIVE Pow2Big(_)
Pow2Big(n) == IF n = 0 THEN <<1>> ELSE BigMulSmall(Pow2Big(n - 1), 2)
BigPred(be) ==                         \* be - 1 for be > 0
  LET RECURSIVE Borrow(_)
      Borrow(le) == IF le[1] > 0 THEN <<le[1] - 1>> \o Tail(le) ELSE <<9>> \o Borrow(Tail(le))
  IN Canon(Borrow(Rev(be)))

-----------------------------------------------------------------------------
(* Integers (manual: "Integers", "Literals")                                *)
(*   sp = [fam |-> "int", neg, radix |-> "dec" | "hex", ds |-> symbols,     *)
(*         suf |-> "" | type name, ctx |-> type expected by the context]    *)
(*   text = ["-"] ["0x"] ds suf                                             *)
IntTypes   == {"u8", "u16", "u32", "u64", "i8", "i16", "i32", "i64"}
FloatTypes == {"f32", "f64"}
Bits(ty)   == CASE ty \in {"u8", "i8"} -> 8 [] ty \in {"u16", "i16"} -> 16
                [] ty \in {"u32", "i32"} -> 32 [] ty \in {"u64", "i64"} -> 64
Signed(ty) == ty \in {"i8", "i16", "i32", "i64"}

(* largest magnitude a literal of type ty may have (after a minus sign: the *)
(* magnitude of the minimum)                                                *)
(* (written out: TLC does not cache definitions that go through recursive   *)
(* operators; MCLiterals checks them against Pow2Big)                       *)
MaxUnsigned(ty) == CASE ty = "u8"  -> <<2, 5, 5>>
                     [] ty = "u16" -> <<6, 5, 5, 3, 5>>
                     [] ty = "u32" -> <<4, 2, 9, 4, 9, 6, 7, 2, 9, 5>>
                     [] ty = "u64" -> <<1, 8, 4, 4, 6, 7, 4, 4, 0, 7, 3, 7, 0, 9, 5, 5, 1, 6, 1, 5>>
MaxSigned(ty)   == CASE ty = "i8"  -> <<1, 2, 7>>
                     [] ty = "i16" -> <<3, 2, 7, 6, 7>>
                     [] ty = "i32" -> <<2, 1, 4, 7, 4, 8, 3, 6, 4, 7>>
                     [] ty = "i64" -> <<9, 2, 2, 3, 3, 7, 2, 0, 3, 6, 8, 5, 4, 7, 7, 5, 8, 0, 7>>
MinSignedMag(ty) == CASE ty = "i8"  -> <<1, 2, 8>>
                      [] ty = "i16" -> <<3, 2, 7, 6, 8>>
                      [] ty = "i32" -> <<2, 1, 4, 7, 4, 8, 3, 6, 4, 8>>
                      [] ty = "i64" -> <<9, 2, 2, 3, 3, 7, 2, 0, 3, 6, 8, 5, 4, 7, 7, 5, 8, 0, 8>>
MaxMag(ty, neg) == IF Signed(ty) THEN (IF neg THEN MinSignedMag(ty) ELSE MaxSigned(ty)) ELSE MaxUnsigned(ty)
I64Max == MaxSigned("i64")
(* the same limits computed, for the consistency check in MCLiterals *)
MaxMagComputed(ty, neg) ==
  IF Signed(ty) THEN (IF neg THEN Pow2Big(Bits(ty) - 1) ELSE BigPred(Pow2Big(Bits(ty) - 1)))
  ELSE BigPred(Pow2Big(Bits(ty)))

(* The context: ctx is the type the surrounding program requires at the place *)
(* of the literal, pos (optional field, default "ret") is the kind of place:  *)
(*   "ret"  fn f() -> ctx { LIT }                                             *)
(*   "let"  fn f() -> ctx { let x: ctx = LIT; x }                             *)
(*   "arg"  fn id(x: ctx) -> ctx { x }  fn f() -> ctx { id(LIT) }             *)
(* The denotation does not depend on pos.                                     *)
AllTypes == IntTypes \cup FloatTypes
PosForms == {"ret", "let", "arg"}
PosOk(sp) == "pos" \in DOMAIN sp => sp.pos \in PosForms

(* "integer literals can end with the type of the integer, such as `10u8`",  *)
(* "... such as `10.2f32`": a suffixed literal has exactly the type named by *)
(* its suffix, whatever the spelling of the digits (`10f64`, `1_0f64`,       *)
(* `10_f64`, `10.0f64`, `1e1f64`).  Where the context requires another type  *)
(* the program is ill typed and must not compile.                            *)
SuffixMismatch(sp) == sp.suf # "" /\ sp.suf # sp.ctx

IntWellFormed(sp) ==
  /\ Len(sp.ds) >= 1
  /\ IF sp.radix = "dec" THEN sp.ds[1] \in DecSyms /\ AllIn(sp.ds, DecSyms \cup {"_"})
     ELSE AllIn(sp.ds, HexSyms) /\ sp.suf = ""
  /\ sp.suf \in AllTypes \cup {""}
  /\ sp.ctx \in AllTypes
  /\ PosOk(sp)

IntV(neg, mag) == [neg |-> neg /\ ~BigZero(mag), mag |-> mag]

-----------------------------------------------------------------------------
(* Floats (manual: "Floating Point Numbers", "Literals")                    *)
(*   sp = [fam |-> "float", neg, ip, dot, fp, ex |-> "" | "e" | "E",        *)
(*         es |-> "" | "+" | "-", ed, suf, ctx]                             *)
(*   text = ["-"] ip ["." fp] [ex es ed] suf                                *)
(* Only spellings whose decimal value is a dyadic number m * 2^k with odd m *)
(* below 2^24 (so exact in f32 and f64) are claimed; everything else is NoClaim.*)
FloatWellFormed(sp) ==
  /\ Len(sp.ip) >= 1 /\ sp.ip[1] \in DecSyms /\ AllIn(sp.ip, DecSyms \cup {"_"})
  /\ AllIn(sp.fp, DecSyms \cup {"_"}) /\ (sp.fp # <<>> => sp.dot /\ sp.fp[1] \in DecSyms)
  /\ AllIn(sp.ed, DecSyms \cup {"_"})
  /\ (sp.ex = "" => sp.es = "" /\ sp.ed = <<>>)
  /\ (sp.ex # "" => NoUnderscore(sp.ed) # <<>>)
  /\ sp.suf \in AllTypes \cup {""} /\ sp.ctx \in AllTypes /\ PosOk(sp)
  /\ (sp.dot \/ sp.ex # "" \/ sp.suf \in FloatTypes)    \* otherwise it is an integer literal
  /\ (sp.dot /\ sp.fp = <<>> => sp.ex = "" /\ sp.suf = "")   \* `10.` ; `10.e5` / `10.f64` are field accesses

RECURSIVE DivBy5(_, _)
DivBy5(be, n) ==            \* be / 5^n or <<>> when not divisible
  IF n = 0 THEN be
  ELSE IF BigModSmall(be, 5) # 0 THEN <<>>
  ELSE DivBy5(BigDivSmall(be, 5), n - 1)
RECURSIVE MulBy5(_, _)
MulBy5(be, n) == IF n = 0 THEN be ELSE MulBy5(BigMulSmall(be, 5), n - 1)
RECURSIVE OddPart(_, _)
OddPart(be, k) ==           \* be * 2^k = m * 2^k' with m odd (be > 0)
  IF BigModSmall(be, 2) = 0 THEN OddPart(BigDivSmall(be, 2), k + 1) ELSE [m |-> be, k |-> k]

Max24 == <<1, 6, 7, 7, 7, 2, 1, 5>>      \* 2^24 - 1

(* value of digits D times 10^e10 as a dyadic number, or "inexact" *)
Dyadic(D, e10) ==
  IF BigZero(D) THEN [zero |-> TRUE, m |-> <<0>>, k |-> 0, exact |-> TRUE]
  ELSE LET N == IF e10 >= 0 THEN MulBy5(D, e10) ELSE DivBy5(D, -e10)
       IN IF N = <<>> THEN [zero |-> FALSE, m |-> <<0>>, k |-> 0, exact |-> FALSE]
          ELSE LET o == OddPart(N, e10)
               IN [zero |-> FALSE, m |-> o.m, k |-> o.k,
                   exact |-> BigLeq(o.m, Max24) /\ o.k >= -100 /\ o.k <= 100]

FloatV(neg, d) == [neg |-> neg, zero |-> d.zero, m |-> d.m, k |-> d.k]

DenoteFloat(sp) ==
  IF ~FloatWellFormed(sp) THEN NoClaim
  ELSE IF SuffixMismatch(sp) THEN Reject("suffix-type-mismatch")   \* `1.5f64` where an f32 / an integer is required
  ELSE IF sp.suf \in IntTypes THEN NoClaim                         \* `1.5u8` where a u8 is required: manual silent
  ELSE IF sp.ctx \in IntTypes THEN Reject("float-literal-in-integer-context")   \* `.`, `e`, `E` make it a float literal
  ELSE LET fd == NoUnderscore(sp.fp)
           D  == BigOf(NoUnderscore(sp.ip) \o fd, 10)
           e  == SmallVal(NoUnderscore(sp.ed), 10, 0)
           e10 == (IF sp.es = "-" THEN 0 - e ELSE e) - Len(fd)
           d  == Dyadic(D, e10)
       IN IF d.exact THEN Val(FloatV(sp.neg, d)) ELSE NoClaim

DenoteInt(sp) ==
  IF ~IntWellFormed(sp) THEN NoClaim
  ELSE IF SuffixMismatch(sp) THEN Reject("suffix-type-mismatch")   \* `10f64` where an f32 is required, `10u8` as u16, ...
  ELSE LET mag == BigOf(NoUnderscore(sp.ds), IF sp.radix = "hex" THEN 16 ELSE 10)
       IN IF sp.ctx \in FloatTypes
          THEN (* `2f64`: an integer token with a float suffix is a float literal *)
               IF sp.suf = "" THEN Reject("float-needs-dot")      \* manual: float literals need `.`, `e` or `E`
               ELSE LET d == Dyadic(mag, 0) IN IF d.exact THEN Val(FloatV(sp.neg, d)) ELSE NoClaim
          ELSE IF sp.neg /\ ~Signed(sp.ctx) THEN Reject("minus-on-unsigned")   \* unary minus needs a signed type
          ELSE IF ~BigLeq(mag, MaxMag(sp.ctx, sp.neg)) THEN Reject("out-of-range")   \* outside the documented range
          ELSE ValMay(IntV(sp.neg, mag), BigLeq(mag, I64Max))

-----------------------------------------------------------------------------
(* Strings, characters, f-strings (manual: "Strings", "Escape sequences",   *)
(* "String Formatting", "Characters")                                       *)
(*   sp = [fam |-> "str" | "fstr" | "char", items |-> sequence of items]    *)
(*   item [k |-> "c", cp, w]      the character itself (w = UTF-8 width)    *)
(*        [k |-> "e", s]          \0 \t \n \r \" \' \\  (s = 0 t n r dq sq bs) *)
(*        [k |-> "x", hi, lo]     \xHL                                      *)
(*        [k |-> "u", ds]         \u{ds}                                    *)
(*        [k |-> "cont", ws]      backslash, newline, then the white space ws *)
(*        [k |-> "lb"] [k |-> "rb"]   {{  }}   (f-strings)                  *)
(*        [k |-> "i", e]          {expression e}  (f-strings)               *)
EscVal(s) == CASE s = "0" -> 0 [] s = "t" -> 9 [] s = "n" -> 10 [] s = "r" -> 13
               [] s = "dq" -> 34 [] s = "sq" -> 39 [] s = "bs" -> 92

AsciiWs == {32, 9, 10}

(* interpolated expressions: text is produced by python from the name, the  *)
(* specification says what to_string gives                                  *)
InterpVal(e) ==
  CASE e = "int7"   -> <<55>>                    \* {7}
    [] e = "int1_0" -> <<49, 48>>                \* {1_0}
    [] e = "neg3"   -> <<45, 51>>                \* {-3}
    [] e = "true"   -> <<116, 114, 117, 101>>    \* {true}
    [] e = "padded" -> <<55>>                    \* { 7 }
    [] e = "str"    -> <<233, 125, 34>>          \* {"é}\""}  string literal inside: e-acute, brace, quote
    [] e = "nested" -> <<123, 53>>               \* {f"{{{5}"}
    [] e = "sum"    -> <<49, 50>>                \* {5 + 7}
Interps == {"int7", "int1_0", "neg3", "true", "padded", "str", "nested", "sum"}

(* may the character be written unescaped in this kind of literal?          *)
PlainOk(fam, cp) ==
  CASE fam = "str"  -> cp \notin {34, 92, 13, 10}
    [] fam = "fstr" -> cp \notin {34, 92, 13, 10, 123, 125}
    [] fam = "char" -> cp \notin {39, 92, 13, 10, 9}

UVal(ds) == SmallVal(ds, 16, 0)
ItemStatus(fam, it) ==       \* "ok" | "reject" | "any"
  CASE it.k = "c" -> IF PlainOk(fam, it.cp) THEN "ok" ELSE "any"
    [] it.k = "e" -> "ok"
    [] it.k = "x" -> IF it.hi \in HexSyms /\ it.lo \in HexSyms
                     THEN (IF DV(it.hi) <= 7 THEN "ok" ELSE "any") ELSE "any"
    [] it.k = "u" -> IF Len(it.ds) \in 1..6 /\ AllIn(it.ds, HexSyms)
                     THEN (IF UVal(it.ds) <= 1114111 /\ ~(UVal(it.ds) \in 55296..57343) THEN "ok" ELSE "reject")
                     ELSE "any"
    [] it.k = "cont" -> IF fam = "char" THEN "any" ELSE "ok"
    [] it.k \in {"lb", "rb"} -> IF fam = "fstr" THEN "ok" ELSE "any"
    [] it.k = "i" -> IF fam = "fstr" /\ it.e \in Interps THEN "ok" ELSE "any"

RECURSIVE ItemsVal(_, _)
ItemsVal(items, skipping) ==
  IF items = <<>> THEN <<>>
  ELSE LET it == Head(items) rest == Tail(items) IN
    CASE it.k = "c" -> IF skipping /\ it.cp \in AsciiWs THEN ItemsVal(rest, TRUE)
                       ELSE <<it.cp>> \o ItemsVal(rest, FALSE)
      [] it.k = "e" -> <<EscVal(it.s)>> \o ItemsVal(rest, FALSE)
      [] it.k = "x" -> <<DV(it.hi) * 16 + DV(it.lo)>> \o ItemsVal(rest, FALSE)
      [] it.k = "u" -> <<UVal(it.ds)>> \o ItemsVal(rest, FALSE)
      [] it.k = "cont" -> ItemsVal(rest, TRUE)
      [] it.k = "lb" -> <<123>> \o ItemsVal(rest, FALSE)
      [] it.k = "rb" -> <<125>> \o ItemsVal(rest, FALSE)
      [] it.k = "i"  -> InterpVal(it.e) \o ItemsVal(rest, FALSE)

DenoteText(sp) ==
  LET st == {ItemStatus(sp.fam, sp.items[i]) : i \in 1..Len(sp.items)} IN
  IF sp.fam = "char"
  THEN IF "any" \in st THEN NoClaim
       ELSE IF Len(sp.items) # 1 THEN Reject("not-one-character")         \* "a character enclosed in single quotes"
       ELSE IF "reject" \in st THEN Reject("bad-escape")
       ELSE Val(ItemsVal(sp.items, FALSE)[1])
  ELSE IF "any" \in st THEN NoClaim
       ELSE IF "reject" \in st THEN Reject("bad-escape")
       ELSE Val(ItemsVal(sp.items, FALSE))

(* A deviation of the pinned implementation, used only to *classify* a      *)
(* mismatch (known-finding signature), never as an expectation:             *)
(* Parser::f_string unescapes each text part first and replaces {{ and }}   *)
(* afterwards, so braces that come from escape sequences collapse as well.  *)
RECURSIVE Collapse(_, _)
Collapse(cps, b) ==          \* leftmost non-overlapping pairs b b -> b (str::replace)
  IF Len(cps) < 2 THEN cps
  ELSE IF cps[1] = b /\ cps[2] = b THEN <<b>> \o Collapse(SubSeq(cps, 3, Len(cps)), b)
  ELSE <<cps[1]>> \o Collapse(Tail(cps), b)
PartVal(part) == Collapse(Collapse(part, 123), 125)
RECURSIVE DevItems(_, _, _)
DevItems(items, skipping, part) ==       \* part: unescaped code points of the current text part
  IF items = <<>> THEN PartVal(part)
  ELSE LET it == Head(items) rest == Tail(items) IN
    IF it.k = "i" THEN PartVal(part) \o InterpVal(it.e) \o DevItems(rest, FALSE, <<>>)
    ELSE IF it.k = "cont" THEN DevItems(rest, TRUE, part)
    ELSE IF it.k = "c" /\ skipping /\ it.cp \in AsciiWs THEN DevItems(rest, TRUE, part)
    ELSE DevItems(rest, FALSE,
                  part \o (IF it.k = "lb" THEN <<123, 123>> ELSE IF it.k = "rb" THEN <<125, 125>>
                           ELSE ItemsVal(<<it>>, FALSE)))
DeviantFstr(sp) == IF sp.fam = "fstr" THEN DevItems(sp.items, FALSE, <<>>) ELSE <<>>

-----------------------------------------------------------------------------
(* IP addresses, prefixes, AS numbers (manual: "Literals")                  *)
(*   [fam |-> "ip4", o |-> <<d1, d2, d3, d4>>]   each di decimal symbols    *)
(*   [fam |-> "ip6", pre, comp, post]   groups of 1..4 hex symbols; comp =  *)
(*                                      TRUE: "::" between pre and post     *)
(*   [fam |-> "pfx", ip |-> ip4/ip6 spelling, len |-> decimal symbols]      *)
(*   [fam |-> "asn", ds |-> decimal symbols]        text = "AS" ds          *)
OctetOk(d) == Len(d) \in 1..3 /\ AllIn(d, DecSyms) /\ (Len(d) > 1 => d[1] # "0")
Ip4WellFormed(sp) == Len(sp.o) = 4 /\ \A i \in 1..4 : OctetOk(sp.o[i])
Ip4Bytes(sp) == [i \in 1..4 |-> SmallVal(sp.o[i], 10, 0)]

GroupOk(g) == Len(g) \in 1..4 /\ AllIn(g, HexSyms)
Ip6WellFormed(sp) ==
  /\ \A i \in 1..Len(sp.pre) : GroupOk(sp.pre[i])
  /\ \A i \in 1..Len(sp.post) : GroupOk(sp.post[i])
  /\ IF sp.comp THEN Len(sp.pre) + Len(sp.post) <= 7 ELSE Len(sp.pre) = 8 /\ sp.post = <<>>
GroupBytes(g) == LET v == SmallVal(g, 16, 0) IN <<v \div 256, v % 256>>
RECURSIVE GroupsBytes(_)
GroupsBytes(gs) == IF gs = <<>> THEN <<>> ELSE GroupBytes(Head(gs)) \o GroupsBytes(Tail(gs))
Zeros(n) == [i \in 1..n |-> 0]
Ip6Bytes(sp) ==
  GroupsBytes(sp.pre) \o Zeros(2 * (8 - Len(sp.pre) - Len(sp.post))) \o GroupsBytes(sp.post)

DenoteIp(sp) ==
  IF sp.fam = "ip4"
  THEN IF ~Ip4WellFormed(sp) THEN NoClaim
       ELSE IF \E i \in 1..4 : SmallVal(sp.o[i], 10, 0) > 255 THEN Reject("octet-range")
       ELSE Val(Ip4Bytes(sp))
  ELSE IF ~Ip6WellFormed(sp) THEN NoClaim ELSE Val(Ip6Bytes(sp))

(* bit i (0 = most significant) of an octet sequence *)
BitAt(bytes, i) == (bytes[(i \div 8) + 1] \div (2 ^ (7 - (i % 8)))) % 2
HostBitsZero(bytes, len) == \A i \in len..(8 * Len(bytes) - 1) : BitAt(bytes, i) = 0

DenotePfx(sp) ==
  LET a == DenoteIp(sp.ip) IN
  IF a.cls # "val" \/ ~(Len(sp.len) \in 1..3) \/ ~AllIn(sp.len, DecSyms) THEN NoClaim
  ELSE LET n == SmallVal(sp.len, 10, 0) IN
       IF n > 8 * Len(a.v) THEN NoClaim                 \* longer than the address: manual silent
       ELSE IF ~HostBitsZero(a.v, n) THEN NoClaim       \* host bits set: manual silent
       ELSE Val([ip |-> a.v, len |-> n])

U32Max == MaxUnsigned("u32")
DenoteAsn(sp) ==
  IF Len(sp.ds) < 1 \/ ~AllIn(sp.ds, DecSyms) THEN NoClaim
  ELSE LET mag == BigOf(sp.ds, 10) IN IF BigLeq(mag, U32Max) THEN Val(mag) ELSE Reject("out-of-range")

-----------------------------------------------------------------------------
(* Identifiers (manual: "Identifiers"): character classes                   *)
(*   L ascii letter, D ascii digit, U underscore,                           *)
(*   S2 S3 S4  non-ASCII XID_Start character of UTF-8 width 2/3/4,          *)
(*   C2 C3 C4  XID_Continue but not XID_Start (marks, digits), width 2/3/4, *)
(*   N1 .. N4  neither (symbols), width 1..4                                *)
(*   [fam |-> "ident", cls |-> sequence of classes]                         *)
(*   [fam |-> "word", w |-> concrete ASCII word]  (keyword test)            *)
StartCls == {"L", "U", "S2", "S3", "S4"}
ContCls  == StartCls \cup {"D", "C2", "C3", "C4"}
OtherCls == {"N1", "N2", "N3", "N4"}
AllCls   == ContCls \cup OtherCls
ClsWidth(c) == CASE c \in {"L", "D", "U", "N1"} -> 1 [] c \in {"S2", "C2", "N2"} -> 2
                 [] c \in {"S3", "C3", "N3"} -> 3 [] c \in {"S4", "C4", "N4"} -> 4

IsIdentCls(cls) ==
  /\ Len(cls) >= 1 /\ cls[1] \in StartCls
  /\ \A i \in 2..Len(cls) : cls[i] \in ContCls

(* keywords of the language (src/parser/token.rs Keyword + boolean literals) *)
Keywords == {"accept", "const", "dep", "else", "enum", "filter", "filtermap", "for", "fn", "if",
             "import", "in", "let", "match", "pkg", "record", "reject", "return", "std", "super",
             "test", "while", "true", "false"}

DenoteIdent(sp) ==
  IF sp.fam = "ident" THEN (IF IsIdentCls(sp.cls) THEN Val("ident") ELSE Reject("not-identifier"))
  ELSE (IF sp.w \in Keywords THEN Reject("keyword") ELSE Val("ident"))

-----------------------------------------------------------------------------
(* Comments and shebang (manual: "Shebang", "Comments")                     *)
(*   [fam |-> "trivia", sheb |-> shebang form or "", gaps |-> sequence of   *)
(*    comment forms ("" = none), one per gap of the token sequence          *)
(*    fn f ( ) -> i32 { <val> }, val |-> decimal symbols]                   *)
(* Comments and a first line starting with #! are ignored: the program is   *)
(* the token sequence alone and f returns val.                              *)
ProgTokens(sp) == <<"fn", "f", "(", ")", "->", "i32", "{", sp.val, "}">>
ShebangForms == {"", "path", "args", "utf8", "space", "bare", "crlf"}
CommentForms == {"", "plain", "empty", "utf8", "quotes", "code", "slashes", "crlf"}
DenoteTrivia(sp) ==
  IF Len(sp.gaps) = 10 /\ sp.sheb \in ShebangForms /\ AllIn(sp.gaps, CommentForms)
     /\ AllIn(sp.val, DecSyms) /\ Len(sp.val) \in 1..3
  THEN Val(IntV(FALSE, BigOf(sp.val, 10))) ELSE NoClaim

-----------------------------------------------------------------------------
(* Programs with trivia (manual: "Shebang", "Comments")                     *)
(*   [fam |-> "prog", ps |-> sequence of pieces]     text = the texts of    *)
(*   the pieces one after the other, NOTHING is added at the end (so the    *)
(*   input ends with a line end only if the last piece is one)              *)
(*   piece [k |-> "t", t]        a token: fn i32 ( ) -> { } or a name f g h *)
(*         [k |-> "d", ds]       a number (decimal symbols)                 *)
(*         [k |-> "ws", w]       white space: sp tab nl crlf                *)
(*         [k |-> "com", body]   `//` followed by a text without line end   *)
(*         [k |-> "sheb", body]  `#!` followed by a text without line end   *)
(* "Comments start with // and continue until the end of the line.  They    *)
(* can be inserted anywhere in the script and are ignored": after a com     *)
(* piece everything up to the next line end - or up to the end of the input *)
(* when there is none - is comment, in particular token pieces (commented-  *)
(* out code) and further com / sheb pieces.  "The first line is allowed to  *)
(* be a shebang; if it starts with #! then it will be ignored": the same    *)
(* for a sheb piece that is the very first piece.  What is left is the      *)
(* program: here a sequence of items `fn NAME ( ) -> i32 { NUMBER }`; it    *)
(* denotes, for every name of ProbeNames, the number its function returns   *)
(* or "no such function".  Commented-out items define nothing.              *)
ProbeNames == <<"f", "g", "h">>
NameToks   == {"f", "g", "h"}
WordToks   == {"fn", "i32"} \cup NameToks
PunctToks  == {"(", ")", "->", "{", "}"}
WsForms    == {"sp", "tab", "nl", "crlf"}
LineEnds   == {"nl", "crlf"}
(* opaque comment / shebang texts (python knows the characters; none contains a line end) *)
(*   item_g = ` fn g() -> i32 { 2 }`  item_f = ` fn f() -> i32 { 9 }`  (text that would be a valid item) *)
ComBodies  == {"empty", "plain", "utf8", "quotes", "code", "slashes", "item_g", "item_f", "shebang"}
ShebBodies == {"path", "args", "utf8", "space", "bare", "item_g"}

Tk(t)   == [k |-> "t", t |-> t]
Dg(ds)  == [k |-> "d", ds |-> ds]
Ws(w)   == [k |-> "ws", w |-> w]
Com(b)  == [k |-> "com", body |-> b]
Sheb(b) == [k |-> "sheb", body |-> b]

PieceOk(p) ==
  CASE p.k = "t"    -> p.t \in WordToks \cup PunctToks
    [] p.k = "d"    -> Len(p.ds) \in 1..3 /\ AllIn(p.ds, DecSyms)
    [] p.k = "ws"   -> p.w \in WsForms
    [] p.k = "com"  -> p.body \in ComBodies
    [] p.k = "sheb" -> p.body \in ShebBodies
    [] OTHER -> FALSE

IsLineEnd(p) == p.k = "ws" /\ p.w \in LineEnds
IsT(p, t)    == p.k = "t" /\ p.t = t
IsWord(p)    == p.k = "d" \/ (p.k = "t" /\ p.t \in WordToks)

(* the one state machine: md[i] = [m |-> mode in which piece i is read,     *)
(* n |-> mode after it], modes "code" | "com" | "sheb"                      *)
RECURSIVE ModesOf(_, _, _)
ModesOf(ps, i, m) ==
  IF i > Len(ps) THEN <<>>
  ELSE LET p == ps[i]
           nx == IF m # "code" THEN (IF IsLineEnd(p) THEN "code" ELSE m)
                 ELSE IF p.k = "com" THEN "com"
                 ELSE IF p.k = "sheb" /\ i = 1 THEN "sheb"
                 ELSE "code"
       IN <<[m |-> m, n |-> nx]>> \o ModesOf(ps, i + 1, nx)

(* the pieces that are not ignored: read in code mode and not opening a     *)
(* comment, or the line end that closes a comment                           *)
CodeOf(ps) ==
  LET md == ModesOf(ps, 1, "code")
      tagged == [i \in 1..Len(ps) |-> [p |-> ps[i], keep |-> md[i].n = "code"]]
      kept == SelectSeq(tagged, LAMBDA x : x.keep)
  IN [i \in 1..Len(kept) |-> kept[i].p]

Glued(code) == \E i \in 1..(Len(code) - 1) : IsWord(code[i]) /\ IsWord(code[i + 1])   \* `fnf`, `7i32`: other tokens
ProgToksOf(code) == SelectSeq(code, LAMBDA p : p.k # "ws")
ItemAt(toks, j) == SubSeq(toks, 9 * j - 8, 9 * j)
IsItem(g) ==
  /\ IsT(g[1], "fn") /\ g[2].k = "t" /\ g[2].t \in NameToks /\ IsT(g[3], "(") /\ IsT(g[4], ")")
  /\ IsT(g[5], "->") /\ IsT(g[6], "i32") /\ IsT(g[7], "{") /\ g[8].k = "d" /\ IsT(g[9], "}")

Defined(mag) == [def |-> TRUE, neg |-> FALSE, mag |-> mag]
Undefined    == [def |-> FALSE, neg |-> FALSE, mag |-> <<>>]

ProgShapeOk(sp) == \A i \in 1..Len(sp.ps) : PieceOk(sp.ps[i])
DenoteProg(sp) ==
  IF ~ProgShapeOk(sp) THEN NoClaim
  ELSE LET code == CodeOf(sp.ps)
           toks == ProgToksOf(code)
           n    == Len(toks) \div 9
       IN IF \E i \in 1..Len(code) : code[i].k = "sheb" THEN NoClaim         \* `#!` elsewhere than at the very start: manual silent
          ELSE IF Glued(code) THEN NoClaim
          ELSE IF Len(toks) % 9 # 0 \/ (\E j \in 1..n : ~IsItem(ItemAt(toks, j))) THEN NoClaim   \* not a sequence of whole items
          ELSE IF \E a, b \in 1..n : a # b /\ ItemAt(toks, a)[2].t = ItemAt(toks, b)[2].t THEN NoClaim   \* defined twice
          ELSE Val([q \in 1..Len(ProbeNames) |->
                      IF \E j \in 1..n : ItemAt(toks, j)[2].t = ProbeNames[q]
                      THEN LET j == CHOOSE j \in 1..n : ItemAt(toks, j)[2].t = ProbeNames[q]
                           IN Defined(BigOf(ItemAt(toks, j)[8].ds, 10))
                      ELSE Undefined])

(* What a program spelling exercises (computed here, from the same state    *)
(* machine, so that the check can require every class to occur):            *)
(*   eof:*            how the input ends: empty | in-comment | in-shebang | *)
(*                    line-end | blank (other white space) | token          *)
(*   eof-comment:B    the comment the input ends in was opened by body B    *)
(*   eof-comment:item-tokens   ... and contains a commented-out `fn` token  *)
(*   com:B sheb:B ws:W     forms used (comments opened in code mode)        *)
(*   comment-after:T  a comment opens behind token T (start = no token yet) *)
(*   commented:item-tokens / commented:defined-name / commented:undefined-name *)
(*   items:N          number of live items                                  *)
TokName(p) == IF p.k = "d" THEN "number" ELSE IF p.t \in NameToks THEN "name" ELSE p.t
ProgFeatures(sp) ==
  LET ps == sp.ps
      L  == Len(ps)
      md == ModesOf(ps, 1, "code")
      endm == IF L = 0 THEN "code" ELSE md[L].n
      Opens(i) == md[i].m = "code" /\ md[i].n = "com"
      InCom(i) == md[i].m = "com" /\ md[i].n = "com"
      LastOpen == IF endm = "com" THEN CHOOSE i \in 1..L : Opens(i) /\ \A j \in (i + 1)..L : ~Opens(j) ELSE 0
      LiveBefore(i) == {j \in 1..(i - 1) : md[j].m = "code" /\ md[j].n = "code" /\ ps[j].k \in {"t", "d"}}
      PrevTok(i) == IF LiveBefore(i) = {} THEN "start"
                    ELSE TokName(ps[CHOOSE j \in LiveBefore(i) : \A j2 \in LiveBefore(i) : j2 <= j])
      code == CodeOf(ps)
      toks == ProgToksOf(code)
      LiveNames == {toks[j].t : j \in {x \in 1..Len(toks) : toks[x].k = "t" /\ toks[x].t \in NameToks}}
      ComNames == {ps[i].t : i \in {x \in 1..L : InCom(x) /\ ps[x].k = "t" /\ ps[x].t \in NameToks}}
  IN {"eof:" \o (IF L = 0 THEN "empty" ELSE IF endm = "com" THEN "in-comment" ELSE IF endm = "sheb" THEN "in-shebang"
                 ELSE IF IsLineEnd(ps[L]) THEN "line-end" ELSE IF ps[L].k = "ws" THEN "blank" ELSE "token")}
     \cup (IF endm = "com" THEN {"eof-comment:" \o ps[LastOpen].body} ELSE {})
     \cup (IF endm = "com" /\ \E i \in (LastOpen + 1)..L : IsT(ps[i], "fn") THEN {"eof-comment:item-tokens"} ELSE {})
     \cup {"com:" \o ps[i].body : i \in {x \in 1..L : Opens(x)}}
     \cup (IF L >= 1 /\ ps[1].k = "sheb" THEN {"sheb:" \o ps[1].body} ELSE {})
     \cup {"ws:" \o ps[i].w : i \in {x \in 1..L : ps[x].k = "ws"}}
     \cup {"comment-after:" \o PrevTok(i) : i \in {x \in 1..L : Opens(x)}}
     \cup (IF \E i \in 1..L : InCom(i) /\ IsT(ps[i], "fn") THEN {"commented:item-tokens"} ELSE {})
     \cup (IF ComNames \cap LiveNames # {} THEN {"commented:defined-name"} ELSE {})
     \cup (IF ComNames \ LiveNames # {} THEN {"commented:undefined-name"} ELSE {})
     \cup (IF Len(toks) % 9 = 0 THEN {"items:" \o ToString(Len(toks) \div 9)} ELSE {})
Features(sp) == IF sp.fam = "prog" /\ ProgShapeOk(sp) THEN ProgFeatures(sp) ELSE {}

-----------------------------------------------------------------------------
Denote(sp) ==
  CASE sp.fam = "int"   -> DenoteInt(sp)
    [] sp.fam = "float" -> DenoteFloat(sp)
    [] sp.fam \in {"str", "fstr", "char"} -> DenoteText(sp)
    [] sp.fam \in {"ip4", "ip6"} -> DenoteIp(sp)
    [] sp.fam = "pfx"   -> DenotePfx(sp)
    [] sp.fam = "asn"   -> DenoteAsn(sp)
    [] sp.fam \in {"ident", "word"} -> DenoteIdent(sp)
    [] sp.fam = "trivia" -> DenoteTrivia(sp)
    [] sp.fam = "prog"   -> DenoteProg(sp)

-----------------------------------------------------------------------------
(* Token shape: the sequence of [kind, bytes] the lexer must produce for    *)
(* the text of an accepted spelling (python checks it against              *)
(* roto::verif::lex).  <<>> = not claimed.                                  *)
Tok(k, n) == [kind |-> k, bytes |-> n]
RECURSIVE SumSeq(_)
SumSeq(s) == IF s = <<>> THEN 0 ELSE Head(s) + SumSeq(Tail(s))
ItemBytes(it) ==
  CASE it.k = "c" -> it.w [] it.k = "e" -> 2 [] it.k = "x" -> 4 [] it.k = "u" -> 4 + Len(it.ds)
    [] it.k = "cont" -> 2 + Len(it.ws) [] it.k \in {"lb", "rb"} -> 2 [] it.k = "i" -> 0
Ip6Len(sp) ==
  LET gl(gs) == SumSeq([i \in 1..Len(gs) |-> Len(gs[i])]) + (IF Len(gs) > 0 THEN Len(gs) - 1 ELSE 0)
  IN gl(sp.pre) + gl(sp.post) + (IF sp.comp THEN 2 ELSE 0)
IpTok(sp) ==
  IF sp.fam = "ip4" THEN Tok("IpV4", SumSeq([i \in 1..4 |-> Len(sp.o[i])]) + 3)
  ELSE Tok("IpV6", Ip6Len(sp))
Sign(sp) == IF sp.neg THEN <<Tok("Hyphen", 1)>> ELSE <<>>
SufLen(s) == IF s = "" THEN 0 ELSE IF s \in {"u8", "i8"} THEN 2 ELSE 3

TokenShape(sp) ==
  CASE sp.fam = "int" ->
         Sign(sp) \o <<IF sp.radix = "hex" THEN Tok("Hex", 2 + Len(sp.ds))
                        ELSE Tok("Integer", Len(sp.ds) + SufLen(sp.suf))>>
    [] sp.fam = "float" ->
         Sign(sp) \o <<Tok(IF sp.dot \/ sp.ex # "" THEN "Float" ELSE "Integer", Len(sp.ip) + (IF sp.dot THEN 1 + Len(sp.fp) ELSE 0)
                         + (IF sp.ex # "" THEN 1 + Len(sp.es) + Len(sp.ed) ELSE 0) + SufLen(sp.suf))>>
    [] sp.fam = "str" -> <<Tok("String", 2 + SumSeq([i \in 1..Len(sp.items) |-> ItemBytes(sp.items[i])]))>>
    [] sp.fam = "char" -> <<Tok("Char", 2 + SumSeq([i \in 1..Len(sp.items) |-> ItemBytes(sp.items[i])]))>>
    [] sp.fam = "fstr" -> <<Tok("FStringStart", 2)>>
    [] sp.fam \in {"ip4", "ip6"} -> <<IpTok(sp)>>
    [] sp.fam = "pfx" -> <<IpTok(sp.ip), Tok("Slash", 1), Tok("Integer", Len(sp.len))>>
    [] sp.fam = "asn" -> <<Tok("Asn", 2 + Len(sp.ds))>>
    [] sp.fam = "ident" -> <<Tok("Ident", SumSeq([i \in 1..Len(sp.cls) |-> ClsWidth(sp.cls[i])]))>>
    [] OTHER -> <<>>
=============================================================================
