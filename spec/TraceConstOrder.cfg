SPECIFICATION TraceSpec
CONSTANTS
  Fuel = 3
  Modulus = 1009
  CtxVal = 7
INVARIANT TraceInv
POSTCONDITION TraceAccepted
CHECK_DEADLOCK FALSE
