\* Representative configuration (the line-indexed view); lib/checks/c17.py generates one
\* configuration per family and tier into work/C17/cfg/.
SPECIFICATION MCSpec
CONSTANTS
  Family = "lines"
  Sigma = {97, 233, 10, 13}
  MaxLen = 4
  NSigma = {97}
  MaxNeedle = 1
  Nums = {0}
  Exps = {0}
INVARIANTS DocOK Emit
CHECK_DEADLOCK FALSE
