SPECIFICATION MCSpec
CONSTANTS
  BuiltinRoot = {"bool", "u8", "u16", "u32", "u64", "i8", "i16", "i32", "i64", "f32", "f64", "char", "Asn", "IpAddr", "Prefix", "String", "StringBytes", "StringChars", "StringLines", "StringBuf", "List", "Option", "Verdict", "Result"}
  BuiltinAlias = {"Some", "None", "Ok", "Err"}
  ValidCls = {"ascii", "nonascii"}
  UB = 2
  N = 3
  ND = 3
  Mode = "single"
  Light = TRUE
INVARIANTS Inv NoPanic Emit
CHECK_DEADLOCK FALSE
