---------------------------- MODULE TraceEvalMem ----------------------------
(* I->S binding of EvalMem (C20, evaluator memory): histories recorded from  *)
(* the real roto::lir::Memory through the hook roto::verif::EvalMem (one     *)
(* ndjson event per operation, logged after the call returned, with its      *)
(* arguments and its outcome) must be behaviours of EvalMem.  Every event is *)
(* bound to the EvalMem action of the same name, taken with the logged       *)
(* arguments; the logged outcome must equal the action's `out'` (kind, and   *)
(* the index / the bytes; the panic message is not part of the outcome).     *)
(* "reset" starts a new run (a fresh memory) in the same file.               *)
(*                                                                           *)
(* An event whose operation or arguments cannot be bound at all stops the    *)
(* validation (POSTCONDITION, <<"UNMATCHED", ..>>).  An event whose outcome  *)
(* differs from the specified one is reported as <<"MISMATCH", ..>> together *)
(* with the specified outcome (so the driver can name the failure exactly);  *)
(* validation then continues from the SPECIFIED state, so that one deviation *)
(* does not hide the rest of the file.  The driver treats every MISMATCH as  *)
(* a rejected trace.  `tally` counts the specified outcome classes of the    *)
(* validated events (printed with the number of mismatches at the end).      *)
EXTENDS EvalMem, Json, IOUtils, TLCExt

Rec == ndJsonDeserialize(IOEnv.TRACE)

VARIABLES l, nbad, tally
tvars == <<stack, idc, ptrs, out, last, shadow, popped, l, nbad, tally>>

Ev == Rec[l]
IsEv(name) == l <= Len(Rec) /\ Ev.op = name /\ l' = l + 1

Classes == {"done", "index", "bytes", "unknown-pointer", "dangling-beyond-stack",
            "dangling-frame-reused", "oob", "unaligned"}
ClassOf(o) == IF o.k = "panic" THEN o.why ELSE o.k

(* the logged outcome equals the specified one *)
Same == /\ "k" \in DOMAIN Ev.out
        /\ out'.k = Ev.out.k
        /\ out'.k \in {"index", "bytes"} => ("v" \in DOMAIN Ev.out /\ out'.v = Ev.out.v)

Judge == /\ tally' = [tally EXCEPT ![ClassOf(out')] = @ + 1]
         /\ IF Same THEN nbad' = nbad
            ELSE /\ nbad' = nbad + 1
                 /\ PrintT(<<"MISMATCH", ToJson([line |-> l, ev |-> Ev, expected |-> out'])>>)

TraceInit == Init /\ l = 1 /\ nbad = 0 /\ tally = [c \in Classes |-> 0]

TraceNext ==
    \/ /\ IsEv("reset")
       /\ stack' = << [id |-> 0, allocs |-> <<>>] >> /\ idc' = 1 /\ ptrs' = <<>>
       /\ shadow' = [x \in {} |-> <<>>] /\ popped' = {}
       /\ out' = [k |-> "init"] /\ last' = [op |-> "new"]
       /\ UNCHANGED <<nbad, tally>>
    \/ IsEv("allocate")   /\ Allocate(Ev.n)             /\ Judge
    \/ IsEv("push_frame") /\ PushFrame                  /\ Judge
    \/ IsEv("pop_frame")  /\ PopFrame                   /\ Judge
    \/ IsEv("offset_by")  /\ OffsetBy(Ev.p, Ev.k)       /\ Judge
    \/ IsEv("write")      /\ Write(Ev.p, Ev.bytes)      /\ Judge
    \/ IsEv("read")       /\ Read(Ev.p, Ev.n)           /\ Judge
    \/ IsEv("copy")       /\ Copy(Ev.to, Ev.from, Ev.n) /\ Judge
    \/ IsEv("get_byte")   /\ Get(Ev.p)                  /\ Judge

TraceSpec == TraceInit /\ [][TraceNext]_tvars

(* printed once, in the state after the last event *)
Summary == (l = Len(Rec) + 1) =>
              PrintT(<<"SUMMARY", ToJson([events |-> Len(Rec), mismatches |-> nbad, tally |-> tally])>>)

(* accepted iff every recorded event was bound to an EvalMem step *)
TraceAccepted ==
  LET d == TLCGet("stats").diameter IN
  IF d - 1 = Len(Rec) THEN TRUE
  ELSE /\ PrintT(<<"UNMATCHED", ToJson([line |-> d, ev |-> Rec[d]])>>)
       /\ FALSE
=============================================================================
