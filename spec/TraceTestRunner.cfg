SPECIFICATION TraceSpec
INVARIANT Inv
POSTCONDITION TraceAccepted
CHECK_DEADLOCK FALSE
