SPECIFICATION OwnSpec
CONSTANT Ids = {1, 2, 3}
INVARIANT Disjoint
PROPERTY NeverResurrected
CHECK_DEADLOCK FALSE
