-------------------------------- MODULE Ieee --------------------------------
(***************************************************************************)
(* IEEE-754 binary floating point arithmetic, round-to-nearest-even, for   *)
(* ARBITRARY operand bit patterns (the inexact, subnormal, overflowing and *)
(* special cases that Dyadic.tla leaves out).  Parametric in the format    *)
(*                                                                         *)
(*      fm = [e |-> exponent bits, f |-> fraction bits]                     *)
(*      Binary32 = [e |-> 8, f |-> 23]     Binary64 = [e |-> 11, f |-> 52]  *)
(*                                                                         *)
(* A value is its bit pattern: a little-endian byte vector (the BitVec     *)
(* representation) of NBytes(fm) bytes, sign at bit e+f, exponent field at *)
(* bits f..f+e-1, fraction at bits 0..f-1.                                 *)
(*                                                                         *)
(* The definitions are the standard's, not an implementation's tricks:     *)
(*  1. decode a finite operand to (sign, exponent, significand):           *)
(*        value = (-1)^s * Sig * 2^(Exp - f)                                *)
(*     with Sig = fraction (+ 2^f unless the exponent field is 0) and      *)
(*     Exp = max(field, 1) - bias  (so subnormals need no special case);   *)
(*  2. compute the EXACT result as  sig * 2^ex  with sig a wide integer    *)
(*     (byte vector of WBytes(fm) bytes) plus, where the exact result is   *)
(*     not a dyadic number or too long, a `sticky` flag meaning "the true  *)
(*     value lies strictly between sig and sig+1 units":                   *)
(*        Mul   exact product of the significands;                          *)
(*        Add   exact aligned sum when the exponents differ by <= f+4,      *)
(*              otherwise the larger operand with three guard bits and the *)
(*              sticky flag (the smaller one is below a guard unit);       *)
(*        Div   long division giving f+4 quotient bits and the remainder;  *)
(*        Sqrt  integer square root (two radicand bits per step) giving    *)
(*              f+3 root bits and the remainder;                           *)
(*  3. ONE rounding function RoundPack(s, ex, sig, sticky): round to       *)
(*     nearest, ties to the even significand, overflow to infinity,        *)
(*     gradual underflow to subnormals and zero.                           *)
(*                                                                         *)
(* NaN: any operation with a NaN operand, and every invalid operation      *)
(* (inf - inf, 0 * inf, 0/0, inf/inf, sqrt of a negative number), gives a  *)
(* NaN.  Which NaN (sign, payload) is NOT specified: users must compare    *)
(* NaN results with IsNaN, never by bits.                                  *)
(*                                                                         *)
(* Trust: MCIeee.tla checks every operator of this module exhaustively on  *)
(* tiny formats against an independent definition over plain integers      *)
(* ("the representable value nearest to the exact rational result");       *)
(* lib/checks/c01ieee.py calibrates Binary32/Binary64 against the hardware.*)
(***************************************************************************)
EXTENDS Naturals, Integers, Sequences, TLC

BV == INSTANCE BitVec

Fmt(e, f) == [e |-> e, f |-> f]
Binary32 == Fmt(8, 23)
Binary64 == Fmt(11, 52)

Pow2(k) == 2 ^ k
NBytes(fm) == (fm.e + fm.f + 8) \div 8           \* bytes of a bit pattern
WBytes(fm) == (2 * fm.f + 13) \div 8             \* bytes of a wide significand: at least 2f+6 bits
DBytes(fm) == (fm.f + 11) \div 8                 \* long division works on f+4 bits
SBytes(fm) == (fm.f + 14) \div 8                 \* square root works on f+7 bits
Bias(fm)   == Pow2(fm.e - 1) - 1
EMin(fm)   == 1 - Bias(fm)                       \* exponent of the smallest normal number
ExpMax(fm) == Pow2(fm.e) - 1                     \* exponent field of infinities and NaNs

(* ------------------------------------------------------------------------ *)
(* byte-vector helpers that BitVec does not have                            *)
(* ------------------------------------------------------------------------ *)
ZeroV(w) == [i \in 1..w |-> 0]
OneV(w)  == [i \in 1..w |-> IF i = 1 THEN 1 ELSE 0]
IsZeroV(a) == \A i \in 1..Len(a) : a[i] = 0
GetB(a, j) == IF j >= 1 /\ j <= Len(a) THEN a[j] ELSE 0
Resize(a, w) == [i \in 1..w |-> GetB(a, i)]      \* zero-extend or truncate to w bytes

(* a * 2^k modulo 2^(8 Len(a)), k >= 0 *)
Shl(a, k) ==
    LET by == k \div 8  bi == k % 8 IN
    [i \in 1..Len(a) |-> ((GetB(a, i - by) * Pow2(bi)) % 256) + (GetB(a, i - by - 1) \div Pow2(8 - bi))]
(* floor(a / 2^k), k >= 0 *)
Shr(a, k) ==
    LET by == k \div 8  bi == k % 8 IN
    [i \in 1..Len(a) |-> (GetB(a, i + by) \div Pow2(bi)) + ((GetB(a, i + by + 1) * Pow2(8 - bi)) % 256)]
(* a mod 2^k # 0: one of the bits 0..k-1 is set (the "sticky" of a right shift by k) *)
LowNonZero(a, k) ==
    LET by == k \div 8  bi == k % 8 IN
    \/ \E i \in 1..Len(a) : i <= by /\ a[i] # 0
    \/ GetB(a, by + 1) % Pow2(bi) # 0
BitOf(a, k) == IF k < 0 \/ k >= 8 * Len(a) THEN 0 ELSE (a[(k \div 8) + 1] \div Pow2(k % 8)) % 2
RECURSIVE Len8(_)
Len8(x) == IF x = 0 THEN 0 ELSE 1 + Len8(x \div 2)
(* number of significant bits: 0 for zero, else 1 + index of the leading one *)
BitLen(a) == LET RECURSIVE R(_)
                 R(i) == IF i = 0 THEN 0 ELSE IF a[i] # 0 THEN 8 * (i - 1) + Len8(a[i]) ELSE R(i - 1)
             IN R(Len(a))
Xor(p, q) == IF p = q THEN 0 ELSE 1

(* ------------------------------------------------------------------------ *)
(* decoding                                                                  *)
(* ------------------------------------------------------------------------ *)
SignOf(fm, a) == BitOf(a, fm.e + fm.f)
ExpField(fm, a) == LET t == Shr(a, fm.f) IN (GetB(t, 1) + 256 * GetB(t, 2)) % Pow2(fm.e)
(* the fraction field as a wide integer *)
FracOf(fm, a) ==
    LET by == fm.f \div 8  bi == fm.f % 8 IN
    [i \in 1..WBytes(fm) |-> IF i <= by THEN a[i] ELSE IF i = by + 1 THEN GetB(a, i) % Pow2(bi) ELSE 0]

IsNaN(fm, a)  == ExpField(fm, a) = ExpMax(fm) /\ ~IsZeroV(FracOf(fm, a))
IsInf(fm, a)  == ExpField(fm, a) = ExpMax(fm) /\ IsZeroV(FracOf(fm, a))
IsFin(fm, a)  == ExpField(fm, a) # ExpMax(fm)
IsZeroF(fm, a) == ExpField(fm, a) = 0 /\ IsZeroV(FracOf(fm, a))
IsSubnormal(fm, a) == ExpField(fm, a) = 0 /\ ~IsZeroV(FracOf(fm, a))

(* finite a:  value = (-1)^SignOf * SigOf * 2^(ExpOf - f) *)
ExpOf(fm, a) == (IF ExpField(fm, a) = 0 THEN 1 ELSE ExpField(fm, a)) - Bias(fm)
SigOf(fm, a) == IF ExpField(fm, a) = 0 THEN FracOf(fm, a)
                ELSE BV!Add(FracOf(fm, a), Shl(OneV(WBytes(fm)), fm.f))

(* ------------------------------------------------------------------------ *)
(* encoding                                                                  *)
(* ------------------------------------------------------------------------ *)
(* sign s, exponent field ef, fraction = the low f bits of the wide integer fr *)
Pack(fm, s, ef, fr) ==
    LET w == WBytes(fm)
        lowf == BV!Sub(fr, Shl(Shr(fr, fm.f), fm.f))          \* fr mod 2^f
    IN Resize(BV!Add(lowf, Shl(BV!FromNat(s * Pow2(fm.e) + ef, w), fm.f)), NBytes(fm))
ZeroF(fm, s) == Pack(fm, s, 0, ZeroV(WBytes(fm)))
InfF(fm, s)  == Pack(fm, s, ExpMax(fm), ZeroV(WBytes(fm)))
QNaN(fm)     == Pack(fm, 0, ExpMax(fm), Shl(OneV(WBytes(fm)), fm.f - 1))   \* a representative; see header

(* Result records: v = bit pattern; the other fields describe how the result came about  *)
(* (they are used for the evidence and the failure signature only):                      *)
(*   inexact: the exact result is not representable;  tie: it lay exactly half-way;      *)
(*   ovf: rounded to infinity from finite operands;   sub: the result is subnormal or    *)
(*   underflowed to zero;  nan: the result is a NaN                                      *)
(*   bool: v is a boolean (comparisons, predicates), not a bit pattern                   *)
Mk(v, inexact, tie, ovf, sub, nan) ==
    [v |-> v, inexact |-> inexact, tie |-> tie, ovf |-> ovf, sub |-> sub, nan |-> nan, bool |-> FALSE]
Res(v) == Mk(v, FALSE, FALSE, FALSE, FALSE, FALSE)
NaNRes(fm) == Mk(QNaN(fm), FALSE, FALSE, FALSE, FALSE, TRUE)

(* ------------------------------------------------------------------------ *)
(* THE rounding function.                                                    *)
(* The exact result is (-1)^s * x with  x = sig * 2^ex  if ~sticky, and      *)
(* sig * 2^ex < x < (sig + 1) * 2^ex  if sticky.  sig # 0.  Callers pass     *)
(* sticky only with BitLen(sig) >= f+3, so that the unknown part lies below  *)
(* the rounding bit.                                                         *)
(* ------------------------------------------------------------------------ *)
RoundPack(fm, s, ex, sig, sticky) ==
    LET w   == Len(sig)
        n   == BitLen(sig)
        e0  == ex + n - 1                                   \* exponent of the leading bit
        q   == IF e0 > EMin(fm) THEN e0 - fm.f ELSE EMin(fm) - fm.f   \* exponent of the result's last place
        sh  == q - ex                                       \* bits to drop (negative: exact left shift)
        kept == IF sh <= 0 THEN Shl(sig, 0 - sh) ELSE IF sh > n THEN ZeroV(w) ELSE Shr(sig, sh)
        rnd == IF sh <= 0 \/ sh > n THEN 0 ELSE BitOf(sig, sh - 1)       \* the first dropped bit
        stk == IF sh <= 0 THEN sticky ELSE IF sh > n THEN TRUE ELSE sticky \/ LowNonZero(sig, sh - 1)
        up  == rnd = 1 /\ (stk \/ BitOf(kept, 0) = 1)       \* nearest; on a tie the even one
        r   == IF up THEN BV!Add(kept, OneV(w)) ELSE kept
        \* bit pattern = (t * 2^f + r): r < 2^f is subnormal (t = 0); the hidden bit of r adds one to the
        \* exponent field, a carry out of the significand (r = 2^(f+1)) adds two
        t   == q + fm.f - EMin(fm)
        fe  == t + BitOf(r, fm.f) + 2 * BitOf(r, fm.f + 1)
        inx == rnd = 1 \/ stk
    IN  IF sticky /\ n < fm.f + 3 THEN Assert(FALSE, <<"RoundPack: sticky with too few bits", n>>)
        ELSE IF fe >= ExpMax(fm)
        THEN Mk(InfF(fm, s), TRUE, FALSE, TRUE, FALSE, FALSE)
        ELSE Mk(Pack(fm, s, fe, r), inx, rnd = 1 /\ ~stk, FALSE, fe = 0, FALSE)

(* ------------------------------------------------------------------------ *)
(* sign operations (defined on the bit pattern, for every operand)           *)
(* ------------------------------------------------------------------------ *)
FlipSign(fm, a) == LET k == fm.e + fm.f  i == (k \div 8) + 1  m == Pow2(k % 8) IN
                   [a EXCEPT ![i] = IF (a[i] \div m) % 2 = 1 THEN a[i] - m ELSE a[i] + m]
ClearSign(fm, a) == IF SignOf(fm, a) = 1 THEN FlipSign(fm, a) ELSE a

NegR(fm, a) == IF IsNaN(fm, a) THEN NaNRes(fm) ELSE Res(FlipSign(fm, a))
AbsR(fm, a) == IF IsNaN(fm, a) THEN NaNRes(fm) ELSE Res(ClearSign(fm, a))

(* ------------------------------------------------------------------------ *)
(* addition                                                                  *)
(* ------------------------------------------------------------------------ *)
AddFinite(fm, a, b) ==
    LET sa == SignOf(fm, a)  sb == SignOf(fm, b)
        ma == SigOf(fm, a)   mb == SigOf(fm, b)
        ea == ExpOf(fm, a)   eb == ExpOf(fm, b)
    IN
    IF IsZeroV(ma) /\ IsZeroV(mb) THEN Res(ZeroF(fm, IF sa = 1 /\ sb = 1 THEN 1 ELSE 0))
    ELSE IF IsZeroV(ma) THEN Res(b)
    ELSE IF IsZeroV(mb) THEN Res(a)
    ELSE
    LET aHi == ea >= eb
        sh == IF aHi THEN sa ELSE sb    mh == IF aHi THEN ma ELSE mb    eh == IF aHi THEN ea ELSE eb
        sl == IF aHi THEN sb ELSE sa    ml == IF aHi THEN mb ELSE ma    el == IF aHi THEN eb ELSE ea
        d  == eh - el
    IN
    IF d <= fm.f + 4
    THEN \* exact: both significands at the exponent of the lower operand
         LET H == Shl(mh, d) IN
         IF sh = sl THEN RoundPack(fm, sh, el - fm.f, BV!Add(H, ml), FALSE)
         ELSE IF H = ml THEN Res(ZeroF(fm, 0))                          \* x + (-x) = +0
         ELSE IF BV!ULt(H, ml) THEN RoundPack(fm, sl, el - fm.f, BV!Sub(ml, H), FALSE)
         ELSE RoundPack(fm, sh, el - fm.f, BV!Sub(H, ml), FALSE)
    ELSE \* the lower operand is smaller than one unit of the third guard bit of the higher one
         LET H == Shl(mh, 3) IN
         IF sh = sl THEN RoundPack(fm, sh, eh - fm.f - 3, H, TRUE)
         ELSE RoundPack(fm, sh, eh - fm.f - 3, BV!Sub(H, OneV(Len(H))), TRUE)

AddR(fm, a, b) ==
    IF IsNaN(fm, a) \/ IsNaN(fm, b) THEN NaNRes(fm)
    ELSE IF IsInf(fm, a) /\ IsInf(fm, b) THEN (IF SignOf(fm, a) = SignOf(fm, b) THEN Res(a) ELSE NaNRes(fm))
    ELSE IF IsInf(fm, a) THEN Res(a)
    ELSE IF IsInf(fm, b) THEN Res(b)
    ELSE AddFinite(fm, a, b)
SubR(fm, a, b) == IF IsNaN(fm, b) THEN NaNRes(fm) ELSE AddR(fm, a, FlipSign(fm, b))

(* ------------------------------------------------------------------------ *)
(* multiplication                                                            *)
(* ------------------------------------------------------------------------ *)
MulR(fm, a, b) ==
    LET s == Xor(SignOf(fm, a), SignOf(fm, b)) IN
    IF IsNaN(fm, a) \/ IsNaN(fm, b) THEN NaNRes(fm)
    ELSE IF IsInf(fm, a) \/ IsInf(fm, b)
         THEN (IF IsZeroF(fm, a) \/ IsZeroF(fm, b) THEN NaNRes(fm) ELSE Res(InfF(fm, s)))
    ELSE IF IsZeroF(fm, a) \/ IsZeroF(fm, b) THEN Res(ZeroF(fm, s))
    ELSE RoundPack(fm, s, (ExpOf(fm, a) - fm.f) + (ExpOf(fm, b) - fm.f),
                   BV!Mul(SigOf(fm, a), SigOf(fm, b)), FALSE)

(* ------------------------------------------------------------------------ *)
(* division                                                                  *)
(* ------------------------------------------------------------------------ *)
(* k further quotient bits of r / d, given r < d:  <<floor(r 2^k / d) + q 2^k, remainder>> *)
RECURSIVE DivBits(_, _, _, _)
DivBits(r, d, k, q) ==
    IF k = 0 THEN <<q, r>>
    ELSE LET r2 == BV!Shl1(r, 0)
             ge == BV!ULe(d, r2) IN
         DivBits(IF ge THEN BV!Sub(r2, d) ELSE r2, d, k - 1, BV!Shl1(q, IF ge THEN 1 ELSE 0))

DivFinite(fm, a, b) ==        \* a, b finite and non-zero
    LET w  == DBytes(fm)
        ma == SigOf(fm, a)    mb == SigOf(fm, b)
        la == fm.f + 1 - BitLen(ma)   lb == fm.f + 1 - BitLen(mb)      \* normalise: leading bit at position f
        na == Resize(Shl(ma, la), w)  nb == Resize(Shl(mb, lb), w)     \* 2^f <= na, nb < 2^(f+1)
        ge == BV!ULe(nb, na)                                           \* the quotient bit of weight 2^(f+3)
        qr == DivBits(IF ge THEN BV!Sub(na, nb) ELSE na, nb, fm.f + 3, IF ge THEN OneV(w) ELSE ZeroV(w))
        \* qr[1] = floor(na * 2^(f+3) / nb) has f+3 or f+4 bits, qr[2] = the remainder
    IN RoundPack(fm, Xor(SignOf(fm, a), SignOf(fm, b)),
                 (ExpOf(fm, a) - la) - (ExpOf(fm, b) - lb) - fm.f - 3,
                 Resize(qr[1], WBytes(fm)), ~IsZeroV(qr[2]))

DivR(fm, a, b) ==
    LET s == Xor(SignOf(fm, a), SignOf(fm, b)) IN
    IF IsNaN(fm, a) \/ IsNaN(fm, b) THEN NaNRes(fm)
    ELSE IF IsInf(fm, a) THEN (IF IsInf(fm, b) THEN NaNRes(fm) ELSE Res(InfF(fm, s)))
    ELSE IF IsInf(fm, b) THEN Res(ZeroF(fm, s))
    ELSE IF IsZeroF(fm, b) THEN (IF IsZeroF(fm, a) THEN NaNRes(fm) ELSE Res(InfF(fm, s)))   \* x / 0 = inf
    ELSE IF IsZeroF(fm, a) THEN Res(ZeroF(fm, s))
    ELSE DivFinite(fm, a, b)

(* ------------------------------------------------------------------------ *)
(* square root                                                               *)
(* ------------------------------------------------------------------------ *)
(* integer square root of the bits i, i-1, .., 0 of N (i odd), two bits per step:                   *)
(* invariant  prefix(N) = root^2 + rem,  0 <= rem <= 2 root                                          *)
RECURSIVE SqrtBits(_, _, _, _)
SqrtBits(N, i, root, rem) ==
    IF i < 0 THEN <<root, rem>>
    ELSE LET rem2  == BV!Shl1(BV!Shl1(rem, BitOf(N, i)), BitOf(N, i - 1))
             trial == BV!Shl1(BV!Shl1(root, 0), 1)                       \* 4 root + 1
             ge    == BV!ULe(trial, rem2) IN
         SqrtBits(N, i - 2, BV!Shl1(root, IF ge THEN 1 ELSE 0), IF ge THEN BV!Sub(rem2, trial) ELSE rem2)

SqrtFinite(fm, a) ==          \* a finite, positive, non-zero
    LET m  == SigOf(fm, a)
        lz == fm.f + 1 - BitLen(m)
        x  == ExpOf(fm, a) - fm.f - lz           \* a = n * 2^x with 2^f <= n < 2^(f+1)
        k  == IF (x - fm.f) % 2 = 0 THEN fm.f + 4 ELSE fm.f + 5      \* x - k even
        N  == Shl(m, lz + k)                     \* a = N * 2^(x-k),  2^(2f+4) <= N < 2^(2f+6)
        w  == SBytes(fm)
        rr == SqrtBits(N, 2 * fm.f + 5, ZeroV(w), ZeroV(w))           \* root has f+3 bits
    IN RoundPack(fm, 0, (x - k) \div 2, Resize(rr[1], WBytes(fm)), ~IsZeroV(rr[2]))

SqrtR(fm, a) ==
    IF IsNaN(fm, a) THEN NaNRes(fm)
    ELSE IF IsZeroF(fm, a) THEN Res(a)                                 \* sqrt(-0) = -0
    ELSE IF SignOf(fm, a) = 1 THEN NaNRes(fm)
    ELSE IF IsInf(fm, a) THEN Res(a)
    ELSE SqrtFinite(fm, a)

(* ------------------------------------------------------------------------ *)
(* rounding to an integral value: floor, ceil, round (half away from zero)   *)
(* The results are always representable; a zero result keeps the sign of the *)
(* operand (ceil(-0.5) = -0).  `inexact` here means "the operand was not     *)
(* integral".                                                                *)
(* ------------------------------------------------------------------------ *)
ToIntegral(fm, a, mode) ==
    IF IsNaN(fm, a) THEN NaNRes(fm)
    ELSE IF IsInf(fm, a) \/ IsZeroF(fm, a) THEN Res(a)
    ELSE
    LET s == SignOf(fm, a)
        m == SigOf(fm, a)
        k == fm.f - ExpOf(fm, a)                 \* number of fraction bits of m: a = m / 2^k
    IN
    IF k <= 0 THEN Res(a)
    ELSE
    LET ip   == Shr(m, k)
        frac == LowNonZero(m, k)
        half == BitOf(m, k - 1)
        inc  == CASE mode = "floor" -> s = 1 /\ frac
                  [] mode = "ceil"  -> s = 0 /\ frac
                  [] mode = "round" -> half = 1
        mag  == IF inc THEN BV!Add(ip, OneV(Len(ip))) ELSE ip
        out  == IF IsZeroV(mag) THEN Res(ZeroF(fm, s)) ELSE RoundPack(fm, s, 0, mag, FALSE)
    IN [out EXCEPT !.inexact = frac, !.tie = (half = 1 /\ ~LowNonZero(m, k - 1)), !.sub = FALSE]

FloorR(fm, a) == ToIntegral(fm, a, "floor")
CeilR(fm, a)  == ToIntegral(fm, a, "ceil")
RoundR(fm, a) == ToIntegral(fm, a, "round")

(* ------------------------------------------------------------------------ *)
(* comparisons: NaN is unordered, -0 = +0                                    *)
(* ------------------------------------------------------------------------ *)
(* |a| < |b| for non-NaN a, b: by exponent field, then fraction *)
MagLt(fm, a, b) == \/ ExpField(fm, a) < ExpField(fm, b)
                   \/ ExpField(fm, a) = ExpField(fm, b) /\ BV!ULt(FracOf(fm, a), FracOf(fm, b))
MagEq(fm, a, b) == ExpField(fm, a) = ExpField(fm, b) /\ FracOf(fm, a) = FracOf(fm, b)
Unordered(fm, a, b) == IsNaN(fm, a) \/ IsNaN(fm, b)

Eq(fm, a, b) == /\ ~Unordered(fm, a, b)
                /\ \/ IsZeroF(fm, a) /\ IsZeroF(fm, b)
                   \/ SignOf(fm, a) = SignOf(fm, b) /\ MagEq(fm, a, b)
Lt(fm, a, b) == /\ ~Unordered(fm, a, b)
                /\ ~(IsZeroF(fm, a) /\ IsZeroF(fm, b))
                /\ IF SignOf(fm, a) # SignOf(fm, b) THEN SignOf(fm, a) = 1
                   ELSE IF SignOf(fm, a) = 0 THEN MagLt(fm, a, b) ELSE MagLt(fm, b, a)
Ne(fm, a, b) == ~Eq(fm, a, b)                        \* true when unordered
Le(fm, a, b) == Lt(fm, a, b) \/ Eq(fm, a, b)         \* false when unordered
Gt(fm, a, b) == Lt(fm, b, a)
Ge(fm, a, b) == Le(fm, b, a)

(* predicates of the runtime: is_nan, is_infinite, is_finite *)
IsNan(fm, a) == IsNaN(fm, a)
IsInfinite(fm, a) == IsInf(fm, a)
IsFinite(fm, a) == IsFin(fm, a)

(* the value-level operations *)
Add(fm, a, b) == AddR(fm, a, b).v
Sub(fm, a, b) == SubR(fm, a, b).v
Mul(fm, a, b) == MulR(fm, a, b).v
Div(fm, a, b) == DivR(fm, a, b).v
Sqrt(fm, a)   == SqrtR(fm, a).v
Neg(fm, a)    == NegR(fm, a).v
Abs(fm, a)    == AbsR(fm, a).v
Floor(fm, a)  == FloorR(fm, a).v
Ceil(fm, a)   == CeilR(fm, a).v
Round(fm, a)  == RoundR(fm, a).v

(* a small non-negative integer as a float (exact for n < 2^(f+1)) *)
FromSmallNat(fm, n) == IF n = 0 THEN ZeroF(fm, 0) ELSE RoundPack(fm, 0, 0, BV!FromNat(n, WBytes(fm)), FALSE).v

(* ------------------------------------------------------------------------ *)
(* operations by name, as the trace / self-check modules use them.           *)
(* Apply gives a result record whose v is a bit pattern or a boolean, plus   *)
(* cls: how the SPEC classifies the case                                     *)
(*   special   an operand is NaN or infinite, or the result is a NaN, or a   *)
(*             division of a non-zero number by zero                         *)
(*   overflow  finite operands, the result rounds to infinity                *)
(*   subnormal an operand or the result is subnormal / underflows            *)
(*   inexact   the result had to be rounded                                  *)
(*   exact     everything else                                               *)
(* Compound forms round after EVERY operation.                               *)
(* ------------------------------------------------------------------------ *)
Cls(fm, args, r) ==
    IF r.nan \/ \E i \in 1..Len(args) : ~IsFin(fm, args[i]) THEN "special"
    ELSE IF r.ovf THEN "overflow"
    ELSE IF ~r.bool /\ IsInf(fm, r.v) THEN "special"
    ELSE IF r.sub \/ \E i \in 1..Len(args) : IsSubnormal(fm, args[i]) THEN "subnormal"
    ELSE IF r.inexact THEN "inexact"
    ELSE "exact"

BoolRes(b) == [Res(b) EXCEPT !.bool = TRUE]

(* second step of a compound form: the flags of both steps are joined *)
Then(r1, r2) == Mk(r2.v, r1.inexact \/ r2.inexact, r1.tie \/ r2.tie, r1.ovf \/ r2.ovf, r1.sub \/ r2.sub, r2.nan)

BinOps == {"add", "sub", "mul", "div"}
CmpOps == {"eq", "ne", "lt", "le", "gt", "ge", "not_lt", "not_le", "not_gt", "not_ge"}
UnOps  == {"neg", "abs", "sqrt", "floor", "ceil", "round"}
PredOps == {"is_nan", "is_infinite", "is_finite"}

ApplyRaw(fm, op, x) ==
    CASE op = "add" -> AddR(fm, x[1], x[2])
      [] op = "sub" -> SubR(fm, x[1], x[2])
      [] op = "mul" -> MulR(fm, x[1], x[2])
      [] op = "div" -> DivR(fm, x[1], x[2])
      [] op = "neg" -> NegR(fm, x[1])
      [] op = "abs" -> AbsR(fm, x[1])
      [] op = "sqrt" -> SqrtR(fm, x[1])
      [] op = "floor" -> FloorR(fm, x[1])
      [] op = "ceil" -> CeilR(fm, x[1])
      [] op = "round" -> RoundR(fm, x[1])
      [] op = "eq" -> BoolRes(Eq(fm, x[1], x[2]))
      [] op = "ne" -> BoolRes(Ne(fm, x[1], x[2]))
      [] op = "lt" -> BoolRes(Lt(fm, x[1], x[2]))
      [] op = "le" -> BoolRes(Le(fm, x[1], x[2]))
      [] op = "gt" -> BoolRes(Gt(fm, x[1], x[2]))
      [] op = "ge" -> BoolRes(Ge(fm, x[1], x[2]))
      [] op = "not_lt" -> BoolRes(~Lt(fm, x[1], x[2]))       \* !(a < b): true when unordered
      [] op = "not_le" -> BoolRes(~Le(fm, x[1], x[2]))
      [] op = "not_gt" -> BoolRes(~Gt(fm, x[1], x[2]))
      [] op = "not_ge" -> BoolRes(~Ge(fm, x[1], x[2]))
      [] op = "is_nan" -> BoolRes(IsNan(fm, x[1]))
      [] op = "is_infinite" -> BoolRes(IsInfinite(fm, x[1]))
      [] op = "is_finite" -> BoolRes(IsFinite(fm, x[1]))
      \* compound forms of the scripts: two roundings each
      [] op = "muladd" -> LET p == MulR(fm, x[1], x[2]) IN Then(p, AddR(fm, p.v, x[3]))      \* a * b + c
      [] op = "mulsub" -> LET p == MulR(fm, x[1], x[2]) IN Then(p, SubR(fm, x[3], p.v))      \* c - a * b
      [] op = "mix"    -> LET p == AddR(fm, x[1], x[2]) IN Then(p, AddR(fm, p.v, x[3]))      \* (a + b) + c
      [] op = "divmul" -> LET p == DivR(fm, x[1], x[2]) IN Then(p, MulR(fm, p.v, x[3]))      \* (a / b) * c
      \* division by / multiplication with a literal constant (decimal literals denote the nearest value:
      \* 0.1 = 1/10 and 1/3 are the correctly rounded quotients)
      [] op = "div3"   -> DivR(fm, x[1], FromSmallNat(fm, 3))
      [] op = "div10"  -> DivR(fm, x[1], FromSmallNat(fm, 10))
      [] op = "mul0_1" -> MulR(fm, x[1], Div(fm, FromSmallNat(fm, 1), FromSmallNat(fm, 10)))

Apply(fm, op, x) == LET r == ApplyRaw(fm, op, x) IN
    [v |-> r.v, nan |-> r.nan, bool |-> r.bool, cls |-> Cls(fm, x, r), tie |-> r.tie, inexact |-> r.inexact,
     ovf |-> r.ovf, sub |-> r.sub]

(* does an observed result (bit pattern or boolean) agree with the specified one? *)
Agrees(fm, r, observed) ==
    IF r.nan THEN IsNaN(fm, observed) ELSE observed = r.v
=============================================================================
