------------------------------ MODULE TraceOwn ------------------------------
(* I->S binding for C03: the create/clone/drop events that a drop-tracked    *)
(* host type reported during each call into compiled code must be a          *)
(* behaviour of Own that ends with CallEnd({}) (the entry functions return   *)
(* scalars, so nothing may survive the call).  "reset" starts the next call. *)
EXTENDS Own, Sequences, Json, IOUtils, TLC, TLCExt

Rec == ndJsonDeserialize(IOEnv.TRACE)
VARIABLE l
E == Rec[l]
IsEv(k) == l <= Len(Rec) /\ E.ev = k /\ l' = l + 1

TraceInit == OwnInit /\ l = 1
TraceNext ==
  \/ IsEv("reset")  /\ live' = {} /\ dead' = {} /\ ended' = FALSE
  \/ IsEv("create") /\ Create(E.id)
  \/ IsEv("clone")  /\ Clone(E.src, E.id)
  \/ IsEv("drop")   /\ Drop(E.id)
  \/ IsEv("end")    /\ CallEnd({})
TraceSpec == TraceInit /\ [][TraceNext]_<<ovars, l>>

TraceAccepted ==
  LET d == TLCGet("stats").diameter IN
  IF d - 1 = Len(Rec) THEN TRUE
  ELSE /\ PrintT(<<"UNMATCHED", ToJson([line |-> d, ev |-> Rec[d]])>>)
       /\ FALSE
=============================================================================
