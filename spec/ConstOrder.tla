----------------------------- MODULE ConstOrder -----------------------------
(***************************************************************************)
(* Roto script constants (property C14): every constant is evaluated       *)
(* exactly once per compilation, during compilation, after every constant  *)
(* it depends on directly or through the functions it calls; a constant    *)
(* that depends on itself or (transitively) reads a context variable makes *)
(* the compilation fail before any constant is evaluated; afterwards every *)
(* function and constant observes the one stored value.                    *)
(*                                                                         *)
(* g         : the script, reduced to its dependency graph                 *)
(*               n     number of items, ids 1..n                           *)
(*               kind  kind[i] = "c" (constant) or "f" (function)          *)
(*               refs  set of <<i, j>> : the body of item i mentions j     *)
(*               ctx   items whose body reads a context variable           *)
(*               ty    ty[i] = value type of constant i ("i32" for a       *)
(*                     function: functions take and return i32)            *)
(* vals      : constant id -> stored value, for the constants evaluated    *)
(* order     : history: the constants in the order they were evaluated     *)
(* rejected  : compilation ended with an error                             *)
(* compiled  : compilation ended successfully                              *)
(* obs       : what the last action showed to its observer                 *)
(*                                                                         *)
(* Actions are named after the code: EvalConst = the initialiser of one    *)
(* constant is compiled and run (src/codegen/mod.rs, ItemKind::Constant),  *)
(* Reject = find_compilation_order returns an error                        *)
(* (src/typechecker/value_cycle.rs), Done = FileTree::compile returns Ok,  *)
(* Call / Get / GetV / Mut = a function of the compiled package is called   *)
(* (Mut: src/lir/lower.rs, the mir::Value::Constant arm of assign: a read  *)
(* clones from the stored value into the destination).                     *)
(*                                                                         *)
(* The order among independent constants is left open by the manual, so    *)
(* EvalConst is nondeterministic there.                                    *)
(*                                                                         *)
(* Values.  To make "observes that one value" and "was computed from       *)
(* evaluated dependencies" observable, the scripts used for the binding    *)
(* have a fixed shape, modelled here:                                      *)
(*    const Ck: i32 = mark(k, <sum of one term per reference of k>);       *)
(*    fn fk(n: i32) -> i32 { if n <= 0 { 0 } else                          *)
(*                           { (<sum of terms> [+ ctxv]) % Modulus } }     *)
(* a term is `Cj` for a constant and `fj(Fuel)` (in a constant) or         *)
(* `fj(n - 1)` (in a function) for a function; the host function           *)
(* mark(k, s) returns MarkVal(k, s).  Functions may be recursive; the      *)
(* fuel argument makes every call terminate.                               *)
(*                                                                         *)
(* Value types.  The rule "evaluated exactly once" does not depend on what *)
(* a constant holds, and "every function observes that one value" has to   *)
(* hold for every kind of value, so the type of a constant is a dimension  *)
(* of the script: g.ty[i] \in Types.  The initialiser of constant k still  *)
(* calls mark(k, s) exactly once (for a type without any information the   *)
(* host function is `marku`, which returns nothing) and builds the stored  *)
(* value Store(ty, v) from the number v that mark returned:                *)
(*    i32   v                      bool  v is odd                          *)
(*    unit  ()                     erec  E0 {}          (no fields)        *)
(*    urec  U2 { u: (), w: () }    rec2  P2 { a: v, b: B(v) }              *)
(*    opt   Some(v) if v is odd, None otherwise          (i32?)            *)
(*    nest  N3 { p: P2 { a: v, b: B(v) }, c: B(B(v)) }                     *)
(*    str   the decimal numeral of v                     (String)          *)
(*    list  [v]                                          (List[i32])       *)
(* A reference to a constant of type t contributes Num(t, value) to the    *)
(* sum of the referencing item (0 for the types that carry nothing: the    *)
(* reference is still a dependency).  Flat(t, value) is the sequence of    *)
(* numbers a typed getter shows.                                           *)
(*                                                                         *)
(* Copies.  Roto has value semantics: reading a constant gives the reader  *)
(* its OWN copy.  Locals and parameters are mutable, so a function may     *)
(* change its copy (assign the whole variable, one field, a field of a     *)
(* field, through a callee that assigns to its parameter, ...): Mut.  The  *)
(* stored value of the constant is not affected: every later read - by     *)
(* the same function, by any other function of any module, by a function   *)
(* of the graph - still gives the stored value.  The one exception is      *)
(* stated, not avoided: a List is a handle to one shared growable array    *)
(* (property C15), the copy of a list constant is a second handle to the   *)
(* SAME array, so a push through the copy is visible through the constant  *)
(* and through every other copy; assigning another list to the copy only   *)
(* rebinds the copy.                                                       *)
(***************************************************************************)
EXTENDS Naturals, Sequences, FiniteSets, TLC

CONSTANTS Fuel,      \* fuel passed to a function called from a constant / from outside
          Modulus,   \* values are kept below this
          CtxVal     \* the value of the context variable at run time

VARIABLES g, vals, order, rejected, compiled, obs
vars == <<g, vals, order, rejected, compiled, obs>>

Nodes     == 1..g.n
Consts    == {i \in Nodes : g.kind[i] = "c"}
Fns       == Nodes \ Consts
Succ(i)   == {j \in Nodes : <<i, j>> \in g.refs}

RECURSIVE Grow(_)
Grow(S)   == LET T == S \cup UNION {Succ(x) : x \in S} IN IF T = S THEN S ELSE Grow(T)
(* items reachable from i in one or more reference steps *)
Reach(i)  == Grow(Succ(i))
(* the constants that have to be evaluated before constant c *)
ConstDeps(c) == Reach(c) \cap Consts
UsesCtx(i)   == (({i} \cup Reach(i)) \cap g.ctx) # {}
Cyclic(c)    == c \in Reach(c)
BadConst(c)  == Cyclic(c) \/ UsesCtx(c)
Bad          == \E c \in Consts : BadConst(c)

(* ------------------------------ value types ----------------------------- *)
Types     == {"i32", "bool", "unit", "erec", "urec", "rec2", "opt", "nest", "str", "list"}
ZeroSized == {"unit", "erec", "urec"}      \* values without any information (size 0)
Shared    == {"list"}                      \* copies are handles to the same object

B(v) == (v + 1) % Modulus

(* the value the initialiser builds from the number v returned by mark *)
Store(t, v) ==
    CASE t = "i32"        -> v
      [] t = "bool"       -> (v % 2 = 1)
      [] t \in ZeroSized  -> <<>>
      [] t = "rec2"       -> [a |-> v, b |-> B(v)]
      [] t = "opt"        -> IF v % 2 = 1 THEN <<v>> ELSE <<>>
      [] t = "nest"       -> [p |-> [a |-> v, b |-> B(v)], c |-> B(B(v))]
      [] t = "str"        -> v
      [] t = "list"       -> <<v>>

RECURSIVE SeqSum(_)
SeqSum(q) == IF q = <<>> THEN 0 ELSE Head(q) + SeqSum(Tail(q))

(* what one reference to a constant of type t with value x adds to a sum *)
Num(t, x) ==
    CASE t = "i32"        -> x
      [] t = "bool"       -> IF x THEN 1 ELSE 0
      [] t \in ZeroSized  -> 0
      [] t = "rec2"       -> x.a + x.b
      [] t = "opt"        -> IF x = <<>> THEN 0 ELSE x[1]
      [] t = "nest"       -> x.p.a + x.p.b + x.c
      [] t = "str"        -> x
      [] t = "list"       -> SeqSum(x)

(* what a typed getter shows: the leaves of the value, in declaration order *)
Flat(t, x) ==
    CASE t = "i32"        -> <<x>>
      [] t = "bool"       -> <<IF x THEN 1 ELSE 0>>
      [] t \in ZeroSized  -> <<>>
      [] t = "rec2"       -> <<x.a, x.b>>
      [] t = "opt"        -> IF x = <<>> THEN <<0>> ELSE <<1, x[1]>>
      [] t = "nest"       -> <<x.p.a, x.p.b, x.c>>
      [] t = "str"        -> <<x>>
      [] t = "list"       -> <<Len(x)>> \o x

(* how a function gets hold of its copy: a local initialised from the      *)
(* constant, a by-value parameter of a callee, the result of a function    *)
(* that returns the constant                                               *)
Vias == {"local", "param", "ret"}

(* the ways a copy of a value of type t can be modified (w is a number):   *)
(*   whole   q = <a value built like the initialiser does, from w>         *)
(*   add     q = q + w  (i32),  q.a = q.a + w  (rec2)                      *)
(*   not     q = !q                                                        *)
(*   field   q.u = () (urec),  q.b = w (rec2),  q.c = w (nest)             *)
(*   deep    q.p.b = w          sub   q.p = P2 { a: w, b: B(w) }           *)
(*   none    q = None           append  q = q.append("<last digit of w>")  *)
(*   push    q.push(w)    -- the only one that reaches the constant        *)
Hows(t) ==
    CASE t = "i32"  -> {"whole", "add"}
      [] t = "bool" -> {"whole", "not"}
      [] t = "unit" -> {"whole"}
      [] t = "erec" -> {"whole"}
      [] t = "urec" -> {"whole", "field"}
      [] t = "rec2" -> {"whole", "field", "add"}
      [] t = "opt"  -> {"whole", "none"}
      [] t = "nest" -> {"whole", "field", "deep", "sub"}
      [] t = "str"  -> {"whole", "append"}
      [] t = "list" -> {"whole", "push"}
AllHows == UNION {Hows(t) : t \in Types}

(* the copy x after the modification *)
Apply(t, x, h, w) ==
    CASE h = "whole"  -> Store(t, w)
      [] h = "add"    -> IF t = "i32" THEN x + w ELSE [x EXCEPT !.a = @ + w]
      [] h = "not"    -> ~x
      [] h = "field"  -> IF t = "urec" THEN x
                         ELSE IF t = "rec2" THEN [x EXCEPT !.b = w] ELSE [x EXCEPT !.c = w]
      [] h = "deep"   -> [x EXCEPT !.p.b = w]
      [] h = "sub"    -> [x EXCEPT !.p = [a |-> w, b |-> B(w)]]
      [] h = "none"   -> <<>>
      [] h = "append" -> x * 10 + (w % 10)
      [] h = "push"   -> Append(x, w)

RECURSIVE SumOver(_, _)
SumOver(S, F) == IF S = {} THEN 0
                 ELSE LET x == CHOOSE y \in S : TRUE IN F[x] + SumOver(S \ {x}, F)

(* value returned by function f called with fuel n, given stored values v *)
RECURSIVE FnVal(_, _, _)
FnVal(f, n, v) ==
    IF n = 0 THEN 0
    ELSE (SumOver(Succ(f), [j \in Succ(f) |-> IF j \in Consts THEN Num(g.ty[j], v[j]) ELSE FnVal(j, n - 1, v)])
          + (IF f \in g.ctx THEN CtxVal ELSE 0)) % Modulus

(* the second argument the initialiser of constant c passes to mark *)
RefSum(c, v) == SumOver(Succ(c), [j \in Succ(c) |-> IF j \in Consts THEN Num(g.ty[j], v[j]) ELSE FnVal(j, Fuel, v)])
MarkVal(k, s) == (k + 3 * s) % Modulus

TypeOK == /\ g.n \in Nat
          /\ g.refs \subseteq (Nodes \X Nodes)
          /\ g.ctx \subseteq Nodes
          /\ \A i \in Nodes : g.ty[i] \in Types
          /\ DOMAIN vals \subseteq Consts
          /\ rejected \in BOOLEAN /\ compiled \in BOOLEAN
          /\ ~(rejected /\ compiled)

InitState(graph) == /\ g = graph /\ vals = <<>> /\ order = <<>>
                    /\ rejected = FALSE /\ compiled = FALSE /\ obs = "init"

(* A compilation has to end (Done or Reject).  In a script with a bad      *)
(* constant it can only end by Reject, which is possible only while        *)
(* nothing has been evaluated: so no constant of such a script is ever     *)
(* evaluated.                                                              *)
EvalConst(c) ==
    /\ c \in Consts /\ ~rejected /\ ~compiled /\ ~Bad
    /\ c \notin DOMAIN vals
    /\ ConstDeps(c) \subseteq DOMAIN vals
    /\ LET s == RefSum(c, vals) IN
         /\ vals' = vals @@ (c :> Store(g.ty[c], MarkVal(c, s)))
         /\ obs' = [k |-> c, s |-> s]
    /\ order' = Append(order, c)
    /\ UNCHANGED <<g, rejected, compiled>>

Reject ==
    /\ Bad /\ ~rejected /\ ~compiled
    /\ DOMAIN vals = {}
    /\ rejected' = TRUE /\ obs' = "err"
    /\ UNCHANGED <<g, vals, order, compiled>>

Done ==
    /\ ~Bad /\ ~rejected /\ ~compiled
    /\ DOMAIN vals = Consts
    /\ compiled' = TRUE /\ obs' = "ok"
    /\ UNCHANGED <<g, vals, order, rejected>>

Call(f) ==
    /\ compiled /\ f \in Fns
    /\ obs' = FnVal(f, Fuel, vals)
    /\ UNCHANGED <<g, vals, order, rejected, compiled>>

(* a function whose body is one reference to the constant (an i32) *)
Get(c) ==
    /\ compiled /\ c \in Consts
    /\ obs' = Num(g.ty[c], vals[c])
    /\ UNCHANGED <<g, vals, order, rejected, compiled>>

(* a function that returns the constant as it is *)
GetV(c) ==
    /\ compiled /\ c \in Consts
    /\ obs' = Flat(g.ty[c], vals[c])
    /\ UNCHANGED <<g, vals, order, rejected, compiled>>

(* A function obtains a copy of constant c (via), modifies the copy (h, w) *)
(* and then reads the constant again: it shows the modified copy and what  *)
(* the constant holds after the write.  The stored value does not change   *)
(* unless the value is a handle to a shared object and the modification    *)
(* goes through the handle (push on a list).                               *)
Mut(c, via, h, w) ==
    /\ compiled /\ c \in Consts
    /\ via \in Vias /\ h \in Hows(g.ty[c]) /\ w \in Nat
    /\ LET t      == g.ty[c]
           copy   == Apply(t, vals[c], h, w)
           stored == IF t \in Shared /\ h = "push" THEN copy ELSE vals[c]
       IN /\ vals' = [vals EXCEPT ![c] = stored]
          /\ obs' = <<Flat(t, copy), Flat(t, stored)>>
    /\ UNCHANGED <<g, order, rejected, compiled>>

Next == \/ \E c \in Nodes : EvalConst(c) \/ Call(c) \/ Get(c) \/ GetV(c)
        \/ \E c \in Nodes, via \in Vias, h \in AllHows, w \in 0..(Modulus - 1) : Mut(c, via, h, w)
        \/ Reject
        \/ Done

(* ------------------------------ invariants ------------------------------ *)
(* each constant is evaluated at most once *)
Once == \A p, q \in 1..Len(order) : p # q => order[p] # order[q]

(* a constant is evaluated after every constant it depends on *)
DepOrder == \A p \in 1..Len(order) : ConstDeps(order[p]) \subseteq {order[q] : q \in 1..(p - 1)}

(* an error is reported before anything is evaluated; success means all evaluated *)
RejectFirst == /\ rejected => (order = <<>> /\ Bad)
               /\ Bad => order = <<>>
               /\ compiled => (~Bad /\ {order[q] : q \in 1..Len(order)} = Consts)
               /\ {order[q] : q \in 1..Len(order)} = DOMAIN vals

(* the stored values do not depend on the order chosen: they equal the      *)
(* values obtained by one fixed evaluation order                           *)
RECURSIVE EvalAll(_)
EvalAll(v) == IF DOMAIN v = Consts THEN v
              ELSE LET c == CHOOSE x \in Consts \ DOMAIN v : ConstDeps(x) \subseteq DOMAIN v
                   IN EvalAll(v @@ (c :> Store(g.ty[c], MarkVal(c, RefSum(c, v)))))
Final == EvalAll(<<>>)
IsPrefixOf(p, q) == Len(p) <= Len(q) /\ \A i \in 1..Len(p) : p[i] = q[i]
(* ... and never change afterwards, whatever functions do with their       *)
(* copies; a list constant keeps designating the same list, which only     *)
(* grows by the pushes made through copies of the handle                   *)
ValuesAgree == (~Bad /\ DOMAIN vals # {}) =>
                 LET F == Final
                 IN \A c \in DOMAIN vals : IF g.ty[c] \in Shared THEN IsPrefixOf(F[c], vals[c])
                                            ELSE vals[c] = F[c]

Inv == TypeOK /\ Once /\ DepOrder /\ RejectFirst /\ ValuesAgree
=============================================================================
