----------------------------- MODULE ConstOrder -----------------------------
(***************************************************************************)
(* Roto script constants (property C14): every constant is evaluated       *)
(* exactly once per compilation, during compilation, after every constant  *)
(* it depends on directly or through the functions it calls; a constant    *)
(* that depends on itself or (transitively) reads a context variable makes *)
(* the compilation fail before any constant is evaluated; afterwards every *)
(* function and constant observes the one stored value.                    *)
(*                                                                         *)
(* g         : the script, reduced to its dependency graph                 *)
(*               n     number of items, ids 1..n                           *)
(*               kind  kind[i] = "c" (constant) or "f" (function)          *)
(*               refs  set of <<i, j>> : the body of item i mentions j     *)
(*               ctx   items whose body reads a context variable           *)
(* vals      : constant id -> stored value, for the constants evaluated    *)
(* order     : history: the constants in the order they were evaluated     *)
(* rejected  : compilation ended with an error                             *)
(* compiled  : compilation ended successfully                              *)
(* obs       : what the last action showed to its observer                 *)
(*                                                                         *)
(* Actions are named after the code: EvalConst = the initialiser of one    *)
(* constant is compiled and run (src/codegen/mod.rs, ItemKind::Constant),  *)
(* Reject = find_compilation_order returns an error                        *)
(* (src/typechecker/value_cycle.rs), Done = FileTree::compile returns Ok,  *)
(* Call / Get = a function of the compiled package is called.              *)
(*                                                                         *)
(* The order among independent constants is left open by the manual, so    *)
(* EvalConst is nondeterministic there.                                    *)
(*                                                                         *)
(* Values.  To make "observes that one value" and "was computed from       *)
(* evaluated dependencies" observable, the scripts used for the binding    *)
(* have a fixed shape, modelled here:                                      *)
(*    const Ck: i32 = mark(k, <sum of one term per reference of k>);       *)
(*    fn fk(n: i32) -> i32 { if n <= 0 { 0 } else                          *)
(*                           { (<sum of terms> [+ ctxv]) % Modulus } }     *)
(* a term is `Cj` for a constant and `fj(Fuel)` (in a constant) or         *)
(* `fj(n - 1)` (in a function) for a function; the host function           *)
(* mark(k, s) returns MarkVal(k, s).  Functions may be recursive; the      *)
(* fuel argument makes every call terminate.                               *)
(***************************************************************************)
EXTENDS Naturals, Sequences, FiniteSets, TLC

CONSTANTS Fuel,      \* fuel passed to a function called from a constant / from outside
          Modulus,   \* values are kept below this
          CtxVal     \* the value of the context variable at run time

VARIABLES g, vals, order, rejected, compiled, obs
vars == <<g, vals, order, rejected, compiled, obs>>

Nodes     == 1..g.n
Consts    == {i \in Nodes : g.kind[i] = "c"}
Fns       == Nodes \ Consts
Succ(i)   == {j \in Nodes : <<i, j>> \in g.refs}

RECURSIVE Grow(_)
Grow(S)   == LET T == S \cup UNION {Succ(x) : x \in S} IN IF T = S THEN S ELSE Grow(T)
(* items reachable from i in one or more reference steps *)
Reach(i)  == Grow(Succ(i))
(* the constants that have to be evaluated before constant c *)
ConstDeps(c) == Reach(c) \cap Consts
UsesCtx(i)   == (({i} \cup Reach(i)) \cap g.ctx) # {}
Cyclic(c)    == c \in Reach(c)
BadConst(c)  == Cyclic(c) \/ UsesCtx(c)
Bad          == \E c \in Consts : BadConst(c)

RECURSIVE SumOver(_, _)
SumOver(S, F) == IF S = {} THEN 0
                 ELSE LET x == CHOOSE y \in S : TRUE IN F[x] + SumOver(S \ {x}, F)

(* value returned by function f called with fuel n, given stored values v *)
RECURSIVE FnVal(_, _, _)
FnVal(f, n, v) ==
    IF n = 0 THEN 0
    ELSE (SumOver(Succ(f), [j \in Succ(f) |-> IF j \in Consts THEN v[j] ELSE FnVal(j, n - 1, v)])
          + (IF f \in g.ctx THEN CtxVal ELSE 0)) % Modulus

(* the second argument the initialiser of constant c passes to mark *)
RefSum(c, v) == SumOver(Succ(c), [j \in Succ(c) |-> IF j \in Consts THEN v[j] ELSE FnVal(j, Fuel, v)])
MarkVal(k, s) == (k + 3 * s) % Modulus

TypeOK == /\ g.n \in Nat
          /\ g.refs \subseteq (Nodes \X Nodes)
          /\ g.ctx \subseteq Nodes
          /\ DOMAIN vals \subseteq Consts
          /\ rejected \in BOOLEAN /\ compiled \in BOOLEAN
          /\ ~(rejected /\ compiled)

InitState(graph) == /\ g = graph /\ vals = <<>> /\ order = <<>>
                    /\ rejected = FALSE /\ compiled = FALSE /\ obs = "init"

(* A compilation has to end (Done or Reject).  In a script with a bad      *)
(* constant it can only end by Reject, which is possible only while        *)
(* nothing has been evaluated: so no constant of such a script is ever     *)
(* evaluated.                                                              *)
EvalConst(c) ==
    /\ c \in Consts /\ ~rejected /\ ~compiled /\ ~Bad
    /\ c \notin DOMAIN vals
    /\ ConstDeps(c) \subseteq DOMAIN vals
    /\ LET s == RefSum(c, vals) IN
         /\ vals' = vals @@ (c :> MarkVal(c, s))
         /\ obs' = [k |-> c, s |-> s]
    /\ order' = Append(order, c)
    /\ UNCHANGED <<g, rejected, compiled>>

Reject ==
    /\ Bad /\ ~rejected /\ ~compiled
    /\ DOMAIN vals = {}
    /\ rejected' = TRUE /\ obs' = "err"
    /\ UNCHANGED <<g, vals, order, compiled>>

Done ==
    /\ ~Bad /\ ~rejected /\ ~compiled
    /\ DOMAIN vals = Consts
    /\ compiled' = TRUE /\ obs' = "ok"
    /\ UNCHANGED <<g, vals, order, rejected>>

Call(f) ==
    /\ compiled /\ f \in Fns
    /\ obs' = FnVal(f, Fuel, vals)
    /\ UNCHANGED <<g, vals, order, rejected, compiled>>

Get(c) ==
    /\ compiled /\ c \in Consts
    /\ obs' = vals[c]
    /\ UNCHANGED <<g, vals, order, rejected, compiled>>

Next == \/ \E c \in Nodes : EvalConst(c) \/ Call(c) \/ Get(c)
        \/ Reject
        \/ Done

(* ------------------------------ invariants ------------------------------ *)
(* each constant is evaluated at most once *)
Once == \A p, q \in 1..Len(order) : p # q => order[p] # order[q]

(* a constant is evaluated after every constant it depends on *)
DepOrder == \A p \in 1..Len(order) : ConstDeps(order[p]) \subseteq {order[q] : q \in 1..(p - 1)}

(* an error is reported before anything is evaluated; success means all evaluated *)
RejectFirst == /\ rejected => (order = <<>> /\ Bad)
               /\ Bad => order = <<>>
               /\ compiled => (~Bad /\ {order[q] : q \in 1..Len(order)} = Consts)
               /\ {order[q] : q \in 1..Len(order)} = DOMAIN vals

(* the stored values do not depend on the order chosen: they equal the      *)
(* values obtained by one fixed evaluation order                           *)
RECURSIVE EvalAll(_)
EvalAll(v) == IF DOMAIN v = Consts THEN v
              ELSE LET c == CHOOSE x \in Consts \ DOMAIN v : ConstDeps(x) \subseteq DOMAIN v
                   IN EvalAll(v @@ (c :> MarkVal(c, RefSum(c, v))))
Final == EvalAll(<<>>)
ValuesAgree == ~Bad => \A c \in DOMAIN vals : vals[c] = Final[c]

Inv == TypeOK /\ Once /\ DepOrder /\ RejectFirst /\ ValuesAgree
=============================================================================
