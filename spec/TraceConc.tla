------------------------------ MODULE TraceConc ------------------------------
(* I->S binding for C12: real multi-threaded runs recorded by                *)
(* harness/src/bin/c12.rs must be behaviours of Conc.                        *)
(*                                                                           *)
(* One line of the trace file = one run: [id, thr] where thr[t] is the list  *)
(* of events thread t recorded IN ITS OWN PROGRAM ORDER.  Nothing in the     *)
(* file orders events of different threads, and nothing here assumes such an *)
(* order, except what the program itself enforces (a thread runs after its   *)
(* spawn event, the join event after the end of every other thread).  A run  *)
(* is accepted iff SOME interleaving of the per-thread lists is a behaviour  *)
(* of Conc in which every event is matched by the Conc action of the same    *)
(* name with the logged arguments and the logged observation equals the      *)
(* specified one:                                                            *)
(*   call_end.res   = F(constants of the module, shape, arguments, values    *)
(*                    the closure returned to this call)                     *)
(*   cl.prev        = the value of the captured counter at that step (so the *)
(*                    values handed out over the whole run are 0..n-1, each  *)
(*                    once: an atomic increment)                             *)
(*   quiesce        : every holder released, counter = number of closure     *)
(*                    calls (per runtime), measured live instances = 0,      *)
(*                    measured creations = specified creations, creations +  *)
(*                    clones = drops, no use of a released value             *)
(*                                                                           *)
(* Search for the interleaving.  Steps of different threads commute except   *)
(* where Conc makes them interact: the closure counter (the order of the cl  *)
(* events is forced by their values), the registry lock (held from           *)
(* compile_begin to compile_end, which follow each other in one thread's     *)
(* list, so waiting for it is always possible), spawn / join.  Therefore a   *)
(* fixed scheduling rule loses no interleaving that matters: always run the  *)
(* lowest-numbered thread that has an enabled step.  The state graph is one  *)
(* path; if no thread can step before the run is complete the run is not a   *)
(* behaviour of Conc and the next event of every unfinished thread is        *)
(* printed (UNMATCHED).                                                      *)
EXTENDS Conc, Json, IOUtils, TLCExt

Rec == ndJsonDeserialize(IOEnv.TRACE)

VARIABLE r       \* index of the run being replayed (0 before the first)
tvars == <<vars, r>>

NT == Len(Rec[r].thr)
Prog(t) == IF t <= NT THEN Rec[r].thr[t] ELSE <<>>
NoOp == [op |-> "none"]
Op(t) == IF ip[t] <= Len(Prog(t)) THEN Prog(t)[ip[t]] ELSE NoOp
Finished(t) == ip[t] > Len(Prog(t))
Live == 1..NT                                  \* the threads of this run
OthersDone(t) == \A u \in Live \ {t} : Finished(u)
AllDone == \A t \in Live : Finished(t)
RunOver == IF r = 0 THEN TRUE ELSE AllDone     \* (IF: Rec[0] must never be evaluated)

(* the logged observation of the event agrees with the specification (state before the step) *)
Bind(t, o) ==
    CASE o.op = "cl" /\ pc[t] = "call" ->
            /\ o.g = frame[t].g
            /\ o.prev = (IF rts[o.g].sync THEN rts[o.g].cnt ELSE frame[t].tmp)
      [] o.op = "call_end" /\ pc[t] = "call" /\ frame[t].rd /\ Len(frame[t].ps) = NCl(frame[t].fn) ->
            o.res = FrameResult(t)
      [] o.op = "quiesce" ->
            /\ QuiescentOK
            /\ {o.cnt[i][1] : i \in 1..Len(o.cnt)} = Rts
            /\ \A i \in 1..Len(o.cnt) : o.cnt[i][2] = rts[o.cnt[i][1]].cnt
            /\ o.live = live
            /\ o.created = created
            /\ o.created + o.cloned = o.dropped + o.live
            /\ o.corrupt = 0
      [] OTHER -> TRUE

(* internal steps never consult the event; event steps need the binding *)
Internal(t) == t \in started /\ (GReadConst(t) \/ GClRead(t) \/ GMk(t) \/ GCompRead(t) \/ GCompUpd(t))
CanStep(t) == Internal(t) \/ (Enabled(t, Op(t), OthersDone(t)) /\ Bind(t, Op(t)))

(* the lowest-numbered thread that can take a step; 0 if there is none *)
RECURSIVE First(_)
First(t) == IF t > NT THEN 0 ELSE IF CanStep(t) THEN t ELSE First(t + 1)

TraceInit == Init /\ r = 0

StartRun ==
    /\ RunOver /\ r < Len(Rec)
    /\ r' = r + 1
    /\ rts' = <<>> /\ mods' = <<>>
    /\ holds' = [t \in Threads |-> {}]
    /\ reglock' = 0 /\ registry' = {}
    /\ pc' = [t \in Threads |-> "idle"]
    /\ frame' = [t \in Threads |-> IdleFrame]
    /\ ip' = [t \in Threads |-> 1]
    /\ started' = {1}
    /\ obs' = [t \in Threads |-> NoObs]
    /\ created' = 0 /\ live' = 0

RunStep ==
    /\ r >= 1 /\ ~AllDone
    /\ LET t == First(1)
       IN /\ t # 0
          /\ IF Internal(t) THEN Step(t, NoOp, FALSE)
             ELSE Step(t, Op(t), OthersDone(t))
    /\ UNCHANGED r

(* what the specification expects next of thread t (for the report) *)
Expect(t) ==
    IF pc[t] = "call" /\ frame[t].rd
    THEN IF Len(frame[t].ps) < NCl(frame[t].fn)
         THEN [kind |-> "cl", prev |-> rts[frame[t].g].cnt, res |-> 0]
         ELSE [kind |-> "call_end", prev |-> 0, res |-> FrameResult(t)]
    ELSE [kind |-> pc[t], prev |-> 0, res |-> 0]

(* the run cannot be continued although it is not complete: report (the behaviour ends *)
(* here, so the depth reached stays below the number of steps needed)                *)
IsStuck == r >= 1 /\ ~AllDone /\ First(1) = 0
Report ==
    IF IsStuck
    THEN PrintT(<<"UNMATCHED",
                  ToJson([run |-> r, id |-> Rec[r].id,
                          counters |-> {<<g, rts[g].cnt>> : g \in Rts},
                          live |-> live, created |-> created,
                          unfinished |-> {[t |-> t, i |-> ip[t], ev |-> Op(t), expect |-> Expect(t)] :
                                            t \in {u \in Live : ~Finished(u)}}])>>)
    ELSE TRUE

TraceNext == StartRun \/ RunStep

TraceSpec == TraceInit /\ [][TraceNext]_tvars

(* design invariants of Conc hold along the replayed behaviour as well *)
TraceInv == r >= 1 => ResultOK /\ CallValid /\ NoLostUpdate /\ LiveExact /\ MutexOK /\ RegistryComplete

(* number of Conc steps the events of run i amount to *)
Cost(o) == CASE o.op = "call_begin"    -> 2 + (IF o.fn = "keep" THEN 1 ELSE 0)   \* Begin, ReadConst, Mk
             [] o.op = "compile_begin" -> 3                                       \* CompAcq, CompRead, CompUpd
             [] OTHER -> 1
RECURSIVE SumSeq(_, _)
SumSeq(s, i) == IF i > Len(s) THEN 0 ELSE Cost(s[i]) + SumSeq(s, i + 1)
RECURSIVE SumThr(_, _)
SumThr(run, t) == IF t > Len(run.thr) THEN 0 ELSE SumSeq(run.thr[t], 1) + SumThr(run, t + 1)
RECURSIVE SumRuns(_)
SumRuns(i) == IF i > Len(Rec) THEN 0 ELSE 1 + SumThr(Rec[i], 1) + SumRuns(i + 1)

(* accepted iff every event of every run was matched *)
TraceAccepted ==
    LET d == TLCGet("stats").diameter IN
    IF d - 1 = SumRuns(1) THEN TRUE
    ELSE /\ PrintT(<<"DEPTH", ToJson([reached |-> d - 1, needed |-> SumRuns(1)])>>)
         /\ FALSE
=============================================================================
