----------------------------- MODULE GenListConc -----------------------------
(* Behaviour generation for C16: ListConc with a history variable that     *)
(* records every step (thread, action, operation, expected instrumentation *)
(* events, expected result).  Used with -simulate; each finished behaviour *)
(* is printed as one REPLAY line and then imposed on the real code.        *)
EXTENDS MCListConc

VARIABLE hist

MCInit == Init /\ hist = <<>>
MCNext == \/ /\ \/ \E t \in Threads, o \in Ops : Start(t, o)
                \/ \E t \in Threads : Step(t)
             /\ hist' = Append(hist, obs')
          \/ Terminated /\ UNCHANGED hist
MCSpec == MCInit /\ [][MCNext]_<<vars, hist>>

Case == [initbuf |-> InitBuf, steps |-> hist, stale |-> staleUse, lin |-> linOk]
Emit == AllDone => PrintT(<<"REPLAY", ToJson(Case)>>)
=============================================================================
