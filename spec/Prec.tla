-------------------------------- MODULE Prec --------------------------------
(* C09 - binary operators group by the documented precedence and            *)
(* associativity (manual: "Operators").                                     *)
(*                                                                          *)
(* An *operator string* w is a sequence over the 13 binary and 2 unary      *)
(* operator symbols.  It stands for the expression obtained by writing an   *)
(* operand after the last symbol and in front of every binary symbol:       *)
(*     <<"neg", "add", "not", "mul">>   is   - $0 + ! $1 * $2               *)
(* (a unary symbol applies to the operand that follows it).                 *)
(*                                                                          *)
(* The grammar of the manual, written as a grammar (not as the precedence   *)
(* climbing loop of src/parser/expr.rs):                                    *)
(*     Logical    ::= Comparison ("&&" Comparison)* | Comparison ("||" Comparison)*   *)
(*     Comparison ::= AddSub (("=="|"!="|"<"|"<="|">"|">=") AddSub)?        *)
(*     AddSub     ::= MulDiv (("+"|"-") MulDiv)*          left associative  *)
(*     MulDiv     ::= Unary (("*"|"/"|"%") Unary)*        left associative  *)
(*     Unary      ::= ("!"|"-")* Operand                                    *)
(* Parse(w) is the tree of that grammar or RejectT (chained comparison,     *)
(* `&&` mixed with `||`); Paren(t) its fully parenthesised token sequence;  *)
(* TypeOf / LeafTypes the typing of the tree with integer and boolean       *)
(* operands; Eval the value for given operand values.                       *)
EXTENDS Naturals, Integers, Sequences, FiniteSets, TLC

Logical == {"or", "and"}
Compare == {"eq", "ne", "lt", "le", "gt", "ge"}
AddSub  == {"add", "sub"}
MulDiv  == {"mul", "div", "mod"}
BinOps  == Logical \cup Compare \cup AddSub \cup MulDiv
UnOps   == {"neg", "not"}
OpSyms  == BinOps \cup UnOps

Level(op) == CASE op \in Logical -> 1 [] op \in Compare -> 2 [] op \in AddSub -> 3 [] op \in MulDiv -> 4

RejectT == [k |-> "reject"]
Leaf(j) == [k |-> "leaf", i |-> j]
Un(op, e) == [k |-> "un", op |-> op, e |-> e]
Bin(op, l, r) == [k |-> "bin", op |-> op, l |-> l, r |-> r]

-----------------------------------------------------------------------------
(* structure of an operator string *)
RECURSIVE BinPosFrom(_, _)
BinPosFrom(w, i) ==
  IF i > Len(w) THEN <<>>
  ELSE IF w[i] \in BinOps THEN <<i>> \o BinPosFrom(w, i + 1) ELSE BinPosFrom(w, i + 1)
BinPos(w) == BinPosFrom(w, 1)
NumOperands(w) == Len(BinPos(w)) + 1

(* the j-th binary operator (1-based) and the unary prefix of operand j (0-based) *)
OpAt(w, j) == w[BinPos(w)[j]]
UnariesOf(w, j) ==
  LET bp == BinPos(w)
      from == IF j = 0 THEN 1 ELSE bp[j] + 1
      to == IF j = Len(bp) THEN Len(w) ELSE bp[j + 1] - 1
  IN SubSeq(w, from, to)

RECURSIVE Wrap(_, _)
Wrap(us, t) == IF us = <<>> THEN t ELSE Un(Head(us), Wrap(Tail(us), t))
Atom(w, j) == Wrap(UnariesOf(w, j), Leaf(j))

RECURSIVE SortedSeq(_)
SortedSeq(S) ==
  IF S = {} THEN <<>>
  ELSE LET m == CHOOSE x \in S : \A y \in S : x <= y IN <<m>> \o SortedSeq(S \ {m})

RECURSIVE FoldLeft(_, _, _, _)
FoldLeft(w, acc, subs, ops) ==          \* ((acc ops[1] subs[1]) ops[2] subs[2]) ...
  IF subs = <<>> THEN acc
  ELSE FoldLeft(w, Bin(Head(ops), acc, Head(subs)), Tail(subs), Tail(ops))

(* operands lo..hi (operators lo+1..hi between them), all of level >= L *)
RECURSIVE ParseRange(_, _, _, _)
ParseRange(w, lo, hi, L) ==
  IF lo = hi THEN Atom(w, lo)
  ELSE LET P == {i \in (lo + 1)..hi : Level(OpAt(w, i)) = L} IN
    IF P = {} THEN ParseRange(w, lo, hi, L + 1)
    ELSE LET ps == SortedSeq(P)
             n == Len(ps)
             first == ParseRange(w, lo, ps[1] - 1, L + 1)
             subs == [j \in 1..n |-> ParseRange(w, ps[j], IF j = n THEN hi ELSE ps[j + 1] - 1, L + 1)]
             ops == [j \in 1..n |-> OpAt(w, ps[j])]
         IN IF L = 2 /\ n > 1 THEN RejectT                           \* comparisons do not chain
            ELSE IF L = 1 /\ Cardinality({ops[j] : j \in 1..n}) > 1 THEN RejectT   \* && and || do not mix
            ELSE IF first.k = "reject" \/ \E j \in 1..n : subs[j].k = "reject" THEN RejectT
            ELSE FoldLeft(w, first, subs, ops)

Parse(w) == ParseRange(w, 0, NumOperands(w) - 1, 1)

-----------------------------------------------------------------------------
(* fully parenthesised spelling: tokens "(" ")" operator symbols and "$j"   *)
LeafName(j) == CASE j = 0 -> "$0" [] j = 1 -> "$1" [] j = 2 -> "$2" [] j = 3 -> "$3" [] j = 4 -> "$4"
                 [] j = 5 -> "$5" [] j = 6 -> "$6" [] j = 7 -> "$7" [] j = 8 -> "$8" [] j = 9 -> "$9"
                 [] j = 10 -> "$10" [] j = 11 -> "$11" [] j = 12 -> "$12"
RECURSIVE Paren(_)
Paren(t) ==
  CASE t.k = "leaf" -> <<LeafName(t.i)>>
    [] t.k = "un"   -> <<"(", t.op>> \o Paren(t.e) \o <<")">>
    [] t.k = "bin"  -> <<"(">> \o Paren(t.l) \o <<t.op>> \o Paren(t.r) \o <<")">>

(* the flat token sequence of w itself *)
RECURSIVE FlatFrom(_, _, _)
FlatFrom(w, i, j) ==
  IF i > Len(w) THEN <<LeafName(j)>>
  ELSE IF w[i] \in BinOps THEN <<LeafName(j), w[i]>> \o FlatFrom(w, i + 1, j + 1)
  ELSE <<w[i]>> \o FlatFrom(w, i + 1, j)
Flat(w) == FlatFrom(w, 1, 0)

-----------------------------------------------------------------------------
(* typing with integer and boolean operands *)
RECURSIVE CanBe(_, _)
CanBe(t, ty) ==
  CASE t.k = "leaf" -> TRUE
    [] t.k = "un" -> IF t.op = "neg" THEN ty = "int" /\ CanBe(t.e, "int")
                     ELSE ty = "bool" /\ CanBe(t.e, "bool")
    [] t.k = "bin" ->
         IF t.op \in AddSub \cup MulDiv THEN ty = "int" /\ CanBe(t.l, "int") /\ CanBe(t.r, "int")
         ELSE IF t.op \in {"lt", "le", "gt", "ge"} THEN ty = "bool" /\ CanBe(t.l, "int") /\ CanBe(t.r, "int")
         ELSE IF t.op \in {"eq", "ne"}
              THEN ty = "bool" /\ (\/ CanBe(t.l, "int") /\ CanBe(t.r, "int")
                                   \/ CanBe(t.l, "bool") /\ CanBe(t.r, "bool"))
         ELSE ty = "bool" /\ CanBe(t.l, "bool") /\ CanBe(t.r, "bool")

TypeOf(t) == IF CanBe(t, "int") THEN "int" ELSE IF CanBe(t, "bool") THEN "bool" ELSE "none"

(* operand types that make t have type ty (integers preferred for == / !=): *)
(* set of <<operand index, type>>                                           *)
RECURSIVE Assign(_, _)
Assign(t, ty) ==
  CASE t.k = "leaf" -> {<<t.i, ty>>}
    [] t.k = "un" -> Assign(t.e, ty)
    [] t.k = "bin" ->
         IF t.op \in AddSub \cup MulDiv \cup {"lt", "le", "gt", "ge"} THEN Assign(t.l, "int") \cup Assign(t.r, "int")
         ELSE IF t.op \in {"eq", "ne"}
              THEN (IF CanBe(t.l, "int") /\ CanBe(t.r, "int")
                    THEN Assign(t.l, "int") \cup Assign(t.r, "int")
                    ELSE Assign(t.l, "bool") \cup Assign(t.r, "bool"))
         ELSE Assign(t.l, "bool") \cup Assign(t.r, "bool")

LeafTypes(t, n) ==
  LET a == Assign(t, TypeOf(t)) IN [j \in 1..n |-> (CHOOSE p \in a : p[1] = j - 1)[2]]

(* does t have type ty when the operands have the given types (1-based sequence)? *)
RECURSIVE HasType(_, _, _)
HasType(t, lt, ty) ==
  CASE t.k = "leaf" -> lt[t.i + 1] = ty
    [] t.k = "un" -> IF t.op = "neg" THEN ty = "int" /\ HasType(t.e, lt, "int")
                     ELSE ty = "bool" /\ HasType(t.e, lt, "bool")
    [] t.k = "bin" ->
         IF t.op \in AddSub \cup MulDiv THEN ty = "int" /\ HasType(t.l, lt, "int") /\ HasType(t.r, lt, "int")
         ELSE IF t.op \in {"lt", "le", "gt", "ge"} THEN ty = "bool" /\ HasType(t.l, lt, "int") /\ HasType(t.r, lt, "int")
         ELSE IF t.op \in {"eq", "ne"}
              THEN ty = "bool" /\ (\/ HasType(t.l, lt, "int") /\ HasType(t.r, lt, "int")
                                   \/ HasType(t.l, lt, "bool") /\ HasType(t.r, lt, "bool"))
         ELSE ty = "bool" /\ HasType(t.l, lt, "bool") /\ HasType(t.r, lt, "bool")

-----------------------------------------------------------------------------
(* evaluation: operand j has the integer value vals[j+1]; used as a boolean *)
(* it is vals[j+1] > 0.  Division truncates towards zero, the remainder has *)
(* the sign of the dividend (operands are never zero).                      *)
Abs(x) == IF x < 0 THEN 0 - x ELSE x
TDiv(a, b) == IF b = 0 THEN 0
              ELSE IF (a < 0) = (b < 0) THEN Abs(a) \div Abs(b) ELSE 0 - (Abs(a) \div Abs(b))
TRem(a, b) == a - b * TDiv(a, b)

RECURSIVE Eval(_, _, _)
Eval(t, lt, vals) ==
  CASE t.k = "leaf" -> IF lt[t.i + 1] = "int" THEN vals[t.i + 1] ELSE vals[t.i + 1] > 0
    [] t.k = "un" -> IF t.op = "neg" THEN 0 - Eval(t.e, lt, vals) ELSE ~Eval(t.e, lt, vals)
    [] t.k = "bin" ->
         LET a == Eval(t.l, lt, vals) b == Eval(t.r, lt, vals) IN
         CASE t.op = "add" -> a + b [] t.op = "sub" -> a - b [] t.op = "mul" -> a * b
           [] t.op = "div" -> TDiv(a, b) [] t.op = "mod" -> TRem(a, b)
           [] t.op = "lt" -> a < b [] t.op = "le" -> a <= b [] t.op = "gt" -> a > b [] t.op = "ge" -> a >= b
           [] t.op = "eq" -> a = b [] t.op = "ne" -> a # b
           [] t.op = "and" -> a /\ b [] t.op = "or" -> a \/ b

(* result as a record that survives JSON: [t |-> "int", neg, abs] / [t |-> "bool", b] *)
Result(t, lt, vals) ==
  IF HasType(t, lt, "int")
  THEN LET v == Eval(t, lt, vals) IN [t |-> "int", neg |-> v < 0, abs |-> Abs(v)]
  ELSE [t |-> "bool", b |-> Eval(t, lt, vals)]
-----------------------------------------------------------------------------
(* Prefix operators against postfix suffixes (manual / parser grammar:      *)
(*     Negation ::= ('!' | '-')* Access      Access ::= Atom Suffix*        *)
(* so a prefix operator applies to the whole access expression:             *)
(* -2.0f64.pow(2.0) is -(2.0f64.pow(2.0)) = -4, not (-2.0f64).pow(2.0)).    *)
(*                                                                          *)
(*   px = [pre |-> sequence of "neg"/"not", atom |-> atom name,             *)
(*         post |-> sequence of suffix names, ctx |-> binary context]       *)
(*   text = pre atom post  inside  `10 - _`, `10 * _`, `_ - 10`, ...        *)
(* Values are typed dyadic rationals [ty, n, d] (n/d, d a power of two);    *)
(* for booleans n is 0/1, for strings n says whether the text contains "a". *)
TV(ty, n, d) == [ty |-> ty, n |-> n, d |-> d]
ErrTV == TV("err", 0, 1)       \* ill typed
AnyTV == TV("any", 0, 1)       \* not claimed
FloatTy == {"f64", "f32"}

AtomTV(a) ==
  CASE a = "lit_2p0_f64"   -> TV("f64", 2, 1)    \* 2.0f64
    [] a = "lit_1p5_f64"   -> TV("f64", 3, 2)    \* 1.5f64
    [] a = "lit_0p5_f64"   -> TV("f64", 1, 2)    \* 0.5f64
    [] a = "lit_2e0_f64"   -> TV("f64", 2, 1)    \* 2e0f64
    [] a = "lit_15em1_f64" -> TV("f64", 3, 2)    \* 15e-1f64
    [] a = "lit_2p25_f64"  -> TV("f64", 9, 4)    \* 2.25f64
    [] a = "lit_2p5_f32"   -> TV("f32", 5, 2)    \* 2.5f32
    [] a = "lit_1p5_f32"   -> TV("f32", 3, 2)    \* 1.5f32
    [] a = "lit_3_i64"     -> TV("i64", 3, 1)    \* 3i64
    [] a = "var_f"         -> TV("f64", 5, 2)    \* xf  (let xf: f64 = 2.5)
    [] a = "var_g"         -> TV("f32", 3, 2)    \* xg  (let xg: f32 = 1.5)
    [] a = "var_i"         -> TV("i64", 3, 1)    \* xi
    [] a = "var_b"         -> TV("bool", 1, 1)   \* xb  (true)
    [] a = "var_s"         -> TV("str", 1, 1)    \* xs  ("ab")
    [] a = "var_r"         -> TV("rec", 0, 1)    \* r = { x: 1.5f64, b: true, n: 3i64 }
    [] a = "var_o"         -> TV("opt", 4, 1)    \* o: i64? = Some(4)
    [] a = "paren_lit"     -> TV("f64", 3, 2)    \* (1.5f64)
    [] a = "paren_var"     -> TV("f64", 5, 2)    \* (xf)
    [] a = "paren_neg"     -> TV("f64", 0 - 3, 2)   \* (-1.5f64)
    [] a = "call_f"        -> TV("f64", 5, 2)    \* gf()
    [] a = "call_i"        -> TV("i64", 3, 1)    \* gi()
    [] a = "lit_true"      -> TV("bool", 1, 1)   \* true
    [] a = "lit_str"       -> TV("str", 1, 1)    \* "ab"
Atoms == {"lit_2p0_f64", "lit_1p5_f64", "lit_0p5_f64", "lit_2e0_f64", "lit_15em1_f64", "lit_2p25_f64", "lit_2p5_f32",
          "lit_1p5_f32", "lit_3_i64", "var_f", "var_g", "var_i", "var_b", "var_s", "var_r", "var_o", "paren_lit",
          "paren_var", "paren_neg", "call_f", "call_i", "lit_true", "lit_str"}
Suffixes == {"abs", "ceil", "floor", "round", "pow2", "sqrt", "is_nan", "to_string", "field_x", "field_b", "field_n",
             "try", "contains_a"}

FloorQ(n, d) == IF n >= 0 THEN n \div d ELSE 0 - ((0 - n + d - 1) \div d)
SqrtTV(tv) ==          \* only perfect squares of the menu are claimed
  CASE tv.n = 4 /\ tv.d = 1 -> TV(tv.ty, 2, 1) [] tv.n = 9 /\ tv.d = 4 -> TV(tv.ty, 3, 2)
    [] tv.n = 1 /\ tv.d = 4 -> TV(tv.ty, 1, 2) [] tv.n = 1 /\ tv.d = 1 -> TV(tv.ty, 1, 1)
    [] tv.n = 25 /\ tv.d = 4 -> TV(tv.ty, 5, 2) [] tv.n = 0 -> TV(tv.ty, 0, 1)
    [] OTHER -> AnyTV

ApplySuffix(tv, s) ==
  IF tv.ty \in {"err", "any"} THEN tv
  ELSE IF s \in {"abs", "ceil", "floor", "round", "pow2", "sqrt", "is_nan"}
  THEN IF tv.ty \notin FloatTy THEN ErrTV
       ELSE CASE s = "abs"   -> TV(tv.ty, Abs(tv.n), tv.d)
              [] s = "floor" -> TV(tv.ty, FloorQ(tv.n, tv.d), 1)
              [] s = "ceil"  -> TV(tv.ty, 0 - FloorQ(0 - tv.n, tv.d), 1)
              [] s = "round" -> TV(tv.ty, (IF tv.n < 0 THEN 0 - 1 ELSE 1) * ((2 * Abs(tv.n) + tv.d) \div (2 * tv.d)), 1)
              [] s = "pow2"  -> IF Abs(tv.n) <= 1000 /\ tv.d <= 1000 THEN TV(tv.ty, tv.n * tv.n, tv.d * tv.d)
                                ELSE AnyTV      \* keeps every value exact in f32 (and in TLC's integers)
              [] s = "sqrt"  -> SqrtTV(tv)
              [] s = "is_nan" -> TV("bool", 0, 1)
  ELSE IF s = "to_string"
  THEN IF tv.ty \in FloatTy \cup {"i64", "bool"}
       THEN TV("str", IF tv.ty = "bool" /\ tv.n = 0 THEN 1 ELSE 0, 1)     \* "false" contains an a
       ELSE IF tv.ty = "str" THEN AnyTV ELSE ErrTV
  ELSE IF s \in {"field_x", "field_b", "field_n"}
  THEN IF tv.ty # "rec" THEN ErrTV
       ELSE CASE s = "field_x" -> TV("f64", 3, 2) [] s = "field_b" -> TV("bool", 1, 1) [] s = "field_n" -> TV("i64", 3, 1)
  ELSE IF s = "try" THEN (IF tv.ty = "opt" THEN TV("i64", tv.n, 1) ELSE ErrTV)
  ELSE IF s = "contains_a" THEN (IF tv.ty = "str" THEN TV("bool", tv.n, 1) ELSE ErrTV)
  ELSE ErrTV

ApplyPrefix(tv, p) ==
  IF tv.ty \in {"err", "any"} THEN tv
  ELSE IF p = "neg" THEN (IF tv.ty \in FloatTy \cup {"i64"} THEN TV(tv.ty, 0 - tv.n, tv.d) ELSE ErrTV)
  ELSE (IF tv.ty = "bool" THEN TV("bool", 1 - tv.n, 1) ELSE ErrTV)

RECURSIVE ApplySuffixes(_, _)
ApplySuffixes(tv, ss) == IF ss = <<>> THEN tv ELSE ApplySuffixes(ApplySuffix(tv, Head(ss)), Tail(ss))
RECURSIVE ApplyPrefixes(_, _)      \* the innermost prefix is the last one
ApplyPrefixes(tv, ps) == IF ps = <<>> THEN tv ELSE ApplyPrefix(ApplyPrefixes(tv, Tail(ps)), Head(ps))

(* binary context: the other operand is 10 of the same type (true for booleans) *)
Contexts == {"none", "sub_r", "mul_r", "sub_l", "add_r", "lt_r", "and_r"}
ApplyCtx(tv, c) ==
  IF c = "none" \/ tv.ty \in {"err", "any"} THEN tv
  ELSE IF c = "and_r" THEN (IF tv.ty = "bool" THEN TV("bool", tv.n, 1) ELSE ErrTV)       \* true && _
  ELSE IF tv.ty \notin FloatTy \cup {"i64"} THEN ErrTV
  ELSE CASE c = "sub_r" -> TV(tv.ty, 10 * tv.d - tv.n, tv.d)       \* 10 - _
         [] c = "add_r" -> TV(tv.ty, 10 * tv.d + tv.n, tv.d)       \* 10 + _
         [] c = "sub_l" -> TV(tv.ty, tv.n - 10 * tv.d, tv.d)       \* _ - 10
         [] c = "mul_r" -> TV(tv.ty, 10 * tv.n, tv.d)              \* 10 * _
         [] c = "lt_r"  -> TV("bool", IF 10 * tv.d < tv.n THEN 1 ELSE 0, 1)   \* 10 < _

(* the grammar's reading, and the reading in which the prefix operators     *)
(* bind tighter than the suffixes (only used to tell whether a case can     *)
(* distinguish the two)                                                     *)
PxVal(px) == ApplyCtx(ApplyPrefixes(ApplySuffixes(AtomTV(px.atom), px.post), px.pre), px.ctx)
PxAlt(px) == ApplyCtx(ApplySuffixes(ApplyPrefixes(AtomTV(px.atom), px.pre), px.post), px.ctx)

PxCore(px) == ApplyPrefixes(ApplySuffixes(AtomTV(px.atom), px.post), px.pre)       \* before the binary context
PxAltCore(px) == ApplySuffixes(ApplyPrefixes(AtomTV(px.atom), px.pre), px.post)

RECURSIVE Reduce(_, _, _)          \* n/d with n # 0 as m * 2^k, m odd, from n * 2^k
Reduce(n, k, dummy) == IF n % 2 = 0 THEN Reduce(n \div 2, k + 1, dummy) ELSE [m |-> n, k |-> k]
RECURSIVE Log2(_)
Log2(d) == IF d = 1 THEN 0 ELSE 1 + Log2(d \div 2)

TVResult(tv) ==
  CASE tv.ty = "err" -> [t |-> "typeerr"]
    [] tv.ty \in FloatTy ->
         IF tv.n = 0 THEN [t |-> "float", ty |-> tv.ty, neg |-> FALSE, zero |-> TRUE, m |-> 0, k |-> 0]
         ELSE LET r == Reduce(Abs(tv.n), 0 - Log2(tv.d), 0)
              IN [t |-> "float", ty |-> tv.ty, neg |-> tv.n < 0, zero |-> FALSE, m |-> r.m, k |-> r.k]
    [] tv.ty = "i64"  -> [t |-> "int", neg |-> tv.n < 0, abs |-> Abs(tv.n)]
    [] tv.ty = "bool" -> [t |-> "bool", b |-> tv.n = 1]
    [] OTHER -> [t |-> "any"]       \* strings, records, options, unclaimed: not observed

PxWellFormed(px) ==
  /\ px.atom \in Atoms /\ px.ctx \in Contexts
  /\ \A i \in 1..Len(px.pre) : px.pre[i] \in UnOps
  /\ \A i \in 1..Len(px.post) : px.post[i] \in Suffixes
PxExpected(px) == IF PxWellFormed(px) THEN TVResult(PxVal(px)) ELSE [t |-> "any"]
(* a -0.0 cannot be told from the rational 0: such results are not claimed as negative zero *)

-----------------------------------------------------------------------------
(* Blocks in expression position.  A block { stmts; e } is an expression    *)
(* with the value of e wherever an expression may stand, whatever its first *)
(* token is; { ident: e, .. } and {} are record literals.                   *)
(*   bx = [pos |-> position, kind |-> what the block starts with,           *)
(*         wrap |-> number of additional enclosing blocks]                  *)
(* environment of the probing function: x = 5, b = true, o = Some(4)        *)
BlockKinds == {"fstr", "fstr_interp_first", "fstr_multibyte", "fstr_plain", "str", "num", "ident", "paren", "neg", "not",
               "if", "match", "nested", "let", "call", "true", "list", "record", "empty"}
BlockPositions == {"let", "arg", "operand", "arm", "ifcond", "tail", "ret", "listel", "assign", "fstr_interp"}
IntR(v) == [t |-> "int", neg |-> v < 0, abs |-> Abs(v)]
BoolR(b) == [t |-> "bool", b |-> b]
StrR(cps) == [t |-> "str", cps |-> cps]
(* value of the block's final expression *)
BlockInner(kind) ==
  CASE kind = "fstr" -> StrR(<<97, 53>>)                 \* f"a{x}"
    [] kind = "fstr_interp_first" -> StrR(<<53, 98>>)    \* f"{x}b"
    [] kind = "fstr_multibyte" -> StrR(<<233, 32, 53>>)  \* f"é {x}"
    [] kind = "fstr_plain" -> StrR(<<104, 105>>)         \* f"hi"
    [] kind = "str" -> StrR(<<97, 98>>)                  \* "ab"
    [] kind = "num" -> IntR(7)
    [] kind = "ident" -> IntR(5)                         \* x
    [] kind = "paren" -> IntR(5)                         \* (x)
    [] kind = "neg" -> IntR(0 - 5)                       \* -x
    [] kind = "not" -> BoolR(FALSE)                      \* !b
    [] kind = "if" -> IntR(1)                            \* if b { 1 } else { 2 }
    [] kind = "match" -> IntR(4)                         \* match o { Some(y) => y, None => 0 }
    [] kind = "nested" -> IntR(7)                        \* { 7 }
    [] kind = "let" -> IntR(3)                           \* let z: i64 = 3; z
    [] kind = "call" -> IntR(3)                          \* idi(3)
    [] kind = "true" -> BoolR(TRUE)
    [] kind = "list" -> IntR(2)                          \* [1, 2]   observed through .len()
    [] kind = "record" -> IntR(1)                        \* record literal { a: 1 }  observed through .a
    [] kind = "empty" -> [t |-> "unit"]                  \* {}
Scalar(kind) == kind \notin {"list", "record", "empty"}
BlockExpected(bx) ==
  IF bx.kind \notin BlockKinds \/ bx.pos \notin BlockPositions \/ bx.wrap \notin 0..8 THEN [t |-> "any"]
  ELSE LET v == BlockInner(bx.kind) IN
  CASE bx.pos \in {"arg", "arm", "tail", "ret"} -> IF Scalar(bx.kind) THEN v ELSE [t |-> "any"]
    [] bx.pos = "let" -> IF bx.kind = "empty" THEN IntR(7) ELSE v       \* let v = {}; 7
    [] bx.pos = "operand" ->                        \* 1 + _ ,  "p" + _ ,  true && _
         IF ~Scalar(bx.kind) THEN [t |-> "any"]
         ELSE IF v.t = "int" THEN IntR(1 + (IF v.neg THEN 0 - v.abs ELSE v.abs))
         ELSE IF v.t = "str" THEN StrR(<<112>> \o v.cps) ELSE BoolR(v.b)
    [] bx.pos = "ifcond" -> IntR(1)                 \* if _ == _ { 1 } else { 2 }
    [] bx.pos \in {"listel", "assign"} -> IntR(7)   \* let l = [_]; 7     let v = _; v = _; 7
    [] bx.pos = "fstr_interp" ->                    \* f"<{_}>"  (to_string of the value)
         IF v.t = "str" THEN StrR(<<60>> \o v.cps \o <<62>>) ELSE [t |-> "any"]
=============================================================================
