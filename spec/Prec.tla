-------------------------------- MODULE Prec --------------------------------
(* C09 - binary operators group by the documented precedence and            *)
(* associativity (manual: "Operators").                                     *)
(*                                                                          *)
(* An *operator string* w is a sequence over the 13 binary and 2 unary      *)
(* operator symbols.  It stands for the expression obtained by writing an   *)
(* operand after the last symbol and in front of every binary symbol:       *)
(*     <<"neg", "add", "not", "mul">>   is   - $0 + ! $1 * $2               *)
(* (a unary symbol applies to the operand that follows it).                 *)
(*                                                                          *)
(* The grammar of the manual, written as a grammar (not as the precedence   *)
(* climbing loop of src/parser/expr.rs):                                    *)
(*     Logical    ::= Comparison ("&&" Comparison)* | Comparison ("||" Comparison)*   *)
(*     Comparison ::= AddSub (("=="|"!="|"<"|"<="|">"|">=") AddSub)?        *)
(*     AddSub     ::= MulDiv (("+"|"-") MulDiv)*          left associative  *)
(*     MulDiv     ::= Unary (("*"|"/"|"%") Unary)*        left associative  *)
(*     Unary      ::= ("!"|"-")* Operand                                    *)
(* Parse(w) is the tree of that grammar or RejectT (chained comparison,     *)
(* `&&` mixed with `||`); Paren(t) its fully parenthesised token sequence;  *)
(* TypeOf / LeafTypes the typing of the tree with integer and boolean       *)
(* operands; Eval the value for given operand values.                       *)
EXTENDS Naturals, Integers, Sequences, FiniteSets, TLC

Logical == {"or", "and"}
Compare == {"eq", "ne", "lt", "le", "gt", "ge"}
AddSub  == {"add", "sub"}
MulDiv  == {"mul", "div", "mod"}
BinOps  == Logical \cup Compare \cup AddSub \cup MulDiv
UnOps   == {"neg", "not"}
OpSyms  == BinOps \cup UnOps

Level(op) == CASE op \in Logical -> 1 [] op \in Compare -> 2 [] op \in AddSub -> 3 [] op \in MulDiv -> 4

RejectT == [k |-> "reject"]
Leaf(j) == [k |-> "leaf", i |-> j]
Un(op, e) == [k |-> "un", op |-> op, e |-> e]
Bin(op, l, r) == [k |-> "bin", op |-> op, l |-> l, r |-> r]

-----------------------------------------------------------------------------
(* structure of an operator string *)
RECURSIVE BinPosFrom(_, _)
BinPosFrom(w, i) ==
  IF i > Len(w) THEN <<>>
  ELSE IF w[i] \in BinOps THEN <<i>> \o BinPosFrom(w, i + 1) ELSE BinPosFrom(w, i + 1)
BinPos(w) == BinPosFrom(w, 1)
NumOperands(w) == Len(BinPos(w)) + 1

(* the j-th binary operator (1-based) and the unary prefix of operand j (0-based) *)
OpAt(w, j) == w[BinPos(w)[j]]
UnariesOf(w, j) ==
  LET bp == BinPos(w)
      from == IF j = 0 THEN 1 ELSE bp[j] + 1
      to == IF j = Len(bp) THEN Len(w) ELSE bp[j + 1] - 1
  IN SubSeq(w, from, to)

RECURSIVE Wrap(_, _)
Wrap(us, t) == IF us = <<>> THEN t ELSE Un(Head(us), Wrap(Tail(us), t))
Atom(w, j) == Wrap(UnariesOf(w, j), Leaf(j))

RECURSIVE SortedSeq(_)
SortedSeq(S) ==
  IF S = {} THEN <<>>
  ELSE LET m == CHOOSE x \in S : \A y \in S : x <= y IN <<m>> \o SortedSeq(S \ {m})

RECURSIVE FoldLeft(_, _, _, _)
FoldLeft(w, acc, subs, ops) ==          \* ((acc ops[1] subs[1]) ops[2] subs[2]) ...
  IF subs = <<>> THEN acc
  ELSE FoldLeft(w, Bin(Head(ops), acc, Head(subs)), Tail(subs), Tail(ops))

(* operands lo..hi (operators lo+1..hi between them), all of level >= L *)
RECURSIVE ParseRange(_, _, _, _)
ParseRange(w, lo, hi, L) ==
  IF lo = hi THEN Atom(w, lo)
  ELSE LET P == {i \in (lo + 1)..hi : Level(OpAt(w, i)) = L} IN
    IF P = {} THEN ParseRange(w, lo, hi, L + 1)
    ELSE LET ps == SortedSeq(P)
             n == Len(ps)
             first == ParseRange(w, lo, ps[1] - 1, L + 1)
             subs == [j \in 1..n |-> ParseRange(w, ps[j], IF j = n THEN hi ELSE ps[j + 1] - 1, L + 1)]
             ops == [j \in 1..n |-> OpAt(w, ps[j])]
         IN IF L = 2 /\ n > 1 THEN RejectT                           \* comparisons do not chain
            ELSE IF L = 1 /\ Cardinality({ops[j] : j \in 1..n}) > 1 THEN RejectT   \* && and || do not mix
            ELSE IF first.k = "reject" \/ \E j \in 1..n : subs[j].k = "reject" THEN RejectT
            ELSE FoldLeft(w, first, subs, ops)

Parse(w) == ParseRange(w, 0, NumOperands(w) - 1, 1)

-----------------------------------------------------------------------------
(* fully parenthesised spelling: tokens "(" ")" operator symbols and "$j"   *)
LeafName(j) == CASE j = 0 -> "$0" [] j = 1 -> "$1" [] j = 2 -> "$2" [] j = 3 -> "$3" [] j = 4 -> "$4"
                 [] j = 5 -> "$5" [] j = 6 -> "$6" [] j = 7 -> "$7" [] j = 8 -> "$8" [] j = 9 -> "$9"
                 [] j = 10 -> "$10" [] j = 11 -> "$11" [] j = 12 -> "$12"
RECURSIVE Paren(_)
Paren(t) ==
  CASE t.k = "leaf" -> <<LeafName(t.i)>>
    [] t.k = "un"   -> <<"(", t.op>> \o Paren(t.e) \o <<")">>
    [] t.k = "bin"  -> <<"(">> \o Paren(t.l) \o <<t.op>> \o Paren(t.r) \o <<")">>

(* the flat token sequence of w itself *)
RECURSIVE FlatFrom(_, _, _)
FlatFrom(w, i, j) ==
  IF i > Len(w) THEN <<LeafName(j)>>
  ELSE IF w[i] \in BinOps THEN <<LeafName(j), w[i]>> \o FlatFrom(w, i + 1, j + 1)
  ELSE <<w[i]>> \o FlatFrom(w, i + 1, j)
Flat(w) == FlatFrom(w, 1, 0)

-----------------------------------------------------------------------------
(* typing with integer and boolean operands *)
RECURSIVE CanBe(_, _)
CanBe(t, ty) ==
  CASE t.k = "leaf" -> TRUE
    [] t.k = "un" -> IF t.op = "neg" THEN ty = "int" /\ CanBe(t.e, "int")
                     ELSE ty = "bool" /\ CanBe(t.e, "bool")
    [] t.k = "bin" ->
         IF t.op \in AddSub \cup MulDiv THEN ty = "int" /\ CanBe(t.l, "int") /\ CanBe(t.r, "int")
         ELSE IF t.op \in {"lt", "le", "gt", "ge"} THEN ty = "bool" /\ CanBe(t.l, "int") /\ CanBe(t.r, "int")
         ELSE IF t.op \in {"eq", "ne"}
              THEN ty = "bool" /\ (\/ CanBe(t.l, "int") /\ CanBe(t.r, "int")
                                   \/ CanBe(t.l, "bool") /\ CanBe(t.r, "bool"))
         ELSE ty = "bool" /\ CanBe(t.l, "bool") /\ CanBe(t.r, "bool")

TypeOf(t) == IF CanBe(t, "int") THEN "int" ELSE IF CanBe(t, "bool") THEN "bool" ELSE "none"

(* operand types that make t have type ty (integers preferred for == / !=): *)
(* set of <<operand index, type>>                                           *)
RECURSIVE Assign(_, _)
Assign(t, ty) ==
  CASE t.k = "leaf" -> {<<t.i, ty>>}
    [] t.k = "un" -> Assign(t.e, ty)
    [] t.k = "bin" ->
         IF t.op \in AddSub \cup MulDiv \cup {"lt", "le", "gt", "ge"} THEN Assign(t.l, "int") \cup Assign(t.r, "int")
         ELSE IF t.op \in {"eq", "ne"}
              THEN (IF CanBe(t.l, "int") /\ CanBe(t.r, "int")
                    THEN Assign(t.l, "int") \cup Assign(t.r, "int")
                    ELSE Assign(t.l, "bool") \cup Assign(t.r, "bool"))
         ELSE Assign(t.l, "bool") \cup Assign(t.r, "bool")

LeafTypes(t, n) ==
  LET a == Assign(t, TypeOf(t)) IN [j \in 1..n |-> (CHOOSE p \in a : p[1] = j - 1)[2]]

(* does t have type ty when the operands have the given types (1-based sequence)? *)
RECURSIVE HasType(_, _, _)
HasType(t, lt, ty) ==
  CASE t.k = "leaf" -> lt[t.i + 1] = ty
    [] t.k = "un" -> IF t.op = "neg" THEN ty = "int" /\ HasType(t.e, lt, "int")
                     ELSE ty = "bool" /\ HasType(t.e, lt, "bool")
    [] t.k = "bin" ->
         IF t.op \in AddSub \cup MulDiv THEN ty = "int" /\ HasType(t.l, lt, "int") /\ HasType(t.r, lt, "int")
         ELSE IF t.op \in {"lt", "le", "gt", "ge"} THEN ty = "bool" /\ HasType(t.l, lt, "int") /\ HasType(t.r, lt, "int")
         ELSE IF t.op \in {"eq", "ne"}
              THEN ty = "bool" /\ (\/ HasType(t.l, lt, "int") /\ HasType(t.r, lt, "int")
                                   \/ HasType(t.l, lt, "bool") /\ HasType(t.r, lt, "bool"))
         ELSE ty = "bool" /\ HasType(t.l, lt, "bool") /\ HasType(t.r, lt, "bool")

-----------------------------------------------------------------------------
(* evaluation: operand j has the integer value vals[j+1]; used as a boolean *)
(* it is vals[j+1] > 0.  Division truncates towards zero, the remainder has *)
(* the sign of the dividend (operands are never zero).                      *)
Abs(x) == IF x < 0 THEN 0 - x ELSE x
TDiv(a, b) == IF b = 0 THEN 0
              ELSE IF (a < 0) = (b < 0) THEN Abs(a) \div Abs(b) ELSE 0 - (Abs(a) \div Abs(b))
TRem(a, b) == a - b * TDiv(a, b)

RECURSIVE Eval(_, _, _)
Eval(t, lt, vals) ==
  CASE t.k = "leaf" -> IF lt[t.i + 1] = "int" THEN vals[t.i + 1] ELSE vals[t.i + 1] > 0
    [] t.k = "un" -> IF t.op = "neg" THEN 0 - Eval(t.e, lt, vals) ELSE ~Eval(t.e, lt, vals)
    [] t.k = "bin" ->
         LET a == Eval(t.l, lt, vals) b == Eval(t.r, lt, vals) IN
         CASE t.op = "add" -> a + b [] t.op = "sub" -> a - b [] t.op = "mul" -> a * b
           [] t.op = "div" -> TDiv(a, b) [] t.op = "mod" -> TRem(a, b)
           [] t.op = "lt" -> a < b [] t.op = "le" -> a <= b [] t.op = "gt" -> a > b [] t.op = "ge" -> a >= b
           [] t.op = "eq" -> a = b [] t.op = "ne" -> a # b
           [] t.op = "and" -> a /\ b [] t.op = "or" -> a \/ b

(* result as a record that survives JSON: [t |-> "int", neg, abs] / [t |-> "bool", b] *)
Result(t, lt, vals) ==
  IF HasType(t, lt, "int")
  THEN LET v == Eval(t, lt, vals) IN [t |-> "int", neg |-> v < 0, abs |-> Abs(v)]
  ELSE [t |-> "bool", b |-> Eval(t, lt, vals)]
=============================================================================
