SPECIFICATION MCSpec
CONSTANTS
  CodeArith = FALSE
  CodeErrTok = FALSE
  WithShebang = FALSE
  Alphabet = {"letter1", "letter2", "digit", "dquote", "f", "lbrace", "other3", "space", "dot"}
  First = {"letter1", "letter2", "digit", "dquote", "f", "lbrace", "other3", "space", "dot"}
  MaxLen = 3
  Source = "all"
INVARIANTS Inv Emit
CHECK_DEADLOCK FALSE
