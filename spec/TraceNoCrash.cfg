SPECIFICATION TraceSpec
CONSTANTS
  Dense = TRUE
INVARIANTS TypeOK DomainInv
POSTCONDITION TraceAccepted
CHECK_DEADLOCK FALSE
