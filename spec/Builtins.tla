------------------------------ MODULE Builtins ------------------------------
(***************************************************************************)
(* The documented meaning of the built-in functions and methods of roto's  *)
(* default runtime (property C17): src/runtime/basic.rs, value/string.rs,  *)
(* value/string_buf.rs and docs/source/reference/std/**.                   *)
(*                                                                         *)
(* Values                                                                  *)
(*   String      sequence of Unicode scalar values (code points)           *)
(*   char        a scalar value                                            *)
(*   Option      <<>> (None) / <<x>> (Some(x))                             *)
(*   List        sequence                                                  *)
(*   integers    (to_string only) little-endian byte sequences of the      *)
(*               type's width, two's complement                            *)
(*   floats      [cls |-> "fin", num, exp] = num * 2^exp with num odd (or  *)
(*               num = 0, exp = 0); [cls |-> "nzero"|"pinf"|"ninf"|"nan"]  *)
(*   IpAddr      [v |-> 4, b |-> 4 bytes] / [v |-> 6, b |-> 16 bytes]      *)
(*   Prefix      [addr |-> IpAddr, len |-> 0..32 / 0..128]                 *)
(*   index/count arguments: naturals; Huge stands for u64::MAX             *)
(*                                                                         *)
(* Every operator is a pure function of its arguments.  `Apply(m, a)` maps *)
(* the name of a function of the harness script (harness/src/bin/c17.rs)   *)
(* to the built-in's meaning; MCBuiltins enumerates arguments and prints   *)
(* Apply's value as the expectation, TraceBuiltins checks logged results   *)
(* against it.                                                             *)
(*                                                                         *)
(* Where roto's documentation only says "like Rust's str/f64/IpAddr" the   *)
(* operator follows the Rust standard library documentation; these points  *)
(* are marked (std) and listed in the evidence file.                       *)
(***************************************************************************)
EXTENDS Integers, Sequences, FiniteSets

Huge == 1000000
None == <<>>
Some(x) == <<x>>

(* ------------------------------------------------------------ helpers -- *)
Min(S) == CHOOSE x \in S : \A y \in S : x <= y
Max(S) == CHOOSE x \in S : \A y \in S : x >= y
Abs(n) == IF n < 0 THEN -n ELSE n
Rev(s) == [k \in 1..Len(s) |-> s[Len(s) + 1 - k]]
Sub(s, i, j) == SubSeq(s, i + 1, j)          \* 0-based, half open [i, j)
Last(s) == s[Len(s)]

RECURSIVE Flatten(_)
Flatten(ss) == IF ss = <<>> THEN <<>> ELSE Head(ss) \o Flatten(Tail(ss))

RECURSIVE Join(_, _)
Join(ss, sep) == IF ss = <<>> THEN <<>>
                 ELSE IF Len(ss) = 1 THEN ss[1]
                 ELSE ss[1] \o sep \o Join(Tail(ss), sep)

RECURSIVE IPow(_, _)
IPow(b, k) == IF k = 0 THEN 1 ELSE b * IPow(b, k - 1)
P2(k) == IPow(2, k)
RECURSIVE PowLe(_, _, _)          \* b^k <= lim, without computing b^k (b >= 1)
PowLe(b, k, lim) == IF k = 0 THEN lim >= 1 ELSE PowLe(b, k - 1, lim \div b)

(* ------------------------------------------------------------- UTF-8 -- *)
IsScalar(c) == (c >= 0 /\ c < 55296) \/ (c > 57343 /\ c <= 1114111)
Width(c) == IF c < 128 THEN 1 ELSE IF c < 2048 THEN 2 ELSE IF c < 65536 THEN 3 ELSE 4
Utf8(c) == CASE Width(c) = 1 -> <<c>>
             [] Width(c) = 2 -> <<192 + (c \div 64), 128 + (c % 64)>>
             [] Width(c) = 3 -> <<224 + (c \div 4096), 128 + ((c \div 64) % 64), 128 + (c % 64)>>
             [] Width(c) = 4 -> <<240 + (c \div 262144), 128 + ((c \div 4096) % 64),
                                  128 + ((c \div 64) % 64), 128 + (c % 64)>>
RECURSIVE ByteLen(_)
ByteLen(s) == IF s = <<>> THEN 0 ELSE Width(Head(s)) + ByteLen(Tail(s))
(* byte offset at which the k-th character (1-based) starts; k = Len+1: the end *)
Off(s, k) == ByteLen(SubSeq(s, 1, k - 1))
Bytes(s) == Flatten([k \in 1..Len(s) |-> Utf8(s[k])])

(* ---------------------------------------------- String.bytes(): bytes -- *)
BLen(s) == ByteLen(s)
(* "Get the character at byte offset idx": the character that starts there *)
BGet(s, i) == LET K == {k \in 1..Len(s) : Off(s, k) = i}
              IN IF K = {} THEN None ELSE Some(s[CHOOSE k \in K : TRUE])
BoundaryAt(s, i) == {k \in 1..(Len(s) + 1) : Off(s, k) = i}
(* None if out of bounds, start > end, or an index within a code point *)
BSlice(s, i, j) == IF i <= j /\ BoundaryAt(s, i) # {} /\ BoundaryAt(s, j) # {}
                   THEN LET ki == CHOOSE k \in BoundaryAt(s, i) : TRUE
                            kj == CHOOSE k \in BoundaryAt(s, j) : TRUE
                        IN Some(SubSeq(s, ki, kj - 1))
                   ELSE None
BList(s) == Bytes(s)

(* ---------------------------------------------- String.chars(): chars -- *)
CLen(s) == Len(s)
CGet(s, i) == IF i < Len(s) THEN Some(s[i + 1]) ELSE None
CSlice(s, i, j) == IF i <= j /\ j <= Len(s) THEN Some(Sub(s, i, j)) ELSE None
CList(s) == s

(* ---------------------------------------------- String.lines(): lines -- *)
(* (std) str::lines: lines end at "\n" or "\r\n"; terminators are not part  *)
(* of a line; a final terminator is optional; a bare "\r" is kept.          *)
NL == 10
CR == 13
RECURSIVE RawLines(_)       \* the string cut after every "\n" (terminators kept)
RawLines(s) == IF s = <<>> THEN <<>>
               ELSE LET P == {k \in 1..Len(s) : s[k] = NL}
                    IN IF P = {} THEN <<s>>
                       ELSE <<SubSeq(s, 1, Min(P))>> \o RawLines(SubSeq(s, Min(P) + 1, Len(s)))
StripEol(l) == IF l # <<>> /\ Last(l) = NL
               THEN LET m == SubSeq(l, 1, Len(l) - 1)
                    IN IF m # <<>> /\ Last(m) = CR THEN SubSeq(m, 1, Len(m) - 1) ELSE m
               ELSE l
Lines(s) == LET r == RawLines(s) IN [k \in 1..Len(r) |-> StripEol(r[k])]
LLen(s) == Len(Lines(s))
LGet(s, i) == IF i < LLen(s) THEN Some(Lines(s)[i + 1]) ELSE None
(* lines start..end-1 as one slice of the string: None if start or end is   *)
(* out of bounds (beyond the number of lines) or start > end                *)
LSlice(s, i, j) == IF i <= j /\ j <= LLen(s)
                   THEN Some(Flatten(SubSeq(RawLines(s), i + 1, j)))
                   ELSE None
LList(s) == Lines(s)

(* ------------------------------------------------- substring matching -- *)
IsAt(s, p, i) == i + Len(p) <= Len(s) /\ Sub(s, i, i + Len(p)) = p    \* p occurs at 0-based i
Contains(s, p) == \E i \in 0..Len(s) : IsAt(s, p, i)
StartsWith(s, p) == IsAt(s, p, 0)
EndsWith(s, p) == Len(p) <= Len(s) /\ IsAt(s, p, Len(s) - Len(p))
StripPrefix(s, p) == IF StartsWith(s, p) THEN Some(Sub(s, Len(p), Len(s))) ELSE None
StripSuffix(s, p) == IF EndsWith(s, p) THEN Some(Sub(s, 0, Len(s) - Len(p))) ELSE None

(* (std) successive non-overlapping matches of p in s, left to right, as     *)
(* <<start, end>> pairs; the empty pattern matches at every boundary 0..Len  *)
RECURSIVE MatchesFrom(_, _, _)
MatchesFrom(s, p, from) ==
    LET C == {i \in from..Len(s) : IsAt(s, p, i)}
    IN IF C = {} THEN <<>>
       ELSE <<<<Min(C), Min(C) + Len(p)>>>> \o MatchesFrom(s, p, Min(C) + Len(p))
Matches(s, p) == IF p = <<>> THEN [k \in 1..(Len(s) + 1) |-> <<k - 1, k - 1>>]
                 ELSE MatchesFrom(s, p, 0)

(* the pieces between the first `use` matches, then the remainder *)
Pieces(s, M, use) ==
    LET n == IF use < Len(M) THEN use ELSE Len(M)
    IN [k \in 1..(n + 1) |->
          Sub(s, IF k = 1 THEN 0 ELSE M[k - 1][2], IF k = n + 1 THEN Len(s) ELSE M[k][1])]

Split(s, p) == LET M == Matches(s, p) IN Pieces(s, M, Len(M))
(* (std) at most n items, the last one is the unsplit remainder; n = 0: no items *)
SplitN(s, n, p) == IF n = 0 THEN <<>> ELSE Pieces(s, Matches(s, p), n - 1)
(* (std) the same, searching from the end; items in order from the end *)
RSplitN(s, n, p) == LET r == SplitN(Rev(s), n, Rev(p)) IN [k \in 1..Len(r) |-> Rev(r[k])]
(* replace all (non-overlapping, left to right) matches *)
Replace(s, p, t) == Join(Split(s, p), t)

(* ------------------------------------------------ character classes ---- *)
(* (std) Unicode White_Space, as used by str::trim *)
IsWs(c) == c \in {9, 10, 11, 12, 13, 32, 133, 160, 5760, 8232, 8233, 8239, 8287, 12288}
           \/ (c >= 8192 /\ c <= 8202)
RECURSIVE TrimStart(_)
TrimStart(s) == IF s # <<>> /\ IsWs(Head(s)) THEN TrimStart(Tail(s)) ELSE s
TrimEnd(s) == Rev(TrimStart(Rev(s)))
Trim(s) == TrimEnd(TrimStart(s))

(* case mapping: ASCII and the Latin-1 letters with a one-to-one mapping;   *)
(* all other code points of KnownChar have no case                          *)
Caseless == {133, 8195, 12288, 8232, 8364, 20013, 128512, 66376, 2047, 2048, 65533}
(* Letters beyond Latin-1 with a one-to-one mapping (Unicode simple case     *)
(* mapping = what Rust's char::to_lowercase / to_uppercase give for them):   *)
(* <<code point, lower, upper>>.  The digraphs come in three forms, upper     *)
(* (DZ), TITLE (Dz: neither an upper-case nor a lower-case letter, yet both  *)
(* conversions change it) and lower (dz).                                    *)
CaseTable == { <<452, 454, 452>>, <<453, 454, 452>>, <<454, 454, 452>>,     \* U+01C4 DZ-caron, U+01C5 Dz, U+01C6 dz
               <<455, 457, 455>>, <<456, 457, 455>>, <<457, 457, 455>>,     \* LJ Lj lj
               <<497, 499, 497>>, <<498, 499, 497>>, <<499, 499, 497>>,     \* DZ Dz dz
               <<913, 945, 913>>, <<945, 945, 913>>,                         \* Greek Alpha / alpha
               <<1040, 1072, 1040>>, <<1072, 1072, 1040>> }                  \* Cyrillic A / a
InCaseTable(c) == \E e \in CaseTable : e[1] = c
CaseEntry(c) == CHOOSE e \in CaseTable : e[1] = c
KnownChar(c) == c < 128 \/ (c >= 160 /\ c <= 254 /\ c \notin {170, 181, 186, 223}) \/ c \in Caseless \/ InCaseTable(c)
Lower(c) == IF InCaseTable(c) THEN CaseEntry(c)[2]
            ELSE IF (c >= 65 /\ c <= 90) \/ (c >= 192 /\ c <= 222 /\ c # 215) THEN c + 32 ELSE c
Upper(c) == IF InCaseTable(c) THEN CaseEntry(c)[3]
            ELSE IF (c >= 97 /\ c <= 122) \/ (c >= 224 /\ c <= 254 /\ c # 247) THEN c - 32 ELSE c
Known(s) == \A k \in 1..Len(s) : KnownChar(s[k])
ToLower(s) == [k \in 1..Len(s) |-> Lower(s[k])]
ToUpper(s) == [k \in 1..Len(s) |-> Upper(s[k])]

RECURSIVE Repeat(_, _)
Repeat(s, n) == IF n = 0 THEN <<>> ELSE s \o Repeat(s, n - 1)

(* ------------------------------------------------------------ StringBuf -- *)
(* ops: [k |-> 1|3, c |-> char, s |-> _] push_char (3: through a function   *)
(* that received the buffer as argument); [k |-> 2|4, s |-> string, c |-> _] *)
(* push_string.  Result: as_string() before the first and after every op.   *)
SbPush(buf, op) == IF op.k \in {1, 3} THEN Append(buf, op.c) ELSE buf \o op.s
RECURSIVE SbSnap(_, _)
SbSnap(buf, ops) == <<buf>> \o (IF ops = <<>> THEN <<>> ELSE SbSnap(SbPush(buf, Head(ops)), Tail(ops)))
SbRun(init, ops) == SbSnap(IF init = <<>> THEN <<>> ELSE init[1], ops)

(* --------------------------------------------------- decimal rendering -- *)
RECURSIVE DecNat(_)
DecNat(n) == IF n < 10 THEN <<48 + n>> ELSE DecNat(n \div 10) \o <<48 + (n % 10)>>

(* long division of a big-endian byte string by 10: <<quotient, remainder>> *)
RECURSIVE Div10(_, _)
Div10(be, r) == IF be = <<>> THEN <<<<>>, r>>
                ELSE LET cur == r * 256 + Head(be)
                         rest == Div10(Tail(be), cur % 10)
                     IN <<<<cur \div 10>> \o rest[1], rest[2]>>
AllZero(bs) == \A k \in 1..Len(bs) : bs[k] = 0
RECURSIVE DecDigits(_)
DecDigits(be) == IF AllZero(be) THEN <<>>
                 ELSE LET d == Div10(be, 0) IN DecDigits(d[1]) \o <<48 + d[2]>>
Decimal(be) == IF AllZero(be) THEN <<48>> ELSE DecDigits(be)
RECURSIVE AddOne(_)
AddOne(lebytes) == IF lebytes = <<>> THEN <<>>
                   ELSE IF Head(lebytes) = 255 THEN <<0>> \o AddOne(Tail(lebytes))
                   ELSE <<Head(lebytes) + 1>> \o Tail(lebytes)
Negate(lebytes) == AddOne([k \in 1..Len(lebytes) |-> 255 - lebytes[k]])
(* Display of an integer given as little-endian two's complement bytes *)
IntToString(lebytes, signed) ==
    IF signed /\ Last(lebytes) >= 128 THEN <<45>> \o Decimal(Rev(Negate(lebytes)))
    ELSE Decimal(Rev(lebytes))

BoolToString(b) == IF b THEN <<116, 114, 117, 101>> ELSE <<102, 97, 108, 115, 101>>
CharToString(c) == <<c>>

(* ---------------------------------------------------------------- floats -- *)
NaN == [cls |-> "nan"]
PInf == [cls |-> "pinf"]
NInf == [cls |-> "ninf"]
NZero == [cls |-> "nzero"]
Undef == [cls |-> "undef"]       \* outside the exactly specified domain: nothing asserted
RECURSIVE Fin(_, _)
Fin(n, e) == IF n = 0 THEN [cls |-> "fin", num |-> 0, exp |-> 0]
             ELSE IF n % 2 = 0 THEN Fin(n \div 2, e + 1)
             ELSE [cls |-> "fin", num |-> n, exp |-> e]
Zero == Fin(0, 0)
One == Fin(1, 0)
IsFin(x) == x.cls = "fin"
IsZero(x) == x.cls = "nzero" \/ (IsFin(x) /\ x.num = 0)
SignNeg(x) == x.cls \in {"nzero", "ninf"} \/ (IsFin(x) /\ x.num < 0)
SignedZero(x) == IF SignNeg(x) THEN NZero ELSE Zero      \* a zero with the sign of x
IntResult(q, x) == IF q = 0 THEN SignedZero(x) ELSE Fin(q, 0)

(* largest integer <= x / smallest integer >= x / nearest, ties away from 0 *)
FFloor(x) == IF ~IsFin(x) \/ x.exp >= 0 THEN x ELSE IntResult(x.num \div P2(-x.exp), x)
FCeil(x) == IF ~IsFin(x) \/ x.exp >= 0 THEN x ELSE IntResult(-((-x.num) \div P2(-x.exp)), x)
FRound(x) == IF ~IsFin(x) \/ x.exp >= 0 THEN x
             ELSE LET k == -x.exp
                      q == (Abs(x.num) + P2(k - 1)) \div P2(k)
                  IN IntResult(IF x.num < 0 THEN -q ELSE q, x)
FAbs(x) == CASE x.cls = "nan" -> NaN
             [] x.cls \in {"pinf", "ninf"} -> PInf
             [] x.cls = "nzero" -> Zero
             [] OTHER -> [cls |-> "fin", num |-> Abs(x.num), exp |-> x.exp]
FIsNan(x) == x.cls = "nan"
FIsInfinite(x) == x.cls \in {"pinf", "ninf"}
FIsFinite(x) == x.cls \in {"fin", "nzero"}

(* square root: specified where the result is exact (IEEE 754: correctly     *)
(* rounded, so an exactly representable root must be returned)               *)
Roots(n) == {r \in 1..2048 : r * r = n}
FSqrt(x) == CASE x.cls = "nan" -> NaN
              [] x.cls = "pinf" -> PInf
              [] x.cls = "ninf" -> NaN
              [] x.cls = "nzero" -> NZero
              [] OTHER -> IF x.num = 0 THEN Zero
                          ELSE IF x.num < 0 THEN NaN
                          ELSE IF x.exp % 2 = 0 /\ Roots(x.num) # {}
                               THEN Fin(CHOOSE r \in Roots(x.num) : TRUE, x.exp \div 2)
                               ELSE Undef

(* pow: integral exponents with an exactly representable result, and the     *)
(* special cases of IEEE 754 / C99 Annex F (std)                             *)
IsOne(x) == IsFin(x) /\ x.num = 1 /\ x.exp = 0
YOdd(y) == IsFin(y) /\ y.exp = 0 /\ y.num # 0            \* odd integer
YInt(y) == IsFin(y) /\ y.exp >= 0
YNeg(y) == y.cls = "ninf" \/ (IsFin(y) /\ y.num < 0)
AbsGt1(x) == x.cls \in {"pinf", "ninf"}
             \/ (IsFin(x) /\ IF x.exp >= 0 THEN ~(Abs(x.num) = 1 /\ x.exp = 0) ELSE Abs(x.num) > P2(-x.exp))
FPow(x, y) ==
    IF IsZero(y) THEN One
    ELSE IF IsOne(x) THEN One
    ELSE IF x.cls = "nan" \/ y.cls = "nan" THEN NaN
    ELSE IF IsZero(x) THEN
         IF YNeg(y) THEN (IF YOdd(y) /\ x.cls = "nzero" THEN NInf ELSE PInf)
         ELSE (IF YOdd(y) /\ x.cls = "nzero" THEN NZero ELSE Zero)
    ELSE IF y.cls \in {"pinf", "ninf"} THEN
         IF IsFin(x) /\ x.num = -1 /\ x.exp = 0 THEN One
         ELSE IF (y.cls = "pinf") = AbsGt1(x) THEN PInf ELSE Zero
    ELSE IF x.cls = "pinf" THEN (IF YNeg(y) THEN Zero ELSE PInf)
    ELSE IF x.cls = "ninf" THEN
         IF YNeg(y) THEN (IF YOdd(y) THEN NZero ELSE Zero)
         ELSE (IF YOdd(y) THEN NInf ELSE PInf)
    ELSE IF ~YInt(y) THEN (IF x.num < 0 THEN NaN ELSE Undef)
    \* (-1)^y for a whole number y of ANY magnitude (2^31, 2^32, ..): the parity of y decides (floats are
    \* normalised: y is odd iff its exponent is 0)
    ELSE IF Abs(x.num) = 1 /\ x.exp = 0 THEN (IF YOdd(y) THEN x ELSE One)
    ELSE IF y.exp > 6 \/ Abs(y.num) > 127 THEN Undef
    ELSE LET k == y.num * P2(y.exp)
         IN \* powers of two (x = +-2^e) to any whole power, positive or negative, inside the exponent range
            IF Abs(x.num) = 1 THEN (IF Abs(x.exp * k) > 100 THEN Undef
                                    ELSE Fin(IF k % 2 = 0 THEN 1 ELSE x.num, x.exp * k))
            ELSE IF Abs(k) > 8 \/ Abs(x.exp) > 12 \/ ~PowLe(Abs(x.num), Abs(k), 1073741824) THEN Undef
            ELSE IF k > 0 THEN Fin(IPow(x.num, k), x.exp * k)
            ELSE IF Abs(x.num) = 1 THEN Fin(IPow(x.num, -k), x.exp * k)
            ELSE Undef
(* the value is exactly representable with `mant` mantissa bits *)
Fits(x, mant) == x.cls # "undef" /\ (IsFin(x) => (Abs(x.num) < P2(mant) /\ Abs(x.exp) <= 100))
FPowDefined(x, y, mant) == Fits(FPow(x, y), mant)

(* (std) Display of a float: shortest decimal that round-trips; specified    *)
(* where that is the exact decimal expansion: integers and dyadic fractions  *)
(* with few digits                                                           *)
ZeroPad(d, k) == [i \in 1..(k - Len(d)) |-> 48] \o d
FToStringDefined(x, digits) ==
    IsFin(x) => /\ x.exp <= 12 /\ x.exp >= -4
                /\ Abs(x.num) < 100000
                /\ IF x.exp >= 0 THEN Abs(x.num) * P2(x.exp) < IPow(10, digits)
                   ELSE (Abs(x.num) \div P2(-x.exp)) * IPow(10, -x.exp) + IPow(10, -x.exp) <= IPow(10, digits)
FToString(x) ==
    CASE x.cls = "nan" -> <<78, 97, 78>>
      [] x.cls = "pinf" -> <<105, 110, 102>>
      [] x.cls = "ninf" -> <<45, 105, 110, 102>>
      [] x.cls = "nzero" -> <<45, 48>>
      [] OTHER ->
         LET n == Abs(x.num)
             sign == IF x.num < 0 THEN <<45>> ELSE <<>>
         IN IF x.exp >= 0 THEN sign \o DecNat(n * P2(x.exp))
            ELSE LET k == -x.exp
                 IN sign \o DecNat(n \div P2(k)) \o <<46>> \o ZeroPad(DecNat((n % P2(k)) * IPow(5, k)), k)

(* ----------------------------------------------------- IpAddr and Prefix -- *)
IpV4(b) == [v |-> 4, b |-> b]
IpV6(b) == [v |-> 6, b |-> b]
IpIsV4(a) == a.v = 4
IpIsV6(a) == a.v = 6
IpEq(a, c) == a.v = c.v /\ a.b = c.b              \* never equal across families; all bits equal
IsMapped(a) == a.v = 6 /\ (\A k \in 1..10 : a.b[k] = 0) /\ a.b[11] = 255 /\ a.b[12] = 255
IpToCanonical(a) == IF IsMapped(a) THEN IpV4(SubSeq(a.b, 13, 16)) ELSE a
LocalhostV4 == IpV4(<<127, 0, 0, 1>>)
LocalhostV6 == IpV6([k \in 1..16 |-> IF k = 16 THEN 1 ELSE 0])

MaxPLen(a) == IF a.v = 4 THEN 32 ELSE 128
(* number of network bits in byte k (1-based) of a prefix of length n *)
Kept(k, n) == IF n >= 8 * k THEN 8 ELSE IF n <= 8 * (k - 1) THEN 0 ELSE n - 8 * (k - 1)
LowByte(byte, k, n) == (byte \div P2(8 - Kept(k, n))) * P2(8 - Kept(k, n))
HighByte(byte, k, n) == LowByte(byte, k, n) + P2(8 - Kept(k, n)) - 1
(* Prefix.new / the `/` operator: address with the host bits cleared, and the length *)
PrefixNew(a, n) == [addr |-> [v |-> a.v, b |-> [k \in 1..Len(a.b) |-> LowByte(a.b[k], k, n)]], len |-> n]
PrefixAddr(p) == p.addr
PrefixMinAddr(p) == p.addr
PrefixMaxAddr(p) == [v |-> p.addr.v, b |-> [k \in 1..Len(p.addr.b) |-> HighByte(p.addr.b[k], k, p.len)]]
PrefixLen(p) == p.len
PrefixEq(p, q) == IpEq(p.addr, q.addr) /\ p.len = q.len

(* (std) Display of addresses: dotted quad; RFC 5952 for IPv6 (lower-case hex *)
(* groups without leading zeros, the first longest run of >= 2 zero groups   *)
(* becomes "::"), IPv4-mapped addresses as ::ffff:a.b.c.d                    *)
V4ToString(b) == Join([k \in 1..4 |-> DecNat(b[k])], <<46>>)
HexDigit(d) == IF d < 10 THEN 48 + d ELSE 87 + d
RECURSIVE Hex(_)
Hex(n) == IF n < 16 THEN <<HexDigit(n)>> ELSE Hex(n \div 16) \o <<HexDigit(n % 16)>>
Groups(b) == [k \in 1..8 |-> b[2 * k - 1] * 256 + b[2 * k]]
HexGroups(g) == Join([k \in 1..Len(g) |-> Hex(g[k])], <<58>>)
(* length of the run of zero groups starting at i *)
RunLen(g, i) == IF g[i] # 0 THEN 0
                ELSE Max({l \in 1..(9 - i) : \A k \in i..(i + l - 1) : g[k] = 0})
V6ToString(b) ==
    IF IsMapped(IpV6(b)) THEN <<58, 58, 102, 102, 102, 102, 58>> \o V4ToString(SubSeq(b, 13, 16))
    ELSE LET g == Groups(b)
             best == Max({RunLen(g, i) : i \in 1..8})
         IN IF best < 2 THEN HexGroups(g)
            ELSE LET st == Min({i \in 1..8 : RunLen(g, i) = best})
                 IN HexGroups(SubSeq(g, 1, st - 1)) \o <<58, 58>> \o HexGroups(SubSeq(g, st + best, 8))
IpToString(a) == IF a.v = 4 THEN V4ToString(a.b) ELSE V6ToString(a.b)
PrefixToString(p) == IpToString(p.addr) \o <<47>> \o DecNat(p.len)
AsnToString(lebytes) == <<65, 83>> \o IntToString(lebytes, FALSE)

(* ------------------------------------------------------------- dispatch -- *)
(* index/count arguments: Huge stands for u64::MAX; every operator above     *)
(* already answers None / "everything" for it because Huge exceeds all       *)
(* lengths that occur.                                                       *)
Apply(m, a) ==
    CASE m \in {"s_append", "s_plus"} -> a[1] \o a[2]
      [] m = "s_contains" -> Contains(a[1], a[2])
      [] m = "s_starts_with" -> StartsWith(a[1], a[2])
      [] m = "s_ends_with" -> EndsWith(a[1], a[2])
      [] m = "s_to_lowercase" -> ToLower(a[1])
      [] m = "s_to_uppercase" -> ToUpper(a[1])
      [] m = "s_repeat" -> Repeat(a[1], a[2])
      [] m \in {"s_eq", "s_eqop"} -> a[1] = a[2]
      [] m = "s_neop" -> a[1] # a[2]
      [] m = "s_replace" -> Replace(a[1], a[2], a[3])
      [] m = "s_split" -> Split(a[1], a[2])
      [] m = "s_trim" -> Trim(a[1])
      [] m = "s_trim_start" -> TrimStart(a[1])
      [] m = "s_trim_end" -> TrimEnd(a[1])
      [] m = "s_strip_prefix" -> StripPrefix(a[1], a[2])
      [] m = "s_strip_suffix" -> StripSuffix(a[1], a[2])
      [] m = "s_splitn" -> SplitN(a[1], a[2], a[3])
      [] m = "s_rsplitn" -> RSplitN(a[1], a[2], a[3])
      [] m \in {"s_to_string", "s_fmt", "s_from_chars"} -> a[1]
      [] m = "l_join" -> Join(a[1], a[2])
      [] m = "b_len" -> BLen(a[1])
      [] m = "b_get" -> BGet(a[1], a[2])
      [] m = "b_slice" -> BSlice(a[1], a[2], a[3])
      [] m = "b_list" -> BList(a[1])
      [] m = "c_len" -> CLen(a[1])
      [] m = "c_get" -> CGet(a[1], a[2])
      [] m = "c_slice" -> CSlice(a[1], a[2], a[3])
      [] m = "c_list" -> CList(a[1])
      [] m = "ln_len" -> LLen(a[1])
      [] m = "ln_get" -> LGet(a[1], a[2])
      [] m = "ln_slice" -> LSlice(a[1], a[2], a[3])
      [] m = "ln_list" -> LList(a[1])
      [] m = "sb_run" -> SbRun(a[1], a[2])
      [] m \in {"ts_bool", "fm_bool"} -> BoolToString(a[1])
      [] m \in {"ts_char", "fm_char"} -> CharToString(a[1])
      [] m \in {"ts_u8", "ts_u16", "ts_u32", "ts_u64", "fm_u8", "fm_u64"} -> IntToString(a[1], FALSE)
      [] m \in {"ts_i8", "ts_i16", "ts_i32", "ts_i64", "fm_i8", "fm_i64"} -> IntToString(a[1], TRUE)
      [] m \in {"ts_f32", "ts_f64", "fm_f64"} -> FToString(a[1])
      [] m \in {"ts_ip", "fm_ip"} -> IpToString(a[1])
      [] m = "ts_prefix" -> PrefixToString(PrefixNew(a[1], a[2]))
      [] m \in {"ts_asn", "fm_asn"} -> AsnToString(a[1])
      [] m \in {"f64_pow", "f32_pow"} -> FPow(a[1], a[2])
      [] m \in {"f64_floor", "f32_floor"} -> FFloor(a[1])
      [] m \in {"f64_ceil", "f32_ceil"} -> FCeil(a[1])
      [] m \in {"f64_round", "f32_round"} -> FRound(a[1])
      [] m \in {"f64_abs", "f32_abs"} -> FAbs(a[1])
      [] m \in {"f64_sqrt", "f32_sqrt"} -> FSqrt(a[1])
      [] m \in {"f64_is_nan", "f32_is_nan"} -> FIsNan(a[1])
      [] m \in {"f64_is_infinite", "f32_is_infinite"} -> FIsInfinite(a[1])
      [] m \in {"f64_is_finite", "f32_is_finite"} -> FIsFinite(a[1])
      [] m \in {"ip_eq", "ip_eqop"} -> IpEq(a[1], a[2])
      [] m = "ip_neop" -> ~IpEq(a[1], a[2])
      [] m = "ip_is_ipv4" -> IpIsV4(a[1])
      [] m = "ip_is_ipv6" -> IpIsV6(a[1])
      [] m = "ip_to_canonical" -> IpToCanonical(a[1])
      [] m = "ip_localhostv4" -> LocalhostV4
      [] m = "ip_localhostv6" -> LocalhostV6
      [] m \in {"p_new", "p_div"} -> PrefixNew(a[1], a[2])
      [] m = "p_addr" -> PrefixAddr(PrefixNew(a[1], a[2]))
      [] m = "p_min_addr" -> PrefixMinAddr(PrefixNew(a[1], a[2]))
      [] m = "p_max_addr" -> PrefixMaxAddr(PrefixNew(a[1], a[2]))
      [] m = "p_len" -> PrefixLen(PrefixNew(a[1], a[2]))
      [] m \in {"p_eq", "p_eqop"} -> PrefixEq(PrefixNew(a[1], a[2]), PrefixNew(a[3], a[4]))
      [] m = "p_neop" -> ~PrefixEq(PrefixNew(a[1], a[2]), PrefixNew(a[3], a[4]))

(* the arguments lie in the domain on which Apply is a specification        *)
(* (case mapping known, float result exact, prefix length valid)            *)
Defined(m, a) ==
    CASE m \in {"s_to_lowercase", "s_to_uppercase"} -> Known(a[1])
      [] m \in {"f64_sqrt"} -> Fits(FSqrt(a[1]), 30)
      [] m \in {"f32_sqrt"} -> Fits(FSqrt(a[1]), 24)
      [] m = "f64_pow" -> FPowDefined(a[1], a[2], 30)
      [] m = "f32_pow" -> FPowDefined(a[1], a[2], 24)
      [] m \in {"ts_f64", "fm_f64"} -> FToStringDefined(a[1], 9)
      [] m = "ts_f32" -> FToStringDefined(a[1], 7)
      [] m \in {"ts_prefix", "p_new", "p_div", "p_addr", "p_min_addr", "p_max_addr", "p_len"} -> a[2] <= MaxPLen(a[1])
      [] m \in {"p_eq", "p_eqop", "p_neop"} -> a[2] <= MaxPLen(a[1]) /\ a[4] <= MaxPLen(a[3])
      [] OTHER -> TRUE
=============================================================================
