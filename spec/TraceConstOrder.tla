--------------------------- MODULE TraceConstOrder ---------------------------
(* I->S binding for C14.  A trace file is a concatenation of recorded       *)
(* compilations of generated scripts by the real crate, one ndjson event    *)
(* per line:                                                                *)
(*   {"op":"graph","n":..,"kind":[..],"refs":[[i,j],..],"ctx":[..]}         *)
(*        a new case starts: the dependency graph of the script that was    *)
(*        compiled (resets the ConstOrder state)                            *)
(*   {"op":"mark","k":c,"s":x}   the initialiser of constant c called the   *)
(*        host function mark(c, x), in the order the host observed          *)
(*   {"op":"compile","ok":b}     FileTree::compile returned Ok / Err        *)
(*   {"op":"call","id":f,"v":x}  function f of the package returned x       *)
(*   {"op":"get","id":c,"v":x}   a getter of constant c returned x          *)
(*   {"op":"getv","id":c,"v":[..]}  a typed getter of constant c showed     *)
(*        these leaves (ConstOrder.Flat)                                    *)
(*   {"op":"mut","id":c,"via":..,"how":..,"w":n,"v":[[..],[..]]}  a         *)
(*        function took a copy of constant c (via), modified the copy       *)
(*        (how, w) and showed the copy and a fresh read of the constant     *)
(* the graph event may carry "ty": the value types of the constants         *)
(* (absent = all i32)                                                       *)
(* The trace is accepted iff it is a behaviour of ConstOrder: mark is       *)
(* EvalConst (only when every constant it depends on was marked before,     *)
(* never twice, never in a script that has to be rejected, and with the     *)
(* argument the specification computes from the stored values), compile ok  *)
(* is Done (nothing missing), compile err is Reject (nothing evaluated),    *)
(* and every later observation equals the specified value.  Any order of    *)
(* independent constants is accepted.                                       *)
EXTENDS ConstOrder, Json, IOUtils, TLCExt

Rec == ndJsonDeserialize(IOEnv.TRACE)

VARIABLE l
tvars == <<vars, l>>

Ev == Rec[l]
IsEv(name) == l <= Len(Rec) /\ Ev.op = name /\ l' = l + 1

EmptyGraph == [n |-> 0, kind |-> <<>>, refs |-> {}, ctx |-> {}, ty |-> <<>>]
GraphOf(e) == [n    |-> e.n,
               kind |-> e.kind,
               refs |-> {e.refs[i] : i \in 1..Len(e.refs)},
               ctx  |-> {e.ctx[i] : i \in 1..Len(e.ctx)},
               ty   |-> IF "ty" \in DOMAIN e THEN e.ty ELSE [i \in 1..e.n |-> "i32"]]

TraceInit == InitState(EmptyGraph) /\ l = 1

TraceNext ==
  \/ IsEv("graph") /\ g' = GraphOf(Ev) /\ vals' = <<>> /\ order' = <<>>
                   /\ rejected' = FALSE /\ compiled' = FALSE /\ obs' = "init"
  \/ IsEv("mark") /\ EvalConst(Ev.k) /\ obs'.s = Ev.s
  \/ IsEv("compile") /\ (IF Ev.ok THEN Done ELSE Reject)
  \/ IsEv("call") /\ Call(Ev.id) /\ obs' = Ev.v
  \/ IsEv("get") /\ Get(Ev.id) /\ obs' = Ev.v
  \/ IsEv("getv") /\ GetV(Ev.id) /\ obs' = Ev.v
  \/ IsEv("mut") /\ Mut(Ev.id, Ev.via, Ev.how, Ev.w) /\ obs' = Ev.v

TraceSpec == TraceInit /\ [][TraceNext]_tvars

(* accepted iff every recorded event was matched by a ConstOrder step *)
TraceAccepted ==
  LET d == TLCGet("stats").diameter IN
  IF d - 1 = Len(Rec) THEN TRUE
  ELSE /\ PrintT(<<"UNMATCHED", ToJson([line |-> d, ev |-> Rec[d]])>>)
       /\ FALSE

TraceInv == TypeOK /\ Once /\ DepOrder /\ RejectFirst
=============================================================================
