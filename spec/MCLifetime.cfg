SPECIFICATION MCSpecInv
CONSTANTS
  Versions = {1, 2}
  Handles = {1, 2, 3}
  Closures = {1, 2}
  MaxMods = 2
  MaxGens = 2
  MaxCnt = 3
  N = 0
  InitKind = "empty"
CONSTRAINT CntBound
INVARIANTS Inv
PROPERTIES NoResurrection Isolation
CHECK_DEADLOCK FALSE
