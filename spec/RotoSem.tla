------------------------------- MODULE RotoSem -------------------------------
(***************************************************************************)
(* The meaning of Roto programs, as a definitional big-step interpreter.   *)
(*                                                                         *)
(* A program is a JSON tree (deserialised into TLA+ records/sequences).    *)
(* Eval(prog, fn, args, ins) gives the value returned by calling `fn`,     *)
(* the ordered log of host calls made meanwhile, and the final list heap.  *)
(* This module is the language as the manual states it:                    *)
(*   - fixed-width two's-complement integers that wrap (BitVec), division  *)
(*     truncating toward zero, comparisons by the signedness of the type;  *)
(*   - IEEE floats on the exact fragment (Dyadic);                         *)
(*   - strict left-to-right evaluation of operands, arguments (receiver    *)
(*     first), record fields, list elements and f-string parts; && and ||  *)
(*     short-circuit; one arm of if/match runs, guards in source order;    *)
(*     a loop condition runs once more than its body; nothing runs after   *)
(*     return / accept / reject / ? on None; `x op= e` reads x first;      *)
(*   - records, enums, options, strings are VALUES (the environment maps   *)
(*     names to values, so a copy is independent by construction); lists   *)
(*     are references into a heap shared by all copies; a for loop         *)
(*     re-reads the list on every iteration.                               *)
(* It is used by TLC both as an oracle generator (operator matrices) and   *)
(* as a trace validator (TraceSem: every recorded native execution must    *)
(* equal Eval).                                                            *)
(***************************************************************************)
EXTENDS BitVec, Dyadic, FiniteSets

Unit == "unit"
IntTys == {"i8", "u8", "i16", "u16", "i32", "u32", "i64", "u64"}
Signed(ty) == ty \in {"i8", "i16", "i32", "i64"}
Width(ty) == CASE ty \in {"i8", "u8"} -> 1 [] ty \in {"i16", "u16"} -> 2
               [] ty \in {"i32", "u32"} -> 4 [] OTHER -> 8
FloatTys == {"f32", "f64"}
MantBits(ty) == IF ty = "f32" THEN 24 ELSE 53

Str(s) == [s |-> s]
None == [v |-> "None", p |-> <<>>]
Some(x) == [v |-> "Some", p |-> <<x>>]

(* ------------------------------ operators ------------------------------ *)
UnOp(op, ty, a) ==
    CASE op = "not" -> ~a
      [] op = "neg" -> IF ty \in FloatTys THEN FNeg(a) ELSE Neg(a)

(* domain of the arithmetic operators: everything except integer division  *)
(* by zero and MIN / -1, and float results that would need rounding         *)
BinDefined(op, ty, a, b) ==
    IF ty \in IntTys /\ op \in {"div", "rem"} THEN DivDefined(Signed(ty), a, b)
    ELSE IF ty \in FloatTys /\ op = "div" THEN FDivDefined(a, b)
    ELSE TRUE

BinOp(op, ty, a, b, heap) ==
    IF ty \in IntTys THEN
        CASE op = "add" -> Add(a, b) [] op = "sub" -> Sub(a, b) [] op = "mul" -> Mul(a, b)
          [] op = "div" -> Div(Signed(ty), a, b) [] op = "rem" -> Rem(Signed(ty), a, b)
          [] op = "eq" -> a = b [] op = "ne" -> a # b
          [] op = "lt" -> Lt(Signed(ty), a, b) [] op = "le" -> Le(Signed(ty), a, b)
          [] op = "gt" -> Lt(Signed(ty), b, a) [] op = "ge" -> Le(Signed(ty), b, a)
    ELSE IF ty \in FloatTys THEN
        CASE op = "add" -> FAdd(a, b) [] op = "sub" -> FSub(a, b) [] op = "mul" -> FMul(a, b)
          [] op = "div" -> FDiv(a, b)
          [] op = "eq" -> FEq(a, b) [] op = "ne" -> ~FEq(a, b)
          [] op = "lt" -> FLt(a, b) [] op = "le" -> FLe(a, b)
          [] op = "gt" -> FLt(b, a) [] op = "ge" -> FLe(b, a)
    ELSE IF ty = "str" THEN
        CASE op = "add" -> Str(a.s \o b.s) [] op = "eq" -> a = b [] op = "ne" -> a # b
    ELSE IF ty = "list" THEN
        \* lists compare by content (a == b holds for two handles of one list too)
        CASE op = "eq" -> heap[a.ref] = heap[b.ref] [] op = "ne" -> heap[a.ref] # heap[b.ref]
    ELSE IF ty = "flist" THEN
        \* lists of floats: element by element with the float comparison (-0.0 == 0.0, NaN equals nothing);
        \* only used for two DIFFERENT lists (whether a list holding a NaN equals itself is not documented)
        LET x == heap[a.ref]  y == heap[b.ref]
            same == Len(x) = Len(y) /\ \A j \in 1..Len(x) : FEq(x[j], y[j])
        IN CASE op = "eq" -> same [] op = "ne" -> ~same
    ELSE IF ty = "char" THEN
        CASE op = "eq" -> a = b [] op = "ne" -> a # b
          [] op = "lt" -> a < b [] op = "le" -> a <= b [] op = "gt" -> a > b [] op = "ge" -> a >= b
    ELSE \* bool, unit, plain composite values: structural equality
        CASE op = "eq" -> a = b [] op = "ne" -> a # b

(* decimal rendering of integers (to_string / f-strings) *)
Digit(d) == 48 + d
RECURSIVE DecR(_, _)
DecR(a, acc) ==
    IF IsZero(a) THEN acc
    ELSE LET qr == UDivRem(a, FromNat(10, Len(a))) IN DecR(qr[1], <<Digit(qr[2][1])>> \o acc)
DecStr(ty, a) ==
    IF IsZero(a) THEN <<48>>
    ELSE IF Signed(ty) /\ Msb(a) THEN <<45>> \o DecR(Neg(a), <<>>)
    ELSE DecR(a, <<>>)
ToStr(ty, a) ==
    IF ty \in IntTys THEN DecStr(ty, a)
    ELSE IF ty = "bool" THEN (IF a THEN <<116, 114, 117, 101>> ELSE <<102, 97, 108, 115, 101>>)
    ELSE IF ty = "char" THEN <<a>>
    ELSE a.s

(* small natural number from an index value (u64 bytes); "huge" if it does not fit *)
IdxOf(a) == IF \E i \in 4..Len(a) : a[i] # 0 THEN -1 ELSE ToNat(SubSeq(a, 1, 3))

(* nested field update: path is a non-empty sequence of field names *)
RECURSIVE SetPath(_, _, _)
SetPath(val, path, new) ==
    IF path = <<>> THEN new
    ELSE [val EXCEPT ![Head(path)] = SetPath(val[Head(path)], Tail(path), new)]
RECURSIVE GetPath(_, _)
GetPath(val, path) == IF path = <<>> THEN val ELSE GetPath(val[Head(path)], Tail(path))

(* ------------------------------ evaluator ------------------------------ *)
(* state: env (a stack of scopes, innermost last, each name -> value),      *)
(*        log, heap (list id -> contents), ins                              *)
(* Scoping: every block, match arm and loop body opens a scope that ends    *)
(* with it; `let` binds in the innermost scope (shadowing any outer         *)
(* variable of the same name until the scope ends - the initialiser is      *)
(* evaluated BEFORE the new name is bound, so it still sees the outer one); *)
(* a use / assignment refers to the innermost binding of the name.          *)
V(st, v) == [st |-> st, k |-> "v", v |-> v]
R(st, v) == [st |-> st, k |-> "ret", v |-> v]
ScopeOf(env, n) == CHOOSE i \in 1..Len(env) :
                      n \in DOMAIN env[i] /\ \A j \in (i + 1)..Len(env) : n \notin DOMAIN env[j]
Lookup(env, n) == env[ScopeOf(env, n)][n]
Bind(st, n, v) == [st EXCEPT !.env[Len(st.env)] = (n :> v) @@ @]
Assign(st, n, v) == [st EXCEPT !.env[ScopeOf(st.env, n)] = (n :> v) @@ @]
Push(st, sc) == [st EXCEPT !.env = Append(@, sc)]
Pop(st) == [st EXCEPT !.env = SubSeq(@, 1, Len(@) - 1)]
NoVars == [n \in {} |-> 0]
Log(st, entry) == [st EXCEPT !.log = Append(st.log, entry)]
Fuel == 100000

RECURSIVE Ev(_, _, _), EvSeq(_, _, _, _, _), ExecSeq(_, _, _, _, _), Loop(_, _, _, _, _),
          ForLoop(_, _, _, _, _, _), Arms(_, _, _, _, _, _), FParts(_, _, _, _, _, _)

(* evaluate es[i..] left to right, collecting the values in acc *)
EvSeq(prog, es, i, st, acc) ==
    IF i > Len(es) THEN V(st, acc)
    ELSE LET r == Ev(prog, es[i], st) IN
         IF r.k # "v" THEN r ELSE EvSeq(prog, es, i + 1, r.st, Append(acc, r.v))

(* statements of a block, top to bottom; the value is discarded *)
ExecSeq(prog, ss, i, st, dummy) ==
    IF i > Len(ss) THEN V(st, Unit)
    ELSE LET r == Ev(prog, ss[i], st) IN
         IF r.k # "v" THEN r ELSE ExecSeq(prog, ss, i + 1, r.st, dummy)

Loop(prog, c, b, st, fuel) ==
    IF fuel = 0 THEN [st |-> st, k |-> "fuel", v |-> Unit]
    ELSE LET rc == Ev(prog, c, st) IN
         IF rc.k # "v" THEN rc
         ELSE IF ~rc.v THEN V(rc.st, Unit)
         ELSE LET rb == Ev(prog, b, rc.st) IN
              IF rb.k # "v" THEN rb ELSE Loop(prog, c, b, rb.st, fuel - 1)

(* for x in list: the list is re-read on every iteration *)
ForLoop(prog, n, ref, b, st, i) ==
    IF i > 10000 THEN [st |-> st, k |-> "fuel", v |-> Unit]
    ELSE IF i > Len(st.heap[ref]) THEN V(st, Unit)
    ELSE LET rb == Ev(prog, b, Push(st, n :> st.heap[ref][i])) IN
         IF rb.k # "v" THEN rb ELSE ForLoop(prog, n, ref, b, Pop(rb.st), i + 1)

(* match arms in source order; a guard is evaluated only when the pattern fits *)
Arms(prog, arms, i, val, st, dummy) ==
    IF i > Len(arms) THEN [st |-> st, k |-> "nomatch", v |-> Unit]
    ELSE LET a == arms[i] IN
         IF a.v # "_" /\ a.v # val.v THEN Arms(prog, arms, i + 1, val, st, dummy)
         ELSE
              \* the bindings of the pattern live in a scope of their own (guard and arm body)
              LET st2 == IF a.v = "_" THEN Push(st, NoVars)
                         ELSE Push(st, [n \in {a.bs[j] : j \in 1..Len(a.bs)} |->
                                           val.p[CHOOSE j \in 1..Len(a.bs) : a.bs[j] = n]])
                  body(sb) == LET rb == Ev(prog, a.b, sb) IN
                              IF rb.k # "v" THEN rb ELSE V(Pop(rb.st), rb.v) IN
              IF a.g = <<>> THEN body(st2)
              ELSE LET rg == Ev(prog, a.g[1], st2) IN
                   IF rg.k # "v" THEN rg
                   ELSE IF rg.v THEN body(rg.st)
                   ELSE Arms(prog, arms, i + 1, val, Pop(rg.st), dummy)

FParts(prog, ps, i, st, acc, dummy) ==
    IF i > Len(ps) THEN V(st, Str(acc))
    ELSE IF ps[i].k = "s" THEN FParts(prog, ps, i + 1, st, acc \o ps[i].v, dummy)
    ELSE LET r == Ev(prog, ps[i].e, st) IN
         IF r.k # "v" THEN r
         \* a value of the host type is converted by the host's to_string, called as soon as the part is evaluated
         ELSE IF ps[i].ty = "Tr"
              THEN FParts(prog, ps, i + 1, Log(r.st, <<"trstr", r.v.tr>>), acc \o <<84>> \o DecStr("u32", FromNat(r.v.tr, 4)), dummy)
         ELSE FParts(prog, ps, i + 1, r.st, acc \o ToStr(ps[i].ty, r.v), dummy)

Ev(prog, e, st) ==
    CASE e.k = "lit" -> V(st, e.v)
      \* a float literal denotes the nearest value of its type (ties to even)
      [] e.k = "flit" -> V(st, RoundTo(0, e.m, e.e, MantBits(e.ty)))
      [] e.k = "var" -> V(st, Lookup(st.env, e.n))
      \* a constant registered by the host: the registry (path -> value) is part of the program
      [] e.k = "gconst" -> V(st, prog.consts[e.p])
      \* a constant declared by the script: the value of its initialiser, which sees no variables and (in the
      \* programs of these checks) calls no host function; other constants may be used in it, in any declaration order
      [] e.k = "kconst" ->
            LET r == Ev(prog, prog.kconsts[e.n], [st EXCEPT !.env = <<NoVars>>]) IN
            IF r.k # "v" THEN r ELSE V(st, r.v)
      [] e.k = "un" ->
            LET r == Ev(prog, e.e, st) IN
            IF r.k # "v" THEN r ELSE V(r.st, UnOp(e.op, e.ty, r.v))
      [] e.k = "bin" ->
            LET l == Ev(prog, e.l, st) IN
            IF l.k # "v" THEN l
            ELSE IF e.op = "and" THEN (IF ~l.v THEN V(l.st, FALSE) ELSE Ev(prog, e.r, l.st))
            ELSE IF e.op = "or" THEN (IF l.v THEN V(l.st, TRUE) ELSE Ev(prog, e.r, l.st))
            ELSE LET r == Ev(prog, e.r, l.st) IN
                 IF r.k # "v" THEN r
                 ELSE IF ~BinDefined(e.op, e.ty, l.v, r.v) THEN [st |-> r.st, k |-> "undefined", v |-> Unit]
                 ELSE V(r.st, BinOp(e.op, e.ty, l.v, r.v, r.st.heap))
      [] e.k = "if" ->
            LET c == Ev(prog, e.c, st) IN
            IF c.k # "v" THEN c
            ELSE IF c.v THEN Ev(prog, e.t, c.st)
            ELSE IF e.e = <<>> THEN V(c.st, Unit) ELSE Ev(prog, e.e[1], c.st)
      [] e.k = "block" ->
            LET r == ExecSeq(prog, e.ss, 1, Push(st, NoVars), 0) IN
            IF r.k # "v" THEN r
            ELSE IF e.e = <<>> THEN V(Pop(r.st), Unit)
            ELSE LET r2 == Ev(prog, e.e[1], r.st) IN
                 IF r2.k # "v" THEN r2 ELSE V(Pop(r2.st), r2.v)
      [] e.k = "let" ->
            LET r == Ev(prog, e.e, st) IN
            IF r.k # "v" THEN r ELSE V(Bind(r.st, e.n, r.v), Unit)
      [] e.k = "set" ->
            LET r == Ev(prog, e.e, st) IN
            IF r.k # "v" THEN r
            ELSE V(Assign(r.st, e.p[1], SetPath(Lookup(r.st.env, e.p[1]), Tail(e.p), r.v)), Unit)
      [] e.k = "cset" ->
            \* x op= e  is  x = x op e : the target is read before e is evaluated
            LET old == GetPath(Lookup(st.env, e.p[1]), Tail(e.p))
                r == Ev(prog, e.e, st) IN
            IF r.k # "v" THEN r
            ELSE IF ~BinDefined(e.op, e.ty, old, r.v) THEN [st |-> r.st, k |-> "undefined", v |-> Unit]
            ELSE V(Assign(r.st, e.p[1], SetPath(Lookup(r.st.env, e.p[1]), Tail(e.p),
                                               BinOp(e.op, e.ty, old, r.v, r.st.heap))), Unit)
      [] e.k = "while" -> Loop(prog, e.c, e.b, st, 10000)
      [] e.k = "for" ->
            LET r == Ev(prog, e.e, st) IN
            IF r.k # "v" THEN r ELSE ForLoop(prog, e.n, r.v.ref, e.b, r.st, 1)
      [] e.k = "call" ->
            LET as == EvSeq(prog, e.args, 1, st, <<>>) IN
            IF as.k # "v" THEN as
            ELSE LET f == prog.fns[e.f]
                     inner == [as.st EXCEPT !.env = << [n \in {f.ps[j] : j \in 1..Len(f.ps)} |->
                                                          as.v[CHOOSE j \in 1..Len(f.ps) : f.ps[j] = n]] >>]
                     r == Ev(prog, f.b, inner) IN
                 IF r.k \notin {"v", "ret"} THEN r
                 ELSE V([r.st EXCEPT !.env = as.st.env], r.v)
      [] e.k = "host" ->
            LET as == EvSeq(prog, e.args, 1, st, <<>>) IN
            IF as.k # "v" THEN as
            ELSE (CASE e.f = "emit" -> V(Log(as.st, <<"emit", e.tag, as.v[1]>>), as.v[1])
                   [] e.f = "in"   -> V(Log(as.st, <<"in", e.tag>>), as.st.ins[e.tag + 1])
                   [] e.f = "mk"   -> V(Log(as.st, <<"mk", e.tag>>), [tr |-> e.tag])
                   [] e.f = "use"  -> V(Log(as.st, <<"use", as.v[1].tr>>), Unit)
                   [] e.f = "optif" -> V(Log(as.st, <<"optif", e.tag>>), IF as.v[1] THEN Some(as.v[2]) ELSE None)
                   \* a registered METHOD `recv.selm(tag, y)`: the receiver is the first operand (evaluated before y)
                   [] e.f = "sel"  -> V(Log(as.st, <<"sel", e.tag, as.v[1], as.v[2]>>), as.v[1])
                   [] e.f = "tick" -> V(Log(as.st, <<"tick", e.tag>>), Unit))
      [] e.k = "ret" ->
            IF e.e = <<>> THEN R(st, Unit)
            ELSE LET r == Ev(prog, e.e[1], st) IN IF r.k # "v" THEN r ELSE R(r.st, r.v)
      [] e.k = "rec" ->
            LET fs == EvSeq(prog, [j \in 1..Len(e.fs) |-> e.fs[j][2]], 1, st, <<>>) IN
            IF fs.k # "v" THEN fs
            ELSE V(fs.st, [n \in {e.fs[j][1] : j \in 1..Len(e.fs)} |->
                              fs.v[CHOOSE j \in 1..Len(e.fs) : e.fs[j][1] = n]])
      [] e.k = "field" ->
            LET r == Ev(prog, e.e, st) IN IF r.k # "v" THEN r ELSE V(r.st, r.v[e.f])
      [] e.k = "ctor" ->
            LET as == EvSeq(prog, e.args, 1, st, <<>>) IN
            IF as.k # "v" THEN as ELSE V(as.st, [v |-> e.v, p |-> as.v])
      [] e.k = "match" ->
            LET r == Ev(prog, e.e, st) IN
            IF r.k # "v" THEN r ELSE Arms(prog, e.arms, 1, r.v, r.st, 0)
      [] e.k = "try" ->
            LET r == Ev(prog, e.e, st) IN
            IF r.k # "v" THEN r
            ELSE IF r.v.v = "None" THEN R(r.st, None) ELSE V(r.st, r.v.p[1])
      [] e.k = "list" ->
            LET es == EvSeq(prog, e.es, 1, st, <<>>) IN
            IF es.k # "v" THEN es
            ELSE V([es.st EXCEPT !.heap = Append(@, es.v)], [ref |-> Len(es.st.heap) + 1])
      [] e.k = "lcall" ->
            \* receiver first, then the arguments
            LET rr == Ev(prog, e.r, st) IN
            IF rr.k # "v" THEN rr
            ELSE LET as == EvSeq(prog, e.args, 1, rr.st, <<>>) IN
                 IF as.k # "v" THEN as
                 ELSE LET id == rr.v.ref
                          h == as.st.heap
                          s == h[id] IN
                     (CASE e.m = "push" -> V([as.st EXCEPT !.heap[id] = Append(@, as.v[1])], Unit)
                        [] e.m = "get" -> LET i == IdxOf(as.v[1]) IN
                                          V(as.st, IF i >= 0 /\ i < Len(s) THEN Some(s[i + 1]) ELSE None)
                        [] e.m = "len" -> V(as.st, FromNat(Len(s), 8))
                        [] e.m = "is_empty" -> V(as.st, Len(s) = 0)
                        [] e.m = "contains" ->
                              V(as.st, IF "ety" \in DOMAIN e /\ e.ety \in FloatTys
                                       THEN \E j \in 1..Len(s) : FEq(s[j], as.v[1])
                                       ELSE \E j \in 1..Len(s) : s[j] = as.v[1])
                        [] e.m = "concat" ->
                              V([as.st EXCEPT !.heap = Append(@, s \o h[as.v[1].ref])], [ref |-> Len(h) + 1])
                        [] e.m = "swap" ->
                              LET i == IdxOf(as.v[1])  j == IdxOf(as.v[2]) IN
                              IF i < 0 \/ j < 0 \/ i >= Len(s) \/ j >= Len(s) THEN V(as.st, Unit)
                              ELSE V([as.st EXCEPT !.heap[id] =
                                        [k \in 1..Len(s) |-> IF k = i + 1 THEN s[j + 1]
                                                             ELSE IF k = j + 1 THEN s[i + 1] ELSE s[k]]], Unit))
      [] e.k = "fstr" -> FParts(prog, e.ps, 1, st, <<>>, 0)
      [] e.k = "tostr" ->
            LET r == Ev(prog, e.e, st) IN IF r.k # "v" THEN r ELSE V(r.st, Str(ToStr(e.ty, r.v)))

(* the observable outcome of calling fn(args) with host inputs ins *)
Eval(prog, fn, args, ins) ==
    LET f == prog.fns[fn]
        st0 == [env |-> << [n \in {f.ps[j] : j \in 1..Len(f.ps)} |-> args[CHOOSE j \in 1..Len(f.ps) : f.ps[j] = n]] >>,
                log |-> <<>>, heap |-> <<>>, ins |-> ins]
        r == Ev(prog, f.b, st0) IN
    [k |-> IF r.k \in {"v", "ret"} THEN "ok" ELSE r.k, v |-> r.v, log |-> r.st.log, heap |-> r.st.heap]
=============================================================================
