------------------------------- MODULE MirOwn -------------------------------
(***************************************************************************)
(* Ownership discipline of the MIR that roto's compiler emits (C03).        *)
(*                                                                         *)
(* The CONSTANT program is not written by hand: it is the MIR control-flow  *)
(* graph of real compiled functions, exported by the cfg-guarded hook       *)
(* roto::verif::mir_json (blocks keyed by label, instructions, variables    *)
(* with their type trees; leaves are marked droppable for String, List and  *)
(* #[clone] host types).  TLC explores EVERY path through each function:    *)
(* a Switch is a nondeterministic choice (refined by what is known about    *)
(* the discriminant), loops close because the abstract state is finite.     *)
(*                                                                         *)
(* State: which function, which instruction of which block is about to run, *)
(* and for every variable an abstract ownership value                       *)
(*    L(init)               a leaf: initialised or not                      *)
(*    R(fields)             a record, field by field                        *)
(*    EU                    an enum that holds nothing (uninitialised)      *)
(*    EI(variant | "?")     a fully initialised enum                        *)
(*    EC(variant, fields)   an enum under construction / partially moved    *)
(* Conventions of mir/lower.rs: Move and call arguments CONSUME droppable   *)
(* values (the callee drops them); Clone / Call / Const PRODUCE into the    *)
(* target; an assignment to a projection fills that part; Drop releases the *)
(* place; Return consumes the returned variable.                            *)
(*                                                                         *)
(* Violations (each is a way to drop twice, never, or something that does   *)
(* not exist):                                                              *)
(*   use-uninit / clone-uninit / discr-uninit : reading a value that is not *)
(*        (fully) initialised on this path (use after move / drop)          *)
(*   drop-uninit / drop-partial : dropping a value that is not (fully)      *)
(*        initialised on this path (double drop, half-built aggregate)      *)
(*   overwrite-live : producing into a place that still owns something      *)
(*        (leak; e.g. loop-condition temporaries re-assigned every turn)    *)
(*   leak-at-return : something droppable is still owned when returning     *)
(***************************************************************************)
EXTENDS Naturals, Sequences, SequencesExt, FiniteSets, TLC, Json, IOUtils

Fns == ndJsonDeserialize(IOEnv.MIR)       \* one JSON object per function

VARIABLES fn, lbl, pc, own, discr
vars == <<fn, lbl, pc, own, discr>>

(* ------------------------------ type trees ------------------------------ *)
RECURSIVE TyDrop(_)
TyDrop(ty) ==
    CASE ty.k = "record" -> \E i \in 1..Len(ty.fields) : TyDrop(ty.fields[i].t)
      [] ty.k = "enum" -> \E i \in 1..Len(ty.variants) :
                             \E j \in 1..Len(ty.variants[i].fields) : TyDrop(ty.variants[i].fields[j])
      [] ty.k = "leaf" -> ty.drop
      [] OTHER -> FALSE

Variant(ty, name) == ty.variants[CHOOSE i \in 1..Len(ty.variants) : ty.variants[i].n = name]
VariantNames(ty) == [i \in 1..Len(ty.variants) |-> ty.variants[i].n]

L(b)  == [a |-> "L", i |-> b]
EU    == [a |-> "EU"]
EI(v) == [a |-> "EI", v |-> v]
EC(v, fs) == [a |-> "EC", v |-> v, fs |-> fs]
BAD   == [a |-> "BAD"]

RECURSIVE Uninit(_), FullInit(_)
Uninit(ty) == IF ty.k = "record" THEN [a |-> "R", fs |-> [i \in 1..Len(ty.fields) |-> Uninit(ty.fields[i].t)]]
              ELSE IF ty.k = "enum" THEN EU ELSE L(FALSE)
FullInit(ty) == IF ty.k = "record" THEN [a |-> "R", fs |-> [i \in 1..Len(ty.fields) |-> FullInit(ty.fields[i].t)]]
                ELSE IF ty.k = "enum" THEN EI("?") ELSE L(TRUE)

(* does the value own something that needs a drop? *)
RECURSIVE Holds(_, _)
Holds(x, ty) ==
    CASE x.a = "L" -> x.i /\ ty.k = "leaf" /\ ty.drop
      [] x.a = "R" -> \E i \in 1..Len(x.fs) : Holds(x.fs[i], ty.fields[i].t)
      [] x.a = "EU" -> FALSE
      [] x.a = "EI" -> IF x.v = "?" THEN TyDrop(ty)
                       ELSE \E j \in 1..Len(Variant(ty, x.v).fields) : TyDrop(Variant(ty, x.v).fields[j])
      [] x.a = "EC" -> \E j \in 1..Len(x.fs) : Holds(x.fs[j], Variant(ty, x.v).fields[j])
      [] OTHER -> FALSE

RECURSIVE IsFull(_, _)
IsFull(x, ty) ==
    CASE x.a = "L" -> x.i \/ ty.k \in {"unit", "never"}
      [] x.a = "R" -> \A i \in 1..Len(x.fs) : IsFull(x.fs[i], ty.fields[i].t)
      [] x.a = "EU" -> FALSE
      [] x.a = "EI" -> TRUE
      [] x.a = "EC" -> \A j \in 1..Len(x.fs) : IsFull(x.fs[j], Variant(ty, x.v).fields[j])
      [] OTHER -> FALSE

RECURSIVE AnyInit(_)
AnyInit(x) == CASE x.a = "L" -> x.i
                [] x.a = "R" -> \E i \in 1..Len(x.fs) : AnyInit(x.fs[i])
                [] x.a = "EU" -> FALSE
                [] OTHER -> TRUE

Normalize(x, ty) == IF x.a = "EC" /\ (\A j \in 1..Len(x.fs) : IsFull(x.fs[j], Variant(ty, x.v).fields[j]))
                    THEN EI(x.v) ELSE x

FieldIdx(ty, name) == CHOOSE i \in 1..Len(ty.fields) : ty.fields[i].n = name

(* abstract value and type at a projection; <<value, type>> *)
RECURSIVE Get(_, _, _)
Get(x, ty, proj) ==
    IF proj = <<>> THEN <<x, ty>>
    ELSE LET p == Head(proj) IN
         IF p.pk = "f"
         THEN LET i == FieldIdx(ty, p.f) IN Get(x.fs[i], ty.fields[i].t, Tail(proj))
         ELSE LET ft == Variant(ty, p.v).fields[p.i] IN
              IF x.a = "EI" THEN Get(FullInit(ft), ft, Tail(proj))     \* guarded by a switch on the discriminant
              ELSE IF x.a = "EC" /\ x.v = p.v THEN Get(x.fs[p.i], ft, Tail(proj))
              ELSE Get(Uninit(ft), ft, Tail(proj))

RECURSIVE Put(_, _, _, _)
Put(x, ty, proj, new) ==
    IF proj = <<>> THEN new
    ELSE LET p == Head(proj) IN
         IF p.pk = "f"
         THEN LET i == FieldIdx(ty, p.f) IN
              LET sub == Put(x.fs[i], ty.fields[i].t, Tail(proj), new) IN
              IF sub.a = "BAD" THEN BAD ELSE [x EXCEPT !.fs[i] = sub]
         ELSE LET v == Variant(ty, p.v) IN
              IF x.a = "EC" /\ x.v = p.v
              THEN LET sub == Put(x.fs[p.i], v.fields[p.i], Tail(proj), new) IN
                   IF sub.a = "BAD" THEN BAD ELSE Normalize([x EXCEPT !.fs[p.i] = sub], ty)
              ELSE IF x.a = "EI" /\ x.v \in {p.v, "?"}
              THEN LET full == [j \in 1..Len(v.fields) |-> FullInit(v.fields[j])]
                       sub == Put(full[p.i], v.fields[p.i], Tail(proj), new) IN
                   IF sub.a = "BAD" THEN BAD ELSE Normalize(EC(p.v, [full EXCEPT ![p.i] = sub]), ty)
              ELSE BAD

(* --------------------------- executing a block --------------------------- *)
F == Fns[fn]
VT(v) == F.vt[v]                         \* type tree of a variable (completed by the exporter)
Block(l) == F.blocks[CHOOSE i \in 1..Len(F.blocks) : F.blocks[i].label = l].ins

ProjStr(proj) == proj

(* s = [own, discr, viols]; viols is a set of <<kind, variable, detail>> *)
Viol(s, k, v, d) == [s EXCEPT !.viols = @ \cup {<<k, v, d>>}]
(* Only variables whose type can own something droppable are tracked: the   *)
(* others cannot be released twice or leaked, and leaving them out keeps    *)
(* the state space small.                                                   *)
Tracked(s, v) == v \in DOMAIN s.own
NeedFull(s, v, what) ==
    IF Tracked(s, v) /\ ~IsFull(s.own[v], VT(v)) THEN Viol(s, "use-uninit", v, what) ELSE s
Consume(s, v) == IF Tracked(s, v) THEN [s EXCEPT !.own[v] = Uninit(VT(v))] ELSE s

RECURSIVE ConsumeArgs(_, _, _)
ConsumeArgs(s, args, i) ==
    IF i > Len(args) THEN s
    ELSE ConsumeArgs((Consume(NeedFull(s, args[i], "arg"), args[i])), args, i + 1)

(* effect of the value on the state, and the abstract value produced *)
ValEffect(s, ins) ==
    LET val == ins.val
        full == FullInit(ins.ty) IN
    CASE val.k = "clone" ->
            IF ~Tracked(s, val.place.var) THEN [s |-> s, new |-> full]
            ELSE LET g == Get(s.own[val.place.var], VT(val.place.var), val.place.proj) IN
                 IF IsFull(g[1], g[2]) THEN [s |-> s, new |-> g[1]]
                 ELSE [s |-> Viol(s, "clone-uninit", val.place.var, "clone"), new |-> full]
      [] val.k = "move" ->
            IF ~Tracked(s, val.var) THEN [s |-> s, new |-> full]
            ELSE LET s1 == NeedFull(s, val.var, "move") IN
                 [s |-> Consume(s1, val.var),
                  new |-> IF IsFull(s.own[val.var], VT(val.var)) THEN s.own[val.var] ELSE full]
      [] val.k = "discr" ->
            [s |-> IF Tracked(s, val.var) /\ s.own[val.var].a = "EU"
                   THEN Viol(s, "discr-uninit", val.var, "discriminant") ELSE s, new |-> full]
      [] val.k = "un" -> [s |-> NeedFull(s, val.var, "unop"), new |-> full]
      [] val.k = "bin" -> [s |-> NeedFull(NeedFull(s, val.l, "binop"), val.r, "binop"), new |-> full]
      [] val.k \in {"call", "callrt"} -> [s |-> ConsumeArgs(s, val.args, 1), new |-> full]
      [] OTHER -> [s |-> s, new |-> full]

Assign(s0, ins) ==
    LET tv == ins.to.var
        e == (ValEffect(s0, ins))
        s1 == e.s
        tracked == Tracked(s1, tv)
        cur == IF tracked THEN Get(s1.own[tv], VT(tv), ins.to.proj) ELSE <<L(FALSE), [k |-> "unit"]>>
        s2 == IF tracked /\ cur[1].a # "BAD" /\ Holds(cur[1], cur[2]) THEN Viol(s1, "overwrite-live", tv, "assign") ELSE s1
        \* what is known about discriminant temporaries
        isDiscr == ins.val.k = "discr" /\ ins.to.proj = <<>>
        d1 == [t \in DOMAIN s2.discr |->
                 IF t = tv THEN (IF isDiscr THEN ins.val.var ELSE "")
                 ELSE IF s2.discr[t] = tv /\ ~isDiscr THEN "" ELSE s2.discr[t]]
        r == IF tracked THEN Put(s2.own[tv], VT(tv), ins.to.proj, e.new) ELSE L(TRUE) IN
    IF ~tracked THEN [s2 EXCEPT !.discr = d1]
    ELSE IF r.a = "BAD" THEN [Viol(s2, "assign-variant-field-unconstructed", tv, "assign") EXCEPT !.discr = d1]
    ELSE [s2 EXCEPT !.own[tv] = r, !.discr = d1]

SetDiscr(s, ins) ==
    IF ~Tracked(s, ins.to) THEN s ELSE
    LET tv == ins.to
        s1 == IF Holds(s.own[tv], VT(tv)) THEN Viol(s, "overwrite-live", tv, "setdiscr") ELSE s
        v == Variant(VT(tv), ins.variant) IN
    [s1 EXCEPT !.own[tv] = Normalize(EC(ins.variant, [j \in 1..Len(v.fields) |-> Uninit(v.fields[j])]), VT(tv))]

DropIns(s, ins) ==
    IF ~Tracked(s, ins.place.var) THEN s ELSE
    LET sv == ins.place.var
        g == (Get(s.own[sv], VT(sv), ins.place.proj))
        s1 == IF ~IsFull(g[1], g[2]) /\ TyDrop(g[2])
              THEN Viol(s, IF AnyInit(g[1]) THEN "drop-partial" ELSE "drop-uninit", sv, "drop") ELSE s IN
    IF ~TyDrop(g[2]) THEN s1
    ELSE IF ins.place.proj = <<>> THEN [s1 EXCEPT !.own[sv] = Uninit(VT(sv))]
    ELSE LET r == Put(s1.own[sv], VT(sv), ins.place.proj, Uninit(g[2])) IN
         IF r.a = "BAD" THEN s1 ELSE [s1 EXCEPT !.own[sv] = r]

ReturnIns(s, ins) ==
    LET s1 == NeedFull(s, ins.var, "return")
        s2 == Consume(s1, ins.var)
        leaked == {v \in DOMAIN s2.own : Holds(s2.own[v], VT(v))} IN
    [s2 EXCEPT !.viols = @ \cup {<<"leak-at-return", v, "return">> : v \in leaked}]

(* successors of a switch: <<label, own>> pairs, refined by the discriminant *)
SwitchSuccs(s, t) ==
    LET ex == t.ex IN
    IF ex \in DOMAIN s.discr /\ s.discr[ex] # "" /\ s.discr[ex] \in DOMAIN s.own
    THEN LET x == s.discr[ex]
             names == VariantNames(VT(x))
             cur == s.own[x]
             open == cur.a = "EI" /\ cur.v = "?"
             feas(i) == ~(cur.a = "EI" /\ cur.v # "?" /\ cur.v # names[i + 1])
             taken == {names[t.br[j].i + 1] : j \in {j \in 1..Len(t.br) : feas(t.br[j].i)}}
             brs == {<<t.br[j].to, IF open THEN [s.own EXCEPT ![x] = EI(names[t.br[j].i + 1])] ELSE s.own>> :
                        j \in {j \in 1..Len(t.br) : feas(t.br[j].i)}}
             rest == {names[i] : i \in 1..Len(names)} \ taken
             defown == IF open /\ Cardinality(rest) = 1 THEN [s.own EXCEPT ![x] = EI(CHOOSE n \in rest : TRUE)] ELSE s.own
             defok == ~(cur.a = "EI" /\ cur.v # "?" /\ cur.v \notin rest) IN
         brs \cup (IF t.def # "" /\ defok THEN {<<t.def, defown>>} ELSE {})
    ELSE {<<t.br[j].to, s.own>> : j \in 1..Len(t.br)} \cup (IF t.def # "" THEN {<<t.def, s.own>>} ELSE {})

(* ------------------------------- behaviour ------------------------------- *)
InitOwn(f) == [v \in {x \in DOMAIN f.vt : TyDrop(f.vt[x])} |->
                 IF \E i \in 1..Len(f.params) : f.params[i] = v THEN FullInit(f.vt[v]) ELSE Uninit(f.vt[v])]

Init == /\ fn \in 1..Len(Fns)
        /\ lbl = Fns[fn].blocks[1].label
        /\ pc = 1
        /\ own = InitOwn(Fns[fn])
        /\ discr = [v \in {Fns[fn].dtmps[i] : i \in 1..Len(Fns[fn].dtmps)} |-> ""]

Report(viols) == viols # {} =>
    PrintT(<<"REPLAY", ToJson([fn |-> F.name, idx |-> F.idx, block |-> lbl, viols |-> SetToSeq(viols)])>>)

(* one instruction per step (the state variables are concrete values, so     *)
(* every step is evaluated from scratch in time linear in the state)         *)
Next ==
    /\ lbl # "<end>"
    /\ UNCHANGED fn
    /\ LET ins == Block(lbl)
           x == ins[pc]
           s == [own |-> own, discr |-> discr, viols |-> {}] IN
       IF pc > Len(ins) THEN lbl' = "<end>" /\ pc' = 1 /\ UNCHANGED <<own, discr>>
       ELSE CASE x.k \in {"assign", "setdiscr", "drop"} ->
                   LET r == IF x.k = "assign" THEN Assign(s, x)
                            ELSE IF x.k = "setdiscr" THEN SetDiscr(s, x) ELSE DropIns(s, x) IN
                   /\ Report(r.viols)
                   /\ own' = r.own /\ discr' = r.discr /\ pc' = pc + 1 /\ UNCHANGED lbl
              [] x.k = "return" ->
                   LET r == ReturnIns(s, x) IN
                   /\ Report(r.viols)
                   /\ own' = r.own /\ discr' = r.discr /\ lbl' = "<end>" /\ pc' = 1
              [] x.k = "jump" -> lbl' = x.to /\ pc' = 1 /\ UNCHANGED <<own, discr>>
              [] x.k = "switch" -> \E p \in SwitchSuccs(s, x) :
                                       lbl' = p[1] /\ own' = p[2] /\ pc' = 1 /\ UNCHANGED discr

Spec == Init /\ [][Next]_vars
=============================================================================
