------------------------------- MODULE Dyadic -------------------------------
(***************************************************************************)
(* IEEE-754 binary floating point on the fragment where arithmetic is      *)
(* EXACT: dyadic rationals (-1)^s * m * 2^e with a small odd mantissa,      *)
(* plus the special values.  TLC has no reals; results that would need     *)
(* rounding are outside this module's domain (the generators never ask     *)
(* for them), except RoundTo which implements round-to-nearest-even for    *)
(* integer mantissas (literal typing: 2^24+1 as f32).                      *)
(*                                                                         *)
(*   [c |-> "fin", s |-> 0|1, m |-> Nat, e |-> Int]   m odd, or m = 0      *)
(*   [c |-> "inf", s |-> 0|1]      [c |-> "nan"]                            *)
(***************************************************************************)
EXTENDS Naturals, Integers, TLC

FNaN == [c |-> "nan"]
FInf(s) == [c |-> "inf", s |-> s]
FZero(s) == [c |-> "fin", s |-> s, m |-> 0, e |-> 0]

RECURSIVE NormR(_, _, _)
NormR(s, m, e) == IF m = 0 THEN FZero(s)
                  ELSE IF m % 2 = 0 THEN NormR(s, m \div 2, e + 1)
                  ELSE [c |-> "fin", s |-> s, m |-> m, e |-> e]
Fin(s, m, e) == NormR(s, m, e)
FromSigned(x, e) == IF x < 0 THEN Fin(1, -x, e) ELSE Fin(0, x, e)

IsNaN(a) == a.c = "nan"
IsInf(a) == a.c = "inf"
IsFin(a) == a.c = "fin"
IsZeroF(a) == a.c = "fin" /\ a.m = 0
Xor(p, q) == IF p = q THEN 0 ELSE 1

Pow2(k) == 2 ^ k
Min(x, y) == IF x < y THEN x ELSE y
(* signed integer numerator of a at exponent e0 <= a.e *)
Num(a, e0) == (IF a.s = 1 THEN -1 ELSE 1) * a.m * Pow2(a.e - e0)

FNeg(a) == IF IsNaN(a) THEN FNaN ELSE [a EXCEPT !.s = 1 - a.s]

FAdd(a, b) ==
    IF IsNaN(a) \/ IsNaN(b) THEN FNaN
    ELSE IF IsInf(a) /\ IsInf(b) THEN (IF a.s = b.s THEN a ELSE FNaN)
    ELSE IF IsInf(a) THEN a
    ELSE IF IsInf(b) THEN b
    ELSE IF a.m = 0 /\ b.m = 0 THEN FZero(IF a.s = 1 /\ b.s = 1 THEN 1 ELSE 0)
    ELSE IF a.m = 0 THEN b
    ELSE IF b.m = 0 THEN a
    ELSE LET e0 == Min(a.e, b.e)
             x == Num(a, e0) + Num(b, e0) IN
         IF x = 0 THEN FZero(0) ELSE FromSigned(x, e0)
FSub(a, b) == FAdd(a, FNeg(b))

FMul(a, b) ==
    IF IsNaN(a) \/ IsNaN(b) THEN FNaN
    ELSE IF IsInf(a) \/ IsInf(b)
         THEN (IF IsZeroF(a) \/ IsZeroF(b) THEN FNaN ELSE FInf(Xor(a.s, b.s)))
    ELSE Fin(Xor(a.s, b.s), a.m * b.m, a.e + b.e)

(* division: exact cases only (divisor a power of two, or mantissa divides) *)
FDivExact(a, b) == IsFin(a) /\ IsFin(b) /\ b.m # 0 /\ a.m % b.m = 0
FDiv(a, b) ==
    IF IsNaN(a) \/ IsNaN(b) THEN FNaN
    ELSE IF IsInf(a) THEN (IF IsInf(b) THEN FNaN ELSE FInf(Xor(a.s, b.s)))
    ELSE IF IsInf(b) THEN FZero(Xor(a.s, b.s))
    ELSE IF b.m = 0 THEN (IF a.m = 0 THEN FNaN ELSE FInf(Xor(a.s, b.s)))
    ELSE Fin(Xor(a.s, b.s), a.m \div b.m, a.e - b.e)
FDivDefined(a, b) == ~(IsFin(a) /\ IsFin(b) /\ b.m # 0) \/ FDivExact(a, b)

(* comparisons: NaN is unordered, -0 = +0 *)
FLtFin(a, b) == LET e0 == Min(a.e, b.e) IN Num(a, e0) < Num(b, e0)
FLt(a, b) ==
    IF IsNaN(a) \/ IsNaN(b) THEN FALSE
    ELSE IF IsInf(a) THEN (a.s = 1 /\ ~(IsInf(b) /\ b.s = 1))
    ELSE IF IsInf(b) THEN b.s = 0
    ELSE FLtFin(a, b)
FEq(a, b) ==
    IF IsNaN(a) \/ IsNaN(b) THEN FALSE
    ELSE IF IsInf(a) \/ IsInf(b) THEN a = b
    ELSE IF a.m = 0 /\ b.m = 0 THEN TRUE
    ELSE a = b
FLe(a, b) == FLt(a, b) \/ FEq(a, b)

(* round an integer mantissa to p significant bits, ties to even *)
RECURSIVE BitLen(_)
BitLen(m) == IF m = 0 THEN 0 ELSE 1 + BitLen(m \div 2)
RoundTo(s, m, e, p) ==
    LET k == BitLen(m) IN
    IF k <= p THEN Fin(s, m, e)
    ELSE LET sh == k - p
             q == m \div Pow2(sh)
             r == m % Pow2(sh)
             half == Pow2(sh - 1)
             up == r > half \/ (r = half /\ q % 2 = 1) IN
         Fin(s, IF up THEN q + 1 ELSE q, e + sh)
(* exactly representable with p mantissa bits *)
Fits(a, p) == ~IsFin(a) \/ BitLen(a.m) <= p
=============================================================================
