SPECIFICATION Spec
CONSTANTS
  Threads = {1, 2}
  Bufs = {1, 2}
  MaxOps = 2
  Ops <- MCOps
  InitBuf <- MCInitBuf
  EqOrder = "address"
  AddrLess = 1
  EqHold = TRUE
  PushAtomic = TRUE
  OpKinds = {"pushc_a", "pushc_b", "pushs_a", "pushs_b", "get_a", "get_b", "eq_ab", "eq_ba", "eq_aa"}
VIEW View
INVARIANTS TypeOK MutualExclusion Linearizable
