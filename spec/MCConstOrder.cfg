SPECIFICATION MCSpec
CONSTANTS
  Fuel = 3
  Modulus = 1009
  CtxVal = 7
  N = 3
  Mode = "all"
  MaxCtx = 3
  MinEdges = 0
  MaxEdges = 0
  MaxInject = 0
INVARIANTS Inv Emit
CHECK_DEADLOCK FALSE
