SPECIFICATION MCSpec
CONSTANTS
  NumTys = {"i32", "u8", "f64"}
  Families = {"operand-bool", "operand-str", "logic-int", "cond-nonbool", "arg-count", "arg-type", "field-unknown", "field-dup", "field-drop", "field-access-unknown", "field-type", "name-undeclared", "name-out-of-scope", "match-drop-arm", "match-after-default", "match-dup-arm", "neg-unsigned", "exit-forbidden", "assign-non-local", "redeclare", "recursive-type", "recursive-const", "elem-type", "return-type", "let-type", "assign-type", "fallthrough-after-loop", "match-rename-arm", "name-sibling-scope", "recursive-member", "namesake-exit", "namesake-operand", "namesake-return", "namesake-arg", "namesake-let", "namesake-field", "namesake-shadow"}
  MaxMembers = 2
  NsNames = {"Option", "Verdict", "Result", "String", "bool", "u32", "List", "IpAddr"}
  NsTys = {"i32"}
  NsFamilies = {"namesake-exit", "namesake-operand", "namesake-return", "namesake-arg", "namesake-let", "namesake-field", "exit-forbidden", "return-type", "arg-type", "let-type", "operand-str", "cond-nonbool"}
  RenameTys = {"i32"}
  SwapMethods = {"len", "join", "contains", "to_string"}
  DivTys = {"i32"}
  DivDeepFns = {"dv1"}
INVARIANTS SeedWellTyped MutantIllTyped Emit
CHECK_DEADLOCK FALSE
