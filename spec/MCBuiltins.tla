----------------------------- MODULE MCBuiltins -----------------------------
(* Case generation for C17: every state is one argument (a string, a pair   *)
(* of strings, an operation sequence, an integer, a float, an address ..)   *)
(* of the chosen family; the invariant Emit prints, for that argument, every *)
(* call of the family together with the value Builtins.Apply specifies.     *)
(* The harness (c17.rs) executes the calls on the compiled script;          *)
(* lib/checks/c17.py compares.                                              *)
EXTENDS Builtins, Json, IOUtils, TLC

CONSTANTS Family,     \* which family of built-ins to enumerate
          Sigma,      \* alphabet (code points) of the subject strings
          MaxLen,     \* bound on the subject string / operation sequence
          NSigma,     \* alphabet of needles / separators / pushed strings
          MaxNeedle,  \* bound on their length
          Nums,       \* numeric parameter set (bytes / mantissas), family specific
          Exps        \* second numeric parameter set (magnitudes of float exponents / prefix lengths)

VARIABLE c

Strs(A, n) == UNION {[1..k -> A] : k \in 0..n}

RECURSIVE AnySeq(_)
AnySeq(S) == IF S = {} THEN <<>>
             ELSE LET x == CHOOSE y \in S : TRUE IN <<x>> \o AnySeq(S \ {x})
RECURSIVE AscSeq(_)
AscSeq(S) == IF S = {} THEN <<>> ELSE <<Min(S)>> \o AscSeq(S \ {Min(S)})

Call(m, a) == [m |-> m, a |-> a]
(* indices 0 .. n+1 and "beyond everything" *)
Idx(n) == [k \in 1..(n + 3) |-> IF k = n + 3 THEN Huge ELSE k - 1]
Pairs(I) == [k \in 1..(Len(I) * Len(I)) |-> <<I[((k - 1) \div Len(I)) + 1], I[((k - 1) % Len(I)) + 1]>>]

View(pre, s, n) ==
    LET I == Idx(n)
        P == Pairs(I)
    IN <<Call(pre \o "_len", <<s>>), Call(pre \o "_list", <<s>>)>>
       \o [k \in 1..Len(I) |-> Call(pre \o "_get", <<s, I[k]>>)]
       \o [k \in 1..Len(P) |-> Call(pre \o "_slice", <<s, P[k][1], P[k][2]>>)]

BytesCalls(s) == View("b", s, ByteLen(s))
CharsCalls(s) == View("c", s, Len(s))
                 \o <<Call("s_from_chars", <<s>>), Call("s_to_string", <<s>>), Call("s_fmt", <<s>>)>>
LinesCalls(s) == View("ln", s, LLen(s) + 1)

PatternCalls(s, p) ==
    LET N == <<0, 1, 2, 3, Len(s) + 2, Huge>>
        T == AnySeq(Strs(NSigma, 1) \cup {p \o p})
    IN <<Call("s_contains", <<s, p>>), Call("s_starts_with", <<s, p>>), Call("s_ends_with", <<s, p>>),
         Call("s_strip_prefix", <<s, p>>), Call("s_strip_suffix", <<s, p>>), Call("s_split", <<s, p>>),
         Call("s_eq", <<s, p>>), Call("s_eqop", <<s, p>>), Call("s_neop", <<s, p>>),
         Call("s_eq", <<s, s>>), Call("s_eqop", <<s, s>>), Call("s_neop", <<s, s>>),
         Call("s_append", <<s, p>>), Call("s_plus", <<s, p>>),
         Call("l_join", <<<<>>, p>>), Call("l_join", <<<<s>>, p>>), Call("l_join", <<<<s, p, s>>, p>>),
         Call("l_join", <<Split(s, p), p>>)>>
       \o [k \in 1..Len(N) |-> Call("s_splitn", <<s, N[k], p>>)]
       \o [k \in 1..Len(N) |-> Call("s_rsplitn", <<s, N[k], p>>)]
       \o [k \in 1..Len(T) |-> Call("s_replace", <<s, p, T[k]>>)]

UnaryCalls(s) ==
    <<Call("s_trim", <<s>>), Call("s_trim_start", <<s>>), Call("s_trim_end", <<s>>),
      Call("s_to_lowercase", <<s>>), Call("s_to_uppercase", <<s>>)>>
    \o [k \in 1..4 |-> Call("s_repeat", <<s, k - 1>>)]

(* StringBuf: op sequences *)
SbOps == {[k |-> kk, c |-> x, s |-> <<>>] : kk \in {1, 3}, x \in Sigma}
         \cup {[k |-> kk, c |-> 0, s |-> t] : kk \in {2, 4}, t \in Strs(NSigma, MaxNeedle)}
SbInits == {<<>>, <<<<>>>>} \cup {<<<<x, x>>>> : x \in NSigma}
SbCalls(i, ops) == <<Call("sb_run", <<i, ops>>)>>

(* integers: little-endian byte patterns *)
OneLE(w) == [k \in 1..w |-> IF k = 1 THEN 1 ELSE 0]
RECURSIVE MulAdd(_, _, _)
MulAdd(lebytes, f, carry) == IF lebytes = <<>> THEN <<>>
                             ELSE LET v == Head(lebytes) * f + carry
                                  IN <<v % 256>> \o MulAdd(Tail(lebytes), f, v \div 256)
RECURSIVE Pow10(_, _)
Pow10(k, w) == IF k = 0 THEN OneLE(w) ELSE MulAdd(Pow10(k - 1, w), 10, 0)
SubOne(lebytes) == Negate(AddOne(Negate(lebytes)))
MaxDigits(w) == CASE w = 1 -> 2 [] w = 2 -> 4 [] w = 4 -> 9 [] w = 8 -> 19
IntVals(w) ==
    {[k \in 1..w |-> x] : x \in Nums}
    \cup {[k \in 1..w |-> IF k = j THEN x ELSE 0] : j \in 1..w, x \in Nums}
    \cup {[k \in 1..w |-> IF k = j THEN x ELSE 255] : j \in 1..w, x \in Nums}
    \cup {Pow10(d, w) : d \in 0..MaxDigits(w)}
    \cup {SubOne(Pow10(d, w)) : d \in 0..MaxDigits(w)}
    \cup {Negate(Pow10(d, w)) : d \in 0..MaxDigits(w)}
    \cup {AddOne(Negate(Pow10(d, w))) : d \in 0..MaxDigits(w)}
IntTypes == {<<"u8", 1>>, <<"u16", 2>>, <<"u32", 4>>, <<"u64", 8>>,
             <<"i8", 1>>, <<"i16", 2>>, <<"i32", 4>>, <<"i64", 8>>, <<"asn", 4>>}
IntDom == UNION {{<<t[1], v>> : v \in IntVals(t[2])} : t \in IntTypes}
IntCalls(ty, v) ==
    <<Call("ts_" \o ty, <<v>>)>>
    \o (IF ty \in {"u8", "u64", "i8", "i64", "asn"} THEN <<Call("fm_" \o ty, <<v>>)>> ELSE <<>>)

(* floats *)
Specials == {NaN, PInf, NInf, NZero, Zero}
FExps == Exps \cup {-e : e \in Exps}          \* (a cfg file cannot contain negative numbers)
FloatVals == Specials \cup {Fin(n, e) : n \in Nums, e \in FExps} \cup {Fin(-n, e) : n \in Nums, e \in FExps}
             \cup {Fin(n * n, 2 * e) : n \in Nums, e \in FExps}
Float1Calls(x) ==
    LET F == <<"floor", "ceil", "round", "abs", "sqrt", "is_nan", "is_infinite", "is_finite">>
    IN [k \in 1..Len(F) |-> Call("f64_" \o F[k], <<x>>)]
       \o [k \in 1..Len(F) |-> Call("f32_" \o F[k], <<x>>)]
       \o <<Call("ts_f64", <<x>>), Call("fm_f64", <<x>>), Call("ts_f32", <<x>>)>>
PowX == Specials \cup {Fin(n, e) : n \in Nums, e \in FExps} \cup {Fin(-n, e) : n \in Nums, e \in FExps}
PowY == Specials \cup {Fin(k, 0) : k \in -5..8} \cup {Fin(1, -1), Fin(-1, -1), Fin(3, -1), Fin(-5, -2)}
        \* whole-number exponents far beyond the small ones: 2^31, 2^32, 3 * 2^30, 2^24 (even), 2^23 - 1 (odd), 16, 32, 12, 99
        \cup {Fin(1, 31), Fin(1, 32), Fin(3, 30), Fin(1, 24), Fin(-1, 31), Fin(8388607, 0), Fin(-8388607, 0),
              Fin(1, 4), Fin(-1, 4), Fin(1, 5), Fin(3, 2), Fin(99, 0), Fin(-99, 0)}
Float2Calls(x, y) == <<Call("f64_pow", <<x, y>>), Call("f32_pow", <<x, y>>)>>

(* addresses and prefixes *)
V4Vals == {IpV4(<<a, b, cc, d>>) : a \in Nums, b \in Nums, cc \in Nums, d \in Nums}
          \cup {IpV4(<<170, 85, 170, 85>>), IpV4(<<10, 1, 2, 3>>), IpV4(<<127, 0, 0, 1>>)}
V6Bits == {IpV6([k \in 1..16 |-> IF k % 2 = 0 THEN g[k \div 2] ELSE 0]) : g \in [1..8 -> {0, 1}]}
V6Special == {IpV6([k \in 1..16 |-> 255]),
              IpV6([k \in 1..16 |-> IF k % 2 = 0 THEN 85 ELSE 170]),
              IpV6(<<32, 1, 13, 184, 0, 0, 0, 0, 0, 0, 0, 0, 0, 0, 0, 1>>),
              IpV6(<<0, 0, 0, 0, 0, 0, 0, 0, 0, 0, 255, 255, 10, 1, 2, 3>>),
              IpV6(<<0, 0, 0, 0, 0, 0, 0, 0, 0, 0, 255, 255, 0, 0, 0, 0>>),
              IpV6(<<0, 0, 0, 0, 0, 0, 0, 0, 0, 0, 255, 254, 10, 1, 2, 3>>),
              IpV6(<<0, 0, 0, 0, 0, 0, 0, 0, 0, 0, 0, 0, 10, 1, 2, 3>>),
              IpV6(<<0, 1, 0, 0, 0, 0, 0, 0, 0, 0, 255, 255, 10, 1, 2, 3>>),
              IpV6(<<254, 128, 0, 0, 0, 0, 0, 0, 2, 0, 94, 255, 254, 0, 83, 9>>),
              IpV6(<<16, 0, 10, 188, 0, 15, 240, 0, 0, 9, 0, 0, 0, 0, 1, 0>>)}
IpDom == IF Family = "ip4" THEN V4Vals ELSE V6Bits \cup V6Special
PLens(a) == IF a.v = 4 THEN 0..32 ELSE IF a \in V6Special THEN 0..128 ELSE Exps
IpCalls(a) ==
    LET L == AscSeq(PLens(a))
        PM == <<"p_new", "p_div", "p_addr", "p_min_addr", "p_max_addr", "p_len", "ts_prefix">>
    IN <<Call("ip_is_ipv4", <<a>>), Call("ip_is_ipv6", <<a>>), Call("ip_to_canonical", <<a>>),
         Call("ts_ip", <<a>>), Call("fm_ip", <<a>>), Call("ip_eq", <<a, a>>), Call("ip_eqop", <<a, a>>),
         Call("ip_neop", <<a, a>>)>>
       \o [k \in 1..(Len(L) * Len(PM)) |->
             Call(PM[((k - 1) % Len(PM)) + 1], <<a, L[((k - 1) \div Len(PM)) + 1]>>)]

Ip2Addrs == {IpV4(<<10, 0, 0, 0>>), IpV4(<<10, 128, 0, 0>>), IpV4(<<10, 255, 255, 255>>), IpV4(<<11, 0, 0, 0>>),
             IpV4(<<0, 0, 0, 0>>),
             IpV6([k \in 1..16 |-> 0]),
             IpV6([k \in 1..16 |-> IF k = 1 THEN 10 ELSE 0]),
             IpV6([k \in 1..16 |-> IF k = 1 THEN 10 ELSE IF k = 2 THEN 128 ELSE 0]),
             IpV6(<<0, 0, 0, 0, 0, 0, 0, 0, 0, 0, 255, 255, 10, 0, 0, 0>>),
             IpV6([k \in 1..16 |-> IF k = 1 THEN 10 ELSE IF k = 16 THEN 1 ELSE 0])}
Ip2Lens(a) == IF a.v = 4 THEN {0, 8, 9, 32} ELSE {0, 8, 9, 32, 128}
Ip2Dom == {<<a, b>> : a \in Ip2Addrs, b \in Ip2Addrs}
Ip2Calls(a, b) ==
    LET LA == AscSeq(Ip2Lens(a))
        LB == AscSeq(Ip2Lens(b))
        PM == <<"p_eq", "p_eqop", "p_neop">>
        n == Len(LA) * Len(LB)
    IN <<Call("ip_eq", <<a, b>>), Call("ip_eqop", <<a, b>>), Call("ip_neop", <<a, b>>)>>
       \o [k \in 1..(n * 3) |->
             LET q == (k - 1) \div 3
             IN Call(PM[((k - 1) % 3) + 1], <<a, LA[(q \div Len(LB)) + 1], b, LB[(q % Len(LB)) + 1]>>)]

MiscCalls ==
    LET S == AscSeq(Sigma)
    IN <<Call("ts_bool", <<TRUE>>), Call("ts_bool", <<FALSE>>), Call("fm_bool", <<TRUE>>), Call("fm_bool", <<FALSE>>),
         Call("ip_localhostv4", <<>>), Call("ip_localhostv6", <<>>)>>
       \o [k \in 1..Len(S) |-> Call("ts_char", <<S[k]>>)]
       \o [k \in 1..Len(S) |-> Call("fm_char", <<S[k]>>)]

(* The examples given in roto's own documentation (docs/source/reference/std/**, language        *)
(* reference) with the results stated there: the specification must reproduce them (DocOK),  *)
(* and they are replayed like every other case.                                              *)
DocExamples == <<
    [m |-> "s_from_chars", a |-> <<<<104, 101, 108, 108, 111>>>>, doc |-> <<104, 101, 108, 108, 111>>],
    [m |-> "s_append", a |-> <<<<104, 101, 108, 108, 111>>, <<32>>>>, doc |-> <<104, 101, 108, 108, 111, 32>>],
    [m |-> "s_append", a |-> <<<<104, 101, 108, 108, 111, 32>>, <<119, 111, 114, 108, 100>>>>, doc |-> <<104, 101, 108, 108, 111, 32, 119, 111, 114, 108, 100>>],
    [m |-> "s_plus", a |-> <<<<114, 97, 99, 101>>, <<99, 97, 114>>>>, doc |-> <<114, 97, 99, 101, 99, 97, 114>>],
    [m |-> "s_contains", a |-> <<<<104, 97, 121, 115, 116, 97, 99, 107>>, <<104, 97, 121>>>>, doc |-> TRUE],
    [m |-> "s_contains", a |-> <<<<104, 97, 121, 115, 116, 97, 99, 107>>, <<99, 111, 114, 110>>>>, doc |-> FALSE],
    [m |-> "s_starts_with", a |-> <<<<104, 97, 121, 115, 116, 97, 99, 107>>, <<104, 97, 121>>>>, doc |-> TRUE],
    [m |-> "s_starts_with", a |-> <<<<104, 97, 121, 115, 116, 97, 99, 107>>, <<116, 114, 101, 101, 115>>>>, doc |-> FALSE],
    [m |-> "s_ends_with", a |-> <<<<104, 97, 121, 115, 116, 97, 99, 107>>, <<115, 116, 97, 99, 107>>>>, doc |-> TRUE],
    [m |-> "s_ends_with", a |-> <<<<104, 97, 121, 115, 116, 97, 99, 107>>, <<98, 108, 97, 99, 107>>>>, doc |-> FALSE],
    [m |-> "s_to_lowercase", a |-> <<<<76, 79, 85, 68>>>>, doc |-> <<108, 111, 117, 100>>],
    [m |-> "s_to_uppercase", a |-> <<<<113, 117, 105, 101, 116>>>>, doc |-> <<81, 85, 73, 69, 84>>],
    [m |-> "s_repeat", a |-> <<<<104, 97>>, 6>>, doc |-> <<104, 97, 104, 97, 104, 97, 104, 97, 104, 97, 104, 97>>],
    [m |-> "s_replace", a |-> <<<<73, 110, 32, 114, 117, 115, 116, 32, 119, 101, 32, 116, 114, 117, 115, 116>>, <<114, 117, 115, 116>>, <<114, 111, 116, 111>>>>, doc |-> <<73, 110, 32, 114, 111, 116, 111, 32, 119, 101, 32, 116, 114, 111, 116, 111>>],
    [m |-> "s_split", a |-> <<<<111, 110, 101, 44, 32, 116, 119, 111, 44, 32, 116, 104, 114, 101, 101>>, <<44, 32>>>>, doc |-> <<<<111, 110, 101>>, <<116, 119, 111>>, <<116, 104, 114, 101, 101>>>>],
    [m |-> "s_trim", a |-> <<<<32, 32, 82, 111, 116, 111, 33, 32, 32>>>>, doc |-> <<82, 111, 116, 111, 33>>],
    [m |-> "s_trim_start", a |-> <<<<32, 32, 82, 111, 116, 111, 33, 32, 32>>>>, doc |-> <<82, 111, 116, 111, 33, 32, 32>>],
    [m |-> "s_trim_end", a |-> <<<<32, 32, 82, 111, 116, 111, 33, 32, 32>>>>, doc |-> <<32, 32, 82, 111, 116, 111, 33>>],
    [m |-> "s_strip_prefix", a |-> <<<<82, 117, 115, 116, 82, 111, 116, 111, 33>>, <<82, 117, 115, 116>>>>, doc |-> <<<<82, 111, 116, 111, 33>>>>],
    [m |-> "s_strip_suffix", a |-> <<<<82, 111, 116, 111, 33, 82, 117, 115, 116>>, <<82, 117, 115, 116>>>>, doc |-> <<<<82, 111, 116, 111, 33>>>>],
    [m |-> "s_splitn", a |-> <<<<82, 117, 115, 116, 33, 82, 111, 116, 111, 33, 83, 116, 114, 105, 110, 103>>, 2, <<33>>>>, doc |-> <<<<82, 117, 115, 116>>, <<82, 111, 116, 111, 33, 83, 116, 114, 105, 110, 103>>>>],
    [m |-> "s_rsplitn", a |-> <<<<82, 117, 115, 116, 33, 82, 111, 116, 111, 33, 83, 116, 114, 105, 110, 103>>, 2, <<33>>>>, doc |-> <<<<83, 116, 114, 105, 110, 103>>, <<82, 117, 115, 116, 33, 82, 111, 116, 111>>>>],
    [m |-> "ip_eqop", a |-> <<IpV4(<<192, 0, 0, 0>>), IpV4(<<192, 0, 0, 0>>)>>, doc |-> TRUE],
    [m |-> "ip_eqop", a |-> <<IpV6([k \in 1..16 |-> 0]), IpV6([k \in 1..16 |-> 0])>>, doc |-> TRUE],
    [m |-> "ip_eqop", a |-> <<IpV4(<<192, 0, 0, 0>>), IpV4(<<192, 0, 0, 1>>)>>, doc |-> FALSE],
    [m |-> "ip_eqop", a |-> <<IpV4(<<0, 0, 0, 0>>), IpV6([k \in 1..16 |-> 0])>>, doc |-> FALSE],
    [m |-> "ip_eq", a |-> <<IpV4(<<192, 0, 0, 0>>), IpV4(<<192, 0, 0, 0>>)>>, doc |-> TRUE],
    [m |-> "ip_is_ipv4", a |-> <<IpV4(<<1, 1, 1, 1>>)>>, doc |-> TRUE],
    [m |-> "ip_is_ipv4", a |-> <<IpV6([k \in 1..16 |-> 0])>>, doc |-> FALSE],
    [m |-> "ip_is_ipv6", a |-> <<IpV4(<<1, 1, 1, 1>>)>>, doc |-> FALSE],
    [m |-> "ip_is_ipv6", a |-> <<IpV6([k \in 1..16 |-> 0])>>, doc |-> TRUE],
    [m |-> "ip_localhostv4", a |-> <<>>, doc |-> IpV4(<<127, 0, 0, 1>>)],
    [m |-> "ip_localhostv6", a |-> <<>>, doc |-> IpV6([k \in 1..16 |-> IF k = 16 THEN 1 ELSE 0])],
    [m |-> "ts_ip", a |-> <<IpV4(<<127, 0, 0, 1>>)>>, doc |-> <<49, 50, 55, 46, 48, 46, 48, 46, 49>>],
    [m |-> "ts_ip", a |-> <<IpV6([k \in 1..16 |-> IF k = 16 THEN 1 ELSE 0])>>, doc |-> <<58, 58, 49>>]
  >>
DocCalls == [k \in 1..Len(DocExamples) |-> Call(DocExamples[k].m, DocExamples[k].a)]
DocOK == Family = "docs" => \A k \in 1..Len(DocExamples) : Apply(DocExamples[k].m, DocExamples[k].a) = DocExamples[k].doc

Dom == CASE Family \in {"bytes", "chars", "lines", "unary"} -> Strs(Sigma, MaxLen)
         [] Family = "pattern" -> Strs(Sigma, MaxLen) \X Strs(NSigma, MaxNeedle)
         [] Family = "sbuf" -> SbInits \X (UNION {[1..k -> SbOps] : k \in 0..MaxLen})
         [] Family = "ints" -> IntDom
         [] Family = "float1" -> FloatVals
         [] Family = "float2" -> PowX \X PowY
         [] Family \in {"ip4", "ip6"} -> IpDom
         [] Family = "ip2" -> Ip2Dom
         [] Family \in {"misc", "docs"} -> {0}

Calls(x) == CASE Family = "bytes" -> BytesCalls(x)
              [] Family = "chars" -> CharsCalls(x)
              [] Family = "lines" -> LinesCalls(x)
              [] Family = "unary" -> UnaryCalls(x)
              [] Family = "pattern" -> PatternCalls(x[1], x[2])
              [] Family = "sbuf" -> SbCalls(x[1], x[2])
              [] Family = "ints" -> IntCalls(x[1], x[2])
              [] Family = "float1" -> Float1Calls(x)
              [] Family = "float2" -> Float2Calls(x[1], x[2])
              [] Family \in {"ip4", "ip6"} -> IpCalls(x)
              [] Family = "ip2" -> Ip2Calls(x[1], x[2])
              [] Family = "misc" -> MiscCalls
              [] Family = "docs" -> DocCalls

(* only calls inside the specified domain carry an expectation *)
WithExp(cs) == LET d == SelectSeq(cs, LAMBDA x : Defined(x.m, x.a))
               IN [k \in 1..Len(d) |-> [m |-> d[k].m, a |-> d[k].a, e |-> Apply(d[k].m, d[k].a)]]

MCInit == c \in Dom
MCNext == UNCHANGED c
MCSpec == MCInit /\ [][MCNext]_c

Emit == PrintT(<<"REPLAY", ToJson([fam |-> Family, calls |-> WithExp(Calls(c))])>>)
=============================================================================
