------------------------------ MODULE BufConc ------------------------------
(***************************************************************************)
(* Roto StringBufs shared between threads (part of property C12), at the   *)
(* granularity of the lock acquisitions of src/value/string_buf.rs.        *)
(*                                                                         *)
(* `StringBuf(Arc<Mutex<String>>)` is, besides List, the one lock-protected *)
(* shared mutable host type of the default runtime.  Scripts share buffers *)
(* between threads through constants (a constant is evaluated once, when   *)
(* the package is compiled; every thread that calls a function of the      *)
(* package sees the same buffer).                                          *)
(*                                                                         *)
(* One action per code step, named like the code:                          *)
(*   Start(t, o)    thread t calls operation o and runs up to its first    *)
(*                  Mutex::lock (the cfg-guarded schedule point            *)
(*                  "buf_acquire" of the code is exactly there)            *)
(*   Acquire(t, b)  Mutex::lock of buffer b returns: enabled only while no *)
(*                  thread holds b; t holds it from then on                *)
(*   Crit(t)        a locked section that is not the operation's last one  *)
(*                  (exists only in the regressed disciplines below)       *)
(*   Finish(t)      the last locked section: updates the contents,         *)
(*                  computes the result, releases every lock t holds       *)
(* `==` on two different buffers is Acquire(first); Acquire(second);       *)
(* Finish; on one and the same buffer (Arc::ptr_eq) it takes no lock.      *)
(*                                                                         *)
(*   buf[b]     contents of buffer b (sequence of characters)              *)
(*   holds[t]   the set of buffers whose lock thread t holds               *)
(*   pc[t]      "idle" | "acq" (before a Mutex::lock) | "crit" (inside a    *)
(*              locked section)                                            *)
(*   stage[t]   which lock acquisition of the operation t is at (1, 2)     *)
(*   cur[t]     the running operation;  acc[t] a value carried between two  *)
(*              locked sections (regressed == only)                        *)
(*   abs        GHOST: the abstract sequential StringBufs; every operation *)
(*              is applied to it atomically at its linearization point,    *)
(*              which is its Finish step                                   *)
(*   linOk      GHOST: every result so far was the abstract one            *)
(*   out        what the last step made observable (thread, completion,    *)
(*              result); not part of the VIEW                              *)
(***************************************************************************)
EXTENDS Naturals, Sequences, FiniteSets, TLC

CONSTANTS Threads,     \* e.g. {1, 2}
          Bufs,        \* the two shared buffers {1, 2} (script constants A and B)
          InitBuf,     \* [Bufs -> Seq(Char)]: contents after compilation
          MaxOps,      \* operations per thread
          Ops,         \* operation instances the threads choose from
          EqOrder,     \* order in which == takes its two locks:
                       \*   "address": by address of the shared allocation (repaired tree)
                       \*   "operand": self first, then other (ORIGINAL DEFECT: a == b || b == a deadlocks)
          AddrLess,    \* the buffer whose allocation has the smaller address (unknown to the
                       \*   specification: both values are checked)
          \* Two further disciplines, TRUE on the pinned tree; FALSE are the models of regressions
          \* (kept so that Linearizable is not vacuous and a regressed tree gets a design-level verdict):
          EqHold,      \* == keeps its first lock while it takes the second
          PushAtomic   \* push_string appends its argument in one locked section

ASSUME /\ Cardinality(Bufs) = 2 /\ AddrLess \in Bufs
       /\ EqOrder \in {"address", "operand"}
       /\ EqHold \in BOOLEAN /\ PushAtomic \in BOOLEAN

VARIABLES buf, holds, pc, stage, cur, acc, nops, abs, linOk, out
vars == <<buf, holds, pc, stage, cur, acc, nops, abs, linOk, out>>
(* `out` is a function of the last transition only and no property mentions it *)
View == <<buf, holds, pc, stage, cur, acc, nops, abs, linOk>>

NoOp == [k |-> "none"]

(* ------------------- the abstract, sequential StringBuf ------------------- *)
AbsApply(o, s) ==
    CASE o.k = "PushChar"   -> [s EXCEPT ![o.b] = Append(@, o.c)]
      [] o.k = "PushString" -> [s EXCEPT ![o.b] = @ \o o.s]
      [] OTHER              -> s
AbsRes(o, s) ==
    CASE o.k = "AsString" -> s[o.b]
      [] o.k = "Eq"       -> (s[o.a] = s[o.b])
      [] OTHER            -> "ok"

(* ------------------------- lock structure of the code --------------------- *)
Half1(s) == SubSeq(s, 1, Len(s) \div 2)
Half2(s) == SubSeq(s, Len(s) \div 2 + 1, Len(s))

(* number of Mutex::lock calls of an operation *)
Locks(o) == CASE o.k = "Eq" -> IF o.a = o.b THEN 0 ELSE 2
              [] o.k = "PushString" -> IF PushAtomic THEN 1 ELSE 2
              [] OTHER -> 1

First(o)  == IF EqOrder = "address" THEN (IF o.a = AddrLess THEN o.a ELSE o.b) ELSE o.a
Second(o) == IF First(o) = o.a THEN o.b ELSE o.a
(* the buffer locked by acquisition number st of operation o (0: none) *)
WantOf(o, st) == CASE o.k = "none" -> 0
                   [] o.k = "Eq"   -> IF st = 1 THEN First(o) ELSE Second(o)
                   [] OTHER        -> o.b
Want(t) == WantOf(cur[t], stage[t])

Free(b) == \A u \in Threads : b \notin holds[u]

Init ==
    /\ buf = InitBuf
    /\ abs = InitBuf
    /\ holds = [t \in Threads |-> {}]
    /\ pc = [t \in Threads |-> "idle"]
    /\ stage = [t \in Threads |-> 0]
    /\ cur = [t \in Threads |-> NoOp]
    /\ acc = [t \in Threads |-> <<>>]
    /\ nops = [t \in Threads |-> 0]
    /\ linOk = TRUE
    /\ out = [t |-> 0, done |-> FALSE, res |-> "none"]

Out(t, d, r) == out' = [t |-> t, done |-> d, res |-> r]

(* ---- the call: runs to the first Mutex::lock; == on one buffer returns at once *)
Start(t, o) ==
    /\ pc[t] = "idle" /\ nops[t] < MaxOps /\ o \in Ops
    /\ nops' = [nops EXCEPT ![t] = @ + 1]
    /\ UNCHANGED <<buf, holds, acc>>
    /\ IF Locks(o) = 0
       THEN /\ UNCHANGED <<pc, stage, cur, abs>>
            /\ linOk' = (linOk /\ AbsRes(o, abs) = TRUE)        \* linearization point: this step
            /\ Out(t, TRUE, TRUE)
       ELSE /\ pc' = [pc EXCEPT ![t] = "acq"]
            /\ stage' = [stage EXCEPT ![t] = 1]
            /\ cur' = [cur EXCEPT ![t] = o]
            /\ UNCHANGED <<abs, linOk>>
            /\ Out(t, FALSE, "none")

(* ---- Mutex::lock(b) returns *)
Acquire(t, b) ==
    /\ pc[t] = "acq" /\ b = Want(t) /\ Free(b)
    /\ holds' = [holds EXCEPT ![t] = @ \cup {b}]
    /\ IF cur[t].k = "Eq" /\ stage[t] = 1 /\ EqHold
       THEN \* goes straight on to the second Mutex::lock, keeping the first
            /\ stage' = [stage EXCEPT ![t] = 2] /\ UNCHANGED pc
       ELSE /\ pc' = [pc EXCEPT ![t] = "crit"] /\ UNCHANGED stage
    /\ UNCHANGED <<buf, cur, acc, nops, abs, linOk>>
    /\ Out(t, FALSE, "none")

(* the buffers the locked section t is in reads or writes *)
Touches(t) == LET o == cur[t] IN
    IF o.k = "Eq" THEN (IF EqHold THEN {o.a, o.b} ELSE {Want(t)}) ELSE {o.b}

(* ---- a locked section followed by another Mutex::lock (regressed disciplines only) *)
Crit(t) ==
    LET o == cur[t] IN
    /\ pc[t] = "crit" /\ stage[t] < Locks(o)
    /\ CASE o.k = "Eq" ->          \* clones the first string, releases, locks the second
              /\ acc' = [acc EXCEPT ![t] = buf[Want(t)]] /\ UNCHANGED buf
         [] o.k = "PushString" ->  \* first half
              /\ buf' = [buf EXCEPT ![o.b] = @ \o Half1(o.s)] /\ UNCHANGED acc
    /\ holds' = [holds EXCEPT ![t] = {}]
    /\ pc' = [pc EXCEPT ![t] = "acq"]
    /\ stage' = [stage EXCEPT ![t] = @ + 1]
    /\ UNCHANGED <<cur, nops, abs, linOk>>
    /\ Out(t, FALSE, "none")

(* ---- the last locked section: effect, result, unlock *)
Finish(t) ==
    LET o == cur[t]
        r == CASE o.k = "AsString" -> buf[o.b]
               [] o.k = "Eq" -> IF EqHold THEN buf[o.a] = buf[o.b] ELSE acc[t] = buf[Want(t)]
               [] OTHER -> "ok"
    IN
    /\ pc[t] = "crit" /\ stage[t] = Locks(o)
    /\ buf' = CASE o.k = "PushChar"   -> [buf EXCEPT ![o.b] = Append(@, o.c)]
                [] o.k = "PushString" -> [buf EXCEPT ![o.b] = @ \o (IF PushAtomic THEN o.s ELSE Half2(o.s))]
                [] OTHER -> buf
    /\ holds' = [holds EXCEPT ![t] = {}]
    /\ pc' = [pc EXCEPT ![t] = "idle"]
    /\ stage' = [stage EXCEPT ![t] = 0]
    /\ cur' = [cur EXCEPT ![t] = NoOp]
    /\ acc' = [acc EXCEPT ![t] = <<>>]
    /\ UNCHANGED nops
    \* linearization point: the abstract operation happens here, atomically
    /\ abs' = AbsApply(o, abs)
    /\ linOk' = (linOk /\ r = AbsRes(o, abs))
    /\ Out(t, TRUE, r)

AllDone == \A t \in Threads : pc[t] = "idle" /\ nops[t] = MaxOps
Terminated == AllDone /\ UNCHANGED vars

Next == \/ \E t \in Threads, o \in Ops : Start(t, o)
        \/ \E t \in Threads, b \in Bufs : Acquire(t, b)
        \/ \E t \in Threads : Crit(t)
        \/ \E t \in Threads : Finish(t)
        \/ Terminated

Spec == Init /\ [][Next]_vars

(* ------------------------------ properties ------------------------------ *)
TypeOK ==
    /\ \A b \in Bufs : Len(buf[b]) >= Len(InitBuf[b]) /\ Len(abs[b]) >= Len(InitBuf[b])
    /\ \A t \in Threads :
         /\ pc[t] \in {"idle", "acq", "crit"}
         /\ stage[t] \in 0..2
         /\ holds[t] \subseteq Bufs
         /\ nops[t] \in 0..MaxOps
         /\ (pc[t] = "idle") = (cur[t].k = "none")
         /\ (pc[t] = "idle" => holds[t] = {} /\ stage[t] = 0)
         /\ (pc[t] # "idle" => cur[t] \in Ops /\ stage[t] \in 1..Locks(cur[t]))
    /\ linOk \in BOOLEAN

(* no two threads hold the same buffer's lock; a locked section only touches buffers it holds *)
MutualExclusion ==
    /\ \A t, u \in Threads : t # u => holds[t] \cap holds[u] = {}
    /\ \A t \in Threads : pc[t] = "crit" => Touches(t) \subseteq holds[t]

(* every completed operation returned what the abstract sequential StringBuf returns at the     *)
(* operation's linearization point, and between operations the contents are the abstract ones   *)
(* (no push is lost or torn: push_string("ab") racing with push_char('c') gives abc or cab)     *)
Linearizable ==
    /\ linOk
    /\ (\A t \in Threads : pc[t] = "idle") => buf = abs

(* deadlock freedom is TLC's own deadlock check: Terminated is the only way to stop *)
=============================================================================
