-------------------------------- MODULE Conc --------------------------------
(***************************************************************************)
(* Property C12: compiled functions are safe and deterministic under       *)
(* concurrent use.                                                         *)
(*                                                                         *)
(* The design that is modelled (src/codegen/mod.rs, src/runtime/func.rs,   *)
(* src/value/mod.rs):                                                      *)
(*   - a function handle (TypedFunc) is a code pointer plus an Arc of the  *)
(*     module; it is Send + Sync for every argument / context type, may be *)
(*     cloned and called from any thread                                   *)
(*   - a call keeps all of its mutable state in its own frame (stack       *)
(*     slots); the only memory it shares with other calls is               *)
(*       (a) the module's constants, written once by the compilation and   *)
(*           read-only afterwards (reading a tracked constant clones it    *)
(*           through a shared reference: the value type must be Sync),     *)
(*       (b) the state captured by registered closures, which the call     *)
(*           reaches through a shared reference: updated in ONE atomic     *)
(*           step iff the capture is `sync` (AtomicU64, Mutex), otherwise  *)
(*           (Cell) as a read followed by a write                          *)
(*   - registration, compilation and get_function update process-global    *)
(*     tables (type registry, symbol interner) under their locks: modelled *)
(*     as one lock `reglock` and a read-modify-write of `registry`         *)
(*   - dropping a Package / a handle only decrements the module's Arc; the *)
(*     last holder frees the module (code + constants); the Runtime's      *)
(*     registered constant and closure live as long as the Runtime object  *)
(*     or any module compiled from it                                      *)
(*                                                                         *)
(* Register guard: the API accepts a closure / constant only if it is      *)
(* Send + Sync (RegisterableFn: Send + Sync + 'static; Val<T>: Value needs *)
(* T: Send + Sync).  NonSyncAllowed = TRUE removes the guard: the model of *)
(* the defect in the property's example (Cell capture, lost updates).      *)
(*                                                                         *)
(* Threads run programs: sequences of operations named like the events the *)
(* harness records (harness/src/bin/c12.rs).  An operation is a record     *)
(* with field `op`; the wrappers (MCConc: fixed small programs, all        *)
(* interleavings; TraceConc: the recorded per-thread event lists) supply   *)
(* them.  Steps that consume an operation advance ip[t]; internal steps    *)
(* (ReadConst, Mk, ClRead, CompRead, CompUpd) do not.                      *)
(*                                                                         *)
(* Function shapes (module constants K, C, KT; G = runtime of the module): *)
(*   arith(x,y) = x*K + y + C                                              *)
(*   slen(x,y)  = length of "ab"*x ++ "c"*y, + C                           *)
(*   lsum(x,y)  = sum of the list [x, y, C, x*K]                           *)
(*   bump(x,y)  = next()*1000 + x + y        (one closure call)            *)
(*   bump2(x,y) = next()*1000 + next()       (two closure calls)           *)
(*   ktag(x,y)  = tag(KT)*10 + tag(RC) + x   (reads tracked constants)     *)
(*   wide(x,y)  = sum of the 40 fields x + i*y (i = 0..39) of a 320-byte    *)
(*                record built by one helper and summed by another, + C    *)
(*   keep(t,y)  = the one of t and mk(y+C) with the larger tag; x = tag(t) *)
(***************************************************************************)
EXTENDS Naturals, Sequences, FiniteSets, TLC

CONSTANTS Threads,         \* thread ids, positive naturals; 1 is the main thread
          NonSyncAllowed,  \* FALSE = the Register guard of the API
          UseRegLock       \* TRUE = global tables are updated under their lock

VARIABLES rts,       \* runtime g -> [obj, sync, cnt, ncl, seen, dupl]
          mods,      \* module m  -> [g, k, c, kt, pobj, rc]
          holds,     \* thread -> set of modules it holds a bundle of handles of
          reglock,   \* 0 or the thread inside a global-table critical section
          registry,  \* modules whose types / symbols are in the global tables
          pc,        \* thread -> "idle" | "call" | "comp" | "comp1" | "comp2"
          frame,     \* thread -> private frame of the running call / compilation
          ip,        \* thread -> index of its next operation
          started,   \* threads that have been spawned
          obs,       \* thread -> what its last completed call returned
          created,   \* tracked values created explicitly (mk, host arguments, constants)
          live       \* tracked instances alive (accounting variable)
vars == <<rts, mods, holds, reglock, registry, pc, frame, ip, started, obs, created, live>>

Shapes == {"arith", "slen", "lsum", "bump", "bump2", "ktag", "wide", "keep"}
NCl(fn) == IF fn = "bump" THEN 1 ELSE IF fn = "bump2" THEN 2 ELSE 0
RcTag(g) == 900 + g
Max(a, b) == IF a >= b THEN a ELSE b

(* the language-defined (single-threaded) result of shape fn in a module with *)
(* constants k, c, kt of runtime g, given the values ps the closure returned  *)
F(k, c, kt, g, fn, x, y, ps) ==
    CASE fn = "arith" -> x * k + y + c
      [] fn = "slen"  -> 2 * x + y + c
      [] fn = "lsum"  -> x + y + c + x * k
      [] fn = "bump"  -> ps[1] * 1000 + x + y
      [] fn = "bump2" -> ps[1] * 1000 + ps[2]
      [] fn = "ktag"  -> kt * 10 + RcTag(g) + x
      [] fn = "wide"  -> 40 * x + 780 * y + c
      [] fn = "keep"  -> Max(x, y + c)

IdleFrame == [m |-> 0, fn |-> "none", x |-> 0, y |-> 0, rd |-> FALSE, k |-> 0, c |-> 0,
              kt |-> 0, g |-> 0, ps |-> <<>>, tmp |-> 0, hasTmp |-> FALSE, own |-> 0,
              snap |-> {}]
NoObs == [m |-> 0, fn |-> "none", x |-> 0, y |-> 0, ps |-> <<>>, res |-> 0]

Mods == DOMAIN mods
Rts  == DOMAIN rts

ModFreed(m) == ~mods[m].pobj /\ mods[m].rc = 0
RtFreed(g)  == ~rts[g].obj /\ \A m \in Mods : mods[m].g = g => ModFreed(m)

RECURSIVE SumOwn(_)
SumOwn(S) == IF S = {} THEN 0
             ELSE LET t == CHOOSE u \in S : TRUE IN frame[t].own + SumOwn(S \ {t})

(* tracked instances that must be alive: one registered constant per runtime  *)
(* whose resources are not freed, one script constant per module not freed,   *)
(* and what the running frames own                                            *)
LiveDerived == Cardinality({g \in Rts : ~RtFreed(g)}) + Cardinality({m \in Mods : ~ModFreed(m)})
               + SumOwn(Threads)

Adv(t) == ip' = [ip EXCEPT ![t] = @ + 1]
Has(o, f) == f \in DOMAIN o

(* how many tracked instances stop being alive when `mods1`, `rts1` replace mods, rts *)
FreedBy(mods1, rts1) ==
    LET mf0 == {m \in Mods : ModFreed(m)}
        mf1 == {m \in DOMAIN mods1 : ~mods1[m].pobj /\ mods1[m].rc = 0}
        rf0 == {g \in Rts : RtFreed(g)}
        rf1 == {g \in DOMAIN rts1 : ~rts1[g].obj /\ \A m \in DOMAIN mods1 : mods1[m].g = g => m \in mf1}
    IN Cardinality(mf1 \ mf0) + Cardinality(rf1 \ rf0)

(* ------------------------------------------------------------------------ *)
(* a call                                                                    *)
(* ------------------------------------------------------------------------ *)
GBegin(t, o) == /\ o.op = "call_begin" /\ pc[t] = "idle"
                /\ o.m \in holds[t] /\ o.fn \in Shapes
Begin(t, o) ==
    /\ GBegin(t, o)
    /\ LET own == IF o.fn = "keep" THEN 1 ELSE 0      \* the host builds the tracked argument
       IN /\ frame' = [frame EXCEPT ![t] = [IdleFrame EXCEPT !.m = o.m, !.fn = o.fn, !.x = o.x,
                                                           !.y = o.y, !.own = own]]
          /\ created' = created + own /\ live' = live + own
    /\ pc' = [pc EXCEPT ![t] = "call"]
    /\ Adv(t)
    /\ UNCHANGED <<rts, mods, holds, reglock, registry, started, obs>>

(* the frame reads the module's read-only constants; ktag clones the tracked  *)
(* script constant KT and the registered constant RC through shared references *)
GReadConst(t) == pc[t] = "call" /\ ~frame[t].rd
ReadConst(t) ==
    /\ GReadConst(t)
    /\ LET md == mods[frame[t].m]
           cl == IF frame[t].fn = "ktag" THEN 2 ELSE 0
       IN /\ frame' = [frame EXCEPT ![t].rd = TRUE, ![t].k = md.k, ![t].c = md.c, ![t].kt = md.kt,
                                    ![t].g = md.g, ![t].own = @ + cl]
          /\ live' = live + cl
    /\ UNCHANGED <<rts, mods, holds, reglock, registry, pc, ip, started, obs, created>>

ClPending(t) == pc[t] = "call" /\ frame[t].rd /\ Len(frame[t].ps) < NCl(frame[t].fn)
Returned(r, v) == [r EXCEPT !.ncl = @ + 1, !.seen = @ \cup {v}, !.dupl = @ \/ v \in r.seen]

(* sync capture: read-modify-write of the captured counter in one step *)
GClAtomic(t, o) == o.op = "cl" /\ ClPending(t) /\ rts[frame[t].g].sync
ClAtomic(t, o) ==
    /\ GClAtomic(t, o)
    /\ LET g == frame[t].g  v == rts[g].cnt
       IN /\ rts' = [rts EXCEPT ![g] = Returned([@ EXCEPT !.cnt = v + 1], v)]
          /\ frame' = [frame EXCEPT ![t].ps = Append(@, v)]
    /\ Adv(t)
    /\ UNCHANGED <<mods, holds, reglock, registry, pc, started, obs, created, live>>

(* non-sync capture (Cell): the read and the write are separate steps *)
GClRead(t) == ClPending(t) /\ ~rts[frame[t].g].sync /\ ~frame[t].hasTmp
ClRead(t) ==
    /\ GClRead(t)
    /\ frame' = [frame EXCEPT ![t].tmp = rts[frame[t].g].cnt, ![t].hasTmp = TRUE]
    /\ UNCHANGED <<rts, mods, holds, reglock, registry, pc, ip, started, obs, created, live>>

GClWrite(t, o) == o.op = "cl" /\ ClPending(t) /\ ~rts[frame[t].g].sync /\ frame[t].hasTmp
ClWrite(t, o) ==
    /\ GClWrite(t, o)
    /\ LET g == frame[t].g  v == frame[t].tmp
       IN /\ rts' = [rts EXCEPT ![g] = Returned([@ EXCEPT !.cnt = v + 1], v)]
          /\ frame' = [frame EXCEPT ![t].ps = Append(@, v), ![t].hasTmp = FALSE]
    /\ Adv(t)
    /\ UNCHANGED <<mods, holds, reglock, registry, pc, started, obs, created, live>>

(* keep: the script builds a second tracked value *)
GMk(t) == pc[t] = "call" /\ frame[t].rd /\ frame[t].fn = "keep" /\ frame[t].own = 1
Mk(t) ==
    /\ GMk(t)
    /\ frame' = [frame EXCEPT ![t].own = 2]
    /\ created' = created + 1 /\ live' = live + 1
    /\ UNCHANGED <<rts, mods, holds, reglock, registry, pc, ip, started, obs>>

(* what the call returns is computed from the frame alone *)
FrameResult(t) == LET f == frame[t] IN F(f.k, f.c, f.kt, f.g, f.fn, f.x, f.y, f.ps)

GEnd(t, o) == /\ o.op = "call_end" /\ pc[t] = "call" /\ frame[t].rd
              /\ Len(frame[t].ps) = NCl(frame[t].fn)
              /\ (frame[t].fn = "keep" => frame[t].own = 2)
End(t, o) ==
    /\ GEnd(t, o)
    /\ obs' = [obs EXCEPT ![t] = [m |-> frame[t].m, fn |-> frame[t].fn, x |-> frame[t].x,
                                  y |-> frame[t].y, ps |-> frame[t].ps, res |-> FrameResult(t)]]
    \* the frame drops what it owns; the value keep returns is dropped by the host
    /\ live' = live - frame[t].own
    /\ frame' = [frame EXCEPT ![t] = IdleFrame]
    /\ pc' = [pc EXCEPT ![t] = "idle"]
    /\ Adv(t)
    /\ UNCHANGED <<rts, mods, holds, reglock, registry, started, created>>

(* ------------------------------------------------------------------------ *)
(* registration, compilation, handles                                        *)
(* ------------------------------------------------------------------------ *)
LockFree == UseRegLock => reglock = 0

(* Register: Runtime::from_lib(library!{ const RC; let next = move || .. }) *)
RegisterOK(send, sync) == NonSyncAllowed \/ (send /\ sync)
(* a registered closure is called through a shared reference by every thread *)
(* that holds a handle: a closure that needs EXCLUSIVE access to what it     *)
(* captured (Rust: FnMut, e.g. `move || { n += 1; n }`) would be a           *)
(* read-modify-write in two steps like the non-Sync capture, whatever the    *)
(* captured type is; the guard accepts only closures callable while shared   *)
RegisterFnOK(send, sync, excl) == RegisterOK(send, sync) /\ (NonSyncAllowed \/ ~excl)

GBuildRt(t, o) == /\ o.op = "build_rt" /\ pc[t] = "idle" /\ o.g \notin Rts /\ LockFree
                  /\ \E s \in BOOLEAN : RegisterOK(TRUE, s) /\ (Has(o, "sync") => s = o.sync)
BuildRt(t, o) ==
    /\ GBuildRt(t, o)
    /\ \E s \in BOOLEAN :
         /\ RegisterOK(TRUE, s) /\ (Has(o, "sync") => s = o.sync)
         /\ rts' = (o.g :> [obj |-> TRUE, sync |-> s, cnt |-> 0, ncl |-> 0, seen |-> {}, dupl |-> FALSE]) @@ rts
    /\ created' = created + 1 /\ live' = live + 1       \* the registered constant RC
    /\ Adv(t)
    /\ UNCHANGED <<mods, holds, reglock, registry, pc, frame, started, obs>>

GDropRt(t, o) == o.op = "drop_rt" /\ pc[t] = "idle" /\ o.g \in Rts /\ rts[o.g].obj
DropRt(t, o) ==
    /\ GDropRt(t, o)
    /\ LET rts1 == [rts EXCEPT ![o.g].obj = FALSE]
       IN rts' = rts1 /\ live' = live - FreedBy(mods, rts1)
    /\ Adv(t)
    /\ UNCHANGED <<mods, holds, reglock, registry, pc, frame, started, obs, created>>

(* compilation: enters the critical section of the global tables ... *)
GCompAcq(t, o) == /\ o.op = "compile_begin" /\ pc[t] = "idle" /\ o.g \in Rts /\ rts[o.g].obj
                  /\ o.m \notin Mods /\ LockFree
CompAcq(t, o) ==
    /\ GCompAcq(t, o)
    /\ reglock' = IF UseRegLock THEN t ELSE reglock
    /\ pc' = [pc EXCEPT ![t] = "comp"]
    /\ frame' = [frame EXCEPT ![t] = [IdleFrame EXCEPT !.m = o.m, !.g = o.g, !.k = o.k, !.c = o.c, !.kt = o.kt]]
    /\ Adv(t)
    /\ UNCHANGED <<rts, mods, holds, registry, started, obs, created, live>>

(* ... reads the table ... *)
GCompRead(t) == pc[t] = "comp"
CompRead(t) ==
    /\ GCompRead(t)
    /\ frame' = [frame EXCEPT ![t].snap = registry]
    /\ pc' = [pc EXCEPT ![t] = "comp1"]
    /\ UNCHANGED <<rts, mods, holds, reglock, registry, ip, started, obs, created, live>>

(* ... and writes it back with its own entries added *)
GCompUpd(t) == pc[t] = "comp1"
CompUpd(t) ==
    /\ GCompUpd(t)
    /\ registry' = frame[t].snap \cup {frame[t].m}
    /\ pc' = [pc EXCEPT ![t] = "comp2"]
    /\ UNCHANGED <<rts, mods, holds, reglock, frame, ip, started, obs, created, live>>

(* the package exists: machine code + constants (the tracked constant KT is built now) *)
GCompRel(t, o) == o.op = "compile_end" /\ pc[t] = "comp2" /\ o.m = frame[t].m
CompRel(t, o) ==
    /\ GCompRel(t, o)
    /\ reglock' = IF UseRegLock THEN 0 ELSE reglock
    /\ LET f == frame[t]
       IN mods' = (f.m :> [g |-> f.g, k |-> f.k, c |-> f.c, kt |-> f.kt, pobj |-> TRUE, rc |-> 0]) @@ mods
    /\ created' = created + 1 /\ live' = live + 1
    /\ pc' = [pc EXCEPT ![t] = "idle"]
    /\ frame' = [frame EXCEPT ![t] = IdleFrame]
    /\ Adv(t)
    /\ UNCHANGED <<rts, holds, registry, started, obs>>

(* Package::get_function for every function of the module: one bundle of handles *)
GGet(t, o) == /\ o.op = "get" /\ pc[t] = "idle" /\ o.m \in Mods /\ mods[o.m].pobj
              /\ o.m \notin holds[t] /\ LockFree
Get(t, o) ==
    /\ GGet(t, o)
    /\ holds' = [holds EXCEPT ![t] = @ \cup {o.m}]
    /\ mods' = [mods EXCEPT ![o.m].rc = @ + 1]
    /\ Adv(t)
    /\ UNCHANGED <<rts, reglock, registry, pc, frame, started, obs, created, live>>

Range(s) == {s[i] : i \in 1..Len(s)}

(* thread::spawn with clones of the bundles o.ms *)
GSpawn(t, o) == /\ o.op = "spawn" /\ pc[t] = "idle" /\ o.t \in Threads \ started
                /\ Range(o.ms) \subseteq holds[t]
Spawn(t, o) ==
    /\ GSpawn(t, o)
    /\ started' = started \cup {o.t}
    /\ holds' = [holds EXCEPT ![o.t] = Range(o.ms)]
    /\ mods' = [m \in Mods |-> IF m \in Range(o.ms) THEN [mods[m] EXCEPT !.rc = @ + 1] ELSE mods[m]]
    /\ Adv(t)
    /\ UNCHANGED <<rts, reglock, registry, pc, frame, obs, created, live>>

GDropPkg(t, o) == o.op = "drop_pkg" /\ pc[t] = "idle" /\ o.m \in Mods /\ mods[o.m].pobj
DropPkg(t, o) ==
    /\ GDropPkg(t, o)
    /\ LET mods1 == [mods EXCEPT ![o.m].pobj = FALSE]
       IN mods' = mods1 /\ live' = live - FreedBy(mods1, rts)
    /\ Adv(t)
    /\ UNCHANGED <<rts, holds, reglock, registry, pc, frame, started, obs, created>>

GDropHandles(t, o) == o.op = "drop_handles" /\ pc[t] = "idle" /\ o.m \in holds[t]
DropHandles(t, o) ==
    /\ GDropHandles(t, o)
    /\ holds' = [holds EXCEPT ![t] = @ \ {o.m}]
    /\ LET mods1 == [mods EXCEPT ![o.m].rc = @ - 1]
       IN mods' = mods1 /\ live' = live - FreedBy(mods1, rts)
    /\ Adv(t)
    /\ UNCHANGED <<rts, reglock, registry, pc, frame, started, obs, created>>

(* join of all other threads; `othersDone` is supplied by the wrapper *)
GJoin(t, o, othersDone) == o.op = "join" /\ pc[t] = "idle" /\ othersDone
Join(t, o, othersDone) ==
    /\ GJoin(t, o, othersDone)
    /\ Adv(t)
    /\ UNCHANGED <<rts, mods, holds, reglock, registry, pc, frame, started, obs, created, live>>

(* what must hold when every thread has ended and every holder is gone *)
QuiescentOK ==
    /\ live = 0
    /\ \A m \in Mods : ModFreed(m)
    /\ \A g \in Rts : /\ RtFreed(g)
                      /\ ~rts[g].dupl
                      /\ rts[g].cnt = rts[g].ncl
                      /\ rts[g].seen = {i - 1 : i \in 1..rts[g].ncl}

GQuiesce(t, o) == o.op = "quiesce" /\ pc[t] = "idle"
Quiesce(t, o) ==
    /\ GQuiesce(t, o)
    /\ Adv(t)
    /\ UNCHANGED <<rts, mods, holds, reglock, registry, pc, frame, started, obs, created, live>>

(* ------------------------------------------------------------------------ *)
Enabled(t, o, othersDone) ==
    /\ t \in started
    /\ \/ GBegin(t, o) \/ GReadConst(t) \/ GClAtomic(t, o) \/ GClRead(t) \/ GClWrite(t, o)
       \/ GMk(t) \/ GEnd(t, o) \/ GBuildRt(t, o) \/ GDropRt(t, o) \/ GCompAcq(t, o)
       \/ GCompRead(t) \/ GCompUpd(t) \/ GCompRel(t, o) \/ GGet(t, o) \/ GSpawn(t, o)
       \/ GDropPkg(t, o) \/ GDropHandles(t, o) \/ GJoin(t, o, othersDone) \/ GQuiesce(t, o)

Step(t, o, othersDone) ==
    /\ t \in started
    /\ \/ Begin(t, o) \/ ReadConst(t) \/ ClAtomic(t, o) \/ ClRead(t) \/ ClWrite(t, o)
       \/ Mk(t) \/ End(t, o) \/ BuildRt(t, o) \/ DropRt(t, o) \/ CompAcq(t, o)
       \/ CompRead(t) \/ CompUpd(t) \/ CompRel(t, o) \/ Get(t, o) \/ Spawn(t, o)
       \/ DropPkg(t, o) \/ DropHandles(t, o) \/ Join(t, o, othersDone) \/ Quiesce(t, o)

Init ==
    /\ rts = <<>> /\ mods = <<>>
    /\ holds = [t \in Threads |-> {}]
    /\ reglock = 0 /\ registry = {}
    /\ pc = [t \in Threads |-> "idle"]
    /\ frame = [t \in Threads |-> IdleFrame]
    /\ ip = [t \in Threads |-> 1]
    /\ started = {1}
    /\ obs = [t \in Threads |-> NoObs]
    /\ created = 0 /\ live = 0

(* ------------------------------------------------------------------------ *)
(* properties                                                                *)
(* ------------------------------------------------------------------------ *)
(* every call returns what the same call returns single-threaded: the value  *)
(* the language assigns to it from the constants the compilation wrote       *)
ResultOK ==
    \A t \in Threads :
      obs[t].fn # "none" =>
        LET md == mods[obs[t].m]
        IN obs[t].res = F(md.k, md.c, md.kt, md.g, obs[t].fn, obs[t].x, obs[t].y, obs[t].ps)

(* a running call's module and runtime resources are alive *)
CallValid ==
    \A t \in Threads : pc[t] = "call" =>
      /\ ~ModFreed(frame[t].m)
      /\ ~RtFreed(mods[frame[t].m].g)

(* the closure never hands out the same value twice; when nobody is inside a  *)
(* closure call the counter equals the number of calls and the values handed  *)
(* out are exactly 0 .. n-1                                                   *)
NoLostUpdate ==
    \A g \in Rts :
      /\ ~rts[g].dupl
      /\ (\A t \in Threads : ~(pc[t] = "call" /\ frame[t].rd /\ frame[t].g = g /\ frame[t].hasTmp))
           => /\ rts[g].cnt = rts[g].ncl
              /\ rts[g].seen = {i - 1 : i \in 1..rts[g].ncl}

(* host-value accounting: the counter of live instances is exactly what the  *)
(* holders account for, at every moment                                      *)
LiveExact == live = LiveDerived

MutexOK == /\ reglock # 0 => pc[reglock] \in {"comp", "comp1", "comp2"}
           /\ UseRegLock => Cardinality({t \in Threads : pc[t] \in {"comp", "comp1", "comp2"}}) <= 1

(* no update of the global tables is lost *)
RegistryComplete == \A m \in Mods : m \in registry

TypeOK ==
    /\ reglock \in {0} \cup Threads
    /\ started \subseteq Threads
    /\ \A t \in Threads : /\ pc[t] \in {"idle", "call", "comp", "comp1", "comp2"}
                          /\ holds[t] \subseteq Mods
                          /\ frame[t].own \in 0..2
    /\ \A m \in Mods : mods[m].g \in Rts /\ mods[m].rc \in 0..(Cardinality(Threads))
=============================================================================
