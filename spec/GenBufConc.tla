----------------------------- MODULE GenBufConc -----------------------------
(***************************************************************************)
(* Behaviour generation for the shared-StringBuf part of C12: BufConc as   *)
(* seen by a controller that imposes a schedule on real threads.           *)
(*                                                                         *)
(* In the real code a thread can be stopped only at a schedule point, i.e. *)
(* immediately before a Mutex::lock ("parked at buffer b").  A controller  *)
(* step is therefore                                                       *)
(*   "start"  call an operation on an idle thread: Start                   *)
(*   "grant"  let a parked thread go on: Acquire and every action of that  *)
(*            thread up to its next Mutex::lock or the end of the          *)
(*            operation (Acquire; Finish / Acquire; Crit) - or, if another *)
(*            thread holds the lock, nothing: the thread is BLOCKED inside *)
(*            Mutex::lock (the pseudo action "Blocked")                    *)
(*   "wake"   not a controller decision: a blocked thread gets the lock as *)
(*            soon as its holder's Finish/Crit releases it and runs on to  *)
(*            its next stop; the controller only waits for that            *)
(* Interleavings in which another thread moves between an Acquire and the  *)
(* locked section that follows it are not generated: no thread can be      *)
(* stopped there, and every such behaviour is equivalent to one generated  *)
(* here (the other thread cannot touch a buffer whose lock is held).  The  *)
(* exhaustive runs of MCBufConc do explore them.                           *)
(*                                                                         *)
(*   hist     one record per controller step: thread, kind of step, the    *)
(*            operation (start), the BufConc actions it consists of, and   *)
(*            the expectations after it: blocked?, parked at which buffer  *)
(*            (0: not parked), operation completed?, its result            *)
(*   granted  threads that were let go while their lock was held           *)
(* Two threads are never left blocked on the same lock (which of them the  *)
(* mutex would wake first is not specified).                               *)
(***************************************************************************)
EXTENDS MCBufConc

VARIABLES hist, granted
gvars == <<vars, hist, granted>>

Running  == {t \in Threads : pc[t] = "crit"}
Wakeable == {t \in granted : Free(Want(t))}

(* expectations about thread t after the step (primed state) *)
ParkedAt(t) == IF pc'[t] = "acq" /\ t \notin granted' THEN WantOf(cur'[t], stage'[t]) ELSE 0
Rec(t, ctl, o, a, blk) ==
    [t |-> t, ctl |-> ctl, op |-> o, acts |-> <<a>>, blocked |-> blk, parked |-> ParkedAt(t),
     done |-> (~blk /\ out'.done), res |-> IF blk THEN "none" ELSE out'.res]
New(t, ctl, o, a, blk) == hist' = Append(hist, Rec(t, ctl, o, a, blk))
(* the thread of the last record runs on without stopping *)
Extend(t, a) ==
    /\ hist[Len(hist)].t = t
    /\ hist' = [hist EXCEPT ![Len(hist)] =
                 [@ EXCEPT !.acts = Append(@, a), !.parked = ParkedAt(t), !.done = out'.done, !.res = out'.res]]

GInit == Init /\ hist = <<>> /\ granted = {}

GNext ==
    IF Running # {}
    THEN \E t \in Running :
            /\ UNCHANGED granted
            /\ \/ Crit(t) /\ Extend(t, [a |-> "Crit", b |-> 0])
               \/ Finish(t) /\ Extend(t, [a |-> "Finish", b |-> 0])
    ELSE IF Wakeable # {}
    THEN \E t \in Wakeable :
            /\ Acquire(t, Want(t))
            /\ granted' = granted \ {t}
            /\ New(t, "wake", NoOp, [a |-> "Acquire", b |-> Want(t)], FALSE)
    ELSE \/ \E t \in Threads, o \in Ops :
            /\ Start(t, o) /\ UNCHANGED granted
            /\ New(t, "start", o, [a |-> "Start", b |-> 0], FALSE)
         \/ \E t \in Threads \ granted :
            /\ pc[t] = "acq" /\ Free(Want(t))
            /\ Acquire(t, Want(t)) /\ UNCHANGED granted
            /\ New(t, "grant", NoOp, [a |-> "Acquire", b |-> Want(t)], FALSE)
         \/ \E t \in Threads \ granted :
            /\ pc[t] = "acq" /\ ~Free(Want(t))
            /\ \A u \in granted : Want(u) # Want(t)
            /\ granted' = granted \cup {t}
            /\ UNCHANGED vars
            /\ New(t, "grant", NoOp, [a |-> "Blocked", b |-> Want(t)], TRUE)

(* no stuttering at the end: a finished (or stuck) behaviour has no successor, TLC runs with CHECK_DEADLOCK FALSE *)
GSpec == GInit /\ [][GNext]_gvars

(* every thread that is not finished waits inside Mutex::lock for a lock that is never released *)
Stuck == /\ Running = {} /\ Wakeable = {} /\ granted # {}
         /\ \A t \in Threads : t \in granted \/ (pc[t] = "idle" /\ nops[t] = MaxOps)

Case == [init |-> InitBuf, threads |-> Cardinality(Threads), addrless |-> AddrLess,
         steps |-> hist, final |-> buf, lin |-> Linearizable, deadlock |-> Stuck]
Emit == (AllDone \/ Stuck) => PrintT(<<"REPLAY", ToJson(Case)>>)
=============================================================================
