------------------------------ MODULE Totality ------------------------------
(* C06: compilation is total.                                               *)
(*                                                                          *)
(* The outcome machine of one compiler invocation on one input (a source    *)
(* text or a file tree):                                                    *)
(*                                                                          *)
(*   Compile(input)  ends in  Ok (a package)  or  Report(spans);            *)
(*   (for an input that is erroneous by construction only Report);          *)
(*   a report is rendered without and with colour, Render(report, c) ends   *)
(*   in Done and shows every label of the report;                           *)
(*   every location a report cites is well formed: it lies inside the cited *)
(*   file (start <= end <= length of that file) and both ends are on        *)
(*   character boundaries.                                                  *)
(*                                                                          *)
(* There is no action for "panicked", "aborted", "killed by a signal",      *)
(* "overflowed the stack" or "did not return in time": those are not        *)
(* behaviours.  Inputs are bounded in nesting depth (<= MaxDepth).          *)
EXTENDS Naturals, Sequences, FiniteSets

CONSTANT MaxDepth       \* documented bound on the nesting depth of an input

VARIABLES phase,   \* "idle" | "report"
          cited,   \* the spans cited by the report being rendered
          shown    \* colour settings the current report was rendered with

tvars0 == <<phase, cited, shown>>

(* a cited location: [file, len, start, end, ok]; len = byte length of the cited file,     *)
(* ok = the file exists and start and end are character boundaries of its text             *)
WellFormed(sp) == sp.start <= sp.end /\ sp.end <= sp.len /\ sp.ok

Init == phase = "idle" /\ cited = <<>> /\ shown = {}

(* Some inputs are erroneous by construction (must = "report": an infinite type, a string literal  *)
(* with an invalid escape): for them a package is not an outcome.  Where the input grammar knows   *)
(* the erroneous text (at = <<start, end>>: the invalid escape, from its backslash to its end) the *)
(* first location the report cites is exactly that text.                                           *)
CompileOk(must) == phase = "idle" /\ must # "report" /\ UNCHANGED tvars0

CitesExactly(spans, at) == IF at = <<>> THEN TRUE
                           ELSE IF spans = <<>> THEN FALSE
                           ELSE spans[1].start = at[1] /\ spans[1].end = at[2]

CompileReport(spans, at) ==
  /\ phase = "idle"
  /\ \A i \in 1..Len(spans) : WellFormed(spans[i])
  /\ CitesExactly(spans, at)
  /\ phase' = "report" /\ cited' = spans /\ shown' = {}

(* rendering shows all `labels` labels of the report (labelsShown of them appeared) *)
Render(colour, labels, labelsShown) ==
  /\ phase = "report"
  /\ colour \notin shown
  /\ labelsShown = labels
  /\ shown' = shown \cup {colour}
  /\ phase' = IF shown' = {TRUE, FALSE} THEN "idle" ELSE "report"
  /\ cited' = IF phase' = "idle" THEN <<>> ELSE cited

TypeOK == phase \in {"idle", "report"} /\ shown \subseteq BOOLEAN
CitedWellFormed == \A i \in 1..Len(cited) : WellFormed(cited[i])
=============================================================================
