--------------------------- MODULE MCRegistration ---------------------------
(* Case generation for C18 (S->I): TLC enumerates libraries over a fixed   *)
(* item vocabulary x all item orders x at most one injected defect x one   *)
(* or two Add calls (Mode "refuse": two or three, with a refused one in    *)
(* between), evaluates Registration!Add on each and prints one     *)
(* REPLAY case per behaviour: the libraries, the specified outcome of each *)
(* Add and, after a successful Add, every probe with the tag it must       *)
(* observe.  Names starting with '#' are abstract representatives of a     *)
(* lexical class; lib/checks/c18.py substitutes concrete strings.          *)
EXTENDS Registration, Json, IOUtils

CONSTANTS UB,       \* use trees (Mode "usetree") have at most UB leaves
          N,        \* maximal number of top-level items of a library
          ND,       \* defects are injected into libraries of at most ND items
          Mode,     \* "single" | "split" | "readd" | "dup1" | "dup2" | "sig" | "usetree" | "macro" | "refuse"
          Light     \* TRUE: one representative per defect class

VARIABLE hist
mcvars == <<rt, valid, outcome, hist>>

(* ------------------------------------------------------------ items *)
Item(k, n, its, ty, mov, ps, r, tag, paths) ==
  [k |-> k, name |-> n, cls |-> "ascii", items |-> its, ty |-> ty, mov |-> mov, ps |-> ps, r |-> r, tag |-> tag, paths |-> paths]
Mod(n, its)         == Item("mod", n, its, 0, "", <<>>, 0, 0, <<>>)
Type(n, ty, mov)    == Item("type", n, <<>>, ty, mov, <<>>, 0, 0, <<>>)
Fn(n, ps, r, tag)   == Item("fn", n, <<>>, 0, "", ps, r, tag, <<>>)
Const(n, ty, tag)   == Item("const", n, <<>>, ty, "", <<>>, 0, tag, <<>>)
Impl(ty, its)       == Item("impl", "", its, ty, "", <<>>, 0, 0, <<>>)
Use(paths)          == Item("use", "", <<>>, 0, "", <<>>, 0, 0, paths)

(* Rust types: 0 = i32, 1 = Val<TA> (Roto T), 2 = Val<TB> (U), 3 = Val<TC> (W) *)
Vocab == <<
  Mod("ma", <<Fn("f1", <<>>, 0, 1), Const("C1", 0, 2)>>),
  Mod("mb", <<Mod("n", <<Fn("f2", <<1>>, 0, 3)>>)>>),
  Type("T", 1, "clone"),
  Type("U", 2, "copy"),
  Fn("f3", <<0>>, 0, 4),
  Fn("f4", <<1, 2>>, 1, 5),
  Impl(1, <<Fn("g1", <<1>>, 0, 6), Fn("g2", <<>>, 0, 7)>>),
  Const("C2", 0, 8),
  Const("C3", 1, 9),
  Use(<< <<"ma", "f1">>, <<"ma", "C1">> >>),
  Use(<< <<"mb", "n", "f2">> >>),
  Mod("mc", <<Type("W", 3, "copy"), Fn("f5", <<3>>, 3, 10), Use(<< <<"mc", "f5">> >>)>>),
  Use(<< <<"T", "g2">>, <<"mc", "W">> >>)
>>
K == Len(Vocab)

(* sequences of distinct vocabulary indices of length 1..n *)
RECURSIVE IdxSeqs(_)
IdxSeqs(n) == IF n = 0 THEN {<<>>}
              ELSE LET S == IdxSeqs(n - 1) IN
                   S \cup {Append(s, i) : s \in {x \in S : Len(x) = n - 1}, i \in 1..K}
DistinctIdx(s) == \A i, j \in DOMAIN s : i # j => s[i] # s[j]
BaseIdx(n)  == {s \in IdxSeqs(n) : s # <<>> /\ DistinctIdx(s)}
LibOf(s)    == [i \in DOMAIN s |-> Vocab[s[i]]]

(* ---------------------------------------------------------- defects *)
RECURSIVE Positions(_)
Positions(items) == UNION {{<<i>>} \cup {<<i>> \o p : p \in Positions(items[i].items)} : i \in DOMAIN items}
RECURSIVE ItemAt(_, _)
ItemAt(items, pos) == IF Len(pos) = 1 THEN items[pos[1]] ELSE ItemAt(items[pos[1]].items, Tail(pos))
RECURSIVE RenameAt(_, _, _, _)
RenameAt(items, pos, n, c) ==
  LET it == items[pos[1]] IN
  [items EXCEPT ![pos[1]] = IF Len(pos) = 1 THEN [it EXCEPT !.name = n, !.cls = c]
                            ELSE [it EXCEPT !.items = RenameAt(it.items, Tail(pos), n, c)]]
RECURSIVE RetypeAt(_, _, _)
RetypeAt(items, pos, t) ==
  LET it == items[pos[1]] IN
  [items EXCEPT ![pos[1]] = IF Len(pos) = 1 THEN [it EXCEPT !.ty = t]
                            ELSE [it EXCEPT !.items = RetypeAt(it.items, Tail(pos), t)]]
RECURSIVE RepathAt(_, _, _)
RepathAt(items, pos, ps) ==
  LET it == items[pos[1]] IN
  [items EXCEPT ![pos[1]] = IF Len(pos) = 1 THEN [it EXCEPT !.paths = ps]
                            ELSE [it EXCEPT !.items = RepathAt(it.items, Tail(pos), ps)]]
RECURSIVE ReverseAt(_, _)
Rev(s) == [i \in DOMAIN s |-> s[Len(s) + 1 - i]]
ReverseAt(items, pos) ==
  LET it == items[pos[1]] IN
  [items EXCEPT ![pos[1]] = IF Len(pos) = 1 THEN [it EXCEPT !.items = Rev(it.items)]
                            ELSE [it EXCEPT !.items = ReverseAt(it.items, Tail(pos))]]

NamedPos(lib) == {p \in Positions(lib) : IsNamed(ItemAt(lib, p))}
TypePos(lib)  == {p \in Positions(lib) : ItemAt(lib, p).k = "type"}
UsePos(lib)   == {p \in Positions(lib) : ItemAt(lib, p).k = "use"}
KidsPos(lib)  == {p \in Positions(lib) : Len(ItemAt(lib, p).items) >= 2}

(* invalid names: one abstract representative per lexical class *)
BadNames == IF Light
            THEN {[n |-> "#kw", c |-> "keyword"], [n |-> "#digit", c |-> "digit"], [n |-> "#dot", c |-> "dot"],
                  [n |-> "#space", c |-> "space"], [n |-> "#comment", c |-> "comment"]}
            ELSE {[n |-> "#kw", c |-> "keyword"], [n |-> "#digit", c |-> "digit"], [n |-> "#dot", c |-> "dot"],
                  [n |-> "#space", c |-> "space"], [n |-> "#comment", c |-> "comment"], [n |-> "#empty", c |-> "empty"], [n |-> "#bool", c |-> "boollit"],
                  [n |-> "#hyphen", c |-> "hyphen"]}
(* valid names that are not ASCII *)
GoodNames == IF Light THEN {[n |-> "#na1", c |-> "nonascii"]}
             ELSE {[n |-> "#na1", c |-> "nonascii"], [n |-> "#na2", c |-> "nonascii"]}

Variant(d, lib) == [d |-> d, lib |-> lib, macro |-> "", tree |-> <<>>]
Defects(lib) ==
  {Variant("bad-" \o b.c, RenameAt(lib, p, b.n, b.c)) : b \in BadNames, p \in NamedPos(lib)}
  \cup {Variant("nonascii", RenameAt(lib, p, g.n, g.c)) : g \in GoodNames, p \in NamedPos(lib)}
  \cup UNION {{Variant("dup-name", RenameAt(lib, q, ItemAt(lib, p).name, "ascii"))
                  : q \in {x \in NamedPos(lib) : x # p /\ Front(x) = Front(p)}} : p \in NamedPos(lib)}
  \cup {Variant("taken-builtin", RenameAt(lib, p, "Option", "ascii")) : p \in {x \in NamedPos(lib) : Len(x) = 1}}
  \cup {Variant("taken-builtin-prim", RenameAt(lib, p, "String", "ascii")) : p \in {x \in NamedPos(lib) : Len(x) = 1}}
  \cup {Variant("prim-name-in-module", RenameAt(lib, p, "u32", "ascii")) : p \in {x \in TypePos(lib) : Len(x) >= 2}}
  \cup UNION {{Variant("dup-rust-type", RetypeAt(lib, q, ItemAt(lib, p).ty)) : q \in {x \in TypePos(lib) : x # p}} : p \in TypePos(lib)}
  \cup {Variant("use-empty", RepathAt(lib, p, << <<>> >>)) : p \in UsePos(lib)}
  \cup {Variant("use-missing", RepathAt(lib, p, <<Append(Front(ItemAt(lib, p).paths[1]), "nope")>>)) : p \in UsePos(lib)}
  \cup {Variant("use-missing-mid", RepathAt(lib, p, << <<"nomod">> \o ItemAt(lib, p).paths[1] >>)) : p \in UsePos(lib)}
  \cup {Variant("child-order", ReverseAt(lib, p)) : p \in KidsPos(lib)}

(* exactly one defect: defects are injected into libraries that are accepted without it *)
Variants(s) == {Variant("none", LibOf(s))} \cup
               (IF Len(s) <= ND /\ Analyse(EmptyRt, LibOf(s)).out = "Ok" THEN Defects(LibOf(s)) ELSE {})

(* ------------------------------------------------------------ cases *)
ToSeq(S) == IF S = {} THEN <<>> ELSE
            LET RECURSIVE F(_)
                F(T) == IF T = {} THEN <<>> ELSE LET x == CHOOSE y \in T : TRUE IN <<x>> \o F(T \ {x})
            IN F(S)

TyList(r) == LET D == DOMAIN r.rtypes \ {0} IN ToSeq({[ty |-> t, path |-> r.rtypes[t]] : t \in D})

Entry(v, a) ==
  [lib      |-> v.lib,
   defect   |-> v.d,
   macro    |-> v.macro,
   tree     |-> v.tree,
   out      |-> a.out,
   why      |-> ToSeq(a.why),
   dangling |-> ToSeq(a.dangling),
   tys      |-> IF a.out = "Err" THEN <<>> ELSE TyList(a.rt),
   probes   |-> IF a.out = "Err" THEN <<>>
                ELSE IF v.macro = "usetree" \/ Mode = "sig" THEN ToSeq(PositiveProbes(a.rt))
                ELSE ToSeq(PositiveProbes(a.rt)) \o ToSeq(NegativeProbes(a.rt)) \o ToSeq(SigProbes(a.rt))]

Step(v) ==
  LET a == Analyse(rt, v.lib) IN
  /\ Add(v.lib, IF a.out = "Err" THEN "err" ELSE "ok")
  /\ hist' = Append(hist, Entry(v, a))

(* the fixed shapes that harness/src/bin/c18.rs builds with the library! macro *)
(* (fn macro_lib): the same libraries, described as items                     *)
MacroShapes == [
  flat   |-> <<Type("T", 1, "clone"), Type("U", 2, "copy"), Fn("f3", <<0>>, 0, 4), Fn("f4", <<1, 2>>, 1, 5),
               Const("C2", 0, 8), Const("C3", 1, 9), Impl(1, <<Fn("g1", <<1>>, 0, 6), Fn("g2", <<>>, 0, 7)>>)>>,
  order  |-> <<Use(<< <<"ma", "f1">> >>), Use(<< <<"mb", "n", "f2">> >>), Impl(1, <<Fn("g1", <<1>>, 0, 6)>>),
               Const("C3", 1, 9), Mod("mb", <<Mod("n", <<Fn("f2", <<1>>, 0, 3)>>)>>),
               Mod("ma", <<Fn("f1", <<>>, 0, 1), Const("C1", 0, 2)>>), Type("T", 1, "clone")>>,
  nested |-> <<Mod("mc", <<Type("W", 3, "copy"), Fn("f5", <<3>>, 3, 10),
                           Impl(3, <<Fn("g3", <<3, 0>>, 0, 11), Const("C4", 0, 12)>>),
                           Mod("#na2", <<Fn("#na1", <<>>, 0, 13)>>)>>),
               Use(<< <<"mc", "W">> >>), Use(<< <<"mc", "#na2", "#na1">> >>)>>,
  unreg  |-> <<Fn("f4", <<1, 2>>, 1, 5), Type("T", 1, "clone")>>,
  dup    |-> <<Mod("ma", <<Fn("f1", <<>>, 0, 1), Const("f1", 0, 2)>>)>>
]
RECURSIVE MarkNA(_)
MarkNA(items) == [i \in DOMAIN items |->
                    [items[i] EXCEPT !.cls = IF items[i].name \in {"#na1", "#na2"} THEN "nonascii" ELSE @,
                                     !.items = MarkNA(@)]]

(* ------------------------------------------------- duplicate registrations *)
(* One thing registered twice: (kind) x (same / different identifier) x      *)
(* (where the first is) x (where the second is) x (one library, either order,*)
(* or two Add calls).  kind "type-same": one Rust type twice; "type-other":  *)
(* two Rust types; "method": two impl blocks of T (the place of an impl      *)
(* block does not matter: methods live in the scope of the type).            *)
DupKinds  == {"type-same", "type-other", "fn", "const", "method"}
DupPlaces1 == {"root", "ma", "ma.n"}
DupPlaces2 == {"root", "ma", "mb", "ma.n", "mb.n"}
DupCells  == [kind : DupKinds, ident : {"same", "diff"}, p1 : DupPlaces1, p2 : DupPlaces2]
Pair(w, it) == [w |-> w, it |-> it]
DupFirst(c) ==
  (IF c.kind = "method" THEN <<Pair("root", Type("T", 1, "clone"))>> ELSE <<>>) \o
  <<Pair(c.p1, CASE c.kind \in {"type-same", "type-other"} -> Type("T", 1, "clone")
                 [] c.kind = "fn"     -> Fn("f", <<>>, 0, 21)
                 [] c.kind = "const"  -> Const("K", 0, 23)
                 [] c.kind = "method" -> Impl(1, <<Fn("g", <<1>>, 0, 25)>>))>>
DupSecond(c) ==
  LET same == c.ident = "same" IN
  CASE c.kind = "type-same"  -> <<Pair(c.p2, Type(IF same THEN "T" ELSE "T2", 1, "copy"))>>
    [] c.kind = "type-other" -> <<Pair(c.p2, Type(IF same THEN "T" ELSE "T2", 2, "copy")),
                                  Pair(c.p2, Fn("mk", <<2>>, 2, 27))>>
    [] c.kind = "fn"         -> <<Pair(c.p2, Fn(IF same THEN "f" ELSE "f2", <<>>, 0, 22))>>
    [] c.kind = "const"      -> <<Pair(c.p2, Const(IF same THEN "K" ELSE "K2", 0, 24))>>
    [] c.kind = "method"     -> <<Pair(c.p2, Impl(1, <<Fn(IF same THEN "g" ELSE "g2", <<1>>, 0, 26)>>))>>
ItemsAt(pairs, w) == LET s == SelectSeq(pairs, LAMBDA p : p.w = w) IN [i \in DOMAIN s |-> s[i].it]
ModIf(n, kids) == IF kids = <<>> THEN <<>> ELSE <<Mod(n, kids)>>
BuildLib(pairs) ==
  ItemsAt(pairs, "root")
  \o ModIf("ma", ItemsAt(pairs, "ma") \o ModIf("n", ItemsAt(pairs, "ma.n")))
  \o ModIf("mb", ItemsAt(pairs, "mb") \o ModIf("n", ItemsAt(pairs, "mb.n")))
DupLabel(c, how) == "dup/" \o c.kind \o "/" \o c.ident \o "/" \o c.p1 \o "/" \o c.p2 \o "/" \o how

(* ------------------------------------------------- compound signatures *)
(* "reachable under the signature the Rust types denote": items whose      *)
(* signature has Option / List / Result / Verdict types (one or two levels, *)
(* different component types in every position) over u32, bool, String and *)
(* the host type T, in return and in parameter position, as constant and   *)
(* as method parameter.  harness/src/tables/c18_sigs.rs (generated by      *)
(* tools/gen_c18_sigs.py from SigCodes) has the Rust type of every code.   *)
SigLeaves == {1, 5, 6, 7}
SigPairs  == {<<5, 6>>, <<6, 7>>, <<7, 1>>, <<1, 5>>}
SigD1 == {100 + 10 * x : x \in SigLeaves} \cup {200 + 10 * x : x \in SigLeaves}
         \cup {300 + 10 * x + y : x \in SigLeaves, y \in SigLeaves}
         \cup {400 + 10 * x + y : x \in SigLeaves, y \in SigLeaves}
D1(k, pr) == k * 100 + 10 * pr[1] + pr[2]
SigD2 == {o * 1000000 + D1(i, pr) * 1000 : o \in {1, 2}, i \in {3, 4}, pr \in SigPairs}
         \cup {3000000 + (100 + 10 * pr[1]) * 1000 + pr[2] : pr \in SigPairs}     \* Result[Option[x], y]
         \cup {3000000 + pr[1] * 1000 + (200 + 10 * pr[2]) : pr \in SigPairs}     \* Result[x, List[y]]
         \cup {4000000 + (200 + 10 * pr[1]) * 1000 + pr[2] : pr \in SigPairs}     \* Verdict[List[x], y]
         \cup {4000000 + pr[1] * 1000 + (100 + 10 * pr[2]) : pr \in SigPairs}     \* Verdict[x, Option[y]]
SigCodes == {5, 6, 7} \cup SigD1 \cup SigD2
SigItems(t) == <<Fn("mk", <<0>>, t, 31), Fn("rd", <<t>>, 0, 32), Const("KV", t, 33),
                 Impl(1, <<Fn("gm", <<1, t>>, 0, 34)>>)>>
SigLib(t, how) ==
  CASE how = "root"     -> <<Type("T", 1, "clone")>> \o SigItems(t)
    [] how = "root-rev" -> Rev(<<Type("T", 1, "clone")>> \o SigItems(t))
    [] how = "module"   -> <<Mod("ms", SigItems(t)), Type("T", 1, "clone")>>
    [] how = "no-type"  -> SubSeq(SigItems(t), 1, 3)      \* the host type is not registered

(* ------------------------------------------------------------ use trees *)
(* `use` items of library!: all trees with at most UB leaves over a world  *)
(* of nested modules with namesakes at every level (a.d, a.b.d, a.b.q.d,   *)
(* a.p.d ..), so that a wrongly flattened path either names nothing or     *)
(* names an item with another tag.  harness/src/tables/c18_usetrees.rs     *)
(* (generated by tools/gen_c18_usetrees.py from this enumeration) holds    *)
(* the same trees as compiled library! invocations.                         *)
NameT(x)     == [t |-> "name", x |-> x, kids |-> <<>>]
PathT(x, k)  == [t |-> "path", x |-> x, kids |-> <<k>>]
GroupT(ks)   == [t |-> "group", x |-> "", kids |-> ks]
UseWorld == <<
  Mod("a", <<Fn("d", <<>>, 0, 2), Fn("e", <<>>, 0, 3),
             Mod("b", <<Fn("c", <<>>, 0, 5), Fn("d", <<>>, 0, 6),
                        Mod("q", <<Fn("d", <<>>, 0, 10), Fn("r", <<>>, 0, 11)>>)>>),
             Mod("p", <<Fn("d", <<>>, 0, 12), Fn("s", <<>>, 0, 13)>>)>>),
  Fn("z", <<>>, 0, 1)>>
(* Built bottom-up, one table per module indexed by the number of leaves   *)
(* (zero-arity definitions: TLC evaluates each once).                       *)
(* entries of a group / what may follow `ident ::` : a name, or a path     *)
(* into a submodule                                                         *)
Ent(n, names, subs) ==
  (IF n = 1 THEN {NameT(x) : x \in names} ELSE {})
  \cup UNION {{PathT(sb.name, t) : t \in sb.trees[n]} : sb \in subs}
(* trees with n leaves from the entry table E: an entry, or a group of 2..3 distinct entries *)
TreesOf(E, n) ==
  E[n]
  \cup UNION {{g \in {GroupT(<<e1, e2>>) : e1 \in E[k], e2 \in E[n - k]} : g.kids[1] # g.kids[2]}
                : k \in 1..(n - 1)}
  \cup UNION {UNION {{g \in {GroupT(<<e1, e2, e3>>) : e1 \in E[k1], e2 \in E[k2], e3 \in E[n - k1 - k2]}
                          : g.kids[1] # g.kids[2] /\ g.kids[1] # g.kids[3] /\ g.kids[2] # g.kids[3]}
                       : k2 \in 1..(n - k1 - 1)}
                : k1 \in 1..(n - 2)}
QE == [n \in 1..UB |-> Ent(n, {"d", "r"}, {})]
QT == [n \in 1..UB |-> TreesOf(QE, n)]
PE == [n \in 1..UB |-> Ent(n, {"d", "s"}, {})]
PT == [n \in 1..UB |-> TreesOf(PE, n)]
BE == [n \in 1..UB |-> Ent(n, {"c", "d"}, {[name |-> "q", trees |-> QT]})]
BT == [n \in 1..UB |-> TreesOf(BE, n)]
AE == [n \in 1..UB |-> Ent(n, {"d", "e"}, {[name |-> "b", trees |-> BT], [name |-> "p", trees |-> PT]})]
AT == [n \in 1..UB |-> TreesOf(AE, n)]
(* a few shapes outside that grammar: one-entry groups, a module as the imported name *)
ExtraTrees == {PathT("a", GroupT(<<NameT("d")>>)),
               PathT("a", PathT("b", GroupT(<<NameT("c")>>))),
               PathT("a", NameT("b")),
               PathT("a", GroupT(<<PathT("b", NameT("q")), NameT("e")>>)),
               PathT("a", GroupT(<<PathT("b", GroupT(<<PathT("q", GroupT(<<NameT("r")>>))>>)), NameT("p")>>))}
UseTrees == {tr \in UNION {{PathT("a", t) : t \in AT[n]} : n \in 1..UB} : ~HasDup(UsePaths(tr))} \cup ExtraTrees


(* ------------------------------------------------------------ refused adds *)
(* "A refused Add leaves what earlier successful Adds made reachable       *)
(* unchanged": sequences of two and three Adds (ok refused / ok refused ok  *)
(* / ok ok refused / ok refused refused) where the refused library has an   *)
(* item with the NAME of an earlier item (constant, function, type,        *)
(* module, method, static method, associated constant, use alias; in the   *)
(* root scope, in the scope of a type, as children of a module that exists)*)
(* but another value / tag / Rust type / kind, at every position among      *)
(* items that are new.  After every Add - the refused ones included - all  *)
(* items of the earlier successful Adds are probed (constants are read:    *)
(* the probe observes their VALUE).                                         *)
RBase == <<
  Mod("ma", <<Fn("f1", <<>>, 0, 1), Const("C1", 0, 2), Mod("n", <<Fn("f2", <<1>>, 0, 3), Const("C5", 0, 14)>>)>>),
  Type("T", 1, "clone"),
  Fn("f3", <<0>>, 0, 4),
  Const("C2", 0, 8),
  Const("C3", 1, 9),
  Const("KU", 5, 0),
  Impl(1, <<Fn("g1", <<1>>, 0, 6), Fn("g2", <<>>, 0, 7), Const("C4", 0, 12)>>),
  Use(<< <<"ma", "f1">>, <<"ma", "n", "C5">> >>) >>
RBase1 == SubSeq(RBase, 1, 4)
RBase2 == SubSeq(RBase, 5, Len(RBase))
RThird == <<Fn("y1", <<0>>, 0, 48), Const("Y2", 0, 49), Mod("my", <<Const("Y3", 0, 50)>>),
            Impl(1, <<Const("Y4", 0, 51), Fn("gy", <<1>>, 0, 52)>>)>>
RExtras  == <<Fn("x1", <<>>, 0, 45), Const("X2", 0, 46)>>
RSecond  == <<Fn("x3", <<>>, 0, 53), Const("C2", 0, 47)>>          \* a second refused library
(* earlier names in the root scope: the type of the constant that owns the name, -1 = not a constant *)
RRootTy == [C2 |-> 0, C3 |-> 1, KU |-> 5, f3 |-> -1, T |-> -1, ma |-> -1, f1 |-> -1, C5 |-> -1]
RAliases == {"f1", "C5"}
RImplNames == {"g1", "g2", "C4"}
OtherTy(t) == IF t = 0 \/ t = -1 THEN 1 ELSE 0
RCollider(col, name, tty) ==
  CASE col = "const-value"   -> Const(name, IF tty >= 0 THEN tty ELSE 0, 40)     \* same type, another value
    [] col = "const-type"    -> Const(name, OtherTy(tty), 41)                    \* another Rust type
    [] col = "fn"            -> Fn(name, <<>>, 0, 42)
    [] col = "method"        -> Fn(name, <<1>>, 0, 44)
    [] col = "type"          -> Type(name, 2, "copy")
    [] col = "mod"           -> Mod(name, <<Fn("zz", <<>>, 0, 43)>>)
RShapes == {"ok-ref", "ok-ref-ok", "ok-ok-ref", "ok-ref-ref"}
RPos == IF Light THEN {1, 3} ELSE {1, 2, 3}
RCells ==
  UNION {{[shape |-> sh, tk |-> "root", name |-> n, col |-> col, pos |-> pos]
            : sh \in RShapes, pos \in RPos,
              col \in (IF RRootTy[n] = 5 THEN {"const-type", "fn", "type", "mod"} ELSE {"const-value", "const-type", "fn", "type", "mod"})}
         : n \in DOMAIN RRootTy}
  \cup {[shape |-> sh, tk |-> "impl", name |-> n, col |-> col, pos |-> pos]
          : sh \in RShapes, n \in RImplNames, pos \in RPos, col \in {"const-value", "const-type", "fn", "method"}}
  \cup {[shape |-> sh, tk |-> "modkids", name |-> "ma", col |-> "mod", pos |-> pos] : sh \in RShapes, pos \in RPos}
InsertAt(s, pos, x) == SubSeq(s, 1, pos - 1) \o <<x>> \o SubSeq(s, pos, Len(s))
RRefusedLib(c) ==
  LET it == CASE c.tk = "root"    -> RCollider(c.col, c.name, RRootTy[c.name])
              [] c.tk = "impl"    -> Impl(1, <<RCollider(c.col, c.name, IF c.name = "C4" THEN 0 ELSE -1)>>)
              [] c.tk = "modkids" -> Mod("ma", <<Const("C1", 0, 40), Fn("f1", <<>>, 0, 42), Mod("n", <<Const("C5", 0, 44)>>)>>)
      (* a declaration named like an alias is not a reason to refuse a library: a constant whose name is taken is added *)
      sure == IF c.tk = "root" /\ c.name \in RAliases THEN <<Const("C3", 1, 54)>> ELSE <<>>
  IN InsertAt(RExtras, c.pos, it) \o sure
RLabel(c) == "refuse/" \o c.shape \o "/" \o c.tk \o "/" \o c.name \o "/" \o c.col \o "/" \o ToString(c.pos)
PlanStep(c, what, lib, last) == [v |-> Variant(RLabel(c) \o "/" \o what, lib), last |-> last]
RPlan(c) ==
  CASE c.shape = "ok-ref"     -> <<PlanStep(c, "base", RBase, FALSE), PlanStep(c, "refused", RRefusedLib(c), TRUE)>>
    [] c.shape = "ok-ref-ok"  -> <<PlanStep(c, "base", RBase, FALSE), PlanStep(c, "refused", RRefusedLib(c), FALSE),
                                   PlanStep(c, "third", RThird, TRUE)>>
    [] c.shape = "ok-ok-ref"  -> <<PlanStep(c, "base1", RBase1, FALSE), PlanStep(c, "base2", RBase2, FALSE),
                                   PlanStep(c, "refused", RRefusedLib(c), TRUE)>>
    [] c.shape = "ok-ref-ref" -> <<PlanStep(c, "base", RBase, FALSE), PlanStep(c, "refused", RRefusedLib(c), FALSE),
                                   PlanStep(c, "refused2", RSecond, TRUE)>>
(* the same through library!: fixed shapes, compiled into harness/src/bin/c18.rs (fn macro_lib) *)
RMacroShapes == [
  rbase    |-> RBase,
  rthird   |-> RThird,
  rconst   |-> <<Fn("x1", <<>>, 0, 45), Const("X2", 0, 46), Const("C2", 0, 40)>>,
  rconstty |-> <<Const("C2", 1, 41), Fn("x1", <<>>, 0, 45), Const("X2", 0, 46)>>,
  rassoc   |-> <<Fn("x1", <<>>, 0, 45), Impl(1, <<Const("C4", 0, 40)>>), Const("X2", 0, 46)>>,
  rfn      |-> <<Fn("f3", <<>>, 0, 42), Fn("x1", <<>>, 0, 45), Const("X2", 0, 46)>>
]
RMacroCells == {[shape |-> sh, m |-> m] : sh \in {"ok-ref", "ok-ref-ok"}, m \in {"rconst", "rconstty", "rassoc", "rfn"}}
MStep(c, what, m, last) == [v |-> [d |-> "refuse/" \o c.shape \o "/macro/" \o c.m \o "/" \o what, lib |-> RMacroShapes[m], macro |-> m, tree |-> <<>>],
                            last |-> last]
RMacroPlan(c) ==
  IF c.shape = "ok-ref" THEN <<MStep(c, "base", "rbase", FALSE), MStep(c, "refused", c.m, TRUE)>>
  ELSE <<MStep(c, "base", "rbase", FALSE), MStep(c, "refused", c.m, FALSE), MStep(c, "third", "rthird", TRUE)>>
RPlans == {RPlan(c) : c \in RCells} \cup {RMacroPlan(c) : c \in RMacroCells}

(* after a refused Add the probes are those of the runtime Registration!Refused gives: every item of the *)
(* earlier successful Adds, with the tag / value / type it had                                            *)
REntry(v, a, last) ==
  [last |-> last, after |-> a.out = "Err"] @@
  [Entry(v, a) EXCEPT !.tys    = IF a.out = "Err" THEN TyList(rt) ELSE TyList(a.rt),
                      !.probes = IF a.out = "Err" THEN ToSeq(PositiveProbes(Refused(rt, a))) ELSE ToSeq(PositiveProbes(a.rt))]
RNext ==
  /\ Mode = "refuse"
  /\ valid
  /\ (hist # <<>> => ~hist[Len(hist)].last)
  /\ \E pl \in RPlans :
        /\ Len(hist) < Len(pl)
        /\ \A i \in 1..Len(hist) : hist[i].defect = pl[i].v.d
        /\ LET st == pl[Len(hist) + 1]
               a  == Analyse(rt, st.v.lib) IN
           /\ Add(st.v.lib, IF a.out = "Err" THEN "err" ELSE "ok")
           /\ hist' = Append(hist, REntry(st.v, a, st.last))

MCInit == Init /\ hist = <<>>

First ==
  /\ hist = <<>>
  /\ \/ /\ Mode = "single"
        /\ \E s \in BaseIdx(N) : \E v \in Variants(s) : Step(v)
     \/ /\ Mode = "split"
        /\ \E s \in BaseIdx(N) : \E k \in 1..(Len(s) - 1) : Step(Variant("none", LibOf(SubSeq(s, 1, k))))
     \/ /\ Mode = "readd"
        /\ \E s \in BaseIdx(ND) : Step(Variant("none", LibOf(s)))
     \/ /\ Mode = "dup1"
        /\ \E c \in DupCells :
              \/ Step(Variant(DupLabel(c, "one-lib"), BuildLib(DupFirst(c) \o DupSecond(c))))
              \/ Step(Variant(DupLabel(c, "one-lib-rev"), Rev(BuildLib(DupSecond(c) \o DupFirst(c)))))
     \/ /\ Mode = "dup2"
        /\ \E c \in DupCells : Step(Variant("dup-first", BuildLib(DupFirst(c))))
     \/ /\ Mode = "sig"
        /\ \E t \in SigCodes : \E how \in {"root", "root-rev", "module", "no-type"} :
              Step(Variant("sig/" \o how, SigLib(t, how)))
     \/ /\ Mode = "usetree"
        /\ \E tr \in UseTrees :
              Step([d |-> "usetree", lib |-> UseWorld \o <<Use(UsePaths(tr))>>, macro |-> "usetree", tree |-> <<tr>>])
     \/ /\ Mode = "macro"
        /\ \E m \in DOMAIN MacroShapes : Step([d |-> "macro", lib |-> MarkNA(MacroShapes[m]), macro |-> m, tree |-> <<>>])

Second ==
  /\ Len(hist) = 1 /\ valid /\ outcome = "Ok"
  /\ \/ /\ Mode = "split"
        /\ \E s \in BaseIdx(N) : \E k \in 1..(Len(s) - 1) :
              /\ hist[1].lib = LibOf(SubSeq(s, 1, k))
              /\ Step(Variant("split", LibOf(SubSeq(s, k + 1, Len(s)))))
     \/ /\ Mode = "readd"
        /\ \E i \in 1..K : Step(Variant("readd", <<Vocab[i]>>))
     \/ /\ Mode = "dup2"
        /\ \E c \in DupCells :
              /\ hist[1].lib = BuildLib(DupFirst(c))
              /\ Step(Variant(DupLabel(c, "two-adds"), BuildLib(DupSecond(c))))

MCNext == First \/ Second \/ RNext
MCSpec == MCInit /\ [][MCNext]_mcvars

(* a behaviour is complete when no further Add follows *)
Complete ==
  IF Mode = "refuse" THEN hist # <<>> /\ hist[Len(hist)].last ELSE
  \/ Len(hist) = 2
  \/ Len(hist) = 1 /\ (Mode \in {"single", "macro", "dup1", "usetree", "sig"} \/ ~valid \/ outcome # "Ok")
Emit == Complete => PrintT(<<"REPLAY", ToJson([mode |-> Mode, adds |-> hist])>>)

Inv == TypeOK /\ (valid => ScopesClosed /\ AliasesResolve)
(* no Add of the model has an outcome outside Ok / Err / Unspec (there is no Panic) *)
NoPanic == outcome \in {"init", "Ok", "Err", "Unspec"}
=============================================================================
