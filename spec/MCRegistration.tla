--------------------------- MODULE MCRegistration ---------------------------
(* Case generation for C18 (S->I): TLC enumerates libraries over a fixed   *)
(* item vocabulary x all item orders x at most one injected defect x one   *)
(* or two Add calls, evaluates Registration!Add on each and prints one     *)
(* REPLAY case per behaviour: the libraries, the specified outcome of each *)
(* Add and, after a successful Add, every probe with the tag it must       *)
(* observe.  Names starting with '#' are abstract representatives of a     *)
(* lexical class; lib/checks/c18.py substitutes concrete strings.          *)
EXTENDS Registration, Json, IOUtils

CONSTANTS N,        \* maximal number of top-level items of a library
          ND,       \* defects are injected into libraries of at most ND items
          Mode,     \* "single" | "split" | "readd"
          Light     \* TRUE: one representative per defect class

VARIABLE hist
mcvars == <<rt, valid, outcome, hist>>

(* ------------------------------------------------------------ items *)
Item(k, n, its, ty, mov, ps, r, tag, paths) ==
  [k |-> k, name |-> n, cls |-> "ascii", items |-> its, ty |-> ty, mov |-> mov, ps |-> ps, r |-> r, tag |-> tag, paths |-> paths]
Mod(n, its)         == Item("mod", n, its, 0, "", <<>>, 0, 0, <<>>)
Type(n, ty, mov)    == Item("type", n, <<>>, ty, mov, <<>>, 0, 0, <<>>)
Fn(n, ps, r, tag)   == Item("fn", n, <<>>, 0, "", ps, r, tag, <<>>)
Const(n, ty, tag)   == Item("const", n, <<>>, ty, "", <<>>, 0, tag, <<>>)
Impl(ty, its)       == Item("impl", "", its, ty, "", <<>>, 0, 0, <<>>)
Use(paths)          == Item("use", "", <<>>, 0, "", <<>>, 0, 0, paths)

(* Rust types: 0 = i32, 1 = Val<TA> (Roto T), 2 = Val<TB> (U), 3 = Val<TC> (W) *)
Vocab == <<
  Mod("ma", <<Fn("f1", <<>>, 0, 1), Const("C1", 0, 2)>>),
  Mod("mb", <<Mod("n", <<Fn("f2", <<1>>, 0, 3)>>)>>),
  Type("T", 1, "clone"),
  Type("U", 2, "copy"),
  Fn("f3", <<0>>, 0, 4),
  Fn("f4", <<1, 2>>, 1, 5),
  Impl(1, <<Fn("g1", <<1>>, 0, 6), Fn("g2", <<>>, 0, 7)>>),
  Const("C2", 0, 8),
  Const("C3", 1, 9),
  Use(<< <<"ma", "f1">>, <<"ma", "C1">> >>),
  Use(<< <<"mb", "n", "f2">> >>),
  Mod("mc", <<Type("W", 3, "copy"), Fn("f5", <<3>>, 3, 10), Use(<< <<"mc", "f5">> >>)>>),
  Use(<< <<"T", "g2">>, <<"mc", "W">> >>)
>>
K == Len(Vocab)

(* sequences of distinct vocabulary indices of length 1..n *)
RECURSIVE IdxSeqs(_)
IdxSeqs(n) == IF n = 0 THEN {<<>>}
              ELSE LET S == IdxSeqs(n - 1) IN
                   S \cup {Append(s, i) : s \in {x \in S : Len(x) = n - 1}, i \in 1..K}
DistinctIdx(s) == \A i, j \in DOMAIN s : i # j => s[i] # s[j]
BaseIdx(n)  == {s \in IdxSeqs(n) : s # <<>> /\ DistinctIdx(s)}
LibOf(s)    == [i \in DOMAIN s |-> Vocab[s[i]]]

(* ---------------------------------------------------------- defects *)
RECURSIVE Positions(_)
Positions(items) == UNION {{<<i>>} \cup {<<i>> \o p : p \in Positions(items[i].items)} : i \in DOMAIN items}
RECURSIVE ItemAt(_, _)
ItemAt(items, pos) == IF Len(pos) = 1 THEN items[pos[1]] ELSE ItemAt(items[pos[1]].items, Tail(pos))
RECURSIVE RenameAt(_, _, _, _)
RenameAt(items, pos, n, c) ==
  LET it == items[pos[1]] IN
  [items EXCEPT ![pos[1]] = IF Len(pos) = 1 THEN [it EXCEPT !.name = n, !.cls = c]
                            ELSE [it EXCEPT !.items = RenameAt(it.items, Tail(pos), n, c)]]
RECURSIVE RetypeAt(_, _, _)
RetypeAt(items, pos, t) ==
  LET it == items[pos[1]] IN
  [items EXCEPT ![pos[1]] = IF Len(pos) = 1 THEN [it EXCEPT !.ty = t]
                            ELSE [it EXCEPT !.items = RetypeAt(it.items, Tail(pos), t)]]
RECURSIVE RepathAt(_, _, _)
RepathAt(items, pos, ps) ==
  LET it == items[pos[1]] IN
  [items EXCEPT ![pos[1]] = IF Len(pos) = 1 THEN [it EXCEPT !.paths = ps]
                            ELSE [it EXCEPT !.items = RepathAt(it.items, Tail(pos), ps)]]
RECURSIVE ReverseAt(_, _)
Rev(s) == [i \in DOMAIN s |-> s[Len(s) + 1 - i]]
ReverseAt(items, pos) ==
  LET it == items[pos[1]] IN
  [items EXCEPT ![pos[1]] = IF Len(pos) = 1 THEN [it EXCEPT !.items = Rev(it.items)]
                            ELSE [it EXCEPT !.items = ReverseAt(it.items, Tail(pos))]]

NamedPos(lib) == {p \in Positions(lib) : IsNamed(ItemAt(lib, p))}
TypePos(lib)  == {p \in Positions(lib) : ItemAt(lib, p).k = "type"}
UsePos(lib)   == {p \in Positions(lib) : ItemAt(lib, p).k = "use"}
KidsPos(lib)  == {p \in Positions(lib) : Len(ItemAt(lib, p).items) >= 2}

(* invalid names: one abstract representative per lexical class *)
BadNames == IF Light
            THEN {[n |-> "#kw", c |-> "keyword"], [n |-> "#digit", c |-> "digit"], [n |-> "#dot", c |-> "dot"],
                  [n |-> "#space", c |-> "space"]}
            ELSE {[n |-> "#kw", c |-> "keyword"], [n |-> "#digit", c |-> "digit"], [n |-> "#dot", c |-> "dot"],
                  [n |-> "#space", c |-> "space"], [n |-> "#empty", c |-> "empty"], [n |-> "#bool", c |-> "boollit"],
                  [n |-> "#hyphen", c |-> "hyphen"]}
(* valid names that are not ASCII *)
GoodNames == IF Light THEN {[n |-> "#na1", c |-> "nonascii"]}
             ELSE {[n |-> "#na1", c |-> "nonascii"], [n |-> "#na2", c |-> "nonascii"]}

Variant(d, lib) == [d |-> d, lib |-> lib, macro |-> ""]
Defects(lib) ==
  {Variant("bad-" \o b.c, RenameAt(lib, p, b.n, b.c)) : b \in BadNames, p \in NamedPos(lib)}
  \cup {Variant("nonascii", RenameAt(lib, p, g.n, g.c)) : g \in GoodNames, p \in NamedPos(lib)}
  \cup UNION {{Variant("dup-name", RenameAt(lib, q, ItemAt(lib, p).name, "ascii"))
                  : q \in {x \in NamedPos(lib) : x # p /\ Front(x) = Front(p)}} : p \in NamedPos(lib)}
  \cup {Variant("taken-builtin", RenameAt(lib, p, "Option", "ascii")) : p \in {x \in NamedPos(lib) : Len(x) = 1}}
  \cup {Variant("taken-builtin-prim", RenameAt(lib, p, "String", "ascii")) : p \in {x \in NamedPos(lib) : Len(x) = 1}}
  \cup {Variant("prim-name-in-module", RenameAt(lib, p, "u32", "ascii")) : p \in {x \in TypePos(lib) : Len(x) >= 2}}
  \cup UNION {{Variant("dup-rust-type", RetypeAt(lib, q, ItemAt(lib, p).ty)) : q \in {x \in TypePos(lib) : x # p}} : p \in TypePos(lib)}
  \cup {Variant("use-empty", RepathAt(lib, p, << <<>> >>)) : p \in UsePos(lib)}
  \cup {Variant("use-missing", RepathAt(lib, p, <<Append(Front(ItemAt(lib, p).paths[1]), "nope")>>)) : p \in UsePos(lib)}
  \cup {Variant("use-missing-mid", RepathAt(lib, p, << <<"nomod">> \o ItemAt(lib, p).paths[1] >>)) : p \in UsePos(lib)}
  \cup {Variant("child-order", ReverseAt(lib, p)) : p \in KidsPos(lib)}

(* exactly one defect: defects are injected into libraries that are accepted without it *)
Variants(s) == {Variant("none", LibOf(s))} \cup
               (IF Len(s) <= ND /\ Analyse(EmptyRt, LibOf(s)).out = "Ok" THEN Defects(LibOf(s)) ELSE {})

(* ------------------------------------------------------------ cases *)
ToSeq(S) == IF S = {} THEN <<>> ELSE
            LET RECURSIVE F(_)
                F(T) == IF T = {} THEN <<>> ELSE LET x == CHOOSE y \in T : TRUE IN <<x>> \o F(T \ {x})
            IN F(S)

TyList(r) == LET D == DOMAIN r.rtypes \ {0} IN ToSeq({[ty |-> t, path |-> r.rtypes[t]] : t \in D})

Entry(v, a) ==
  [lib      |-> v.lib,
   defect   |-> v.d,
   macro    |-> v.macro,
   out      |-> a.out,
   why      |-> ToSeq(a.why),
   dangling |-> ToSeq(a.dangling),
   tys      |-> IF a.out = "Err" THEN <<>> ELSE TyList(a.rt),
   probes   |-> IF a.out = "Err" THEN <<>>
                ELSE ToSeq(PositiveProbes(a.rt)) \o ToSeq(NegativeProbes(a.rt)) \o ToSeq(SigProbes(a.rt))]

Step(v) ==
  LET a == Analyse(rt, v.lib) IN
  /\ Add(v.lib, IF a.out = "Err" THEN "err" ELSE "ok")
  /\ hist' = Append(hist, Entry(v, a))

(* the fixed shapes that harness/src/bin/c18.rs builds with the library! macro *)
(* (fn macro_lib): the same libraries, described as items                     *)
MacroShapes == [
  flat   |-> <<Type("T", 1, "clone"), Type("U", 2, "copy"), Fn("f3", <<0>>, 0, 4), Fn("f4", <<1, 2>>, 1, 5),
               Const("C2", 0, 8), Const("C3", 1, 9), Impl(1, <<Fn("g1", <<1>>, 0, 6), Fn("g2", <<>>, 0, 7)>>)>>,
  order  |-> <<Use(<< <<"ma", "f1">> >>), Use(<< <<"mb", "n", "f2">> >>), Impl(1, <<Fn("g1", <<1>>, 0, 6)>>),
               Const("C3", 1, 9), Mod("mb", <<Mod("n", <<Fn("f2", <<1>>, 0, 3)>>)>>),
               Mod("ma", <<Fn("f1", <<>>, 0, 1), Const("C1", 0, 2)>>), Type("T", 1, "clone")>>,
  nested |-> <<Mod("mc", <<Type("W", 3, "copy"), Fn("f5", <<3>>, 3, 10),
                           Impl(3, <<Fn("g3", <<3, 0>>, 0, 11), Const("C4", 0, 12)>>),
                           Mod("#na2", <<Fn("#na1", <<>>, 0, 13)>>)>>),
               Use(<< <<"mc", "W">> >>), Use(<< <<"mc", "#na2", "#na1">> >>)>>,
  unreg  |-> <<Fn("f4", <<1, 2>>, 1, 5), Type("T", 1, "clone")>>,
  dup    |-> <<Mod("ma", <<Fn("f1", <<>>, 0, 1), Const("f1", 0, 2)>>)>>
]
RECURSIVE MarkNA(_)
MarkNA(items) == [i \in DOMAIN items |->
                    [items[i] EXCEPT !.cls = IF items[i].name \in {"#na1", "#na2"} THEN "nonascii" ELSE @,
                                     !.items = MarkNA(@)]]

MCInit == Init /\ hist = <<>>

First ==
  /\ hist = <<>>
  /\ \/ /\ Mode = "single"
        /\ \E s \in BaseIdx(N) : \E v \in Variants(s) : Step(v)
     \/ /\ Mode = "split"
        /\ \E s \in BaseIdx(N) : \E k \in 1..(Len(s) - 1) : Step(Variant("none", LibOf(SubSeq(s, 1, k))))
     \/ /\ Mode = "readd"
        /\ \E s \in BaseIdx(ND) : Step(Variant("none", LibOf(s)))
     \/ /\ Mode = "macro"
        /\ \E m \in DOMAIN MacroShapes : Step([d |-> "macro", lib |-> MarkNA(MacroShapes[m]), macro |-> m])

Second ==
  /\ Len(hist) = 1 /\ valid /\ outcome = "Ok"
  /\ \/ /\ Mode = "split"
        /\ \E s \in BaseIdx(N) : \E k \in 1..(Len(s) - 1) :
              /\ hist[1].lib = LibOf(SubSeq(s, 1, k))
              /\ Step(Variant("split", LibOf(SubSeq(s, k + 1, Len(s)))))
     \/ /\ Mode = "readd"
        /\ \E i \in 1..K : Step(Variant("readd", <<Vocab[i]>>))

MCNext == First \/ Second
MCSpec == MCInit /\ [][MCNext]_mcvars

(* a behaviour is complete when no further Add follows *)
Complete ==
  \/ Len(hist) = 2
  \/ Len(hist) = 1 /\ (Mode \in {"single", "macro"} \/ ~valid \/ outcome # "Ok")
Emit == Complete => PrintT(<<"REPLAY", ToJson([mode |-> Mode, adds |-> hist])>>)

Inv == TypeOK /\ (valid => ScopesClosed /\ AliasesResolve)
(* no Add of the model has an outcome outside Ok / Err / Unspec (there is no Panic) *)
NoPanic == outcome \in {"init", "Ok", "Err", "Unspec"}
=============================================================================
