-------------------------- MODULE TraceRegistration --------------------------
(* I->S binding for C18: events recorded from the real roto::Runtime       *)
(* (harness/src/bin/c18.rs, mode record: seeded random libraries, built    *)
(* with the public item constructors) must be a behaviour of Registration. *)
(*   {op:"new"}                      a fresh Runtime::new()                 *)
(*   {op:"add", lib, out}            Runtime::add returned out (ok | err)  *)
(*   {op:"probe", q, res}            a script using the item q.path as     *)
(*                                   q.kind with signature q.ps/q.r/q.ty   *)
(*                                   observed tag res (-1: does not        *)
(*                                   compile / wrong signature) and, for  *)
(*                                   items over value types, the values    *)
(*                                   obs that passed through the item      *)
(* An add event is matched by Registration!Add with the logged outcome     *)
(* (enabled only if the specification allows that outcome); a probe event  *)
(* is matched if the observed tag is the one Registration!Expect gives.    *)
(* After a refused add (Registration!Refused) the run goes on: the probes  *)
(* of the items of the earlier adds are matched like any other probe.      *)
(* The OUTCOME / PROBE / KEPT lines only count what was asserted.          *)
EXTENDS Registration, Json, IOUtils, TLCExt

Rec == ndJsonDeserialize(IOEnv.TRACE)

VARIABLE l
tvars == <<rt, valid, outcome, l>>

Ev == Rec[l]
IsEv(name) == l <= Len(Rec) /\ Ev.op = name /\ l' = l + 1

ProbeOk ==
  \/ ~valid
  \/ LET e == Expect(rt, Ev.q) IN
     \/ e >= -1 /\ Ev.res = e /\ Ev.obs = ExpectObs(rt, Ev.q)
     \/ e = -3 /\ Ev.res >= -1

TraceInit == Init /\ l = 1

TraceNext ==
  \/ IsEv("new") /\ rt' = EmptyRt /\ valid' = TRUE /\ outcome' = "init"
  \/ IsEv("add") /\ Add(Ev.lib, Ev.out) /\ PrintT(<<"OUTCOME", outcome'>>)
  (* the run goes on after an add that failed where the outcome was left open: nothing is asserted any more *)
  \/ IsEv("add") /\ ~valid /\ Ev.out \in {"ok", "err"} /\ UNCHANGED <<rt, valid, outcome>> /\ PrintT(<<"OUTCOME", "unasserted">>)
  \/ IsEv("probe") /\ ProbeOk /\ UNCHANGED <<rt, valid, outcome>>
                    /\ PrintT(<<"PROBE", IF ~valid THEN "unasserted" ELSE
                                         LET e == Expect(rt, Ev.q) IN
                                         IF e = -3 THEN "open" ELSE IF e = -1 THEN "unusable" ELSE "tag">>)
                    (* a probe of an item of an earlier add, asserted after an add that was refused *)
                    /\ (valid /\ outcome = "Err" /\ Expect(rt, Ev.q) >= 0 => PrintT(<<"KEPT", Ev.q.kind>>))

TraceSpec == TraceInit /\ [][TraceNext]_tvars

Inv == TypeOK /\ (valid => ScopesClosed /\ AliasesResolve)

(* accepted iff every recorded event was matched by a Registration step *)
TraceAccepted ==
  LET d == TLCGet("stats").diameter IN
  IF d - 1 = Len(Rec) THEN TRUE
  ELSE /\ PrintT(<<"UNMATCHED", ToJson([line |-> d, ev |-> Rec[d]])>>)
       /\ FALSE
=============================================================================
