---------------------------- MODULE TraceTyping ----------------------------
(* I->S binding for C07.  Every event is one run of the real compiler:       *)
(*   [id |-> .., prog |-> <program AST>, outcome |-> "ok" | "type"]          *)
(* ("type" = FileTree::compile returned a report whose errors are type       *)
(* errors).  The judgement of Typing.tla decides what the compiler was       *)
(* allowed to do:                                                            *)
(*   ~WellTyped(prog)  =>  outcome = "type"      (C07: never a package)      *)
(*    WellTyped(prog) /\ outcome = "type"  is a completeness note, not a     *)
(*    violation (C07 does not claim completeness); it is printed as NOTE.    *)
(* An event that contradicts the judgement is printed as UNMATCHED; the      *)
(* validation goes on with the next event so that one run reports all of     *)
(* them.  The run is accepted iff every event was consumed and no UNMATCHED  *)
(* line was printed.                                                         *)
EXTENDS Typing, Json, IOUtils, TLC, TLCExt

Rec == ndJsonDeserialize(IOEnv.TRACE)

VARIABLE l
tvars == <<l>>

Consistent(ev, wt) == wt \/ ev.outcome = "type"

TraceInit == l = 1

TraceNext ==
  /\ l <= Len(Rec)
  /\ LET ev == Rec[l]
         wt == WellTyped(ev.prog)
     IN /\ ev.outcome \in {"ok", "type"}
        /\ IF ~Consistent(ev, wt)
           THEN PrintT(<<"UNMATCHED", ToJson([line |-> l, id |-> ev.id, welltyped |-> wt, outcome |-> ev.outcome,
                                                lax_rule |-> LaxRule(ev.prog)])>>)
           ELSE IF wt /\ ev.outcome = "type"
           THEN PrintT(<<"NOTE", ToJson([line |-> l, id |-> ev.id])>>)
           ELSE TRUE
  /\ l' = l + 1

TraceSpec == TraceInit /\ [][TraceNext]_tvars

(* every recorded event was consumed *)
TraceAccepted ==
  LET d == TLCGet("stats").diameter IN
  IF d - 1 = Len(Rec) THEN TRUE
  ELSE /\ PrintT(<<"STUCK", ToJson([line |-> d])>>)
       /\ FALSE
=============================================================================
