---------------------------- MODULE TraceGrammar ----------------------------
(* I->S binding for C09.  The harness compiles seeded random concrete       *)
(* spellings and expressions (longer digit strings, arbitrary code points,  *)
(* longer operator strings than MCLiterals / MCPrec enumerate) with the     *)
(* real crate; python abstracts each text back into the symbol sequence it  *)
(* was built from and logs one event per compilation:                       *)
(*   [fam, sp, obs]              literal / identifier / commented program:  *)
(*        obs = [cls |-> "reject"]  or  [cls |-> "val", v |-> observed value] *)
(*              or [cls |-> "abnormal"] (panic, crash, hang)                *)
(*   [fam |-> "expr", w, lt, vals, obs]   operator string w with operand    *)
(*        types lt and operand values vals:                                 *)
(*        obs = [cls |-> "reject"] (parse error), [cls |-> "typeerr"] or    *)
(*              [cls |-> "val", v |-> result]                               *)
(* An event is matched iff the observation is what Literals.Denote /        *)
(* Prec.Parse, HasType and Eval say about the logged spelling.  The events  *)
(* are independent of each other, so the run continues behind an unmatched  *)
(* event (it is printed together with what the specification expects and    *)
(* counted); the trace is accepted iff every event was read and none was    *)
(* unmatched.                                                               *)
EXTENDS Literals, Prec, Json, IOUtils, TLCExt

Rec == ndJsonDeserialize(IOEnv.TRACE)

VARIABLE l

LitOk(den, obs) ==
  CASE obs.cls = "abnormal" -> FALSE          \* panic / crash / hang of the compiler is never allowed
    [] den.cls = "any"    -> TRUE
    [] den.cls = "reject" -> obs.cls = "reject"
    [] den.cls = "val"    -> IF obs.cls = "val" THEN obs.v = den.v ELSE ~den.must

ExprExpected(ev) ==
  LET t == Parse(ev.w)
      vals == [j \in 1..Len(ev.vals) |-> IF ev.vals[j].neg THEN 0 - ev.vals[j].abs ELSE ev.vals[j].abs]
  IN IF t.k = "reject" THEN [cls |-> "reject"]
     ELSE IF ~HasType(t, ev.lt, "int") /\ ~HasType(t, ev.lt, "bool") THEN [cls |-> "typeerr"]
     ELSE [cls |-> "val", v |-> Result(t, ev.lt, vals)]

(*   [fam |-> "postfix", px, obs]  prefix operators x atom x suffixes in a   *)
(*        binary context (Prec.PxExpected); [fam |-> "block", bx, obs] a    *)
(*        block in expression position (Prec.BlockExpected); obs is the     *)
(*        result record ([t |-> "float" | "int" | "bool" | "str", ..]),     *)
(*        [t |-> "typeerr"], [t |-> "parseerr"] or [t |-> "abnormal"]       *)
Expected(ev) ==
  CASE ev.fam = "expr" -> ExprExpected(ev)
    [] ev.fam = "postfix" -> PxExpected(ev.px)
    [] ev.fam = "block" -> BlockExpected(ev.bx)
    [] OTHER -> Denote(ev.sp)
Matches(ev, exp) ==
  CASE ev.fam = "expr" -> ev.obs = exp
    [] ev.fam \in {"postfix", "block"} -> IF exp.t = "any" THEN ev.obs.t # "abnormal" ELSE ev.obs = exp
    [] OTHER -> LitOk(exp, ev.obs)
NoClaimAbout(ev, exp) == IF ev.fam = "expr" THEN FALSE
                         ELSE IF ev.fam \in {"postfix", "block"} THEN exp.t = "any" ELSE exp.cls = "any"

(* TLC registers: 1 = unmatched events, 2 = events the specification makes no claim about *)
TraceInit == l = 1 /\ TLCSet(1, 0) /\ TLCSet(2, 0)
TraceNext ==
  /\ l <= Len(Rec)
  /\ l' = l + 1
  /\ LET ev == Rec[l]
         exp == Expected(ev)
     IN /\ (NoClaimAbout(ev, exp) => TLCSet(2, TLCGet(2) + 1))
        /\ IF Matches(ev, exp) THEN TRUE
           ELSE /\ PrintT(<<"UNMATCHED", ToJson([line |-> l, ev |-> ev, expected |-> exp,
                                                       dev |-> IF ev.fam \in {"expr", "postfix", "block"} THEN <<>> ELSE DeviantFstr(ev.sp)])>>)
                /\ TLCSet(1, TLCGet(1) + 1)
TraceSpec == TraceInit /\ [][TraceNext]_l

TraceAccepted ==
  /\ PrintT(<<"STATS", ToJson([events |-> Len(Rec), unmatched |-> TLCGet(1), unclaimed |-> TLCGet(2)])>>)
  /\ TLCGet("stats").diameter - 1 = Len(Rec) /\ TLCGet(1) = 0
=============================================================================
