------------------------------ MODULE MCScopes ------------------------------
(* Case generation for C13 (S->I): TLC enumerates configurations            *)
(*   base  = file set x placement of the same-named items x probing module  *)
(*   probe = reference form (family) x scope levels x path                  *)
(* and emits, for every configuration, the expected designation computed by *)
(* Scopes.Expected together with the module tree, the exported functions    *)
(* and the lookup rule that decided. Two-level state space (Init picks the  *)
(* base, Next the probe) so that TLC workers share the probes.              *)
EXTENDS Scopes, Json, IOUtils

CONSTANTS TreeIds,       \* trees used for the resolution families
          Families,      \* reference-form families to generate
          Disc,          \* file-discovery universe: "none" | "small" | "full"
          GModes,        \* placement of g: {"same"} or {"same", "all"}
          NSlices, Slice \* keep bases with Hash % NSlices = Slice (NSlices = 1: all)

VARIABLES base, probe

Fi(dir, name) == [dir |-> dir, name |-> name, kind |-> "file"]
Di(dir, name) == [dir |-> dir, name |-> name, kind |-> "mod"]

Tree(id) ==
  CASE id = "deep3"  -> {Di(<<>>, "a"), Fi(<<"a">>, "b")}
    [] id = "wide3"  -> {Fi(<<>>, "a"), Fi(<<>>, "b")}
    [] id = "alias4" -> {Fi(<<>>, "a"), Di(<<>>, "b"), Fi(<<"b">>, "a")}
    [] id = "mix4"   -> {Di(<<>>, "a"), Fi(<<"a">>, "b"), Fi(<<>>, "b")}
    [] id = "io4"    -> {Di(<<>>, "a"), Fi(<<"a">>, "b"), Fi(<<>>, "b")}   \* inner import vs outer declaration
    [] id = "pkgdir" -> {Di(<<>>, "pkg"), Fi(<<>>, "a")}
    [] id = "dir3"   -> {Di(<<>>, "a"), Di(<<"a">>, "a")}
    [] id = "full6"  -> {Di(<<>>, "a"), Fi(<<"a">>, "a"), Fi(<<"a">>, "b"), Di(<<>>, "b"), Fi(<<"b">>, "a")}
    \* import chains of length 3: pkg.c.a.b.f through `import pkg.c.a; import a.b; import b.f;`, with and
    \* without modules a / b next to pkg.roto (same names reachable from the enclosing scopes)
    [] id = "c3full" -> {Di(<<>>, "c"), Di(<<"c">>, "a"), Fi(<<"c", "a">>, "b"), Fi(<<>>, "b"), Di(<<>>, "a"), Fi(<<"a">>, "b")}
    [] id = "c3nob"  -> {Di(<<>>, "c"), Di(<<"c">>, "a"), Fi(<<"c", "a">>, "b"), Di(<<>>, "a"), Fi(<<"a">>, "b")}
    [] id = "c3noa"  -> {Di(<<>>, "c"), Di(<<"c">>, "a"), Fi(<<"c", "a">>, "b"), Fi(<<>>, "b")}
    [] id = "c3none" -> {Di(<<>>, "c"), Di(<<"c">>, "a"), Fi(<<"c", "a">>, "b")}
    \* pkg.a.b.a exists: `import a.b; import b.a;` resolves completely if a is taken from the enclosing scope first
    [] id = "cyc4"   -> {Di(<<>>, "a"), Di(<<"a">>, "b"), Fi(<<"a", "b">>, "a"), Fi(<<>>, "b")}
    [] id = "full7"  -> {Di(<<>>, "a"), Fi(<<"a">>, "a"), Di(<<"a">>, "b"), Di(<<>>, "b"), Fi(<<"b">>, "a"), Fi(<<"b">>, "b")}

DiscUniverse ==
  CASE Disc = "small" -> {Fi(<<>>, "a"), Di(<<>>, "a"), Fi(<<"a">>, "b"), Di(<<"a">>, "b"),
                          Fi(<<>>, "b"), Fi(<<"a", "b">>, "a")}
    \* names that are not identifiers: a directory / a file whose name contains a dot, next to (or without) the
    \* modules a and b they could be confused with
    [] Disc = "dotted" -> {Fi(<<>>, "a"), Di(<<>>, "a.bak"), Fi(<<"a.bak">>, "b"), Fi(<<>>, "b.x"), Di(<<>>, "b"),
                           Fi(<<"b">>, "a")}
    [] Disc = "full"  -> {Fi(<<>>, "a"), Di(<<>>, "a"), Fi(<<"a">>, "b"), Di(<<"a">>, "b"),
                          Fi(<<>>, "b"), Fi(<<"a", "b">>, "a"), Di(<<>>, "b"), Fi(<<"b">>, "a"),
                          Di(<<"b">>, "a"), Fi(<<"a">>, "a"), Di(<<"a", "b">>, "a"), Fi(<<"b", "a">>, "b")}
    [] OTHER -> {}

-----------------------------------------------------------------------------
(* bases *)

W(mp) == CASE mp = <<>> -> 1 [] mp = <<"a">> -> 2 [] mp = <<"b">> -> 4 [] mp = <<"a", "a">> -> 8
           [] mp = <<"a", "b">> -> 16 [] mp = <<"b", "a">> -> 32 [] mp = <<"b", "b">> -> 64 [] OTHER -> 128
RECURSIVE SumW(_)
SumW(XS) == IF XS = {} THEN 0 ELSE LET x == CHOOSE x \in XS : TRUE IN W(x) + SumW(XS \ {x})
(* the placement "every module declares f, g, k" is always kept; the others are sliced *)
InSlice(b) == \/ b.P = Modules(b.files)
              \* the sibling family needs a base in which the probing module does not declare the names itself
              \/ (Families = {"sib"} /\ b.site = <<>> /\ b.P = Modules(b.files) \ {b.site})
              \/ ((SumW(b.P) * 7 + W(b.site) * 13 + Cardinality(b.files)) % NSlices) = Slice

IsChainTree(t) == t \in {"c3full", "c3nob", "c3noa", "c3none"}

ResBases ==
  {b \in UNION {{[tree |-> t, files |-> Tree(t), P |-> P, site |-> s, gm |-> gm] :
                   P \in SUBSET Modules(Tree(t)), s \in Modules(Tree(t)), gm \in GModes} : t \in TreeIds} :
     /\ InSlice(b)
     \* bigger trees: items nearly everywhere (many same-named candidates) or nearly nowhere
     /\ IF IsChainTree(b.tree)
        THEN b.P \subseteq {<<>>, <<"b">>, <<"a", "b">>, <<"c", "a", "b">>} /\ b.site \in {<<>>, <<"b">>, <<"c">>}
        ELSE IF b.tree = "io4"
        THEN b.P \in {Modules(b.files), Modules(b.files) \ {b.site}, {b.site}}
        ELSE \/ Cardinality(Modules(b.files)) <= 4
             \/ Cardinality(b.P) <= 1
             \/ Cardinality(b.P) >= Cardinality(Modules(b.files)) - 2}

DiscBases ==
  IF Disc = "none" THEN {}
  ELSE {[tree |-> "disc", files |-> fs, P |-> FileMods(fs) \cup {<<>>}, site |-> <<>>, gm |-> "same"] :
          fs \in SUBSET DiscUniverse}

ItemsOf(b) ==
  {[p |-> p, n |-> n] : p \in b.P, n \in {"f", "k"}}
  \cup {[p |-> p, n |-> "g"] : p \in (IF b.gm = "all" THEN Modules(b.files) ELSE b.P)}

-----------------------------------------------------------------------------
(* probes *)

Imp(sc, path, grp) == [sc |-> sc, path |-> path, grp |-> grp]
Pr2(fam, imps, locals, depth, ref, sibs, forms) ==
  [fam |-> fam, imps |-> imps, locals |-> locals, depth |-> depth, ref |-> ref, sibs |-> sibs, forms |-> forms]
Pr(fam, imps, locals, depth, ref) == Pr2(fam, imps, locals, depth, ref, {}, NoForms)
NoProbe == Pr("none", <<>>, {}, 0, <<>>)
Lk(i, param) == [i |-> i, n |-> "k", param |-> param]

C0(b) == Cfg(b.files, ItemsOf(b), b.site, <<>>, {}, 1, <<"f">>)

ModNames == {"a", "b"}
ModSeqs  == {<<>>} \cup {<<x>> : x \in ModNames} \cup {<<x, y>> : x \in ModNames, y \in ModNames}
Prefixes == {<<>>, <<"pkg">>, <<"super">>, <<"super", "super">>, <<"super", "super", "super">>}
ModPaths == {pre \o ms : pre \in Prefixes, ms \in ModSeqs} \ {<<>>}
ItemPaths(n) == {Append(mp, n) : mp \in ModPaths \cup {<<>>}}

(* what a module path written at module level of the site designates (most permissive model; *)
(* only used to select interesting paths, never as an expectation)                           *)
Desig(b, mp) == ResolveQ(C0(b), [sr |-> TRUE, ps |-> TRUE], M(b.site), mp, NoScope, {})
GoodMod(b)  == {mp \in ModPaths : Desig(b, mp).k = "mod"}
BadMod      == {<<"pkg", "b", "b">>, <<"super", "super", "super">>, <<"b", "b">>, <<"a", "pkg">>}
ImpMod(b)   == GoodMod(b) \cup BadMod
NamedMod(b) == {mp \in ImpMod(b) : Last(mp) \in ModNames}
Abs(mp)     == <<"pkg">> \o mp
Lvl(s)      == IF s.t = "m" THEN 1 ELSE s.i

(* import targets of the shadowing families: the root, its children and the site *)
Near(b) == {mp \in Modules(b.files) : Len(mp) <= 1} \cup {b.site}

(* bare names, relative paths, absolute paths, leading supers *)
FamPath(b) ==
  {Pr("path", <<>>, {}, 1, rp) : rp \in ItemPaths("f") \cup ItemPaths("k")}
  \cup {Pr("path", <<>>, {}, d, rp) : d \in {2, 3}, rp \in {<<"f">>, <<"k">>, <<"a", "f">>, <<"super", "f">>, <<"pkg", "f">>}}
  \cup {Pr("path", <<>>, {}, 1, rp) :   \* pkg / super are only special at the start of a path
          rp \in {<<"super", "pkg", "f">>, <<"a", "pkg", "f">>, <<"pkg", "pkg", "f">>, <<"a", "super", "f">>,
                  <<"pkg", "super", "f">>, <<"pkg", "a", "super", "f">>}}

(* a single import at module level or in a block, used by bare name from a block that sees it or not *)
LP1(b) == {<<M(b.site), 1>>, <<M(b.site), 3>>, <<B(1), 1>>, <<B(1), 3>>, <<B(2), 2>>, <<B(3), 3>>,
           <<B(2), 1>>, <<B(3), 2>>}
FamImp1(b) ==
  {Pr("imp1", <<Imp(lp[1], Append(mp, "f"), 0)>>, {}, lp[2], <<"f">>) : mp \in GoodMod(b), lp \in LP1(b)}
  \cup {Pr("imp1", <<Imp(lp[1], Append(mp, "f"), 0)>>, {}, lp[2], <<"f">>) :
          mp \in BadMod, lp \in {<<M(b.site), 1>>, <<B(3), 2>>}}
  \cup {Pr("imp1", <<Imp(lp[1], Append(mp, "k"), 0)>>, {}, lp[2], <<"k">>) :
          mp \in GoodMod(b), lp \in {<<M(b.site), 2>>, <<B(2), 3>>}}

(* list imports: import mp.{f, g} and import pkg.{x.f, y.g} *)
FamList(b) ==
  {Pr("list", <<Imp(lp[1], Append(mp, "f"), 1), Imp(lp[1], Append(mp, "g"), 1)>>, {}, lp[2], <<n>>) :
      mp \in GoodMod(b), lp \in {<<M(b.site), 1>>, <<B(2), 3>>}, n \in {"f", "g"}}
  \cup {Pr("list", <<Imp(M(b.site), Abs(Append(x, "f")), 1), Imp(M(b.site), Abs(Append(y, "g")), 1)>>, {}, 1, <<n>>) :
      x \in Modules(b.files) \ {<<>>}, y \in Modules(b.files) \ {<<>>}, n \in {"f", "g"}}

(* whole-module import used as a path prefix *)
FamModImp(b) ==
  {Pr("modimp", <<Imp(lp[1], mp, 0)>>, {}, lp[2], <<Last(mp)>> \o tl) :
      mp \in NamedMod(b), lp \in {<<M(b.site), 1>>, <<B(1), 2>>, <<B(3), 3>>, <<B(2), 1>>},
      tl \in {<<"f">>, <<"a", "f">>}}

(* dependent imports in both orders *)
FamChain(b) ==
  UNION {{Pr("chain", <<Imp(sc, X, 0), Imp(sc, <<Last(X), "f">>, 0)>>, {}, 3, <<"f">>),
          Pr("chain", <<Imp(sc, <<Last(X), "f">>, 0), Imp(sc, X, 0)>>, {}, 3, <<"f">>)} :
         X \in NamedMod(b), sc \in {M(b.site), B(2)}}

(* imports of one scope that wait for each other (x.y introduces y, y.x introduces x), in both orders, next to an *)
(* independent import whose first segment is one of the two names, before / between / behind them: whatever the     *)
(* enclosing scopes declare under these names, no order may make the cycle resolve                                  *)
FamCycle(b) ==
  UNION {UNION {
     {Pr("cycle", <<Imp(sc, <<x, y>>, 0), Imp(sc, <<y, x>>, 0)>>, {}, 3, rf),
      Pr("cycle", <<Imp(sc, <<x, "k">>, 0), Imp(sc, <<x, y>>, 0), Imp(sc, <<y, x>>, 0)>>, {}, 3, rf),
      Pr("cycle", <<Imp(sc, <<x, y>>, 0), Imp(sc, <<x, "k">>, 0), Imp(sc, <<y, x>>, 0)>>, {}, 3, rf),
      Pr("cycle", <<Imp(sc, <<x, y>>, 0), Imp(sc, <<y, x>>, 0), Imp(sc, <<x, "k">>, 0)>>, {}, 3, rf)}
     : sc \in {M(b.site), B(1), B(2)}, rf \in {<<"k">>, <<"f">>}}
     : <<x, y>> \in {<<"a", "b">>, <<"b", "a">>}}

(* a local variable or parameter named like a constant, with and without an import of that name *)
LocalSets == {{Lk(1, TRUE)}, {Lk(1, FALSE)}, {Lk(2, FALSE)}, {Lk(3, FALSE)}, {Lk(1, TRUE), Lk(3, FALSE)}}
FamShadow(b) ==
  {Pr("shadow", <<>>, ls, d, <<"k">>) : ls \in LocalSets, d \in {1, 2, 3}}
  \cup {Pr("shadow", <<Imp(sc, Abs(Append(m, "k")), 0)>>, ls, d, <<"k">>) :
          ls \in LocalSets, d \in {1, 3}, sc \in {M(b.site), B(1), B(3)},
          m \in Near(b) \ {b.site}}

(* two imports of the same name at different (or the same) levels *)
FamTwo(b) ==
  {Pr("two", <<Imp(ss[1], Abs(Append(xy[1], "f")), 0), Imp(ss[2], Abs(Append(xy[2], "f")), 0)>>, {}, d, <<"f">>) :
      xy \in {q \in Near(b) \X Near(b) : q[1] # q[2]},
      ss \in {<<M(b.site), B(1)>>, <<B(1), B(2)>>, <<B(3), B(1)>>, <<M(b.site), B(3)>>, <<B(2), B(2)>>},
      d \in {1, 3}}

(* imports of another module are not visible through a path into that module *)
FamOther(b) ==
  {Pr("other", <<Imp(M(Desig(b, mp).p), Abs(Append(x, "f")), 0)>>, {}, 1, Append(mp, "f")) :
      mp \in {q \in GoodMod(b) : Desig(b, q).p # b.site}, x \in Modules(b.files)}
  \cup {Pr("other", <<Imp(M(Desig(b, mp).p), Abs(x), 0)>>, {}, 1, mp \o <<Last(x), "f">>) :
      mp \in {q \in GoodMod(b) : Desig(b, q).p # b.site}, x \in Modules(b.files) \ {<<>>}}

(* chains of three (and two) dependent imports in ONE scope, in every order: Z introduces a, X = a.b  *)
(* needs Z, Y = b.f needs X. The imports of a scope win over same-named modules / items of the        *)
(* enclosing scopes whatever their order (the resolution is order independent).                      *)
Perm3 == {<<"chain3:ZXY", <<1, 2, 3>>>>, <<"chain3:ZYX", <<1, 3, 2>>>>, <<"chain3:XZY", <<2, 1, 3>>>>,
          <<"chain3:XYZ", <<2, 3, 1>>>>, <<"chain3:YZX", <<3, 1, 2>>>>, <<"chain3:YXZ", <<3, 2, 1>>>>}
Chain3El(b) == {<< <<"pkg", "c", "a">>, <<"a", "b">>, <<"b", "f">> >>}
               \cup (IF b.site = <<>> THEN {<< <<"c", "a">>, <<"a", "b">>, <<"b", "f">> >>} ELSE {})
FamChain3(b) ==
  {Pr(pn[1], <<Imp(sc, el[pn[2][1]], 0), Imp(sc, el[pn[2][2]], 0), Imp(sc, el[pn[2][3]], 0)>>, {}, 3, rf) :
      pn \in Perm3, sc \in {M(b.site), B(1), B(2)}, rf \in {<<"f">>, <<"b", "f">>}, el \in Chain3El(b)}
  \cup {Pr("chain2:ZY", <<Imp(sc, <<"pkg", "c", "a", "b">>, 0), Imp(sc, <<"b", "f">>, 0)>>, {}, 3, rf) :
      sc \in {M(b.site), B(1), B(2)}, rf \in {<<"f">>, <<"b", "f">>}}
  \cup {Pr("chain2:YZ", <<Imp(sc, <<"b", "f">>, 0), Imp(sc, <<"pkg", "c", "a", "b">>, 0)>>, {}, 3, rf) :
      sc \in {M(b.site), B(1), B(2)}, rf \in {<<"f">>, <<"b", "f">>}}

(* an import in an inner scope against a same-named DECLARATION further out: module-level fn f / fn g / *)
(* const k / child module of the site, or a `let` / parameter of an outer block. Import at module level, *)
(* function body (B(1)) or a nested block (B(2), B(3)); the local at every level (outside the import's    *)
(* scope: the import wins; in it or further in: the local wins). References f(), g(), k and b.f().        *)
Ln(i, n, param) == [i |-> i, n |-> n, param |-> param]
IoLocals(n) == {{}} \cup {{Ln(1, n, TRUE)}, {Ln(1, n, FALSE)}, {Ln(2, n, FALSE)}, {Ln(3, n, FALSE)}}
IoLevels(b) == {<<M(b.site), 1>>, <<M(b.site), 3>>, <<B(1), 1>>, <<B(1), 3>>, <<B(2), 2>>, <<B(2), 3>>, <<B(3), 3>>}
FamInOut(b) ==
  UNION {{Pr("inout", <<Imp(lp[1], Abs(Append(m, n)), 0)>>, ls, lp[2], <<n>>) :
            m \in Modules(b.files) \ {b.site}, lp \in IoLevels(b), ls \in IoLocals(n)} : n \in {"f", "g", "k"}}
  \cup UNION {{Pr("inout", <<Imp(lp[1], Abs(x), 0)>>, ls, lp[2], <<Last(x), "f">>) :
                 lp \in IoLevels(b), ls \in IoLocals(Last(x))} : x \in Modules(b.files) \ {<<>>, b.site}}

(* sibling scopes: the block-like scope next to block level i (the other branch of an if, another arm of  *)
(* the match, a block before / after) holds a `let` or an import of the referenced name; the reference in *)
(* B(i) (or deeper) must not see it, whatever construct opens the two scopes. With and without the same  *)
(* name declared in the module, imported at module level or in the function body, or bound by an outer let. *)
SibForms == {"plain", "else", "then", "arm1", "arm2", "after"}
FormsAt(i, f) == [j \in 1..3 |-> IF j = i THEN f ELSE "plain"]
Sk(i, n) == [i |-> i, n |-> n]
SibOuter(b, n) ==
  {<< <<>>, {} >>, << <<>>, {Ln(1, n, TRUE)} >>, << <<>>, {Ln(1, n, FALSE)} >>}
  \cup {<< <<Imp(sc, Abs(Append(m, n)), 0)>>, {} >> : sc \in {M(b.site), B(1)}, m \in Near(b) \ {b.site}}
FamSib(b) ==
  UNION {UNION {
     {Pr2("sib", o[1], o[2], d, <<n>>, {Sk(i, n)}, FormsAt(i, f)) : d \in i..3}
     \cup {Pr2("sib", o[1] \o <<Imp(S(i), Abs(Append(m, n)), 0)>>, o[2], d, <<n>>, {}, FormsAt(i, f)) :
             d \in i..3, m \in Near(b) \ {b.site}}
     : o \in SibOuter(b, n), i \in {2, 3}, f \in SibForms} : n \in {"f", "k"}}
  \cup {Pr2("sib", <<Imp(S(i), Abs(x), 0)>>, {}, i, <<Last(x), "f">>, {}, FormsAt(i, f)) :   \* whole-module import in the sibling
          x \in Modules(b.files) \ {<<>>, b.site}, i \in {2, 3}, f \in SibForms}

FamDisc(b) ==
  {Pr("disc", <<>>, {}, 1, Abs(Append(Written(mp), "f"))) : mp \in FileMods(b.files) \cup {<<>>}}
  \cup {Pr("disc", <<>>, {}, 1, rp) : rp \in {<<"pkg", "a", "f">>, <<"pkg", "b", "f">>, <<"pkg", "b", "a", "f">>}}

Fam(f, b) ==
  CASE f = "path" -> FamPath(b) [] f = "imp1" -> FamImp1(b) [] f = "list" -> FamList(b)
    [] f = "modimp" -> FamModImp(b) [] f = "chain" -> FamChain(b) [] f = "shadow" -> FamShadow(b)
    [] f = "two" -> FamTwo(b) [] f = "other" -> FamOther(b) [] f = "chain3" -> FamChain3(b) [] f = "inout" -> FamInOut(b) [] f = "sib" -> FamSib(b) [] f = "cycle" -> FamCycle(b)

Probes(b) == IF b.tree = "disc" THEN FamDisc(b) ELSE UNION {Fam(f, b) : f \in Families}

-----------------------------------------------------------------------------
MCInit == base \in (ResBases \cup DiscBases) /\ probe = NoProbe
MCNext == probe = NoProbe /\ probe' \in Probes(base) /\ UNCHANGED base
MCSpec == MCInit /\ [][MCNext]_<<base, probe>>

CfgOf(b, pr) == Cfg2(b.files, ItemsOf(b), b.site, pr.imps, pr.locals, pr.depth, pr.ref, pr.sibs, pr.forms)

Case(b, pr) ==
  LET c   == CfgOf(b, pr)
      e   == Expected(c)
      a   == Alts(c)
  IN  [fam |-> pr.fam, tree |-> b.tree, files |-> c.files, mods |-> c.mods, items |-> c.items,
       site |-> c.site, imps |-> c.imps, locals |-> c.locals, depth |-> c.depth, ref |-> c.ref,
       exp |-> e, alts |-> IF e.k = "unspec" \/ (a.super = e /\ a.seq = e /\ a.pkg = e /\ a.impl = e) THEN <<>> ELSE <<a>>,
       sibs |-> c.sibs, forms |-> c.forms, sibsens |-> SibSensitive(c),
       exports |-> Exports(c), rule |-> Rule(c), outer |-> OuterNamesakes(c), ivo |-> InnerVsOuter(c)]

Emit == (probe.fam # "none") => PrintT(<<"REPLAY", ToJson(Case(base, probe))>>)
=============================================================================
