SPECIFICATION MCSpec
CONSTANTS
  Family = "api"
  MaxTests1 = 2
  MaxTests2 = 1
  TNames = {"a", "b"}
  SubNames = {"m"}
  FnNames = {}
  CallNames = {}
  Brokens = {"none"}
  MainSigs = {"none"}
  RunNames = {}
  SubMain = {FALSE}
  BodyForms = {"plain", "fstr_i32", "fstr_bool", "fstr_string", "strcmp", "let_if", "match", "helper_call", "list_ops", "fstr_option", "fstr_record", "fstr_list"}
  FnPositions = {"first", "last", "mixed"}
  NoDups = TRUE
  ModShapes = {"single", "sub"}
  SubFnNames = {}
  RunMods = {""}
INVARIANTS MCInv Emit
CHECK_DEADLOCK FALSE
