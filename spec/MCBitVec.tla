------------------------------ MODULE MCBitVec ------------------------------
EXTENDS BitVec
VARIABLE done
Edge16 == {0, 1, 2, 3, 7, 10, 127, 128, 129, 255, 256, 257, 1000, 32767, 32768, 32769, 46340, 65534, 65535}
Init == done = FALSE
Next == done = FALSE /\ done' = TRUE
Check8  == SelfCheck(1, 0..255)
Check16 == SelfCheck(2, Edge16)
(* one 64-bit sanity case: (2^63) / 3 and MIN % 7 via structure, not native ints *)
M64 == <<0, 0, 0, 0, 0, 0, 0, 128>>
Check64 == /\ Add(M64, M64) = Zero(8)
           /\ Mul(FromNat(65536, 8), FromNat(65536, 8)) = <<0, 0, 0, 0, 1, 0, 0, 0>>
           /\ UDiv(Ones(8), FromNat(2, 8)) = <<255, 255, 255, 255, 255, 255, 255, 127>>
           /\ SDiv(M64, FromNat(2, 8)) = <<0, 0, 0, 0, 0, 0, 0, 192>>
           /\ SRem(Neg(FromNat(7, 8)), FromNat(3, 8)) = Neg(FromNat(1, 8))
           /\ SLt(M64, Zero(8)) /\ ~ULt(M64, Zero(8))
Inv == Check8 /\ Check16 /\ Check64
=============================================================================
