---------------------------- MODULE TraceScopes ----------------------------
(* I->S binding for C13. Every line of the trace is one observation of the  *)
(* real compiler on a (seeded random) configuration built by the harness    *)
(* driver: the configuration in the vocabulary of Scopes (files, items,     *)
(* site, imports, locals, depth, reference), the item the reference was     *)
(* observed to designate (or err) and the set of functions that could be    *)
(* retrieved from Rust by module path.  An event is accepted iff            *)
(* Scopes.Expected of the logged configuration equals the logged            *)
(* observation (Conform).  The deviations of the pinned implementation are  *)
(* explicit disjuncts (Dev with the switch that explains it): they accept   *)
(* the event                                                                *)
(* but print a DEVIATION line which the driver reports as a violation       *)
(* (matched against the known findings).  Anything else stops the trace.    *)
EXTENDS Scopes, Json, IOUtils, TLCExt

Rec == ndJsonDeserialize(IOEnv.TRACE)

VARIABLE l

Ran(s) == {s[i] : i \in 1..Len(s)}
Ev == Rec[l]
CfgOfEv(e) == Cfg2(Ran(e.files), Ran(e.items), e.site, e.imps, Ran(e.locals), e.depth, e.ref, Ran(e.sibs), e.forms)

ExportsOk(c, e) == (e.obs.k # "err") => (Exports(c) = Ran(e.got))

Conform ==
  LET c == CfgOfEv(Ev)
      x == Expected(c)
  IN  /\ (x.k = "unspec" \/ x = Ev.obs)
      /\ (x.k # "unspec" => ExportsOk(c, Ev))

Dev(which, alt(_)) ==
  LET c == CfgOfEv(Ev)
      x == Expected(c)
  IN  /\ x.k # "unspec" /\ x # Ev.obs
      /\ alt(c) = Ev.obs
      /\ ExportsOk(c, Ev)
      /\ PrintT(<<"DEVIATION", ToJson([line |-> l, which |-> which, exp |-> x, ev |-> Ev])>>)

TraceInit == l = 1
TraceNext ==
  /\ l <= Len(Rec)
  /\ \/ Conform
     \/ (~Conform /\ Dev("super-lookup", AltSuper))
     \/ (~Conform /\ AltSuper(CfgOfEv(Ev)) # Ev.obs /\ Dev("import-order", AltSeq))
     \/ (~Conform /\ AltSuper(CfgOfEv(Ev)) # Ev.obs /\ AltSeq(CfgOfEv(Ev)) # Ev.obs /\ Dev("pkg-shadowed", AltPkg))
     \/ (~Conform /\ AltSuper(CfgOfEv(Ev)) # Ev.obs /\ AltSeq(CfgOfEv(Ev)) # Ev.obs /\ AltPkg(CfgOfEv(Ev)) # Ev.obs
           /\ Dev("combination", AltImpl))
  /\ l' = l + 1

TraceSpec == TraceInit /\ [][TraceNext]_l

TraceAccepted ==
  LET d == TLCGet("stats").diameter IN
  IF d - 1 = Len(Rec) THEN TRUE
  ELSE /\ PrintT(<<"UNMATCHED", ToJson([line |-> d, ev |-> Rec[d], exp |-> Expected(CfgOfEv(Rec[d]))])>>)
       /\ FALSE
=============================================================================
