------------------------------ MODULE MCLexer ------------------------------
(* Model-checking / case-generation wrapper of Lexer (C06).                 *)
(* Source = "all":  every string of at most MaxLen symbols over Alphabet    *)
(*                  (first symbol in First, to split big runs) is an        *)
(*                  initial state (exhaustive);                             *)
(* Source = "file": the initial states are the abstract strings listed in   *)
(*                  the ndjson file IOEnv.C06_STRINGS (longer, seeded).     *)
(* The lexer is run to its end on each; the finished run is emitted with    *)
(* the specified token / trivia byte ranges and the stop reason.            *)
EXTENDS Lexer, Json, IOUtils

CONSTANTS Alphabet, First, MaxLen, Source

Given == IF Source = "file" THEN ndJsonDeserialize(IOEnv.C06_STRINGS) ELSE <<>>

MCInit == IF Source = "all"
          THEN \/ InitWith(<<>>)
               \/ \E n \in 1..MaxLen : \E a \in First : \E t \in [1..(n - 1) -> Alphabet] : InitWith(<<a>> \o t)
          ELSE \E i \in 1..Len(Given) : InitWith(Given[i].s)

MCSpec == MCInit /\ [][Next]_lvars

Case == [s |-> inp, p |-> pieces, stop |-> stop]
Emit == (mode = "end") => PrintT(<<"REPLAY", ToJson(Case)>>)

Inv == TypeOK /\ Progress /\ OnBoundary /\ TokensTile
=============================================================================
