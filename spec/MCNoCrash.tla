------------------------------ MODULE MCNoCrash ------------------------------
(* Enumeration wrapper of NoCrash (C10): one behaviour per point of the      *)
(* enumerated call domain (pending -> called -> returned).  Every finished   *)
(* behaviour is emitted as a REPLAY case: the point and the outcome the      *)
(* specification allows for it.  The built-in table is printed once so that  *)
(* the check can compare it with the generated reference documentation.     *)
EXTENDS NoCrash, Json

(* one call per behaviour: the domain is enumerated, not its square *)
MCNext == \/ pc = "pending" /\ (OpCall(Call) \/ BuiltinCall(Call))
          \/ Return

MCSpec == Init /\ [][MCNext]_vars

Case == [point |-> cur, expect |-> outcome]
Emit == (pc = "returned") => PrintT(<<"REPLAY", ToJson(Case)>>)

MCInv == TypeOK /\ DomainInv

(* every table entry and every numeric type contributes at least one point *)
ASSUME \A b \in Builtins : \E e \in ElemsOf(b) : ArgTuples(b, e) # {}
ASSUME PrintT(<<"TABLE", ToJson(Builtins)>>)
=============================================================================
