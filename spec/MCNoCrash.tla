------------------------------ MODULE MCNoCrash ------------------------------
(* Enumeration wrapper of NoCrash (C10): one behaviour per point of the      *)
(* enumerated call domain (pending -> called -> returned).  Every finished   *)
(* behaviour is emitted as a REPLAY case: the point and the outcome the      *)
(* specification allows for it.  The built-in table is printed once so that  *)
(* the check can compare it with the generated reference documentation.     *)
EXTENDS NoCrash, Json

(* one call per behaviour: the domain is enumerated, not its square *)
MCNext == \/ pc = "pending" /\ (OpCall(Call) \/ BuiltinCall(Call))
          \/ Return

MCSpec == Init /\ [][MCNext]_vars

Case == [point |-> cur, expect |-> outcome]
Emit == (pc = "returned") => PrintT(<<"REPLAY", ToJson(Case)>>)

MCInv == TypeOK /\ DomainInv

(* every table entry and every numeric type contributes at least one point *)
ASSUME \A b \in Builtins : \E e \in ElemsOf(b) : ArgTuples(b, e) # {}
(* the type-argument dimension: every size class has an element type, and every generic   *)
(* built-in is enumerated for every element type (zero-sized ones included) at every       *)
(* length class of its list arguments                                                      *)
ASSUME {ElemSize[e] : e \in ElemKinds} = SizeClasses
ASSUME \A b \in Builtins : IsGeneric(b) =>
          \A e \in ElemKinds : \A i \in 1..Len(b.params) : b.params[i] = "L:T" =>
             \A c \in LenClasses : \E t \in ArgTuples(b, e) : t[i].c = c
ASSUME PrintT(<<"TABLE", ToJson(Builtins)>>)
ASSUME PrintT(<<"ELEMS", ToJson([size |-> ElemSize, len |-> LenOf, growth |-> GrowthLen])>>)
=============================================================================
