------------------------------- MODULE Scopes -------------------------------
(* C13 - names resolve to the item the module rules designate.              *)
(*                                                                          *)
(* A *configuration* c describes one Roto package and one probing           *)
(* reference in it:                                                         *)
(*   c.files   set of source files besides pkg.roto,                        *)
(*             [dir |-> <<"a">>, name |-> "b", kind |-> "file"]  = a/b.roto *)
(*             [dir |-> <<"a">>, name |-> "b", kind |-> "mod"]   = a/b/mod.roto *)
(*   c.items   set of [p |-> module path, n |-> name]: the file(s) of module *)
(*             path p declare an item n (function f/g, constant k)          *)
(*   c.site    module path of the module that holds the probing function    *)
(*   c.imps    sequence of import statements [sc |-> scope, path |-> Seq,   *)
(*             grp |-> Nat] (grp > 0: rendered as one list import           *)
(*             `import pre.{x, y}`, which the manual defines to be identical *)
(*             to the separate imports)                                     *)
(*   c.locals  set of [i |-> block level, n |-> name, param |-> BOOLEAN]    *)
(*   c.depth   block level (1 = function body, 2, 3 = nested blocks) of the *)
(*             reference;  c.ref  the referenced path                       *)
(*   c.sibs    set of [i |-> level, n |-> name]: `let`s of the SIBLING      *)
(*             scope S(i) of block level i (i = 2, 3): a block-like scope   *)
(*             with the same enclosing scope as B(i) that is not an         *)
(*             ancestor of the reference (imports may have sc = S(i))       *)
(*   c.forms   <<form of level 1, 2, 3>>: the construct that opens B(i) and *)
(*             S(i): "plain" ({S}; {B}), "else" (if .. {S} else {B}),       *)
(*             "then" (if .. {B} else {S}), "arm1" / "arm2" (B is the       *)
(*             first / second arm of a match, S the other), "after"         *)
(*             ({B}; {S}).  Every block, branch and arm opens a scope of    *)
(*             its own under the scope around the construct, so the form    *)
(*             never changes what a name designates.                        *)
(*                                                                          *)
(* The specification defines                                                *)
(*   Modules(files)      file discovery: pkg.roto, name.roto, name/mod.roto *)
(*   the scope graph     Global <- module scopes;  module(site) <- B(1) <-  *)
(*                       B(2) <- B(3) (function body and nested blocks)     *)
(*   ResolveS            the lookup rules of the property statement         *)
(*   Expected(c)         the item the reference designates, or Err          *)
(* and, as explicit *deviation switches*, three behaviours of the pinned    *)
(* implementation that differ from the rules (see ResolveS / SeqMap):       *)
(*   md.sr = TRUE : the segment after leading `super`s is looked up like a  *)
(*                bare name (imports of the ancestor and global names       *)
(*                included) instead of among the ancestor's members only,   *)
(*   md.ps = TRUE : a leading `pkg` is looked up like any name (a module    *)
(*                called pkg, from a directory pkg/mod.roto, shadows it in  *)
(*                the root module) instead of being absolute,               *)
(*   OutcomeQ     : imports of one scope are resolved one after the other   *)
(*                in source order (with retries) instead of                 *)
(*                order-independently.                                      *)
(* The deviation results are only used to *classify* a mismatch (known      *)
(* finding signature); the expectation is always the strict one.            *)
EXTENDS Naturals, Sequences, FiniteSets, TLC

Front(s) == SubSeq(s, 1, Len(s) - 1)
Last(s)  == s[Len(s)]

NoP == <<>>
(* what a name can designate *)
Err          == [k |-> "err",    p |-> NoP, n |-> "", i |-> 0]
Unspec       == [k |-> "unspec", p |-> NoP, n |-> "", i |-> 0]
ModI(p)      == [k |-> "mod",    p |-> p,   n |-> "", i |-> 0]
ItemI(p, n)  == [k |-> "item",   p |-> p,   n |-> n,  i |-> 0]
LocalI(i, n) == [k |-> "local",  p |-> NoP, n |-> n,  i |-> i]

(* scopes *)
G    == [t |-> "g", p |-> NoP, i |-> 0]     \* global scope: runtime items and `pkg`
M(p) == [t |-> "m", p |-> p,   i |-> 0]     \* scope of module p
B(i) == [t |-> "b", p |-> NoP, i |-> i]     \* block level i of the probing function
S(i) == [t |-> "s", p |-> NoP, i |-> i]     \* sibling scope of block level i (same parent as B(i))
SibI(i, n) == [k |-> "sib", p |-> NoP, n |-> n, i |-> i]
NoScope == [t |-> "none", p |-> NoP, i |-> 0]

-----------------------------------------------------------------------------
(* Files -> module tree                                                     *)

HasFile(files, mp, kind) ==
  \E e \in files : e.dir = Front(mp) /\ e.name = Last(mp) /\ e.kind = kind

(* A module exists iff its parent exists, the parent can have children      *)
(* (pkg.roto or a directory with mod.roto) and name.roto or name/mod.roto   *)
(* is present. A directory without mod.roto contributes nothing.            *)
RECURSIVE ModExists(_, _)
ModExists(files, mp) ==
  IF mp = <<>> THEN TRUE
  ELSE /\ ModExists(files, Front(mp))
       /\ (Front(mp) = <<>> \/ HasFile(files, Front(mp), "mod"))
       /\ (HasFile(files, mp, "file") \/ HasFile(files, mp, "mod"))

(* The module of name.roto is called `name` (the file stem) and the module   *)
(* of name/mod.roto is called `name` (the whole directory name), whatever    *)
(* characters the name contains.  A name that is not an identifier (it       *)
(* contains a dot: a.bak/mod.roto, b.x.roto) is still that module's name: no *)
(* path can mention it (a path is a sequence of identifiers, `pkg.a.bak.f`   *)
(* means member bak of module a), and it is not the module `a` or `b`.       *)
SplitName(n) == CASE n = "a.bak" -> <<"a", "bak">> [] n = "b.x" -> <<"b", "x">> [] OTHER -> <<n>>
RECURSIVE Written(_)
Written(mp) == IF mp = <<>> THEN <<>> ELSE SplitName(Head(mp)) \o Written(Tail(mp))   \* the path as a script would write it

FileMods(files) == {Append(e.dir, e.name) : e \in files}
Modules(files)  == {mp \in FileMods(files) \cup {<<>>} : ModExists(files, mp)}

(* name.roto and name/mod.roto both present: the module is declared twice *)
DupModule(c) ==
  \E mp \in c.mods : mp # <<>> /\ HasFile(c.files, mp, "file") /\ HasFile(c.files, mp, "mod")

(* configuration with the module tree computed once *)
NoForms == <<"plain", "plain", "plain">>
Cfg2(files, items, site, imps, locals, depth, ref, sibs, forms) ==
  [files |-> files, mods |-> Modules(files), items |-> items, site |-> site,
   imps |-> imps, locals |-> locals, depth |-> depth, ref |-> ref, sibs |-> sibs, forms |-> forms]
Cfg(files, items, site, imps, locals, depth, ref) ==
  Cfg2(files, items, site, imps, locals, depth, ref, {}, NoForms)

-----------------------------------------------------------------------------
(* Scope graph                                                              *)

Parent(c, s) == IF s.t = "m" THEN G ELSE IF s.i = 1 THEN M(c.site) ELSE B(s.i - 1)   \* B(i) and S(i) alike

(* the module a scope belongs to *)
HomeMod(c, s) == IF s.t = "m" THEN s.p ELSE c.site

HasDecl(c, s, id) ==
  CASE s.t = "g" -> id = "pkg"
    [] s.t = "m" -> \/ Append(s.p, id) \in c.mods
                    \/ [p |-> s.p, n |-> id] \in c.items
    [] s.t = "b" -> \E l \in c.locals : l.i = s.i /\ l.n = id
    [] s.t = "s" -> \E l \in c.sibs : l.i = s.i /\ l.n = id
    [] OTHER     -> FALSE

Decl(c, s, id) ==
  CASE s.t = "g" -> ModI(<<>>)
    [] s.t = "m" -> IF Append(s.p, id) \in c.mods THEN ModI(Append(s.p, id)) ELSE ItemI(s.p, id)
    [] s.t = "b" -> LocalI(s.i, id)
    [] s.t = "s" -> SibI(s.i, id)

(* later path segments: only direct members of the item before; no         *)
(* recursion outward, no imports                                            *)
Member(c, it, id) ==
  IF it.k = "mod" /\ HasDecl(c, M(it.p), id) THEN Decl(c, M(it.p), id) ELSE Err

RECURSIVE Walk(_, _, _)
Walk(c, it, rest) ==
  IF rest = <<>> THEN it
  ELSE IF it.k # "mod" THEN Err
  ELSE Walk(c, Member(c, it, Head(rest)), Tail(rest))

RECURSIVE NSup(_)
NSup(path) == IF path # <<>> /\ Head(path) = "super" THEN 1 + NSup(Tail(path)) ELSE 0

ImpIdx(c, s) == {j \in 1..Len(c.imps) : c.imps[j].sc = s}
Alias(c, j)  == Last(c.imps[j].path)

(* two imports of one scope introduce the same name: the manual does not    *)
(* say what happens                                                         *)
DupAlias(c) ==
  \E i, j \in 1..Len(c.imps) : i < j /\ c.imps[i].sc = c.imps[j].sc /\ Alias(c, i) = Alias(c, j)

AllScopes(c) == {M(mp) : mp \in c.mods} \cup {B(1), B(2), B(3), S(2), S(3)}

-----------------------------------------------------------------------------
(* The lookup rules (order independent)                                     *)
(*                                                                          *)
(* First segment: declarations of the scope, then the scope's imports, then *)
(* outward. An import statement is itself resolved in its scope, seeing the *)
(* other imports of that scope (not itself): the import table is the        *)
(* fixpoint of resolving every import, independent of their order. `vis`    *)
(* carries the imports being resolved; a cyclic dependency is an error.     *)

RECURSIVE LookupS(_, _, _, _, _, _), TargetS(_, _, _, _), ResolveS(_, _, _, _, _, _)

Prov(c, s, id, self) == {j \in ImpIdx(c, s) : j # self /\ Alias(c, j) = id}

(* A block's own `let`s come after the block's import statements (the       *)
(* configurations are rendered: imports, lets, nested block, reference), so *)
(* they are not yet declared where an import of that very block is          *)
(* resolved; parameters and the lets of enclosing blocks are.               *)
NotYetDeclared(c, s, id, self) ==
  /\ self \in 1..Len(c.imps) /\ s.t \in {"b", "s"} /\ c.imps[self].sc = s
  /\ ~(s.t = "b" /\ \E l \in c.locals : l.i = s.i /\ l.n = id /\ l.param)

LookupS(c, md, s, id, self, vis) ==
  IF HasDecl(c, s, id) /\ ~NotYetDeclared(c, s, id, self) THEN Decl(c, s, id)
  ELSE IF Prov(c, s, id, self) # {}
       THEN LET j == CHOOSE j \in Prov(c, s, id, self) : TRUE
            IN  IF j \in vis THEN Err ELSE TargetS(c, md, j, vis)
  ELSE IF s.t = "g" THEN Err
  ELSE LookupS(c, md, Parent(c, s), id, self, vis)

TargetS(c, md, j, vis) == ResolveS(c, md, c.imps[j].sc, c.imps[j].path, j, vis \cup {j})

(* leading `super`s climb from the module the scope belongs to; more supers *)
(* than ancestors is an error; a leading `pkg` is absolute (the root        *)
(* module), whatever is declared or imported under that name. Strict rule   *)
(* (md.sr = FALSE): what follows the supers is a *later* segment, i.e. a    *)
(* direct member of the ancestor module.                                    *)
ResolveS(c, md, s, path, self, vis) ==
  LET n    == NSup(path)
      home == HomeMod(c, s)
  IN  IF n > Len(home) THEN Err
      ELSE IF n > 0
           THEN LET anc  == SubSeq(home, 1, Len(home) - n)
                    rest == SubSeq(path, n + 1, Len(path))
                IN  IF rest = <<>> THEN ModI(anc)
                    ELSE IF md.sr THEN Walk(c, LookupS(c, md, M(anc), Head(rest), self, vis), Tail(rest))
                    ELSE Walk(c, ModI(anc), rest)
      ELSE IF Head(path) = "pkg" /\ ~md.ps THEN Walk(c, ModI(<<>>), Tail(path))
      ELSE Walk(c, LookupS(c, md, s, Head(path), self, vis), Tail(path))

(* the reference must end in a value: an item, or a local variable that is  *)
(* read (f and g are always written as calls `f()`; calling a local         *)
(* variable is an error)                                                    *)
Final(c, r) == IF r.k = "item" THEN r
               ELSE IF r.k = "local" /\ Last(c.ref) \notin {"f", "g"} THEN r
               ELSE Err

OutcomeS(c, md) ==
  IF DupModule(c) THEN Err
  ELSE IF \E j \in 1..Len(c.imps) : TargetS(c, md, j, {}).k = "err" THEN Err
  ELSE Final(c, ResolveS(c, md, B(c.depth), c.ref, 0, {}))

-----------------------------------------------------------------------------
(* Deviation model `seq`: the imports of a scope are resolved one after the *)
(* other in source order; an import only sees the aliases inserted before   *)
(* it (else it looks outward); failed ones are retried until no progress.   *)

MapHas(map, id) == \E e \in map : e[1] = id
MapGet(map, id) == (CHOOSE e \in map : e[1] = id)[2]

RECURSIVE LookupQ(_, _, _, _, _, _), ResolveQ(_, _, _, _, _, _), SeqMap(_, _, _),
          Loop(_, _, _, _, _), Pass(_, _, _, _, _, _, _)

LookupQ(c, md, s, id, s0, done) ==
  IF HasDecl(c, s, id) THEN Decl(c, s, id)
  ELSE LET map == IF s = s0 THEN done ELSE IF s.t = "g" THEN {} ELSE SeqMap(c, md, s).map
       IN  IF MapHas(map, id) THEN MapGet(map, id)
           ELSE IF s.t = "g" THEN Err
           ELSE LookupQ(c, md, Parent(c, s), id, s0, done)

ResolveQ(c, md, s, path, s0, done) ==
  LET n    == NSup(path)
      home == HomeMod(c, s)
  IN  IF n > Len(home) THEN Err
      ELSE IF n > 0
           THEN LET anc  == SubSeq(home, 1, Len(home) - n)
                    rest == SubSeq(path, n + 1, Len(path))
                IN  IF rest = <<>> THEN ModI(anc)
                    ELSE IF md.sr THEN Walk(c, LookupQ(c, md, M(anc), Head(rest), s0, done), Tail(rest))
                    ELSE Walk(c, ModI(anc), rest)
      ELSE IF Head(path) = "pkg" /\ ~md.ps THEN Walk(c, ModI(<<>>), Tail(path))
      ELSE Walk(c, LookupQ(c, md, s, Head(path), s0, done), Tail(path))

Pass(c, md, s, pend, k, done, kept) ==
  IF k > Len(pend) THEN [pend |-> kept, done |-> done]
  ELSE LET j  == pend[k]
           t  == ResolveQ(c, md, s, c.imps[j].path, s, done)
           al == Alias(c, j)
       IN  IF t.k # "err" /\ ~MapHas(done, al)
           THEN Pass(c, md, s, pend, k + 1, done \cup {<<al, t>>}, kept)
           ELSE Pass(c, md, s, pend, k + 1, done, Append(kept, j))

Loop(c, md, s, pend, done) ==
  LET r == Pass(c, md, s, pend, 1, done, <<>>)
  IN  IF r.pend = <<>> THEN [ok |-> TRUE, map |-> r.done]
      ELSE IF Len(r.pend) = Len(pend) THEN [ok |-> FALSE, map |-> r.done]
      ELSE Loop(c, md, s, r.pend, r.done)

RECURSIVE IdxSeq(_, _, _)
IdxSeq(c, s, j) == IF j > Len(c.imps) THEN <<>>
                   ELSE IF c.imps[j].sc = s THEN <<j>> \o IdxSeq(c, s, j + 1)
                   ELSE IdxSeq(c, s, j + 1)

SeqMap(c, md, s) == Loop(c, md, s, IdxSeq(c, s, 1), {})

OutcomeQ(c, md) ==
  IF DupModule(c) THEN Err
  ELSE IF \E s \in AllScopes(c) : ImpIdx(c, s) # {} /\ ~SeqMap(c, md, s).ok THEN Err
  ELSE Final(c, ResolveQ(c, md, B(c.depth), c.ref, NoScope, {}))

-----------------------------------------------------------------------------
(* What the check asserts                                                   *)

Strict == [sr |-> FALSE, ps |-> FALSE]
Expected(c) == IF ~DupModule(c) /\ DupAlias(c) THEN Unspec ELSE OutcomeS(c, Strict)

(* results under the deviation switches, used only to name a mismatch *)
AltSuper(c) == OutcomeS(c, [sr |-> TRUE, ps |-> FALSE])    \* super-lookup recurses
AltSeq(c)   == OutcomeQ(c, Strict)                          \* sequential imports
AltPkg(c)   == OutcomeS(c, [sr |-> FALSE, ps |-> TRUE])    \* `pkg` can be shadowed
AltImpl(c)  == OutcomeQ(c, [sr |-> TRUE, ps |-> TRUE])     \* all three = model of the pinned implementation
Alts(c)     == [super |-> AltSuper(c), seq |-> AltSeq(c), pkg |-> AltPkg(c), impl |-> AltImpl(c)]

(* every function is retrievable from Rust under pkg-relative module path;  *)
(* files that are not part of the module tree export nothing                *)
FnNames == {"f", "g"}
Exports(c) == {[p |-> it.p, n |-> it.n, present |-> (it.p \in c.mods)] : it \in {x \in c.items : x.n \in FnNames}}

(* names introduced by an import that are ALSO reachable from the enclosing  *)
(* scope of the importing scope (the import must win, whatever the order of *)
(* the imports of that scope); used for anti-vacuity counting               *)
OuterNamesakes(c) ==
  {Alias(c, j) : j \in {i \in 1..Len(c.imps) :
      LookupS(c, Strict, Parent(c, c.imps[i].sc), Alias(c, i), 0, {}).k # "err"}}

(* inner import against outer declaration (anti-vacuity): when the first    *)
(* segment of the reference is decided by an import, the scope of that      *)
(* import and the kinds of the same-named DECLARATIONS of the scopes that   *)
(* enclose it (which the import must beat)                                  *)
RECURSIVE Encl(_, _), ProvScope(_, _, _)
Encl(c, s) == IF s.t = "g" THEN {} ELSE {Parent(c, s)} \cup Encl(c, Parent(c, s))
ProvScope(c, s, id) ==
  IF HasDecl(c, s, id) THEN NoScope
  ELSE IF Prov(c, s, id, 0) # {} THEN s
  ELSE IF s.t = "g" THEN NoScope
  ELSE ProvScope(c, Parent(c, s), id)
InnerVsOuter(c) ==
  LET id == Head(c.ref)
      s  == IF NSup(c.ref) > 0 \/ id = "pkg" THEN NoScope ELSE ProvScope(c, B(c.depth), id)
  IN  [t |-> s.t, i |-> s.i,
       kinds |-> IF s.t = "none" THEN {} ELSE {Decl(c, e, id).k : e \in {x \in Encl(c, s) : HasDecl(c, x, id)}}]

(* sibling scopes (anti-vacuity): the sibling S(i) of a block level on the   *)
(* path to the reference declares or imports the first segment of the       *)
(* reference, and no block between it and the reference does - a lookup     *)
(* that leaked into the sibling would change the outcome                    *)
SibSensitive(c) ==
  LET id == Head(c.ref)
  IN  /\ NSup(c.ref) = 0 /\ id # "pkg"
      /\ \E i \in 2..c.depth :
            /\ (HasDecl(c, S(i), id) \/ Prov(c, S(i), id, 0) # {})
            /\ \A j \in i..c.depth : ~HasDecl(c, B(j), id) /\ Prov(c, B(j), id, 0) = {}

(* which lookup rule decides the expected resolution (anti-vacuity classes) *)
RECURSIVE HowS(_, _, _, _)
HowS(c, s, id, hops) ==
  IF HasDecl(c, s, id) THEN [first |-> "decl", hops |-> hops]
  ELSE IF Prov(c, s, id, 0) # {} THEN [first |-> "import", hops |-> hops]
  ELSE IF s.t = "g" THEN [first |-> "none", hops |-> hops]
  ELSE HowS(c, Parent(c, s), id, hops + 1)

Rule(c) ==
  LET n  == NSup(c.ref)
      e  == Expected(c)
      ok == e.k \in {"item", "local"}
      w  == [segs |-> Len(c.ref), ok |-> ok, hit |-> e.k]
  IN  IF DupModule(c) THEN [first |-> "dup-module", hops |-> 0] @@ w
      ELSE IF e.k = "unspec" THEN [first |-> "dup-alias", hops |-> 0] @@ w
      ELSE IF \E j \in 1..Len(c.imps) : TargetS(c, Strict, j, {}).k = "err"
           THEN [first |-> "bad-import", hops |-> 0] @@ w
      ELSE IF n > Len(c.site) THEN [first |-> "too-many-supers", hops |-> n] @@ w
      ELSE IF n > 0 THEN [first |-> "super", hops |-> n] @@ w
      ELSE IF Head(c.ref) = "pkg" THEN [first |-> "pkg", hops |-> 0] @@ w
      ELSE HowS(c, B(c.depth), Head(c.ref), 0) @@ w
=============================================================================
