SPECIFICATION MCSpec
CONSTANTS
  Part = "types"
  Depth = 1
INVARIANTS Unchanged RuleSound SlotsAgree Emit
CHECK_DEADLOCK FALSE
