SPECIFICATION MCSpec
CONSTANTS
  MaxDepth = 64
INVARIANTS Inv Emit
CHECK_DEADLOCK FALSE
