----------------------------- MODULE TestRunner -----------------------------
(***************************************************************************)
(* C19 - the test runner and the command-line front end report outcomes   *)
(* truthfully.                                                             *)
(*                                                                         *)
(* A package is a tree of modules holding `test` blocks and functions.    *)
(* Names are sequences of ASCII code points, so the order in which the    *)
(* runner executes the tests can be stated: tests are executed one at a   *)
(* time in increasing order of their full name                            *)
(*      pkg[.<module>]*.test#<name>          (src/codegen/testing.rs:     *)
(* `tests.sort()` on the keys of the function table), compared byte by    *)
(* byte.  The order therefore depends on the set of (module, name) pairs  *)
(* only: not on the position of a test in its file, not on the order in   *)
(* which module files are discovered, not on functions of the same name.  *)
(*                                                                         *)
(*  pkg = [ mods   : sequence of module paths (root <<>> first),          *)
(*          tests  : sequence (= declaration order) of                    *)
(*                   [mod, name, out \in {"accept","reject"},             *)
(*                    call : <<>> (none) or the name called as `name()`   *)
(*                           inside the test body,                        *)
(*                    body : the statement form the block computes its    *)
(*                           verdict with (see Bodies)],                  *)
(*          funcs  : sequence of [mod, name, sig \in {"unit","param",     *)
(*                   "ret"}]       fn n() / fn n(x: i32) / fn n() -> i32  *)
(*          broken : "none" | "syntax" | "type"  (an unrelated error),    *)
(*          fnpos  : "first" | "last" | "mixed": functions and helper     *)
(*                   declarations are written before / after / between    *)
(*                   the test blocks of a file.  Nothing below depends on *)
(*                   it: the position of a test block is irrelevant ]     *)
(*                                                                         *)
(* The body of test i reports mark i, the body of function j mark 100+j.  *)
(*                                                                         *)
(*  cmd = [kind : "api" (Package::run_tests called by a host)             *)
(*                | "check" | "test" | "run"   (roto <kind> <path> [fn]), *)
(*         explicit : an entry name is given on the command line,         *)
(*         mod, fn : that name, written <mod segments>.<fn> : the module  *)
(*                   path relative to the package root (<<>> for a bare   *)
(*                   name) and the function name.  The path designates the *)
(*                   function fn of module pkg.<mod>, as a path does in a  *)
(*                   script of the root module; the path is never         *)
(*                   shortened and no other module is searched]           *)
(*                                                                         *)
(* One action per step of the code: Compile (parse + type check),         *)
(* RunTest(i) (TestCase::run inside run_tests), Finish (the aggregate     *)
(* result / exit status of `test`), CheckDone, RunEntry (get_function +   *)
(* call of `run`).                                                         *)
(***************************************************************************)
EXTENDS Naturals, Sequences, FiniteSets

VARIABLES pkg,        \* the package (never changes during a run)
          cmd,        \* how it is used (never changes during a run)
          phase,      \* "start" | "compiled" | "rejected" | "done"
          pending,    \* indices of tests not yet executed
          log,        \* marks reported so far (order and multiplicity)
          failures,   \* number of executed tests that ended in reject
          verdict,    \* result of run_tests: "none" | "ok" | "err"
          exit,       \* exit status of the CLI: "none" | "success" | "failure"
          entryRuns   \* how often `run` executed the entry function

vars == <<pkg, cmd, phase, pending, log, failures, verdict, exit, entryRuns>>

-----------------------------------------------------------------------------
(* names *)
Dot     == 46
PKG     == <<112, 107, 103>>              \* "pkg"
TESTPFX == <<116, 101, 115, 116, 35>>     \* "test#"
MAIN    == <<109, 97, 105, 110>>          \* "main"
NoCall  == <<>>
Root    == <<>>

RECURSIVE JoinPath(_)
JoinPath(p) == IF p = <<>> THEN <<>> ELSE <<Dot>> \o Head(p) \o JoinPath(Tail(p))

ModName(m)    == PKG \o JoinPath(m)                              \* pkg.a.b
TestKey(t)    == ModName(t.mod) \o <<Dot>> \o TESTPFX \o t.name  \* pkg.a.b.test#n
DisplayKey(t) == ModName(t.mod) \o <<Dot>> \o t.name             \* pkg.a.b.n

(* byte-wise lexicographic order (Rust's Ord for String, ASCII only) *)
LexLess(a, b) ==
  \E i \in 1..(Len(a) + 1) :
     /\ i <= Len(b)
     /\ \A j \in 1..(i - 1) : a[j] = b[j]
     /\ (i = Len(a) + 1 \/ a[i] < b[i])

-----------------------------------------------------------------------------
(* the package *)
Tests == pkg.tests
Funcs == pkg.funcs
TIdx  == 1..Len(Tests)
FIdx  == 1..Len(Funcs)

TestMark(i) == i
FnMark(j)   == 100 + j

(* Statement forms of test bodies.  Every valid form computes a condition  *)
(* that holds in the language semantics and ends in the block's `out` when  *)
(* it holds (in the opposite verdict otherwise), so the outcome of a block  *)
(* is `out` for every valid form.  A string interpolation f"..{e}.." needs  *)
(* a `to_string` method on the type of e (language reference, "String      *)
(* Formatting"): i32, bool and String have one, Option, records and lists  *)
(* do not: a body interpolating such a value is a compile error, wherever  *)
(* the block stands.                                                        *)
ValidBodies   == {"plain", "fstr_i32", "fstr_bool", "fstr_string", "strcmp", "let_if", "match",
                  "helper_call", "list_ops"}
InvalidBodies == {"fstr_option", "fstr_record", "fstr_list"}
Bodies        == ValidBodies \cup InvalidBodies
BodyCompiles(b) == b \in ValidBodies

WellFormed(p) ==
  /\ Len(p.mods) >= 1 /\ p.mods[1] = Root
  /\ p.fnpos \in {"first", "last", "mixed"}
  /\ \A i \in 1..Len(p.tests) : p.tests[i].body \in Bodies
  /\ \A i \in 1..Len(p.tests) : \E k \in 1..Len(p.mods) : p.mods[k] = p.tests[i].mod
  /\ \A j \in 1..Len(p.funcs) : \E k \in 1..Len(p.mods) : p.mods[k] = p.funcs[j].mod
  (* functions and child modules share one namespace (name resolution is C13's *)
  (* subject): such packages are outside this model                           *)
  /\ \A j \in 1..Len(p.funcs) : \A k \in 1..Len(p.mods) :
        p.mods[k] # Append(p.funcs[j].mod, p.funcs[j].name)
  /\ Len(p.tests) < 100

(* A test name must be unique in its module; so must a function name.      *)
(* A test and a function of one module may share a name.                   *)
DupTest == \E i, j \in TIdx : i < j /\ Tests[i].mod = Tests[j].mod /\ Tests[i].name = Tests[j].name
DupFn   == \E i, j \in FIdx : i < j /\ Funcs[i].mod = Funcs[j].mod /\ Funcs[i].name = Funcs[j].name

(* `n()` written in module m refers to the function n of m and to nothing  *)
(* else: a test block is never a candidate.                                *)
FnAt(m, n)     == {j \in FIdx : Funcs[j].mod = m /\ Funcs[j].name = n}
Resolves(m, n) == FnAt(m, n) # {}
Callee(m, n)   == CHOOSE j \in FnAt(m, n) : TRUE

CallOK(i) ==
  \/ Tests[i].call = NoCall
  \/ /\ Resolves(Tests[i].mod, Tests[i].call)
     /\ Funcs[Callee(Tests[i].mod, Tests[i].call)].sig # "param"   \* `n()` passes no argument

Compiles == /\ pkg.broken = "none"
            /\ ~DupTest
            /\ ~DupFn
            /\ \A i \in TIdx : CallOK(i)
            /\ \A i \in TIdx : BodyCompiles(Tests[i].body)

(* what the body of test i reports: its own mark, then the called function's *)
Marks(i) == IF Tests[i].call = NoCall THEN <<TestMark(i)>>
            ELSE <<TestMark(i), FnMark(Callee(Tests[i].mod, Tests[i].call))>>

(* the next test to run: least full name among those not yet run *)
First(S) == CHOOSE i \in S : \A j \in S \ {i} : LexLess(TestKey(Tests[i]), TestKey(Tests[j]))

RECURSIVE Sorted(_)
Sorted(S) == IF S = {} THEN <<>> ELSE <<First(S)>> \o Sorted(S \ {First(S)})

(* the entry point of `run`: a function of the root module, `main` unless named *)
EntryName == IF cmd.explicit THEN cmd.fn ELSE MAIN
EntryMod  == IF cmd.explicit THEN cmd.mod ELSE Root
EntryOK   == /\ Resolves(EntryMod, EntryName)                      \* no such module => no such function
             /\ Funcs[Callee(EntryMod, EntryName)].sig = "unit"    \* must be fn()
EntryMark == FnMark(Callee(EntryMod, EntryName))

-----------------------------------------------------------------------------
Init(p, c) ==
  /\ pkg = p /\ cmd = c
  /\ phase = "start" /\ pending = {} /\ log = <<>> /\ failures = 0
  /\ verdict = "none" /\ exit = "none" /\ entryRuns = 0

Compile ==
  /\ phase = "start"
  /\ IF Compiles
       THEN /\ phase' = "compiled"
            /\ pending' = IF cmd.kind \in {"api", "test"} THEN TIdx ELSE {}
            /\ UNCHANGED exit
       ELSE /\ phase' = "rejected"
            /\ pending' = {}
            /\ exit' = IF cmd.kind = "api" THEN "none" ELSE "failure"
  /\ UNCHANGED <<pkg, cmd, log, failures, verdict, entryRuns>>

RunTest(i) ==
  /\ phase = "compiled"
  /\ cmd.kind \in {"api", "test"}
  /\ i \in pending
  /\ i = First(pending)
  /\ log' = log \o Marks(i)
  /\ pending' = pending \ {i}
  /\ failures' = failures + (IF Tests[i].out = "reject" THEN 1 ELSE 0)
  /\ UNCHANGED <<pkg, cmd, phase, verdict, exit, entryRuns>>

Finish ==
  /\ phase = "compiled"
  /\ cmd.kind \in {"api", "test"}
  /\ pending = {}
  /\ verdict' = IF failures = 0 THEN "ok" ELSE "err"
  /\ exit' = IF cmd.kind = "test" THEN (IF failures = 0 THEN "success" ELSE "failure") ELSE "none"
  /\ phase' = "done"
  /\ UNCHANGED <<pkg, cmd, pending, log, failures, entryRuns>>

CheckDone ==
  /\ phase = "compiled"
  /\ cmd.kind = "check"
  /\ exit' = "success"
  /\ phase' = "done"
  /\ UNCHANGED <<pkg, cmd, pending, log, failures, verdict, entryRuns>>

RunEntry ==
  /\ phase = "compiled"
  /\ cmd.kind = "run"
  /\ IF EntryOK
       THEN /\ entryRuns' = entryRuns + 1
            /\ log' = Append(log, EntryMark)
            /\ exit' = "success"
       ELSE /\ exit' = "failure"
            /\ UNCHANGED <<entryRuns, log>>
  /\ phase' = "done"
  /\ UNCHANGED <<pkg, cmd, pending, failures, verdict>>

RunSome == \E i \in TIdx : RunTest(i)

Next == Compile \/ RunSome \/ Finish \/ CheckDone \/ RunEntry

-----------------------------------------------------------------------------
(* what the property claims, as invariants of the transition system *)
Ended == phase \in {"done", "rejected"}

Count(s, x) == Cardinality({k \in 1..Len(s) : s[k] = x})

TypeOK ==
  /\ phase \in {"start", "compiled", "rejected", "done"}
  /\ pending \subseteq TIdx
  /\ verdict \in {"none", "ok", "err"}
  /\ exit \in {"none", "success", "failure"}
  /\ entryRuns \in 0..1

(* every test block of every module is executed exactly once ... *)
ExactlyOnce ==
  (phase = "done" /\ cmd.kind \in {"api", "test"}) =>
     \A i \in TIdx : Count(log, TestMark(i)) = 1
(* ... never more than once at any time, and nothing runs if the package is rejected *)
AtMostOnce == /\ \A i \in TIdx : Count(log, TestMark(i)) <= 1
              /\ (phase = "rejected" => log = <<>>)

(* ... in the order of the full names, whatever the declaration order *)
TestMarksOf(s) == SelectSeq(s, LAMBDA x : x < 100)
InOrder ==
  LET tm == TestMarksOf(log) IN
  \A a, b \in 1..Len(tm) : a < b => LexLess(TestKey(Tests[tm[a]]), TestKey(Tests[tm[b]]))

(* success is reported iff every block ended in accept *)
VerdictIff ==
  (phase = "done" /\ cmd.kind \in {"api", "test"}) =>
     (verdict = "ok" <=> \A i \in TIdx : Tests[i].out = "accept")

(* a test cannot be called: a package that compiles resolves every call to a function *)
NoCallToTest ==
  (phase \in {"compiled", "done"}) =>
     \A i \in TIdx : Tests[i].call # NoCall => Resolves(Tests[i].mod, Tests[i].call)
(* and a function of the same name does not replace the test *)
NotShadowed ==
  (phase = "done" /\ cmd.kind \in {"api", "test"}) =>
     \A i \in TIdx : Resolves(Tests[i].mod, Tests[i].name) => Count(log, TestMark(i)) = 1

(* a compile error inside a test body rejects the package (no test runs, AtMostOnce) *)
BodyErrorRejected ==
  (phase \in {"compiled", "done"}) => \A i \in TIdx : BodyCompiles(Tests[i].body)

(* `run` executes the designated function and no other *)
RightEntry ==
  (phase = "done" /\ cmd.kind = "run" /\ exit = "success") =>
     /\ log = <<EntryMark>>
     /\ Funcs[Callee(EntryMod, EntryName)].mod = EntryMod
     /\ Funcs[Callee(EntryMod, EntryName)].name = EntryName

(* the CLI table *)
SomeReject == \E i \in TIdx : Tests[i].out = "reject"
ExitTable ==
  (Ended /\ cmd.kind # "api") =>
     /\ exit \in {"success", "failure"}
     /\ exit = "failure" <=>
          \/ ~Compiles
          \/ (cmd.kind = "test" /\ SomeReject)
          \/ (cmd.kind = "run" /\ ~EntryOK)
EntryOnce ==
  /\ cmd.kind # "run" => entryRuns = 0
  /\ (Ended /\ cmd.kind = "run") => entryRuns = (IF exit = "success" THEN 1 ELSE 0)

Inv == TypeOK /\ ExactlyOnce /\ AtMostOnce /\ InOrder /\ VerdictIff /\ NoCallToTest
       /\ NotShadowed /\ BodyErrorRejected /\ RightEntry /\ ExitTable /\ EntryOnce
=============================================================================
