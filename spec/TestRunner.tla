----------------------------- MODULE TestRunner -----------------------------
(***************************************************************************)
(* C19 - the test runner and the command-line front end report outcomes   *)
(* truthfully.                                                             *)
(*                                                                         *)
(* A package is a tree of modules holding `test` blocks and functions.    *)
(* Names are sequences of ASCII code points, so the order in which the    *)
(* runner executes the tests can be stated: tests are executed one at a   *)
(* time in increasing order of their full name                            *)
(*      pkg[.<module>]*.test#<name>          (src/codegen/testing.rs:     *)
(* `tests.sort()` on the keys of the function table), compared byte by    *)
(* byte.  The order therefore depends on the set of (module, name) pairs  *)
(* only: not on the position of a test in its file, not on the order in   *)
(* which module files are discovered, not on functions of the same name.  *)
(*                                                                         *)
(*  pkg = [ mods   : sequence of module paths (root <<>> first),          *)
(*          tests  : sequence (= declaration order) of                    *)
(*                   [mod, name, out \in {"accept","reject"},             *)
(*                    call : <<>> (none) or the name called as `name()`   *)
(*                           inside the test body,                        *)
(*                    body : the statement form the block computes its    *)
(*                           verdict with (see Bodies)],                  *)
(*          funcs  : sequence of [mod, name, sig \in {"unit","param",     *)
(*                   "ret"}]       fn n() / fn n(x: i32) / fn n() -> i32  *)
(*          broken : "none" | "syntax" | "type"  (an unrelated error),    *)
(*          fnpos  : "first" | "last" | "mixed": functions and helper     *)
(*                   declarations are written before / after / between    *)
(*                   the test blocks of a file.  Nothing below depends on *)
(*                   it: the position of a test block is irrelevant,      *)
(*          disk   : <<>> : the package is one file or an in-memory tree: *)
(*                   every module of `mods` is part of it.  Otherwise the *)
(*                   package is a DIRECTORY read from disk and `disk` is  *)
(*                   the sequence of its entries in the order in which    *)
(*                   they were created (see "packages read from disk"),   *)
(*          brokenAt : disk packages: the module path of the file that    *)
(*                   holds the unrelated error ]                          *)
(*                                                                         *)
(* The body of test i reports mark i, the body of function j mark 100+j.  *)
(*                                                                         *)
(*  cmd = [kind : "api" (Package::run_tests called by a host)             *)
(*                | "check" | "test" | "run"   (roto <kind> <path> [fn]), *)
(*         explicit : an entry name is given on the command line,         *)
(*         mod, fn : that name, written <mod segments>.<fn> : the module  *)
(*                   path relative to the package root (<<>> for a bare   *)
(*                   name) and the function name.  The path designates the *)
(*                   function fn of module pkg.<mod>, as a path does in a  *)
(*                   script of the root module; the path is never         *)
(*                   shortened and no other module is searched]           *)
(*                                                                         *)
(* One action per step of the code: Compile (parse + type check),         *)
(* RunTest(i) (TestCase::run inside run_tests), Finish (the aggregate     *)
(* result / exit status of `test`), CheckDone, RunEntry (get_function +   *)
(* call of `run`).                                                         *)
(***************************************************************************)
EXTENDS Naturals, Sequences, FiniteSets

VARIABLES pkg,        \* the package (never changes during a run)
          cmd,        \* how it is used (never changes during a run)
          phase,      \* "start" | "compiled" | "rejected" | "done"
          pending,    \* indices of tests not yet executed
          log,        \* marks reported so far (order and multiplicity)
          failures,   \* number of executed tests that ended in reject
          verdict,    \* result of run_tests: "none" | "ok" | "err"
          exit,       \* exit status of the CLI: "none" | "success" | "failure"
          entryRuns   \* how often `run` executed the entry function

vars == <<pkg, cmd, phase, pending, log, failures, verdict, exit, entryRuns>>

-----------------------------------------------------------------------------
(* names *)
Dot     == 46
PKG     == <<112, 107, 103>>              \* "pkg"
TESTPFX == <<116, 101, 115, 116, 35>>     \* "test#"
MAIN    == <<109, 97, 105, 110>>          \* "main"
MODSTEM == <<109, 111, 100>>              \* "mod"
NoCall  == <<>>
Root    == <<>>

RECURSIVE JoinPath(_)
JoinPath(p) == IF p = <<>> THEN <<>> ELSE <<Dot>> \o Head(p) \o JoinPath(Tail(p))

ModName(m)    == PKG \o JoinPath(m)                              \* pkg.a.b
TestKey(t)    == ModName(t.mod) \o <<Dot>> \o TESTPFX \o t.name  \* pkg.a.b.test#n
DisplayKey(t) == ModName(t.mod) \o <<Dot>> \o t.name             \* pkg.a.b.n

(* byte-wise lexicographic order (Rust's Ord for String, ASCII only) *)
LexLess(a, b) ==
  \E i \in 1..(Len(a) + 1) :
     /\ i <= Len(b)
     /\ \A j \in 1..(i - 1) : a[j] = b[j]
     /\ (i = Len(a) + 1 \/ a[i] < b[i])

-----------------------------------------------------------------------------
(* packages read from disk                                                  *)
(*                                                                          *)
(* A directory entry is [dir, stem, ext, mod]:                              *)
(*    dir  : the directory it lies in, a sequence of names relative to the  *)
(*           package directory (<<>> = the package directory itself),       *)
(*    stem, ext : "roto" : the file dir/stem.roto                           *)
(*                "txt"  : the file dir/stem.txt (some file that is not a   *)
(*                         Roto file, whatever its text)                    *)
(*                "dir"  : the (possibly empty) directory dir/stem/         *)
(*    mod  : FileMod: the module path under which tests / functions /       *)
(*           errors written into that file are named in pkg.tests,          *)
(*           pkg.funcs, pkg.brokenAt (meaningless for ext = "dir").         *)
(* Directories exist as soon as an entry lies in them.                      *)
(*                                                                          *)
(* Which files make up the package (language reference "Modules", manual    *)
(* "Modules & Imports", with the file name the code uses: mod.roto):        *)
(*   - pkg.roto of the package directory is the root module pkg;            *)
(*   - every other x.roto of a module directory D is the module <D>.x;      *)
(*   - a sub-directory x of a module directory is the module <D>.x if it    *)
(*     holds a mod.roto (that file is the module), and is then a module     *)
(*     directory itself; otherwise the sub-directory and everything below   *)
(*     it is not part of the package;                                       *)
(*   - files that do not end in .roto are not part of the package.          *)
(* The rules speak about the SET of entries: neither the order in which     *)
(* the entries were created nor the order in which the file system lists    *)
(* them, nor the depth or the kind (file / directory) of a module occurs    *)
(* in them.                                                                 *)
IsDiskPkg(p) == p.disk # <<>>
DIdx(p)      == 1..Len(p.disk)

FileMod(e) == IF e.dir = <<>> /\ e.stem = PKG THEN Root
              ELSE IF e.dir # <<>> /\ e.stem = MODSTEM THEN e.dir
              ELSE Append(e.dir, e.stem)

HasEntry(p, d, s, x) ==
  \E k \in DIdx(p) : p.disk[k].dir = d /\ p.disk[k].stem = s /\ p.disk[k].ext = x

DirParent(d) == SubSeq(d, 1, Len(d) - 1)

(* d is a directory whose Roto files are modules of the package *)
RECURSIVE IsModDir(_, _)
IsModDir(p, d) == \/ d = <<>>
                  \/ (HasEntry(p, d, MODSTEM, "roto") /\ IsModDir(p, DirParent(d)))

(* the entry is a source file of the package *)
Loaded(p, e) == /\ e.ext = "roto"
                /\ IsModDir(p, e.dir)
                /\ (e.stem = PKG => e.dir = <<>>)
                /\ (e.stem = MODSTEM => e.dir # <<>>)

HasRoot(p) == IsDiskPkg(p) => HasEntry(p, <<>>, PKG, "roto")

(* module paths that may hold items / the modules that are part of the package *)
FileMods(p) == IF IsDiskPkg(p)
                 THEN {p.disk[k].mod : k \in {k \in DIdx(p) : p.disk[k].ext # "dir"}}
                 ELSE {p.mods[k] : k \in 1..Len(p.mods)}
LiveModsOf(p) == IF IsDiskPkg(p)
                   THEN IF HasRoot(p)
                          THEN {p.disk[k].mod : k \in {k \in DIdx(p) : Loaded(p, p.disk[k])}}
                          ELSE {}
                   ELSE {p.mods[k] : k \in 1..Len(p.mods)}

DiskWellFormed(p) ==
  /\ \A k \in DIdx(p) :
        LET e == p.disk[k] IN
        /\ e.ext \in {"roto", "txt", "dir"}
        /\ e.mod = FileMod(e)
        (* the documentation reserves pkg.roto for the package directory; what a *)
        (* mod.roto there or a pkg.roto elsewhere means is left open: not modelled *)
        /\ (e.stem = PKG => (e.dir = <<>> /\ e.ext = "roto"))
        /\ (e.stem = MODSTEM => (e.dir # <<>> /\ e.ext = "roto"))
        (* no directory is called pkg or mod *)
        /\ \A j \in 1..Len(e.dir) : e.dir[j] # PKG /\ e.dir[j] # MODSTEM
  (* one entry per name, one file per module path (x.roto next to x/mod.roto is *)
  (* an error of its own, name resolution: C13)                                *)
  /\ \A j, k \in DIdx(p) : j < k =>
        /\ <<p.disk[j].dir, p.disk[j].stem, p.disk[j].ext>> # <<p.disk[k].dir, p.disk[k].stem, p.disk[k].ext>>
        /\ (p.disk[j].ext # "dir" /\ p.disk[k].ext # "dir") => p.disk[j].mod # p.disk[k].mod

-----------------------------------------------------------------------------
(* the package: the items of the files that are part of it *)
Tests == pkg.tests
Funcs == pkg.funcs
AllT  == 1..Len(Tests)
AllF  == 1..Len(Funcs)
LiveMods == LiveModsOf(pkg)
(* (without a directory every module of pkg.mods is part of the package, WellFormed) *)
TIdx  == IF IsDiskPkg(pkg) THEN LET L == LiveMods IN {i \in AllT : Tests[i].mod \in L} ELSE AllT
FIdx  == IF IsDiskPkg(pkg) THEN LET L == LiveMods IN {j \in AllF : Funcs[j].mod \in L} ELSE AllF

TestMark(i) == i
FnMark(j)   == 100 + j

(* Statement forms of test bodies.  Every valid form computes a condition  *)
(* that holds in the language semantics and ends in the block's `out` when  *)
(* it holds (in the opposite verdict otherwise), so the outcome of a block  *)
(* is `out` for every valid form.  A string interpolation f"..{e}.." needs  *)
(* a `to_string` method on the type of e (language reference, "String      *)
(* Formatting"): i32, bool and String have one, Option, records and lists  *)
(* do not: a body interpolating such a value is a compile error, wherever  *)
(* the block stands.                                                        *)
ValidBodies   == {"plain", "fstr_i32", "fstr_bool", "fstr_string", "strcmp", "let_if", "match",
                  "helper_call", "list_ops"}
InvalidBodies == {"fstr_option", "fstr_record", "fstr_list"}
Bodies        == ValidBodies \cup InvalidBodies
BodyCompiles(b) == b \in ValidBodies

WellFormed(p) ==
  /\ Len(p.mods) >= 1 /\ p.mods[1] = Root
  /\ p.fnpos \in {"first", "last", "mixed"}
  /\ IsDiskPkg(p) => DiskWellFormed(p)
  /\ (IsDiskPkg(p) /\ p.broken # "none") => p.brokenAt \in FileMods(p)
  /\ \A i \in 1..Len(p.tests) : p.tests[i].body \in Bodies
  /\ \A i \in 1..Len(p.tests) : p.tests[i].mod \in FileMods(p)
  /\ \A j \in 1..Len(p.funcs) : p.funcs[j].mod \in FileMods(p)
  (* functions and child modules share one namespace (name resolution is C13's *)
  (* subject): such packages are outside this model                           *)
  /\ \A j \in 1..Len(p.funcs) : Append(p.funcs[j].mod, p.funcs[j].name) \notin FileMods(p)
  /\ Len(p.tests) < 100

(* A test name must be unique in its module; so must a function name.      *)
(* A test and a function of one module may share a name.                   *)
DupTest == \E i, j \in TIdx : i < j /\ Tests[i].mod = Tests[j].mod /\ Tests[i].name = Tests[j].name
DupFn   == \E i, j \in FIdx : i < j /\ Funcs[i].mod = Funcs[j].mod /\ Funcs[i].name = Funcs[j].name

(* `n()` written in module m refers to the function n of m and to nothing  *)
(* else: a test block is never a candidate.                                *)
FnAt(m, n)     == {j \in FIdx : Funcs[j].mod = m /\ Funcs[j].name = n}
Resolves(m, n) == FnAt(m, n) # {}
Callee(m, n)   == CHOOSE j \in FnAt(m, n) : TRUE

CallOK(i) ==
  \/ Tests[i].call = NoCall
  \/ /\ Resolves(Tests[i].mod, Tests[i].call)
     /\ Funcs[Callee(Tests[i].mod, Tests[i].call)].sig # "param"   \* `n()` passes no argument

(* the unrelated error counts iff the file that holds it is part of the package *)
BrokenLive == /\ pkg.broken # "none"
              /\ IsDiskPkg(pkg) => pkg.brokenAt \in LiveMods

Compiles == /\ HasRoot(pkg)                 \* a package directory holds a pkg.roto
            /\ ~BrokenLive
            /\ ~DupTest
            /\ ~DupFn
            /\ \A i \in TIdx : CallOK(i)
            /\ \A i \in TIdx : BodyCompiles(Tests[i].body)

(* what the body of test i reports: its own mark, then the called function's *)
Marks(i) == IF Tests[i].call = NoCall THEN <<TestMark(i)>>
            ELSE <<TestMark(i), FnMark(Callee(Tests[i].mod, Tests[i].call))>>

(* the next test to run: least full name among those not yet run *)
First(S) == CHOOSE i \in S : \A j \in S \ {i} : LexLess(TestKey(Tests[i]), TestKey(Tests[j]))

RECURSIVE Sorted(_)
Sorted(S) == IF S = {} THEN <<>> ELSE <<First(S)>> \o Sorted(S \ {First(S)})

(* the entry point of `run`: a function of the root module, `main` unless named *)
EntryName == IF cmd.explicit THEN cmd.fn ELSE MAIN
EntryMod  == IF cmd.explicit THEN cmd.mod ELSE Root
EntryOK   == /\ Resolves(EntryMod, EntryName)                      \* no such module => no such function
             /\ Funcs[Callee(EntryMod, EntryName)].sig = "unit"    \* must be fn()
EntryMark == FnMark(Callee(EntryMod, EntryName))

-----------------------------------------------------------------------------
Init(p, c) ==
  /\ pkg = p /\ cmd = c
  /\ phase = "start" /\ pending = {} /\ log = <<>> /\ failures = 0
  /\ verdict = "none" /\ exit = "none" /\ entryRuns = 0

Compile ==
  /\ phase = "start"
  /\ IF Compiles
       THEN /\ phase' = "compiled"
            /\ pending' = IF cmd.kind \in {"api", "test"} THEN TIdx ELSE {}
            /\ UNCHANGED exit
       ELSE /\ phase' = "rejected"
            /\ pending' = {}
            /\ exit' = IF cmd.kind = "api" THEN "none" ELSE "failure"
  /\ UNCHANGED <<pkg, cmd, log, failures, verdict, entryRuns>>

RunTest(i) ==
  /\ phase = "compiled"
  /\ cmd.kind \in {"api", "test"}
  /\ i \in pending
  /\ i = First(pending)
  /\ log' = log \o Marks(i)
  /\ pending' = pending \ {i}
  /\ failures' = failures + (IF Tests[i].out = "reject" THEN 1 ELSE 0)
  /\ UNCHANGED <<pkg, cmd, phase, verdict, exit, entryRuns>>

Finish ==
  /\ phase = "compiled"
  /\ cmd.kind \in {"api", "test"}
  /\ pending = {}
  /\ verdict' = IF failures = 0 THEN "ok" ELSE "err"
  /\ exit' = IF cmd.kind = "test" THEN (IF failures = 0 THEN "success" ELSE "failure") ELSE "none"
  /\ phase' = "done"
  /\ UNCHANGED <<pkg, cmd, pending, log, failures, entryRuns>>

CheckDone ==
  /\ phase = "compiled"
  /\ cmd.kind = "check"
  /\ exit' = "success"
  /\ phase' = "done"
  /\ UNCHANGED <<pkg, cmd, pending, log, failures, verdict, entryRuns>>

RunEntry ==
  /\ phase = "compiled"
  /\ cmd.kind = "run"
  /\ IF EntryOK
       THEN /\ entryRuns' = entryRuns + 1
            /\ log' = Append(log, EntryMark)
            /\ exit' = "success"
       ELSE /\ exit' = "failure"
            /\ UNCHANGED <<entryRuns, log>>
  /\ phase' = "done"
  /\ UNCHANGED <<pkg, cmd, pending, failures, verdict>>

RunSome == \E i \in TIdx : RunTest(i)

Next == Compile \/ RunSome \/ Finish \/ CheckDone \/ RunEntry

-----------------------------------------------------------------------------
(* what the property claims, as invariants of the transition system *)
Ended == phase \in {"done", "rejected"}

Count(s, x) == Cardinality({k \in 1..Len(s) : s[k] = x})

TypeOK ==
  /\ phase \in {"start", "compiled", "rejected", "done"}
  /\ pending \subseteq TIdx
  /\ verdict \in {"none", "ok", "err"}
  /\ exit \in {"none", "success", "failure"}
  /\ entryRuns \in 0..1

(* every test block of every module is executed exactly once ... *)
ExactlyOnce ==
  (phase = "done" /\ cmd.kind \in {"api", "test"}) =>
     \A i \in TIdx : Count(log, TestMark(i)) = 1
(* ... never more than once at any time, and nothing runs if the package is rejected *)
AtMostOnce == /\ \A i \in TIdx : Count(log, TestMark(i)) <= 1
              /\ (phase = "rejected" => log = <<>>)
(* ... and nothing that stands in a file outside the package ever runs *)
OutsideSilent == IsDiskPkg(pkg) =>
                    /\ \A i \in AllT \ TIdx : Count(log, TestMark(i)) = 0
                    /\ \A j \in AllF \ FIdx : Count(log, FnMark(j)) = 0
(* every module file of a package directory counts, wherever it lies: what is *)
(* loaded is exactly what the documented rules say (restated without recursion *)
(* over the entries: every directory on the way down holds a mod.roto)         *)
EveryModuleCounts ==
  (IsDiskPkg(pkg) /\ HasRoot(pkg)) =>
     \A k \in DIdx(pkg) :
        LET e == pkg.disk[k] IN
        (e.ext # "dir") =>
           ((e.mod \in LiveMods) <=>
              /\ e.ext = "roto"
              /\ \A n \in 1..Len(e.dir) : HasEntry(pkg, SubSeq(e.dir, 1, n), MODSTEM, "roto"))

(* ... in the order of the full names, whatever the declaration order *)
TestMarksOf(s) == SelectSeq(s, LAMBDA x : x < 100)
InOrder ==
  LET tm == TestMarksOf(log) IN
  \A a, b \in 1..Len(tm) : a < b => LexLess(TestKey(Tests[tm[a]]), TestKey(Tests[tm[b]]))

(* success is reported iff every block ended in accept *)
VerdictIff ==
  (phase = "done" /\ cmd.kind \in {"api", "test"}) =>
     (verdict = "ok" <=> \A i \in TIdx : Tests[i].out = "accept")

(* a test cannot be called: a package that compiles resolves every call to a function *)
NoCallToTest ==
  (phase \in {"compiled", "done"}) =>
     \A i \in TIdx : Tests[i].call # NoCall => Resolves(Tests[i].mod, Tests[i].call)
(* and a function of the same name does not replace the test *)
NotShadowed ==
  (phase = "done" /\ cmd.kind \in {"api", "test"}) =>
     \A i \in TIdx : Resolves(Tests[i].mod, Tests[i].name) => Count(log, TestMark(i)) = 1

(* a compile error inside a test body rejects the package (no test runs, AtMostOnce) *)
BodyErrorRejected ==
  (phase \in {"compiled", "done"}) => \A i \in TIdx : BodyCompiles(Tests[i].body)

(* `run` executes the designated function and no other *)
RightEntry ==
  (phase = "done" /\ cmd.kind = "run" /\ exit = "success") =>
     /\ log = <<EntryMark>>
     /\ Funcs[Callee(EntryMod, EntryName)].mod = EntryMod
     /\ Funcs[Callee(EntryMod, EntryName)].name = EntryName

(* the CLI table *)
SomeReject == \E i \in TIdx : Tests[i].out = "reject"
ExitTable ==
  (Ended /\ cmd.kind # "api") =>
     /\ exit \in {"success", "failure"}
     /\ exit = "failure" <=>
          \/ ~Compiles
          \/ (cmd.kind = "test" /\ SomeReject)
          \/ (cmd.kind = "run" /\ ~EntryOK)
EntryOnce ==
  /\ cmd.kind # "run" => entryRuns = 0
  /\ (Ended /\ cmd.kind = "run") => entryRuns = (IF exit = "success" THEN 1 ELSE 0)

Inv == TypeOK /\ ExactlyOnce /\ AtMostOnce /\ OutsideSilent /\ EveryModuleCounts /\ InOrder /\ VerdictIff /\ NoCallToTest
       /\ NotShadowed /\ BodyErrorRejected /\ RightEntry /\ ExitTable /\ EntryOnce
=============================================================================
