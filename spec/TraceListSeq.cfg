SPECIFICATION TraceSpec
CONSTANTS
  Handles = {"h1", "h2", "h3"}
  Vals = {0, 1, 2, 3}
  MaxLists = 1000000
  MaxLen = 1000000
  Huge = 1000000
  GetIdx = {}
  SwapIdx = {}
INVARIANT AliasesAgree
POSTCONDITION TraceAccepted
CHECK_DEADLOCK FALSE
