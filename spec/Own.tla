-------------------------------- MODULE Own --------------------------------
(***************************************************************************)
(* Exactly-once release of host values (dynamic side of C03, also used by  *)
(* C11/C12/C15 accounting).  Every instance of a drop-tracked host type     *)
(* has an identity; the host type's constructor, Clone and Drop report      *)
(* create / clone / drop events.  During one call into compiled code:       *)
(*   - an instance is created or cloned at most once (ids are fresh),       *)
(*   - a clone copies from an instance that is alive,                       *)
(*   - a drop releases an instance that is alive (never twice, never one    *)
(*     that was not created),                                               *)
(*   - when the call returns, everything created or cloned during the call  *)
(*     has been dropped, except what was moved into the returned value.     *)
(***************************************************************************)
EXTENDS Naturals, FiniteSets

CONSTANT Ids

VARIABLES live, dead, ended
ovars == <<live, dead, ended>>

OwnInit == live = {} /\ dead = {} /\ ended = FALSE

Create(i)   == ~ended /\ i \notin live \cup dead /\ live' = live \cup {i} /\ UNCHANGED <<dead, ended>>
Clone(s, i) == ~ended /\ s \in live /\ i \notin live \cup dead /\ live' = live \cup {i} /\ UNCHANGED <<dead, ended>>
Drop(i)     == ~ended /\ i \in live /\ live' = live \ {i} /\ dead' = dead \cup {i} /\ UNCHANGED ended
(* the call returns; `ret` are the instances inside the returned value *)
CallEnd(ret) == ~ended /\ live = ret /\ ended' = TRUE /\ UNCHANGED <<live, dead>>

OwnNext == \/ \E i \in Ids : Create(i) \/ Drop(i)
           \/ \E s, i \in Ids : Clone(s, i)
           \/ CallEnd({})

OwnSpec == OwnInit /\ [][OwnNext]_ovars

Disjoint == live \cap dead = {}
NeverResurrected == [][dead \subseteq dead']_ovars
=============================================================================
