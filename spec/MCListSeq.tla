----------------------------- MODULE MCListSeq -----------------------------
(* Model-checking / behaviour-generation wrapper of ListSeq (C15).         *)
(* `hist` records every operation with its arguments, the specified        *)
(* observation and the specified number of live elements, so a finished    *)
(* behaviour can be replayed step by step into roto::List / scripts.       *)
EXTENDS ListSeq, Json, IOUtils

CONSTANTS N,          \* history length to emit
          InitKind    \* which initial configuration

VARIABLE hist

H1 == "h1"  H2 == "h2"  H3 == "h3"

(* initial configurations: empty; two aliases of a short list; a list      *)
(* filled to the growth boundary of 4 (8 for one-byte elements); a list    *)
(* next to an empty list                                                   *)
V0 == CHOOSE v \in Vals : TRUE
V1 == IF Cardinality(Vals) > 1 THEN CHOOSE v \in Vals : v # V0 ELSE V0
InitHeap == CASE InitKind = "empty" -> <<>>
              [] InitKind = "alias" -> << <<V0, V1>> >>
              [] InitKind = "full4" -> << <<V0, V1, V1, V0>>, <<V1>> >>
              [] InitKind = "full8" -> << <<V0, V1, V1, V0, V0, V0, V1, V1>> >>
              [] InitKind = "wempty" -> << <<V0, V1>>, <<>> >>
InitMap  == CASE InitKind = "empty" -> [h \in Handles |-> 0]
              [] InitKind = "alias" -> [h \in Handles |-> IF h = H3 THEN 0 ELSE 1]
              [] InitKind = "full4" -> [h \in Handles |-> IF h = H1 THEN 1 ELSE IF h = H2 THEN 1 ELSE 2]
              [] InitKind = "full8" -> [h \in Handles |-> IF h = H3 THEN 0 ELSE 1]
              [] InitKind = "wempty" -> [h \in Handles |-> IF h = H1 THEN 1 ELSE IF h = H2 THEN 2 ELSE 0]

MCInit == heap = InitHeap /\ hmap = InitMap /\ obs = "init" /\ hist = <<>>

Log(r) == hist' = Append(hist, r @@ [res |-> obs', live |-> Live'])

MCNext ==
  /\ Len(hist) < N
  /\ \/ \E h \in Handles :
          \/ New(h)        /\ Log([op |-> "new", h |-> h])
          \/ LenOp(h)      /\ Log([op |-> "len", h |-> h])
          \/ IsEmpty(h)    /\ Log([op |-> "is_empty", h |-> h])
          \/ Capacity(h)   /\ Log([op |-> "capacity", h |-> h])
          \/ ToVec(h)      /\ Log([op |-> "to_vec", h |-> h])
          \/ Iter(h)       /\ Log([op |-> "iter", h |-> h])
          \/ DropHandle(h) /\ Log([op |-> "drop", h |-> h])
     \/ \E h \in Handles, v \in Vals :
          \/ Push(h, v)     /\ Log([op |-> "push", h |-> h, v |-> v])
          \/ Contains(h, v) /\ Log([op |-> "contains", h |-> h, v |-> v])
          \/ Index(h, v)    /\ Log([op |-> "index", h |-> h, v |-> v])
          \/ FromVec(h, <<v, V0>>) /\ Log([op |-> "from_vec", h |-> h, s |-> <<v, V0>>])
     \/ \E h \in Handles, i \in GetIdx : Get(h, i) /\ Log([op |-> "get", h |-> h, i |-> i])
     \/ \E h \in Handles, i, j \in SwapIdx : Swap(h, i, j) /\ Log([op |-> "swap", h |-> h, i |-> i, j |-> j])
     \/ \E a, b, c \in Handles : Concat(a, b, c) /\ Log([op |-> "concat", a |-> a, b |-> b, c |-> c])
     \/ \E a, b \in Handles :
          \/ Eq(a, b)          /\ Log([op |-> "eq", a |-> a, b |-> b])
          \/ CloneHandle(a, b) /\ Log([op |-> "clone", a |-> a, b |-> b])
     \/ \E h \in Handles, n \in {MaxLen - 1, MaxLen} : IterPush(h, n) /\ Log([op |-> "iter_push", h |-> h, n |-> n])

MCSpec == MCInit /\ [][MCNext]_<<vars, hist>>

Case == [init |-> InitKind, heap0 |-> InitHeap, hmap0 |-> InitMap, ops |-> hist]
Emit == (Len(hist) = N) => PrintT(<<"REPLAY", ToJson(Case)>>)

Inv == TypeOK /\ HandlesValid /\ AliasesAgree
=============================================================================
