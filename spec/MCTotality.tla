----------------------------- MODULE MCTotality -----------------------------
(* Input generation for C06 (Totality): the families of compiler inputs the *)
(* property quantifies over, enumerated completely within the bounds given  *)
(* in the parameter file IOEnv.C06_FAMILIES (one JSON object):              *)
(*                                                                          *)
(*  seq   every sequence of <= maxlen token kinds (ntok kinds: keywords,    *)
(*        literals of every kind, punctuation, stray characters), in a      *)
(*        syntactic context ctx, joined with separator sep:                 *)
(*        plans = <<ctx, sep, maxlen, small>> (small = 1: the reduced set   *)
(*        of token kinds Fam.small)                                         *)
(*  mut   mutants of seed program s (ntok tokens, nchar characters):        *)
(*        delete token i, duplicate token i, swap tokens i and i+1,         *)
(*        replace token i by token kind k, truncate after c characters,     *)
(*        insert abstract symbol y (a Lexer class) before character c       *)
(*  ill   syntactically valid, ill-typed programs: group g, member i        *)
(*  nest  construct k nested to depth d <= MaxDepth                         *)
(*  tree  module trees: route (memory FileSpec / on disk), root present or  *)
(*        not, a subset of the file slots, one content kind for all files   *)
(*                                                                          *)
(* A descriptor is [fam, p] with p a tuple of numbers; lib/checks/c06.py    *)
(* renders it to source text / files (representation mapping only).         *)
(* Each descriptor then runs through the Totality outcome machine with an   *)
(* abstract report (one span drawn from a small set of candidate spans):    *)
(* TLC checks that whatever is rendered was well formed.                    *)
EXTENDS Totality, Json, IOUtils, TLC

Fam == ndJsonDeserialize(IOEnv.C06_FAMILIES)[1]

VARIABLES input, stage
mvars == <<phase, cited, shown, input, stage>>

D(f, p) == [fam |-> f, p |-> p]
Tuples(S, n) == UNION {[1..k -> S] : k \in 0..n}
Elems(s) == {s[i] : i \in 1..Len(s)}

(* all operators take the parameter object F as a value: it is read from the file once *)
SeqPlan(F, pl) == LET dom == IF pl[4] = 1 THEN Elems(F.small) ELSE 1..F.ntok
                      pre == <<pl[1], pl[2]>>
                  IN {D("seq", pre \o t) : t \in Tuples(dom, pl[3])}
MutDel(s, sd)     == {D("mut", <<s, 1, i>>) : i \in 1..sd.ntok}                                \* delete token i
MutDup(s, sd)     == {D("mut", <<s, 2, i>>) : i \in 1..sd.ntok}                                \* duplicate token i
MutSwap(s, sd)    == {D("mut", <<s, 3, i>>) : i \in 1..(sd.ntok - 1)}                          \* swap tokens i, i+1
MutRep(F, s, sd)  == {D("mut", <<s, 4, i, k>>) : i \in Elems(sd.rpos), k \in Elems(F.replace)} \* replace token i by kind k
MutTrunc(s, sd)   == {D("mut", <<s, 5, c>>) : c \in 0..(sd.nchar - 1)}                         \* truncate to c characters
MutIns(F, s, sd)  == {D("mut", <<s, 6, c, y>>) : c \in Elems(sd.ipos), y \in 1..F.nsym}        \* insert symbol y before character c

IllGroup(F, g) == {D("ill", <<g, i>>) : i \in 1..F.ill[g]}

NestInputs(F) == {D("nest", <<k, d>>) : k \in 1..F.nnest, d \in {x \in Elems(F.depths) : x <= MaxDepth}}

TreeInputs(F) == LET subsets == {x \in Tuples(1..F.nslot, F.maxfiles) : \A i \in 1..(Len(x) - 1) : x[i] < x[i + 1]}
                 IN {D("tree", <<r, root, content>> \o m) : r \in 1..2, root \in 0..1, content \in 1..F.ncontent, m \in subsets}

(* x is an input of one of the families (written as a disjunction: the sets are never united) *)
IsInput(F, x) ==
  \/ \E i \in 1..Len(F.plans) : x \in SeqPlan(F, F.plans[i])
  \/ \E s \in 1..Len(F.seeds) : \/ x \in MutDel(s, F.seeds[s])  \/ x \in MutDup(s, F.seeds[s])
                                \/ x \in MutSwap(s, F.seeds[s]) \/ x \in MutRep(F, s, F.seeds[s])
                                \/ x \in MutTrunc(s, F.seeds[s]) \/ x \in MutIns(F, s, F.seeds[s])
  \/ \E g \in 1..Len(F.ill) : x \in IllGroup(F, g)
  \/ x \in NestInputs(F)
  \/ x \in TreeInputs(F)

(* candidate spans of an abstract report over a file of 3 bytes "a" + 2-byte character *)
Cand == {[file |-> 0, len |-> 3, start |-> s, end |-> e, ok |-> (s \in {0, 1, 3} /\ e \in {0, 1, 3})] : s \in 0..4, e \in 0..4}

MCInit == Init /\ stage = "new" /\ IsInput(Fam, input)

Blank == D("", <<>>)    \* the outcome machine does not depend on which input it was: forget it after the first step

MCNext ==
  \/ stage = "new" /\ CompileOk /\ stage' = "done" /\ input' = Blank
  \/ stage = "new" /\ (\E sp \in Cand : CompileReport(<<sp>>)) /\ stage' = "report" /\ input' = Blank
  \/ stage = "report" /\ (\E c \in BOOLEAN : Render(c, 1, 1)) /\ stage' = (IF phase' = "idle" THEN "done" ELSE "report")
       /\ UNCHANGED input

MCSpec == MCInit /\ [][MCNext]_mvars

Emit == (stage = "new") => PrintT(<<"REPLAY", ToJson(input)>>)
Inv == TypeOK /\ CitedWellFormed
=============================================================================
