----------------------------- MODULE MCTotality -----------------------------
(* Input generation for C06 (Totality): the families of compiler inputs the *)
(* property quantifies over, enumerated completely within the bounds given  *)
(* in the parameter file IOEnv.C06_FAMILIES (one JSON object):              *)
(*                                                                          *)
(*  seq   every sequence of <= maxlen token kinds (ntok kinds: keywords,    *)
(*        literals of every kind, punctuation, stray characters), in a      *)
(*        syntactic context ctx, joined with separator sep:                 *)
(*        plans = <<ctx, sep, maxlen, small>> (small = 1: the reduced set   *)
(*        of token kinds Fam.small)                                         *)
(*  mut   mutants of seed program s (ntok tokens, nchar characters):        *)
(*        delete token i, duplicate token i, swap tokens i and i+1,         *)
(*        replace token i by token kind k, truncate after c characters,     *)
(*        insert abstract symbol y (a Lexer class) before character c       *)
(*  ill   syntactically valid, ill-typed programs: group g, member i        *)
(*  nest  construct k nested to depth d <= MaxDepth                         *)
(*  lit   string / f-string literals whose body mixes plain text, multi-   *)
(*        byte characters, valid and invalid escapes, doubled curlies and   *)
(*        interpolations in every order (<= litlen ingredients)             *)
(*  inf   programs whose types would have to be infinite                    *)
(*  tree  module trees: route (memory FileSpec / on disk), root present or  *)
(*        not, a subset of the file slots, one content kind for all files   *)
(*  imp   every sequence of <= implen import statements (nimp statements:   *)
(*        items, modules, lists, through aliases of the other statements,   *)
(*        missing targets, statements that wait for each other in a cycle)  *)
(*        written at place pl (module level of pkg / of a sub-module /      *)
(*        inside a function body) of a fixed package                        *)
(*  tpath a type written as a path over the declared names of a small       *)
(*        package (generic record / enum and their type parameters, plain   *)
(*        record / enum, fields, variants, a function, a constant, a        *)
(*        module and its types, an imported type, built-in types, pkg,      *)
(*        super, an undeclared name): every path of <= tplen segments, with *)
(*        type arguments / `?` in form a (none, after the last segment,     *)
(*        after the first segment, ...), at every place pl where the        *)
(*        grammar has a type (let annotation, parameter, return type,       *)
(*        record field, enum payload, type argument, constant type, field   *)
(*        of a generic declaration, anonymous record field, filtermap       *)
(*        parameter)                                                        *)
(*  graph wide and deep reference graphs inside the supported program size: *)
(*        d layers of w items, every item of layer i refers to every item   *)
(*        of layer i + 1 (w^d paths through w * d <= gmaxitems one-line     *)
(*        items, no nesting, no recursion); shape s says what the items are *)
(*        (functions below a constant / below a function, constants,        *)
(*        functions above a constant, record types, instantiations of a     *)
(*        generic record)                                                   *)
(*                                                                          *)
(* A descriptor is [fam, p] with p a tuple of numbers; lib/checks/c06.py    *)
(* renders it to source text / files (representation mapping only).         *)
(* Each descriptor then runs through the Totality outcome machine with an   *)
(* abstract report (one span drawn from a small set of candidate spans):    *)
(* TLC checks that whatever is rendered was well formed.                    *)
EXTENDS Totality, Json, IOUtils, TLC

Fam == ndJsonDeserialize(IOEnv.C06_FAMILIES)[1]

VARIABLES input, stage
mvars == <<phase, cited, shown, input, stage>>

(* must = "report": the input is erroneous by construction; at = <<s, e>>: byte range of the    *)
(* erroneous text relative to the start of the generated literal (<<>>: not known)              *)
DX(f, p, must, at) == [fam |-> f, p |-> p, must |-> must, at |-> at]
D(f, p) == DX(f, p, "any", <<>>)
Tuples(S, n) == UNION {[1..k -> S] : k \in 0..n}
Elems(s) == {s[i] : i \in 1..Len(s)}

(* all operators take the parameter object F as a value: it is read from the file once *)
SeqPlan(F, pl) == LET dom == IF pl[4] = 1 THEN Elems(F.small) ELSE 1..F.ntok
                      pre == <<pl[1], pl[2]>>
                  IN {D("seq", pre \o t) : t \in Tuples(dom, pl[3])}
MutDel(s, sd)     == {D("mut", <<s, 1, i>>) : i \in 1..sd.ntok}                                \* delete token i
MutDup(s, sd)     == {D("mut", <<s, 2, i>>) : i \in 1..sd.ntok}                                \* duplicate token i
MutSwap(s, sd)    == {D("mut", <<s, 3, i>>) : i \in 1..(sd.ntok - 1)}                          \* swap tokens i, i+1
MutRep(F, s, sd)  == {D("mut", <<s, 4, i, k>>) : i \in Elems(sd.rpos), k \in Elems(F.replace)} \* replace token i by kind k
MutTrunc(s, sd)   == {D("mut", <<s, 5, c>>) : c \in 0..(sd.nchar - 1)}                         \* truncate to c characters
MutIns(F, s, sd)  == {D("mut", <<s, 6, c, y>>) : c \in Elems(sd.ipos), y \in 1..F.nsym}        \* insert symbol y before character c

IllGroup(F, g) == {D("ill", <<g, i>>) : i \in 1..F.ill[g]}

NestInputs(F) == {D("nest", <<k, d>>) : k \in 1..F.nnest, d \in {x \in Elems(F.depths) : x <= MaxDepth}}

TreeInputs(F) == LET subsets == {x \in Tuples(1..F.nslot, F.maxfiles) : \A i \in 1..(Len(x) - 1) : x[i] < x[i + 1]}
                 IN {D("tree", <<r, root, content>> \o m) : r \in 1..2, root \in 0..1, content \in 1..F.ncontent, m \in subsets}

(* lit: a string (kind 1) or f-string (kind 2) literal whose body is a sequence of <= litlen       *)
(* ingredients (F.ing[i] = [w |-> byte width, cls |-> "plain" | "valid" (escape) | "bad" (invalid  *)
(* escape, self-contained) | "open" (invalid escape whose extent depends on what follows) |       *)
(* "curly" ({{ or }}) | "interp" ({x})]), terminated or not, after source prefix pre.  If the      *)
(* literal is terminated and its first invalid escape is self-contained, compiling must report    *)
(* exactly that escape: from its backslash (opening quote + widths of the ingredients before it)  *)
(* to its end.                                                                                    *)
Invalid(F, i) == F.ing[i].cls \in {"bad", "open"}
FirstInvalid(F, t) == IF \E k \in 1..Len(t) : Invalid(F, t[k])
                      THEN CHOOSE k \in 1..Len(t) : Invalid(F, t[k]) /\ \A j \in 1..(k - 1) : ~Invalid(F, t[j])
                      ELSE 0
RECURSIVE SumW(_, _, _)
SumW(F, t, k) == IF k = 0 THEN 0 ELSE SumW(F, t, k - 1) + F.ing[t[k]].w
LitInput(F, kind, term, pre, t) ==
  LET k == FirstInvalid(F, t)
      exact == term = 1 /\ k > 0 /\ F.ing[t[k]].cls = "bad"
      off == (IF kind = 1 THEN 1 ELSE 2) + SumW(F, t, k - 1)
  IN DX("lit", <<kind, term, pre>> \o t, IF exact THEN "report" ELSE "any",
        IF exact THEN <<off, off + F.ing[t[k]].w>> ELSE <<>>)
LitInputs(F) == {LitInput(F, kind, term, pre, t) : kind \in 1..2, term \in 0..1, pre \in 1..F.nlitpre,
                                                  t \in Tuples(1..Len(F.ing), F.litlen)}

(* inf: "infinite type" programs: a variable v whose element type is an inference variable        *)
(* (1: `[]`, 2: `Option.None`) is unified, directly (st = 1) or through a let (st = 2), with a     *)
(* term that contains v under the wrappers w (outermost first, <= infdepth of: list literal,       *)
(* anonymous record, named record, Option.Some, enum constructor).  No finite type solves T =      *)
(* W[..T..]: compiling must end in a report.                                                       *)
InfInputs(F) == {DX("inf", <<v, st>> \o w, "report", <<>>) : v \in 1..F.ninfvar, st \in 1..2,
                                                           w \in Tuples(1..F.nwrap, F.infdepth)}

ImpInputs(F) == {D("imp", <<pl>> \o t) : pl \in 1..F.nimpplace, t \in Tuples(1..F.nimp, F.implen) \ {<<>>}}

(* tpath: p = <<pl, a>> \o t, t a non-empty tuple of <= tplen name indices (ntpname declared names). *)
(* The argument forms a <= tpargfull are combined with every path; the others, and (tplenfull <       *)
(* tplen) the longest paths, only with the paths F.tpfocus allows: a form > tpargfull needs a first   *)
(* segment in tpgeneric (the names whose type takes arguments), a path longer than tplenfull needs    *)
(* the plain form and a first segment in tphead (the names that have members: pkg, super, a module,   *)
(* generic and plain types, a type parameter).  No expectation beyond the outcome machine: package or report.                     *)
TPathOk(F, a, u) == /\ (a > F.tpargfull => u[1] \in Elems(F.tpgeneric))
                    /\ (Len(u) > F.tplenfull => a = 1 /\ u[1] \in Elems(F.tphead))
TPathInputs(F) ==
  UNION {{D("tpath", <<pl, a>> \o t) : pl \in 1..F.ntplace,
                                        t \in {u \in Tuples(1..F.ntpname, F.tplen) \ {<<>>} : TPathOk(F, a, u)}}
         : a \in 1..F.ntparg}

(* graph: p = <<s, w, d>>: shape s \in 1..ngshape, w <= gshapew[s] items per layer (gshapew[s]: the   *)
(* widest layer of shape s), d \in gdepths layers, w * d <= gmaxitems and d <= MaxDepth (the chain of  *)
(* references is as long as the graph is deep).  Compile time must stay bounded: the only outcomes    *)
(* are those of the outcome machine (a run that does not end is not a behaviour).                     *)
GraphInputs(F) ==
  {D("graph", <<s, w, d>>) : s \in 1..F.ngshape,
                             w \in {y \in 1..F.gwidth : \E z \in 1..F.ngshape : y <= F.gshapew[z]},
                             d \in {x \in Elems(F.gdepths) : x <= MaxDepth}}
GraphOk(F, x) == x.p[2] <= F.gshapew[x.p[1]] /\ x.p[2] * x.p[3] <= F.gmaxitems

(* x is an input of one of the families (written as a disjunction: the sets are never united) *)
IsInput(F, x) ==
  \/ \E i \in 1..Len(F.plans) : x \in SeqPlan(F, F.plans[i])
  \/ \E s \in 1..Len(F.seeds) : \/ x \in MutDel(s, F.seeds[s])  \/ x \in MutDup(s, F.seeds[s])
                                \/ x \in MutSwap(s, F.seeds[s]) \/ x \in MutRep(F, s, F.seeds[s])
                                \/ x \in MutTrunc(s, F.seeds[s]) \/ x \in MutIns(F, s, F.seeds[s])
  \/ \E g \in 1..Len(F.ill) : x \in IllGroup(F, g)
  \/ x \in NestInputs(F)
  \/ x \in TreeInputs(F)
  \* F.litfull = 0 (quick): unterminated literals only with <= 2 ingredients after the first prefix,
  \* plain strings only after the first prefix
  \/ x \in {y \in LitInputs(F) : F.litfull = 1 \/ (IF y.p[2] = 0 THEN y.p[3] = 1 /\ Len(y.p) <= 5
                                                     ELSE y.p[3] = 1 \/ y.p[1] = 2)}
  \/ x \in InfInputs(F)
  \/ x \in ImpInputs(F)
  \/ x \in TPathInputs(F)
  \/ x \in {y \in GraphInputs(F) : GraphOk(F, y)}

(* candidate spans of an abstract report over a file of 3 bytes "a" + 2-byte character *)
Cand == {[file |-> 0, len |-> 3, start |-> s, end |-> e, ok |-> (s \in {0, 1, 3} /\ e \in {0, 1, 3})] : s \in 0..4, e \in 0..4}

MCInit == Init /\ stage = "new" /\ IsInput(Fam, input)

CandFor(x) == IF x.at = <<>> THEN Cand
              ELSE {[file |-> 0, len |-> x.at[2], start |-> x.at[1], end |-> x.at[2], ok |-> TRUE]}

Blank == D("", <<>>)    \* the outcome machine does not depend on which input it was: forget it after the first step

MCNext ==
  \/ stage = "new" /\ CompileOk(input.must) /\ stage' = "done" /\ input' = Blank
  \/ stage = "new" /\ (\E sp \in CandFor(input) : CompileReport(<<sp>>, input.at)) /\ stage' = "report" /\ input' = Blank
  \/ stage = "report" /\ (\E c \in BOOLEAN : Render(c, 1, 1)) /\ stage' = (IF phase' = "idle" THEN "done" ELSE "report")
       /\ UNCHANGED input

MCSpec == MCInit /\ [][MCNext]_mvars

Emit == (stage = "new") => PrintT(<<"REPLAY", ToJson(input)>>)
Inv == TypeOK /\ CitedWellFormed
=============================================================================
