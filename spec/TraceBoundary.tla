---------------------------- MODULE TraceBoundary ----------------------------
(* I->S binding of Boundary (C05).  Every line of the trace is one transfer   *)
(* that really happened in the harness, with values drawn by the harness's    *)
(* own seeded generator (beyond the value classes TLC enumerates):            *)
(*   [route, vec |-> the types that travelled, vals |-> the values sent (as   *)
(*    the harness made them), pos, k, obs |-> what the receiving side showed   *)
(*    at every observable hop]                                                 *)
(* The event is a step of this specification iff it is a behaviour of          *)
(* Boundary: the observations are those of a run of Transfer steps over the    *)
(* route, and they are what was sent (received = sent).                        *)
EXTENDS Boundary, Json, IOUtils, TLCExt

Rec == ndJsonDeserialize(IOEnv.TRACE)

VARIABLE l

Ev == Rec[l]

TraceInit == l = 1 /\ cfg = [route |-> "none"] /\ hop = 0 /\ cur = <<>> /\ obs = <<>>

Transferred ==
  /\ l <= Len(Rec)
  /\ Ev.route \in Routes
  /\ LET c == [route |-> Ev.route, vec |-> Ev.vec, vals |-> Ev.vals, pos |-> Ev.pos, k |-> Ev.k] IN
       /\ Len(c.vec) = Len(c.vals) /\ c.pos \in 1..Len(c.vec)
       /\ FinalObs(c) = ExpectedObs(c)          \* the run of Transfer steps delivers what was sent
       /\ Ev.obs = ExpectedObs(c)               \* and that is what the implementation showed
       /\ cfg' = c /\ hop' = Len(Hops(c)) /\ obs' = Ev.obs /\ cur' = <<>>
  /\ l' = l + 1

TraceNext == Transferred
TraceSpec == TraceInit /\ [][TraceNext]_<<l, bvars>>

TraceAccepted ==
  LET d == TLCGet("stats").diameter IN
  IF d - 1 = Len(Rec) THEN TRUE
  ELSE /\ PrintT(<<"UNMATCHED", ToJson([line |-> d, ev |-> Rec[d]])>>)
       /\ FALSE
=============================================================================
