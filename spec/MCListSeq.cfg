SPECIFICATION MCSpec
CONSTANTS
  Handles = {"h1", "h2", "h3"}
  Vals = {0, 1}
  MaxLists = 6
  MaxLen = 4
  Huge = 1000000
  GetIdx = {0, 1, 4, 1000000}
  SwapIdx = {0, 1, 1000000}
  N = 2
  InitKind = "alias"
INVARIANTS Inv Emit
PROPERTY OnlyMutatorsChange
CHECK_DEADLOCK FALSE
