-------------------------- MODULE TraceTestRunner --------------------------
(* I->S binding for C19: what was observed when the real crate compiled and *)
(* ran the tests of seeded random packages (Package::run_tests from a host, *)
(* or the roto binary) must be a behaviour of TestRunner.                   *)
(*                                                                          *)
(* events (one ndjson line each):                                           *)
(*   Load     pkg, cmd         a new run starts (abstract package as in     *)
(*                             TestRunner, rendered to source by python;    *)
(*                             pkg.disk # <<>>: written to a directory in   *)
(*                             that order and read back by FileTree::read / *)
(*                             the CLI: only the files that the documented  *)
(*                             rules make part of the package count)        *)
(*   Compile  ok               api: FileTree::compile returned Ok / Err     *)
(*   Internal                  cli: the compile step is not observable alone *)
(*   RunTest  marks            the marks reported from one test body on     *)
(*                             (the log is cut in front of every test mark) *)
(*   Finish   verdict          api: run_tests returned Ok ("ok") / Err      *)
(*   Exit     status, marks    cli: exit status class; marks seen on stdout *)
(*                             (check / run; for test they are RunTest events) *)
EXTENDS TestRunner, Json, IOUtils, TLCExt, TLC

Rec == ndJsonDeserialize(IOEnv.TRACE)

VARIABLE l
tvars == <<pkg, cmd, phase, pending, log, failures, verdict, exit, entryRuns, l>>

Ev == Rec[l]
IsEv(name) == l <= Len(Rec) /\ Ev.op = name /\ l' = l + 1

EmptyPkg == [mods |-> <<Root>>, tests |-> <<>>, funcs |-> <<>>, broken |-> "none", fnpos |-> "mixed",
             disk |-> <<>>, brokenAt |-> Root]
ApiCmd   == [kind |-> "api", explicit |-> FALSE, mod |-> Root, fn |-> MAIN]

TraceInit == l = 1 /\ Init(EmptyPkg, ApiCmd)

TLoad ==
  /\ IsEv("Load")
  /\ WellFormed(Ev.pkg)
  /\ pkg' = Ev.pkg /\ cmd' = Ev.cmd
  /\ phase' = "start" /\ pending' = {} /\ log' = <<>> /\ failures' = 0
  /\ verdict' = "none" /\ exit' = "none" /\ entryRuns' = 0

TCompile  == IsEv("Compile") /\ cmd.kind = "api" /\ Compile /\ (Ev.ok <=> phase' = "compiled")
TInternal == IsEv("Internal") /\ cmd.kind # "api" /\ Compile
TRunTest  == IsEv("RunTest") /\ \E i \in pending : RunTest(i) /\ Marks(i) = Ev.marks
TFinish   == IsEv("Finish") /\ cmd.kind = "api" /\ Finish /\ verdict' = Ev.verdict
TExit ==
  /\ IsEv("Exit")
  /\ cmd.kind # "api"
  /\ \/ phase = "rejected" /\ exit = Ev.status /\ Ev.marks = <<>> /\ UNCHANGED vars
     \/ Finish    /\ exit' = Ev.status /\ Ev.marks = <<>>
     \/ CheckDone /\ exit' = Ev.status /\ Ev.marks = <<>>
     \/ RunEntry  /\ exit' = Ev.status /\ log' = Ev.marks

TraceNext == TLoad \/ TCompile \/ TInternal \/ TRunTest \/ TFinish \/ TExit

TraceSpec == TraceInit /\ [][TraceNext]_tvars

(* accepted iff every recorded event was matched by a TestRunner step *)
TraceAccepted ==
  LET d == TLCGet("stats").diameter IN
  IF d - 1 = Len(Rec) THEN TRUE
  ELSE /\ PrintT(<<"UNMATCHED", ToJson([line |-> d, ev |-> Rec[d]])>>)
       /\ FALSE
=============================================================================
