------------------------------- MODULE MCPrec -------------------------------
(* Case generation for the operator part of C09: every operator string up   *)
(* to length N (exhaustive) or seeded random strings (-simulate), each with *)
(* what Prec says about it: Reject, or the tree, its fully parenthesised    *)
(* token sequence, the operand types that make it well typed and its value  *)
(* for every operand value set of VS.                                       *)
EXTENDS Prec, Json, IOUtils

CONSTANTS N,        \* maximal length of the operator string (Mode "postfix": of the suffix sequence)
          MinEmit,  \* emit only strings of at least this length
          Mode,     \* "ops": operator strings; "postfix": prefix x atom x suffixes x context;
                    \* "block": blocks in expression position
          Big       \* TRUE: larger menus (thorough tier)

VARIABLE w

(* operand value sets: distinct primes with mixed signs (never zero) *)
VS == << <<2, 3, 5, 7, 11, 13, 17, 19, 23>>,
         <<0 - 3, 5, 0 - 7, 2, 0 - 11, 13, 0 - 2, 17, 0 - 5>>,
         <<7, 0 - 2, 3, 0 - 5, 2, 0 - 3, 11, 0 - 13, 19>>,
         <<0 - 5, 0 - 7, 2, 3, 0 - 13, 0 - 2, 5, 11, 0 - 3>> >>

Pres == {<<>>, <<"neg">>, <<"not">>, <<"neg", "neg">>, <<"not", "not">>, <<"neg", "not">>, <<"not", "neg">>}
PostfixCases ==
  {[pre |-> p, atom |-> a, post |-> q, ctx |-> c] :
     p \in Pres, a \in Atoms, q \in UNION {[1..k -> Suffixes] : k \in 0..N},
     c \in IF Big THEN Contexts ELSE {"none", "sub_r", "mul_r", "and_r"}}
BlockCases ==
  {[pos |-> p, kind |-> k, wrap |-> n] : p \in BlockPositions, k \in BlockKinds, n \in IF Big THEN 0..3 ELSE 0..1}

MCInit == CASE Mode = "ops" -> w = <<>>
            [] Mode = "postfix" -> w \in PostfixCases
            [] Mode = "block" -> w \in BlockCases
MCNext == Mode = "ops" /\ Len(w) < N /\ \E s \in OpSyms : w' = Append(w, s)
MCSpec == MCInit /\ [][MCNext]_w

Out(x) ==
  LET t == Parse(x)
      n == NumOperands(x)
      base == [w |-> x, flat |-> Flat(x), n |-> n]
  IN IF t.k = "reject" THEN base @@ [parse |-> "reject"]
     ELSE LET ty == TypeOf(t)
              b2 == base @@ [parse |-> "tree", tree |-> t, paren |-> Paren(t), ty |-> ty]
          IN IF ty = "none" THEN b2
             ELSE LET lt == LeafTypes(t, n)
                  IN b2 @@ [lt |-> lt, vals |-> [s \in 1..Len(VS) |-> Result(t, lt, VS[s])]]

(* the operand value sets are printed once (with the empty string) *)
ValueSets == [vs |-> [s \in 1..Len(VS) |-> [j \in 1..9 |-> [neg |-> VS[s][j] < 0, abs |-> Abs(VS[s][j])]]]]

Emit ==
  CASE Mode = "ops" -> IF w = <<>> THEN PrintT(<<"REPLAY", ToJson(ValueSets)>>)
                       ELSE Len(w) >= MinEmit => PrintT(<<"REPLAY", ToJson(Out(w))>>)
    [] Mode = "postfix" -> PrintT(<<"REPLAY", ToJson([px |-> w, exp |-> PxExpected(w), alt |-> TVResult(PxAlt(w)),
                                                           oty |-> PxCore(w).ty, aoty |-> PxAltCore(w).ty])>>)
    [] Mode = "block" -> PrintT(<<"REPLAY", ToJson([bx |-> w, exp |-> BlockExpected(w)])>>)
=============================================================================
