SPECIFICATION MCSpec
CONSTANTS
  N = 2
  MinEmit = 1
INVARIANT Emit
CHECK_DEADLOCK FALSE
