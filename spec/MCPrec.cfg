SPECIFICATION MCSpec
CONSTANTS
  N = 2
  MinEmit = 1
  Mode = "ops"
  Big = FALSE
INVARIANT Emit
CHECK_DEADLOCK FALSE
