SPECIFICATION TraceSpec
CONSTANT Ids = {}
POSTCONDITION TraceAccepted
CHECK_DEADLOCK FALSE
