SPECIFICATION TraceSpec
CONSTANTS
  CodeArith = FALSE
  CodeErrTok = FALSE
  WithShebang = FALSE
INVARIANT Inv
POSTCONDITION TraceAccepted
CHECK_DEADLOCK FALSE
