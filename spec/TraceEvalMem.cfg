SPECIFICATION TraceSpec
INVARIANTS Inv Summary
POSTCONDITION TraceAccepted
CHECK_DEADLOCK FALSE
