SPECIFICATION TraceSpec
CONSTANTS
  Versions = {1, 2}
  Handles = {1, 2, 3, 4, 5, 6}
  Closures = {1, 2, 3, 4}
  MaxMods = 1000000
  MaxGens = 1000000
INVARIANT TraceInv
POSTCONDITION TraceAccepted
CHECK_DEADLOCK FALSE
