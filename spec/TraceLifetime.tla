---------------------------- MODULE TraceLifetime ----------------------------
(* I->S binding for C11: a history executed on real roto objects (one      *)
(* ndjson event per action, logged after the call returned, with the       *)
(* measured live-instance counters and, for calls, the decoded result)     *)
(* must be a behaviour of Lifetime: every event is bound to the Lifetime   *)
(* action of the same name with the logged arguments, and the counters /   *)
(* result the specification prescribes for the successor state must equal  *)
(* the logged ones.  "reset" starts a new run in the same file.            *)
EXTENDS Lifetime, Json, IOUtils, TLCExt

Rec == ndJsonDeserialize(IOEnv.TRACE)

VARIABLE l
tvars == <<rt, gens, mods, hnd, clo, obs, l>>

Ev == Rec[l]
IsEv(name) == l <= Len(Rec) /\ Ev.op = name /\ l' = l + 1
Has(f) == f \in DOMAIN Ev
LiveOk == Has("live") /\ LiveVec' = Ev.live
ResOk  == Has("res") /\ ResVec(obs') = Ev.res

TraceInit == Init /\ l = 1

TraceNext ==
  \/ IsEv("reset") /\ rt' = 0 /\ gens' = <<>> /\ mods' = <<>>
                   /\ hnd' = [h \in Handles |-> 0] /\ clo' = [c \in Closures |-> 0]
                   /\ obs' = NoRes
  \/ IsEv("build") /\ Ev.g = Len(gens) + 1 /\ BuildRuntime /\ LiveOk
  \/ IsEv("compile") /\ Ev.m = Len(mods) + 1 /\ Compile(Ev.v) /\ LiveOk
  \/ IsEv("get") /\ GetHandle(Ev.m, Ev.h) /\ LiveOk
  \/ IsEv("clone") /\ CloneHandle(Ev.a, Ev.b) /\ LiveOk
  \/ IsEv("call") /\ Call(Ev.h) /\ LiveOk /\ ResOk
  \/ IsEv("drop_handle") /\ DropHandle(Ev.h) /\ LiveOk
  \/ IsEv("drop_pkg") /\ DropPkg(Ev.m) /\ LiveOk
  \/ IsEv("drop_rt") /\ DropRuntime /\ LiveOk
  \/ IsEv("add_const") /\ AddConst /\ LiveOk
  \/ IsEv("move") /\ MoveToThread(Ev.h) /\ LiveOk /\ ResOk
  \/ IsEv("into_func") /\ IntoFunc(Ev.h, Ev.c) /\ LiveOk
  \/ IsEv("call_closure") /\ CallClosure(Ev.c) /\ LiveOk /\ ResOk
  \/ IsEv("drop_closure") /\ DropClosure(Ev.c) /\ LiveOk

TraceSpec == TraceInit /\ [][TraceNext]_tvars

TraceInv == RefCountsExact /\ FreedIffUnheld /\ CallValid

(* accepted iff every recorded event was matched by a Lifetime step *)
TraceAccepted ==
  LET d == TLCGet("stats").diameter IN
  IF d - 1 = Len(Rec) THEN TRUE
  ELSE /\ PrintT(<<"UNMATCHED", ToJson([line |-> d, ev |-> Rec[d]])>>)
       /\ FALSE
=============================================================================
