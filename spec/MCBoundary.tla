----------------------------- MODULE MCBoundary -----------------------------
(* The configuration space of the boundary (C05), enumerated by TLC.         *)
(* States: root -> one block per residue class -> for every configuration of *)
(* the block the behaviour Begin, Transfer, .., Transfer of Boundary.  TLC    *)
(* checks for every reachable state that what is in flight is what was sent,  *)
(* for every type met that the layout rule is sound (Layout!LayoutOK, and the *)
(* memory image of every value sent decodes to that value), and at the end of *)
(* a behaviour emits the configuration with the observations the receiving    *)
(* side must show (REPLAY).  The universe of types / argument vectors /       *)
(* context structs is printed once (UNIVERSE): tools/gen_c05_types.py turns   *)
(* it into the compiled-in table of the harness.                              *)
EXTENDS Boundary, Json, IOUtils, SequencesExt

CONSTANTS Part,   \* "types" | "pick" | "hpick" | "ctx" | "layout"
          Depth   \* 1 (quick) | 2 (thorough)

(* ---- the type grammar ---------------------------------------------------- *)
LeafT == {Leaf(l) : l \in Leaves}
(* the other side of a binary constructor: one representative per size / alignment / drop class *)
Reps  == {Leaf(l) : l \in {"u8", "u16", "u32", "u64", "()", "Z0", "T24"}}
Pairs == (LeafT \X Reps) \cup (Reps \X LeafT)
D1 == LeafT \cup {Opt(t) : t \in LeafT} \cup {Lst(t) : t \in LeafT}
        \cup {Res(p[1], p[2]) : p \in Pairs} \cup {Ver(p[1], p[2]) : p \in Pairs}
(* depth 2, restricted: over two leaves, a binary constructor has at most one non-leaf argument *)
Deep0 == {Leaf("u8"), Leaf("T24")}
Deep1 == Deep0 \cup {Opt(t) : t \in Deep0} \cup {Lst(t) : t \in Deep0}
           \cup {Res(a, b) : a \in Deep0, b \in Deep0} \cup {Ver(a, b) : a \in Deep0, b \in Deep0}
DeepMixed == (Deep1 \X Deep0) \cup (Deep0 \X Deep1)
D2 == {Opt(t) : t \in Deep1} \cup {Lst(t) : t \in Deep1}
        \cup {Res(p[1], p[2]) : p \in DeepMixed} \cup {Ver(p[1], p[2]) : p \in DeepMixed}
(* hand-picked nestings of zero-sized, 16-aligned and shared payloads *)
Extra == { Opt(Opt(Leaf("()"))), Opt(Opt(Leaf("Z0"))), Lst(Lst(Leaf("String"))), Opt(Res(Leaf("u64"), Leaf("Prefix"))),
           Res(Opt(Leaf("Prefix")), Lst(Leaf("Z0"))), Ver(Lst(Leaf("String")), Opt(Leaf("f64"))),
           Lst(Opt(Leaf("IpAddr"))), Opt(Ver(Leaf("()"), Leaf("()"))) }
(* element strides: a list stores its elements at multiples of the element size, and the side that  *)
(* creates the list fixes that size.  The size of an enum is decided by the final rounding of the    *)
(* union exactly when its largest variant is not the most aligned one (NeedsRounding); the only      *)
(* leaf that makes such a variant is IpAddr (17 bytes, align 1).  Restriction: IpAddr paired with    *)
(* one leaf per larger alignment / drop class, in both orders (the other order is the control), and  *)
(* Option[IpAddr]; each as the element type of a list.                                               *)
NeedsRounding(e) ==
  LET ss == [i \in 1..2 |-> TaggedStruct([j \in 1..Len(Variants(e)[i]) |-> CLayout(Variants(e)[i][j])])]
  IN MaxN(ss[1].size, ss[2].size) % MaxN(ss[1].align, ss[2].align) # 0
IpA == Leaf("IpAddr")
StrideMates == {Leaf(l) : l \in {"u32", "u64", "String", "T24"}}
StrideElems == {Opt(IpA)} \cup {Res(IpA, m) : m \in StrideMates} \cup {Res(m, IpA) : m \in StrideMates}
                 \cup {Ver(IpA, m) : m \in StrideMates} \cup {Ver(m, IpA) : m \in StrideMates}
StrideTypes == StrideElems \cup {Lst(e) : e \in StrideElems}
ASSUME \E e \in StrideElems : NeedsRounding(e)
ASSUME \A e \in D1 : IsEnum(e) /\ NeedsRounding(e) => e \in StrideElems
(* construction routes: a list made on the Rust side stores its elements in their Roto representation. *)
(* Element types: every Option whose Rust type and mirror have the same size and alignment but a       *)
(* different encoding (Layout!SameShape), and as controls an Option with a niche (different size), an   *)
(* element that is its own mirror, Results (same size, the encodings happen to coincide) and a Verdict  *)
ConstructElems == {Opt(Leaf(l)) : l \in NoNiche}
                    \cup {Opt(Leaf("String")), Opt(Leaf("bool")), Leaf("u32"), Res(Leaf("u32"), Leaf("u32")),
                          Res(Leaf("u64"), Leaf("u8")), Ver(Leaf("u32"), Leaf("u64"))}
ConstructTypes == {Lst(e) : e \in ConstructElems}
ASSUME \E e \in ConstructElems : SameShape(e)
ASSUME \A e \in D1 : SameShape(e) => e \in ConstructElems
TableTypes == D1 \cup D2 \cup Extra \cup StrideTypes \cup ConstructTypes
RunTypes   == IF Depth = 1 THEN D1 \cup StrideTypes \cup ConstructTypes ELSE TableTypes

(* ---- argument vectors (seven parameters) ---------------------------------- *)
(* all integer class: with the context pointer (and a return pointer) the later ones travel on the stack *)
BaseI == <<Leaf("u8"), Leaf("u16"), Leaf("u32"), Leaf("u64"), Leaf("i8"), Leaf("i16"), Leaf("i64")>>
(* floats, pointers, a zero-sized unit, an enum *)
BaseM == <<Leaf("f64"), Leaf("String"), Leaf("()"), Leaf("f32"), Leaf("T24"), Leaf("bool"), Opt(Leaf("u32"))>>
PickTypes == LeafT \cup { Opt(Leaf("u8")), Opt(Leaf("String")), Opt(Leaf("Z0")), Res(Leaf("u8"), Leaf("u64")),
                          Res(Leaf("T24"), Leaf("()")), Ver(Leaf("u32"), Leaf("String")), Ver(Leaf("()"), Leaf("Z0")),
                          Lst(Leaf("u32")), Lst(Leaf("T24")) }
Vec(b, t, j) == [b EXCEPT ![j] = t]
Next7(j) == IF j = 7 THEN 6 ELSE j + 1
(* the k-th argument is returned: the one under test, and for a zero-sized one also a neighbour *)
(* (a zero-sized value cannot show that the others arrived in the wrong slot)                   *)
PickKs(t, j) == {j} \cup (IF ZeroSized(t) THEN {Next7(j)} ELSE {})
(* argument counts: n parameters that occupy a slot followed by 7 - n unit parameters, which are *)
(* dropped from the signature on both sides: the call has n arguments as far as the ABI goes     *)
BaseC(n) == [i \in 1..7 |-> IF i <= n THEN BaseI[i] ELSE Leaf("()")]
CountTypes == {Leaf("u64"), Leaf("f32"), Leaf("String"), Opt(Leaf("u8"))}
PickSigs  == {[vec |-> Vec(b, t, j), k |-> k, pos |-> j] : b \in {BaseI, BaseM}, t \in PickTypes, j \in 1..7, k \in 1..7}
               \cup UNION {{[vec |-> Vec(BaseC(n), t, j), k |-> j, pos |-> j] : t \in CountTypes, j \in 1..n} : n \in 2..6}
PickUniverse  == {s \in PickSigs : s.k \in PickKs(s.vec[s.pos], s.pos)}
HPickUniverse == {s \in PickSigs : s.k = s.pos}          \* the host function logs all seven arguments

(* ---- context structs: every declared order of these field sets ------------ *)
FieldSets == { <<"u8", "u32", "u64", "String">>, <<"Z0", "C1", "T24", "Prefix">>,
               <<"bool", "i16", "f64">>, <<"i8", "u16", "f32">>, <<"char", "Asn", "i64">>, <<"i32", "IpAddr", "u8">>,
               <<"u8", "u64">>, <<"String">> }
Perms(s) == {p \in [1..Len(s) -> 1..Len(s)] : \A i, j \in 1..Len(s) : i # j => p[i] # p[j]}
CtxUniverse == UNION {{[i \in 1..Len(s) |-> Leaf(s[p[i]])] : p \in Perms(s)} : s \in FieldSets}

ASSUME Part = "universe" =>
         PrintT(<<"UNIVERSE", ToJson([types |-> TableTypes, picks |-> PickUniverse, hpicks |-> HPickUniverse, ctxs |-> CtxUniverse])>>)

(* ---- configurations ------------------------------------------------------- *)
Cfg(route, vec, vals, pos, k) == [route |-> route, vec |-> vec, vals |-> vals, pos |-> pos, k |-> k]
Elems(s) == {s[i] : i \in 1..Len(s)}

TypeRoutes(t) == {"id", "hecho", "hgive", "const"}
                   \cup (IF IsLeaf(t) THEN {} ELSE {"build", "match"})
                   \cup (IF IsLeaf(t) /\ t # Leaf("()") THEN {"hmeth"} ELSE {})       \* methods live on registered types
                   \cup (IF t[1] = "Verdict" THEN {"buildf"} ELSE {})                \* accept / reject
                   (* the registered constant taken apart by the script / handed on to a registered function: *)
                   (* every type that is not a leaf (what is stored is the mirror of the Rust value)          *)
                   \cup (IF IsLeaf(t) THEN {} ELSE {"constm", "consth"})
                   \cup (IF IsList(t) THEN ListRoutes ELSE {})                       \* made on the Rust side
TypeCfgsOf(t) == {Cfg(r, <<t>>, <<v>>, 1, 1) : r \in TypeRoutes(t), v \in Elems(ValueSeq(t))}
                   \cup (IF IsList(t) THEN {Cfg("index", <<t>>, <<v>>, 1, k) : v \in Elems(ValueSeq(t)), k \in 1..3} ELSE {})

VecVals(vec, pos, v) == [i \in 1..7 |-> IF i = pos THEN v ELSE FillV(vec[i])]
PickCfgsOf(route, s) == {Cfg(route, s.vec, VecVals(s.vec, s.pos, v), s.pos, s.k) : v \in Elems(ValueSeq(s.vec[s.pos]))}

MaxClasses(fs) == CHOOSE n \in 1..16 : (\A i \in 1..Len(fs) : Len(ValueSeq(fs[i])) <= n) /\ (\E i \in 1..Len(fs) : Len(ValueSeq(fs[i])) = n)
Round(fs, r) == [i \in 1..Len(fs) |-> ValueSeq(fs[i])[((r - 1) % Len(ValueSeq(fs[i]))) + 1]]
CtxCfgsOf(fs) == {Cfg("ctx", fs, Round(fs, r), pos, pos) : r \in 1..MaxClasses(fs), pos \in 1..Len(fs)}

(* units of work: a type / an argument vector / a context struct *)
Units == CASE Part = "types" -> RunTypes
           [] Part = "pick"  -> PickUniverse
           [] Part = "hpick" -> HPickUniverse
           [] Part = "ctx"   -> CtxUniverse
           [] OTHER -> {}
CfgsOfUnit(u) == CASE Part = "types" -> TypeCfgsOf(u)
                   [] Part = "pick"  -> PickCfgsOf("pick", u)
                   [] Part = "hpick" -> PickCfgsOf("hpick", u)
                   [] Part = "ctx"   -> CtxCfgsOf(u)

(* ---- layout part: the rule itself, for a larger grammar than the table ------ *)
(* every type of depth <= 1 over all leaves; Depth = 2: also every such type wrapped once more *)
(* (a binary constructor with at most one non-leaf argument)                                   *)
AllD1 == LeafT \cup {Opt(t) : t \in LeafT} \cup {Lst(t) : t \in LeafT}
           \cup {Res(a, b) : a \in LeafT, b \in LeafT} \cup {Ver(a, b) : a \in LeafT, b \in LeafT}
LayoutRoots == IF Part = "layout" THEN AllD1 \cup TableTypes ELSE {}
Wrapped(t) == {Opt(t), Lst(t)} \cup UNION {{Res(t, l), Res(l, t), Ver(t, l), Ver(l, t)} : l \in LeafT}
LayoutTypesOf(t) == IF Depth = 1 \/ t \notin AllD1 THEN {t} ELSE {t} \cup Wrapped(t)

(* ---- state space -------------------------------------------------------------- *)
VARIABLE st       \* [lvl |-> "root"] | [lvl |-> "block", b] | [lvl |-> "run"] | [lvl |-> "layout", t]

Blocks  == 12
UnitSeq == SetToSeq(Units)
LaySeq  == SetToSeq(LayoutRoots)
NoCfg   == Cfg("none", <<>>, <<>>, 0, 0)

MCInit == st = [lvl |-> "root"] /\ cfg = NoCfg /\ hop = 0 /\ cur = [ts |-> <<>>, vs |-> <<>>] /\ obs = <<>>

MCNext ==
  \/ /\ st.lvl = "root"
     /\ \E b \in 1..Blocks : st' = [lvl |-> "block", b |-> b]
     /\ UNCHANGED bvars
  \/ /\ st.lvl = "block" /\ Part # "layout"
     /\ \E i \in {j \in 1..Len(UnitSeq) : j % Blocks = st.b - 1} : \E c \in CfgsOfUnit(UnitSeq[i]) : Begin(c)
     /\ st' = [lvl |-> "run"]
  \/ /\ st.lvl = "block" /\ Part = "layout"
     /\ \E i \in {j \in 1..Len(LaySeq) : j % Blocks = st.b - 1} : st' = [lvl |-> "layout", t |-> LaySeq[i]]
     /\ UNCHANGED bvars
  \/ /\ st.lvl = "run"
     /\ Transfer
     /\ UNCHANGED st

MCSpec == MCInit /\ [][MCNext]_<<st, bvars>>

(* ---- what TLC checks ------------------------------------------------------------ *)
Running == st.lvl = "run"

(* the property: nothing changes in flight, the receiving side shows what was sent *)
Unchanged == Running => InFlightUnchanged /\ ReceivedIsSent

(* the layout rule is sound for every type that travels and for every value sent *)
RuleSound ==
  /\ Running /\ hop = 0 =>
       \A i \in 1..Len(cfg.vec) : LayoutOK(cfg.vec[i]) /\ ImageOK(cfg.vec[i], cfg.vals[i])
  /\ st.lvl = "layout" =>
       /\ \A v \in Elems(ValueSeq(st.t)) : ImageOK(st.t, v)
       /\ \A t \in LayoutTypesOf(st.t) :
            /\ LayoutOK(t)
            /\ ImageOK(t, ValueSeq(t)[1]) /\ ImageOK(t, LastOf(ValueSeq(t)))

(* both sides agree on the slots of an argument list: as many slots as parameters that are not *)
(* zero-sized, in order                                                                        *)
SlotsAgree ==
  Running /\ hop = 0 =>
    LET sl == Slots(cfg.vec) IN
      /\ \A j \in 1..Len(sl) : ~ZeroSized(cfg.vec[sl[j]])
      /\ \A j \in 1..(Len(sl) - 1) : sl[j] < sl[j + 1]
      /\ Len(sl) = Cardinality({i \in 1..Len(cfg.vec) : ~ZeroSized(cfg.vec[i])})

Case == [route |-> cfg.route, vec |-> cfg.vec, vals |-> cfg.vals, pos |-> cfg.pos, k |-> cfg.k,
         hops |-> Hops(cfg), obs |-> obs]
Emit == (Running /\ Done) => PrintT(<<"REPLAY", ToJson(Case)>>)
=============================================================================
