------------------------------ MODULE ListConc ------------------------------
(***************************************************************************)
(* Roto lists shared between threads (property C16), modelled at the        *)
(* granularity of the real code's lock acquisitions (src/value/list.rs).    *)
(*                                                                         *)
(* Every operation is a sequence of SEGMENTS.  A segment starts at a       *)
(* "pausing point" of the code - immediately before a Mutex::lock(), or      *)
(* (for get) immediately before the element that was looked up is cloned -  *)
(* and runs to the next pausing point or to the end of the operation.       *)
(* The cfg-guarded hooks in list.rs (roto::verif::sched::point) make the    *)
(* same points observable and controllable in the implementation, so one    *)
(* Step(t) of this specification is one granted step of a real thread.      *)
(*                                                                         *)
(*   buf[l], cap[l]  contents / capacity of the shared storage of list l    *)
(*   gen[l]          allocation generation: incremented when a push         *)
(*                   relocates the storage (realloc)                        *)
(*   lock[l]         0 or the thread holding the mutex ACROSS a pausing     *)
(*                   point (only == does that)                              *)
(*   pc[t], cur[t]   where thread t is inside its current operation         *)
(*   ptr[t]          <<generation, index>> of an element pointer obtained   *)
(*                   by get and not yet cloned through                      *)
(*   acc[t]          partial result (first half of a concat)                *)
(*   cand[t]         results the current operation of t would have had as   *)
(*                   an ATOMIC operation at some instant since it started   *)
(*   obs             what the last step made observable: events emitted by  *)
(*                   the instrumentation and, if an operation completed,    *)
(*                   its result                                             *)
(***************************************************************************)
EXTENDS Naturals, Integers, Sequences, FiniteSets, TLC

CONSTANTS Threads,    \* e.g. {1, 2}
          Lists,      \* e.g. {1, 2}
          InitBuf,    \* [Lists -> Seq(Nat)]: initial contents; capacity = MinCap rounded
          MaxOps,     \* operations per thread
          Ops,        \* set of operation records threads may perform
          \* The three constants select the locking discipline of the code.
          \* TRUE is the discipline of the repaired tree; FALSE is the
          \* discipline of the original tree (kept as the model of a regression).
          FixGet,     \* TRUE: Rust-side get clones the element while holding the lock
          FixSGet,    \* TRUE: the same for the script-side get (ffi::list_get)
          FixEq,      \* TRUE: Rust-side == takes the two locks in a global order
          FixSEq,     \* TRUE: the same for the script-side == (ErasedList::eq)
          FixConcat   \* TRUE: concat holds both operand locks at once

VARIABLES buf, cap, gen, lock, pc, cur, ptr, acc, nops, cand, linOk, staleUse, obs
vars == <<buf, cap, gen, lock, pc, cur, ptr, acc, nops, cand, linOk, staleUse, obs>>

NoOp == [k |-> "none"]

(* capacity rule of list.rs: next power of two, at least 4 (elements > 1 byte) *)
RECURSIVE Pow2(_, _)
Pow2(n, p) == IF p >= n THEN p ELSE Pow2(n, 2 * p)
NewCap(req) == IF req = 0 THEN 0 ELSE IF Pow2(req, 1) < 4 THEN 4 ELSE Pow2(req, 1)

Opt(s, i) == IF i < Len(s) THEN <<s[i + 1]>> ELSE <<>>
SwapSeq(s, i, j) ==
    IF i >= Len(s) \/ j >= Len(s) THEN s
    ELSE [k \in 1..Len(s) |-> IF k = i + 1 THEN s[j + 1] ELSE IF k = j + 1 THEN s[i + 1] ELSE s[k]]
Has(s, v) == \E k \in 1..Len(s) : s[k] = v

(* result of operation o if it ran atomically on contents b *)
Abs(o, b) ==
    CASE o.k = "get"      -> Opt(b[o.l], o.i)
      [] o.k = "sget"     -> Opt(b[o.l], o.i)
      [] o.k = "push"     -> "ok"
      [] o.k = "swap"     -> "ok"
      [] o.k = "len"      -> Len(b[o.l])
      [] o.k = "contains" -> Has(b[o.l], o.v)
      [] o.k = "concat"   -> b[o.a] \o b[o.b]
      [] o.k \in {"eq", "seq"} -> (b[o.a] = b[o.b])
      [] o.k = "tovec"    -> b[o.l]
      [] OTHER            -> "ok"

(* where a thread is parked after a step: the kind of pausing point and the  *)
(* list concerned ("acquire" of list l / start of the "clone" of an element  *)
(* of list l), or "none" when its operation completed                         *)
First(o)  == IF o.k = "eq" THEN (IF FixEq /\ o.b < o.a THEN o.b ELSE o.a)
             ELSE IF o.k = "seq" THEN (IF FixSEq /\ o.b < o.a THEN o.b ELSE o.a)
             ELSE IF o.k = "concat" THEN (IF FixConcat /\ o.b < o.a THEN o.b ELSE o.a)
             ELSE o.l
Second(o) == IF First(o) = o.a THEN o.b ELSE o.a
ParkOf(o, p) == CASE p = "acq1" -> [k |-> "acquire", l |-> First(o)]
                  [] p = "acq2" -> [k |-> "acquire", l |-> Second(o)]
                  [] p = "use"  -> [k |-> "clone", l |-> o.l]
                  [] OTHER      -> [k |-> "none", l |-> 0]
Init ==
    /\ buf = InitBuf
    /\ cap = [l \in Lists |-> NewCap(Len(InitBuf[l]))]
    /\ gen = [l \in Lists |-> 0]
    /\ lock = [l \in Lists |-> 0]
    /\ pc = [t \in Threads |-> "idle"]
    /\ cur = [t \in Threads |-> NoOp]
    /\ ptr = [t \in Threads |-> <<0, 0>>]
    /\ acc = [t \in Threads |-> <<>>]
    /\ nops = [t \in Threads |-> 0]
    /\ cand = [t \in Threads |-> {}]
    /\ linOk = TRUE
    /\ staleUse = FALSE
    /\ obs = [t |-> 0, act |-> "init", op |-> NoOp, ev |-> <<>>, done |-> FALSE, res |-> "none",
              parked |-> [k |-> "none", l |-> 0]]

(* bookkeeping shared by all steps: candidates of every running operation   *)
(* are extended with the atomic result on the new contents; when t's        *)
(* operation completes with result r (r # "stale") it must be a candidate   *)
Track(t, buf2, pc2, cur2, finished, isStale, r) ==
    /\ cand' = [u \in Threads |->
                 IF pc2[u] = "idle" THEN {}
                 ELSE IF u = t /\ pc[t] = "idle" THEN {Abs(cur2[u], buf), Abs(cur2[u], buf2)}
                 ELSE cand[u] \cup {Abs(cur2[u], buf2)}]
    /\ linOk' = (linOk /\ (finished /\ ~isStale => r \in (cand[t] \cup {Abs(cur[t], buf2), Abs(cur[t], buf)})))

Obs(t, a, o, ev, finished, r) ==
    obs' = [t |-> t, act |-> a, op |-> o, ev |-> ev, done |-> finished, res |-> r,
            parked |-> ParkOf(cur'[t], pc'[t])]

(* ---- Start: thread t begins operation o and runs to its first pausing point *)
Start(t, o) ==
    /\ pc[t] = "idle" /\ nops[t] < MaxOps /\ o \in Ops
    /\ nops' = [nops EXCEPT ![t] = @ + 1]
    /\ UNCHANGED <<buf, cap, gen, lock, ptr, acc, staleUse>>
    /\ IF o.k \in {"eq", "seq"} /\ o.a = o.b
       THEN \* same Arc: returns TRUE without taking a lock
            /\ pc' = pc /\ cur' = cur
            /\ Track(t, buf, pc, [cur EXCEPT ![t] = o], FALSE, FALSE, "none")
            /\ Obs(t, "start", o, <<>>, TRUE, TRUE)
       ELSE IF o.k = "clonedrop"
       THEN /\ pc' = pc /\ cur' = cur
            /\ Track(t, buf, pc, [cur EXCEPT ![t] = o], FALSE, FALSE, "none")
            /\ Obs(t, "start", o, <<>>, TRUE, "ok")
       ELSE /\ pc' = [pc EXCEPT ![t] = "acq1"]
            /\ cur' = [cur EXCEPT ![t] = o]
            /\ Track(t, buf, pc', cur', FALSE, FALSE, "none")
            /\ Obs(t, "start", o, <<>>, FALSE, "none")

FinishS(t, buf2, isStale, r, ev) ==
    /\ pc' = [pc EXCEPT ![t] = "idle"]
    /\ cur' = [cur EXCEPT ![t] = NoOp]
    /\ Track(t, buf2, pc', cur', TRUE, isStale, r)
    /\ Obs(t, "step", NoOp, ev, TRUE, r)

Finish(t, buf2, r, ev) == FinishS(t, buf2, FALSE, r, ev)

Continue(t, next, buf2, ev) ==
    /\ pc' = [pc EXCEPT ![t] = next]
    /\ cur' = cur
    /\ Track(t, buf2, pc', cur', FALSE, FALSE, "none")
    /\ Obs(t, "step", NoOp, ev, FALSE, "none")

Free(l, t) == lock[l] = 0 \/ lock[l] = t

(* ---- first locked segment of every operation *)
Seg1(t) ==
    LET o == cur[t] IN
    /\ pc[t] = "acq1"
    /\ UNCHANGED <<nops>>
    /\ CASE o.k \in {"get", "sget"} ->
              /\ Free(o.l, t)
              /\ UNCHANGED <<buf, cap, gen, acc, staleUse>>
              /\ IF o.i < Len(buf[o.l])
                 THEN \* element found: next pausing point is the start of its clone;
                      \* the repaired code still holds the lock there
                      /\ ptr' = [ptr EXCEPT ![t] = <<gen[o.l], o.i>>]
                      /\ lock' = [lock EXCEPT ![o.l] =
                                    IF (o.k = "get" /\ FixGet) \/ (o.k = "sget" /\ FixSGet) THEN t ELSE @]
                      /\ Continue(t, "use", buf, <<>>)
                 ELSE /\ UNCHANGED <<ptr, lock>> /\ Finish(t, buf, <<>>, <<>>)
         [] o.k = "push" ->
              /\ Free(o.l, t)
              /\ LET grow == Len(buf[o.l]) + 1 > cap[o.l]
                     b2 == [buf EXCEPT ![o.l] = Append(@, o.v)] IN
                 /\ buf' = b2
                 /\ cap' = [cap EXCEPT ![o.l] = IF grow THEN NewCap(Len(buf[o.l]) + 1) ELSE @]
                 \* a realloc of an existing allocation retires the old generation
                 /\ gen' = [gen EXCEPT ![o.l] = IF grow /\ cap[o.l] > 0 THEN @ + 1 ELSE @]
                 /\ UNCHANGED <<lock, ptr, acc, staleUse>>
                 /\ Finish(t, b2, "ok", IF grow /\ cap[o.l] > 0 THEN <<"realloc">> ELSE <<>>)
         [] o.k = "swap" ->
              /\ Free(o.l, t)
              /\ LET b2 == [buf EXCEPT ![o.l] = SwapSeq(@, o.i, o.j)] IN
                 /\ buf' = b2
                 /\ UNCHANGED <<cap, gen, lock, ptr, acc, staleUse>>
                 /\ Finish(t, b2, "ok", <<>>)
         [] o.k \in {"len", "contains", "tovec"} ->
              /\ Free(o.l, t)
              /\ UNCHANGED <<buf, cap, gen, lock, ptr, acc, staleUse>>
              /\ Finish(t, buf, Abs(o, buf), <<>>)
         [] o.k = "concat" ->
              /\ UNCHANGED <<buf, cap, gen, ptr, staleUse>>
              /\ IF FixConcat
                 THEN IF o.a = o.b
                      THEN /\ Free(o.a, t) /\ UNCHANGED <<lock, acc>>
                           /\ Finish(t, buf, buf[o.a] \o buf[o.a], <<>>)
                      ELSE \* both operand locks, taken in the global order
                           LET first == IF o.b < o.a THEN o.b ELSE o.a IN
                           /\ Free(first, t)
                           /\ lock' = [lock EXCEPT ![first] = t]
                           /\ UNCHANGED acc
                           /\ Continue(t, "acq2", buf, <<>>)
                 ELSE /\ Free(o.a, t)
                      /\ acc' = [acc EXCEPT ![t] = buf[o.a]]
                      /\ UNCHANGED lock
                      /\ Continue(t, "acq2", buf, <<>>)
         [] o.k \in {"eq", "seq"} ->
              \* takes the first lock and keeps it while waiting for the second
              /\ Free(First(o), t)
              /\ lock' = [lock EXCEPT ![First(o)] = t]
              /\ UNCHANGED <<buf, cap, gen, ptr, acc, staleUse>>
              /\ Continue(t, "acq2", buf, <<>>)

(* ---- get: the element is cloned through the pointer looked up before *)
Use(t) ==
    LET o == cur[t]
        stale == ptr[t][1] # gen[o.l] IN
    /\ pc[t] = "use"
    /\ UNCHANGED <<buf, cap, gen, ptr, acc, nops>>
    /\ lock' = [lock EXCEPT ![o.l] = IF @ = t THEN 0 ELSE @]
    /\ staleUse' = (staleUse \/ stale)
    /\ FinishS(t, buf, stale, IF stale THEN "stale" ELSE <<buf[o.l][ptr[t][2] + 1]>>,
               << <<"use", stale>> >>)

(* ---- second locked segment *)
Seg2(t) ==
    LET o == cur[t] IN
    /\ pc[t] = "acq2"
    /\ UNCHANGED <<nops, cap, gen, ptr, acc>>
    /\ CASE o.k = "concat" ->
              IF FixConcat
              THEN LET first  == IF o.b < o.a THEN o.b ELSE o.a
                       second == IF first = o.a THEN o.b ELSE o.a IN
                   /\ lock[second] = 0
                   /\ lock' = [lock EXCEPT ![first] = 0]
                   /\ UNCHANGED <<buf, staleUse>>
                   /\ Finish(t, buf, buf[o.a] \o buf[o.b], <<>>)
              ELSE /\ Free(o.b, t)
                   /\ UNCHANGED <<buf, lock, staleUse>>
                   /\ Finish(t, buf, acc[t] \o buf[o.b], <<>>)
         [] o.k \in {"eq", "seq"} ->
              /\ lock[Second(o)] = 0
              /\ lock' = [lock EXCEPT ![First(o)] = 0]
              /\ UNCHANGED <<buf, staleUse>>
              /\ Finish(t, buf, buf[o.a] = buf[o.b], <<>>)

Step(t) == Seg1(t) \/ Use(t) \/ Seg2(t)

AllDone == \A t \in Threads : pc[t] = "idle" /\ nops[t] = MaxOps
Terminated == AllDone /\ UNCHANGED vars

Next == \/ \E t \in Threads, o \in Ops : Start(t, o)
        \/ \E t \in Threads : Step(t)
        \/ Terminated

Spec == Init /\ [][Next]_vars

(* ------------------------------ properties ------------------------------ *)
TypeOK == /\ \A l \in Lists : Len(buf[l]) <= cap[l] /\ lock[l] \in {0} \cup Threads
          /\ \A t \in Threads : pc[t] \in {"idle", "acq1", "acq2", "use"}

(* no element is read through a pointer of a retired allocation *)
NoStaleUse == ~staleUse

(* every completed operation returned what the atomic operation returns at  *)
(* some instant between its invocation and its response                     *)
Linearizable == linOk

(* deadlock freedom is TLC's deadlock check: Terminated is the only way to  *)
(* stop                                                                     *)
=============================================================================
