----------------------------- MODULE MCTypeGate -----------------------------
(* Verdict tables of TypeGate (C04), enumerated exhaustively by TLC.        *)
(* A state is one probe row: a script item and the class of name it is      *)
(* asked for under; for that row TLC evaluates the gate against EVERY Rust  *)
(* signature of the family's universe and emits the set of those that must  *)
(* be handed out ("ok"); all other signatures of the universe must be       *)
(* refused.  The universe itself is printed once (tag UNIVERSE); it is also *)
(* what tools/gen_c04_types.py turns into the compiled-in table of Rust     *)
(* function types of the harness.                                           *)
EXTENDS TypeGate, Json, IOUtils, SequencesExt

CONSTANT Family   \* "d1ret" | "d1par" | "fm" | "ladder" | "ns" | "mod" | "allret" | "allpar"

VARIABLE row      \* [lvl |-> "root"] | [lvl |-> "block", b] | [lvl |-> "row", i (index into ItemSeq), nc (name class)]

UnitRust == Leaf("()")
UnitRoto == Leaf("()")

(* ---- single-position families ------------------------------------------ *)
RustD1 == D1(RustLeaves)                 \* 20 leaves -> 860 terms of depth <= 1
RotoD1 == D1(RotoLeaves)
DeepRustL == {"u8", "i8", "Val<RegA>"}
DeepRotoL == {"u8", "i8", "RegA"}
RustD2 == D2r(DeepRustL)                 \* 387 terms of depth <= 2
RotoD2 == D2r(DeepRotoL)
RustD3 == Chain3("i8", "u8")             \* 216 terms of depth 3
RotoD3 == Chain3("i8", "u8")

RetSigs(S)  == {Sig(<<>>, t) : t \in S}
ParSigs(S)  == {Sig(<<t>>, UnitRust) : t \in S}
RetItems(S) == {Fn(<<>>, t) : t \in S}
ParItems(S) == {Fn(<<t>>, UnitRoto) : t \in S}

(* ---- arity ladder: arities 0..7 (Roto also 8), one deviating position,   *)
(* swapped parameters, missing / extra parameter (the neighbouring arity)   *)
RustBase == << Leaf("u8"), Leaf("i16"), Leaf("Val<RegA>"), Leaf("RotoString"), Opt(Leaf("u32")),
               Lst(Leaf("i64")), Ver(Leaf("bool"), Leaf("Val<RegB>")), Leaf("f32") >>
RotoBase == << Leaf("u8"), Leaf("i16"), Leaf("RegA"), Leaf("String"), Opt(Leaf("u32")),
               Lst(Leaf("i64")), Ver(Leaf("bool"), Leaf("RegB")), Leaf("f32") >>
RustRet == Res(Leaf("u64"), Leaf("char"))
RotoRet == Res(Leaf("u64"), Leaf("char"))

Dev(t, foreign) == { Opt(t), IF t = Leaf("i8") THEN Leaf("u8") ELSE Leaf("i8"), Leaf(foreign) }
SwapAt(s, i, j) == [k \in 1..Len(s) |-> IF k = i THEN s[j] ELSE IF k = j THEN s[i] ELSE s[k]]
SwapPairs(n) == {<<i, i + 1>> : i \in 1..(IF n > 0 THEN n - 1 ELSE 0)} \cup (IF n > 2 THEN {<<1, n>>} ELSE {})

SigsOfArity(base, ret, n, foreign) ==
  LET ps == SubSeq(base, 1, n) IN
    {Sig(ps, ret)}
    \cup UNION {{Sig([ps EXCEPT ![i] = d], ret) : d \in Dev(ps[i], foreign)} : i \in 1..n}
    \cup {Sig(ps, d) : d \in Dev(ret, foreign)}
    \cup {Sig(SwapAt(ps, p[1], p[2]), ret) : p \in SwapPairs(n)}

(* filtermap forms on the ladder and the Rust return types they are asked as *)
FmCombos == { << Leaf("u8"), <<"unused">> >>, << <<"bare">>, Leaf("String") >>, << <<"intlit">>, <<"floatlit">> >>,
              << <<"bare">>, <<"unused">> >>, << <<"unused">>, <<"bare">> >>, << Leaf("RegA"), Opt(Leaf("u32")) >> }
FmRustRets == { Ver(Leaf("u8"), Leaf("()")), Ver(Leaf("()"), Leaf("RotoString")), Ver(Leaf("i32"), Leaf("f64")),
                Ver(Leaf("()"), Leaf("()")), Ver(Leaf("Val<RegA>"), Opt(Leaf("u32"))),
                Ver(Leaf("()"), Leaf("u8")), Ver(Leaf("u8"), Leaf("u8")), Ver(Leaf("i64"), Leaf("f64")),
                Ver(Leaf("i32"), Leaf("f32")), Res(Leaf("u8"), Leaf("()")), Ver(Leaf("RotoString"), Leaf("()")) }

RustLadder ==
  UNION {SigsOfArity(RustBase, RustRet, n, "Val<Unreg>") : n \in 0..7}
  \cup {Sig(SubSeq(RustBase, 1, n), v) : n \in 0..7, v \in FmRustRets}
RotoLadderItems ==
  {Fn(s.params, s.ret) : s \in UNION {SigsOfArity(RotoBase, RotoRet, n, "Rec") : n \in 0..8}}
  \cup {Fm(SubSeq(RotoBase, 1, n), c[1], c[2]) : n \in 0..8, c \in FmCombos}

(* ---- filtermap forms, arity 0, every leaf payload, against all of RustD1 *)
FmSides == SideForms \cup D0(RotoLeaves)
FmItems == {Fm(<<>>, a, r) : a \in FmSides, r \in FmSides} \ {Fm(<<>>, <<"unused">>, <<"unused">>)}

(* ---- script-declared namesakes of leaf types (family "ns") -------------- *)
(* For every leaf identifier L: the root namesake pkg.L, the sub-module      *)
(* namesake pkg.ns.L and, as control, the real leaf L - bare and nested one  *)
(* level under Option / List / Result / Verdict (either argument), in        *)
(* parameter and in return position, and as filtermap payload; asked as      *)
(* every Rust type of depth <= 1 in that position (so in particular as the   *)
(* Rust leaf of the same name, bare and under the same constructor).         *)
NsPartner(l) == IF l = "u64" THEN "i64" ELSE "u64"    \* the other argument of Result / Verdict
NsShapes(t, p) == {t, Opt(t), Lst(t), Res(t, p), Res(p, t), Ver(t, p), Ver(p, t)}
NsLeafPairs == UNION {{<<l, NsRoot(l)>>, <<l, NsSub(l)>>, <<l, l>>} : l \in NamesakeBases}
NsTerms == UNION {NsShapes(Leaf(q[2]), Leaf(NsPartner(q[1]))) : q \in NsLeafPairs}
NsItems == RetItems(NsTerms) \cup ParItems(NsTerms)
           \cup {Fm(<<>>, Leaf(q[2]), <<"unused">>) : q \in NsLeafPairs}
           \cup {Fm(<<>>, <<"bare">>, Leaf(q[2])) : q \in NsLeafPairs}

(* ---- module placement (family "mod") --------------------------------- *)
(* Small module trees; the probed item lives in module `at`; every subset   *)
(* of the other modules declares a filtermap of its own (the rest declare   *)
(* plain functions only).  Items: every parameterless filtermap form over   *)
(* the sides unused / bare / literal / u8 / String (accept-only, reject-only *)
(* and fully used) and plain functions; asked by module path (and, name     *)
(* class "unknown", by bare name / wrong path) as every fn() -> T, T of     *)
(* depth <= 1.                                                              *)
Layouts == { [mods |-> <<"pkg">>, at |-> "pkg"],
             [mods |-> <<"pkg", "a">>, at |-> "a"],
             [mods |-> <<"pkg", "a">>, at |-> "pkg"],
             [mods |-> <<"pkg", "a", "b">>, at |-> "a"],
             [mods |-> <<"pkg", "a", "b">>, at |-> "b"],
             [mods |-> <<"pkg", "a", "a.c">>, at |-> "a.c"],
             [mods |-> <<"pkg", "a", "a.c">>, at |-> "a"] }
Places == UNION {{[mods |-> l.mods, at |-> l.at, fmIn |-> S] : S \in SUBSET (Range(l.mods) \ {l.at})} : l \in Layouts}
ModSides == SideForms \cup {Leaf("u8"), Leaf("String")}
ModBase == ({Fm(<<>>, a, r) : a \in ModSides, r \in ModSides} \ {Fm(<<>>, <<"unused">>, <<"unused">>)})
           \cup {Fn(<<>>, Leaf("u8")), Fn(<<>>, Ver(Leaf("u8"), Leaf("()"))), Fn(<<>>, Leaf("()"))}
ModItems == {Placed(i, p) : i \in ModBase, p \in Places}

Items == CASE Family = "d1ret"  -> RetItems(RotoD1)
           [] Family = "mod"    -> ModItems
           [] Family = "ns"     -> NsItems
           [] Family = "d1par"  -> ParItems(RotoD1)
           [] Family = "fm"     -> FmItems
           [] Family = "ladder" -> RotoLadderItems
           [] Family = "allret" -> RetItems(RotoD1 \cup RotoD2 \cup RotoD3)
           [] Family = "allpar" -> ParItems(RotoD1 \cup RotoD2)
Universe == CASE Family = "d1ret"  -> RetSigs(RustD1)
              [] Family = "mod"    -> RetSigs(RustD1)
              [] Family = "ns"     -> RetSigs(RustD1) \cup ParSigs(RustD1)
              [] Family = "d1par"  -> ParSigs(RustD1)
              [] Family = "fm"     -> RetSigs(RustD1)
              [] Family = "ladder" -> RustLadder
              [] Family = "allret" -> RetSigs(RustD1 \cup RustD2 \cup RustD3)
              [] Family = "allpar" -> ParSigs(RustD1 \cup RustD2)
Classes == IF Family = "ladder" THEN NameClasses
           ELSE IF Family = "mod" THEN {"declared", "unknown"}
           ELSE IF Family \in {"d1ret", "allret"} THEN {"declared", "nonfn"} ELSE {"declared"}

ASSUME PrintT(<<"UNIVERSE", ToJson(Universe)>>)

(* States: root -> one block state per residue class -> the rows of that    *)
(* block (so that TLC's workers share the rows); a row is <<item, class>>.  *)
Blocks  == 16
ItemSeq == SetToSeq(Items)
NItems  == Len(ItemSeq)

MCInit == row = [lvl |-> "root"]
MCNext ==
  \/ /\ row.lvl = "root"
     /\ \E b \in 1..Blocks : row' = [lvl |-> "block", b |-> b]
  \/ /\ row.lvl = "block"
     /\ \E i \in {j \in 1..NItems : j % Blocks = row.b - 1}, nc \in Classes :
          row' = [lvl |-> "row", i |-> i, nc |-> nc]
MCSpec == MCInit /\ [][MCNext]_row

(* which arm of the gate refuses (statistics for the vacuity guard only) *)
Reason(item, nc, rust) ==
  LET s == SigOf(item) IN
  IF nc # "declared" THEN "name"
  ELSE IF ~ArityOk(s, rust) THEN "arity"
  ELSE IF \E i \in 1..Len(rust.params) : ~ParamOk(s, rust, i) THEN "param"
  ELSE IF ~RetOk(s, rust) THEN "ret"
  ELSE "ok"

Case ==
  LET item == ItemSeq[row.i]
      nc   == row.nc
      refused == {k \in Universe : Verdict(item, nc, k) = "err"}
  IN [family |-> Family, item |-> item, sig |-> SigOf(item), nameclass |-> nc,
      ok |-> Universe \ refused,
      reasons |-> [r \in {"name", "arity", "param", "ret"} |-> Cardinality({k \in refused : Reason(item, nc, k) = r})]]

(* Every row is emitted.  The mapping is injective: two different Rust       *)
(* signatures are never both handed out for one item; and the refusing arm   *)
(* is defined for exactly the refused signatures.                            *)
Emit ==
  row.lvl = "row" =>
    LET c == Case IN
      /\ Cardinality(c.ok) <= 1
      /\ \A k \in c.ok : Reason(ItemSeq[row.i], row.nc, k) = "ok"
      /\ PrintT(<<"REPLAY", ToJson(c)>>)
=============================================================================
