SPECIFICATION MCSpec
CONSTANTS
  Threads = {1, 2, 3, 4}
  NonSyncAllowed = FALSE
  UseRegLock = TRUE
  Plan = "w2bg"
INVARIANTS Inv NoLostUpdate RegistryComplete
