------------------------------ MODULE MCTyping ------------------------------
(* C07 model-checking wrapper: seed programs (well typed by construction,    *)
(* checked by the invariant SeedWellTyped), the edit operators               *)
(* Break(family, site) and the invariant MutantIllTyped: every edit applied  *)
(* at every applicable site must produce a program the judgement rejects.    *)
(* Each certified mutant is emitted as a REPLAY case for the real compiler.  *)
(* Namesake dimension (section "namesakes"): seeds that declare a type under *)
(* the name of a built-in type, generated from templates and by renaming     *)
(* the declared types of the other seeds, plus the families namesake-*.      *)
(* Method calls (section "method calls"): seeds that call every built-in     *)
(* method of the fragment legally, families method-receiver / -arg-type /    *)
(* -arg-count / -unknown.  Divergence accounting (section of that name): the *)
(* grammar of exit / fall-through shapes, family fallthrough-after-branch    *)
(* and the twin seeds (the same edit with a shape that exits on every path). *)
(*                                                                           *)
(* Seeds are written as nested trees with the small constructor vocabulary   *)
(* below and turned into the node-table form of Typing.tla by Flat.          *)
(* Convention of all seeds: inside one function every let / loop variable /  *)
(* pattern binding / parameter has its own name, distinct from all global    *)
(* names (so that "used after its block" and "declared twice" edits are      *)
(* unambiguous).                                                             *)
EXTENDS Typing, Json, TLC

CONSTANTS NumTys,      \* numeric types the templates are instantiated with
          Families,    \* edit families to apply (all of AllFamilies normally)
          MaxMembers,  \* type-declaration grammar: the subject type has 1..MaxMembers members
          NsNames,     \* namesake dimension: built-in type names a script type is declared under
          NsTys,       \* payload types the namesake templates are instantiated with
          NsFamilies,  \* edit families applied to the namesake seeds
          RenameTys,   \* seeds instantiated with these types are renamed (a declared type -> a built-in name)
          SwapMethods, \* method names a method call is renamed to (family method-unknown; the judgement decides)
          DivTys,      \* numeric types the divergence seeds SDiv are instantiated with
          DivDeepFns   \* names of the functions that get ALL exit / fall-through shapes up to nesting depth 2

(* ---------------------------------------------------------------- vocabulary *)
I(v)        == [k |-> "int", v |-> v, suf |-> ""]
IS(v, s)    == [k |-> "int", v |-> v, suf |-> s]
F(v)        == [k |-> "float", v |-> v, suf |-> ""]
FS(v, s)    == [k |-> "float", v |-> v, suf |-> s]
B(v)        == [k |-> "bool", v |-> v]
S(v)        == [k |-> "str", v |-> v]
U           == [k |-> "unit"]
Ip(v)       == [k |-> "ip", v |-> v]          \* v: index of a concrete address spelling (printer)
V(n)        == [k |-> "var", n |-> n]
Neg(e)      == [k |-> "neg", e |-> e]
Not(e)      == [k |-> "not", e |-> e]
Bin(op, l, r) == [k |-> "bin", op |-> op, l |-> l, r |-> r]
Blk(ss, e)  == [k |-> "blk", ss |-> ss, last |-> <<e>>]
BlkU(ss)    == [k |-> "blk", ss |-> ss, last |-> <<>>]
If(c, t, e) == [k |-> "if", c |-> c, t |-> t, e |-> <<e>>]
If1(c, t)   == [k |-> "if", c |-> c, t |-> t, e |-> <<>>]
Let(n, t, e) == [k |-> "let", n |-> n, t |-> <<t>>, e |-> e]
LetI(n, e)  == [k |-> "let", n |-> n, t |-> <<>>, e |-> e]
Asg(p, e)   == [k |-> "assign", p |-> p, e |-> e]
CAsg(op, p, e) == [k |-> "cassign", op |-> op, p |-> p, e |-> e]
Call(f, args) == [k |-> "call", f |-> f, args |-> args]
Ctor(en, v, args) == [k |-> "ctor", en |-> en, v |-> v, args |-> args, call |-> TRUE]
Ctor0(en, v) == [k |-> "ctor", en |-> en, v |-> v, args |-> <<>>, call |-> FALSE]
Some(e)     == Ctor("Option", "Some", <<e>>)
None        == Ctor0("Option", "None")
(* the bare constructors (en = ""): the built-in Option also where the script declares an Option of its own *)
SomeB(e)    == Ctor("", "Some", <<e>>)
NoneB       == Ctor0("", "None")
Fe(n, e)    == [n |-> n, e |-> e]
Rec(n, fs)  == [k |-> "rec", n |-> n, fs |-> fs]
Fld(e, f)   == [k |-> "fld", e |-> e, f |-> f]
Arm(v, bs, b)     == [v |-> v, bs |-> bs, hb |-> bs # <<>>, g |-> <<>>, b |-> b]
ArmG(v, bs, g, b) == [v |-> v, bs |-> bs, hb |-> bs # <<>>, g |-> <<g>>, b |-> b]
Match(e, arms) == [k |-> "match", e |-> e, arms |-> arms]
Try(e)      == [k |-> "try", e |-> e]
Ret(kind, e) == [k |-> "ret", kind |-> kind, e |-> <<e>>]
Ret0(kind)  == [k |-> "ret", kind |-> kind, e |-> <<>>]
Lst(es)     == [k |-> "list", es |-> es]
While(c, b) == [k |-> "while", c |-> c, b |-> b]
For(n, e, b) == [k |-> "for", n |-> n, e |-> e, b |-> b]

MC(e, m, args) == [k |-> "mcall", e |-> e, m |-> m, args |-> args]     \* e.m(args)
MC0(e, m)   == MC(e, m, <<>>)
(* in a nested tree: the node that already has index i in the table (it is not copied) *)
Ref(i)      == [k |-> "ref", i |-> i]

Pm(n, t)    == [n |-> n, t |-> t]
RecordD(n, fs) == [k |-> "record", n |-> n, fs |-> fs]
Vr(n, ts)   == [n |-> n, ts |-> ts]
EnumD(n, vs) == [k |-> "enum", n |-> n, vs |-> vs]
ConstD(n, t, e) == [k |-> "const", n |-> n, t |-> t, e |-> e]
Fn(n, ps, ret, body) == [k |-> "fn", n |-> n, ps |-> ps, ret |-> ret, body |-> body]
Fm(n, ps, body) == [k |-> "filtermap", n |-> n, ps |-> ps, body |-> body]

(* ------------------------------------------------------ nested -> node table *)
RECURSIVE Fl(_, _), FlSeq(_, _), FlArms(_, _), FlFields(_, _)
Put(ns, n) == [ns |-> Append(ns, n), i |-> Len(ns) + 1]
FlSeq(es, ns) ==
  IF es = <<>> THEN [ns |-> ns, is |-> <<>>]
  ELSE LET a == Fl(Head(es), ns)
           r == FlSeq(Tail(es), a.ns)
       IN [ns |-> r.ns, is |-> <<a.i>> \o r.is]
FlFields(fs, ns) ==
  IF fs = <<>> THEN [ns |-> ns, fs |-> <<>>]
  ELSE LET a == Fl(Head(fs).e, ns)
           r == FlFields(Tail(fs), a.ns)
       IN [ns |-> r.ns, fs |-> <<[n |-> Head(fs).n, e |-> a.i]>> \o r.fs]
FlArms(arms, ns) ==
  IF arms = <<>> THEN [ns |-> ns, arms |-> <<>>]
  ELSE LET h == Head(arms)
           g == FlSeq(h.g, ns)
           b == Fl(h.b, g.ns)
           r == FlArms(Tail(arms), b.ns)
       IN [ns |-> r.ns, arms |-> <<[h EXCEPT !.g = g.is, !.b = b.i]>> \o r.arms]
Fl(e, ns) ==
  CASE e.k \in {"int", "float", "bool", "str", "unit", "ip", "var"} -> Put(ns, e)
    [] e.k = "ref" -> [ns |-> ns, i |-> e.i]
    [] e.k = "mcall" ->
         LET r == Fl(e.e, ns)
             a == FlSeq(e.args, r.ns)
         IN Put(a.ns, [e EXCEPT !.e = r.i, !.args = a.is])
    [] e.k \in {"neg", "not", "fld", "try", "let", "assign", "cassign"} ->
         LET a == Fl(e.e, ns) IN Put(a.ns, [e EXCEPT !.e = a.i])
    [] e.k = "bin" ->
         LET a == Fl(e.l, ns)
             b == Fl(e.r, a.ns)
         IN Put(b.ns, [e EXCEPT !.l = a.i, !.r = b.i])
    [] e.k = "if" ->
         LET c == Fl(e.c, ns)
             t == Fl(e.t, c.ns)
             x == FlSeq(e.e, t.ns)
         IN Put(x.ns, [e EXCEPT !.c = c.i, !.t = t.i, !.e = x.is])
    [] e.k = "blk" ->
         LET s == FlSeq(e.ss, ns)
             l == FlSeq(e.last, s.ns)
         IN Put(l.ns, [e EXCEPT !.ss = s.is, !.last = l.is])
    [] e.k \in {"call", "ctor"} ->
         LET a == FlSeq(e.args, ns) IN Put(a.ns, [e EXCEPT !.args = a.is])
    [] e.k = "rec" ->
         LET f == FlFields(e.fs, ns) IN Put(f.ns, [e EXCEPT !.fs = f.fs])
    [] e.k = "match" ->
         LET s == Fl(e.e, ns)
             a == FlArms(e.arms, s.ns)
         IN Put(a.ns, [e EXCEPT !.e = s.i, !.arms = a.arms])
    [] e.k = "ret" ->
         LET a == FlSeq(e.e, ns) IN Put(a.ns, [e EXCEPT !.e = a.is])
    [] e.k = "list" ->
         LET a == FlSeq(e.es, ns) IN Put(a.ns, [e EXCEPT !.es = a.is])
    [] e.k = "while" ->
         LET c == Fl(e.c, ns)
             b == Fl(e.b, c.ns)
         IN Put(b.ns, [e EXCEPT !.c = c.i, !.b = b.i])
    [] e.k = "for" ->
         LET c == Fl(e.e, ns)
             b == Fl(e.b, c.ns)
         IN Put(b.ns, [e EXCEPT !.e = c.i, !.b = b.i])

RECURSIVE FlDecls(_, _)
FlDecls(ds, ns) ==
  IF ds = <<>> THEN [decls |-> <<>>, nodes |-> ns]
  ELSE LET d == Head(ds) IN
    IF d.k = "const" THEN
      LET a == Fl(d.e, ns)
          r == FlDecls(Tail(ds), a.ns)
      IN [decls |-> <<[d EXCEPT !.e = a.i]>> \o r.decls, nodes |-> r.nodes]
    ELSE IF d.k \in {"fn", "filtermap"} THEN
      LET a == Fl(d.body, ns)
          r == FlDecls(Tail(ds), a.ns)
      IN [decls |-> <<[d EXCEPT !.body = a.i]>> \o r.decls, nodes |-> r.nodes]
    ELSE LET r == FlDecls(Tail(ds), ns) IN [decls |-> <<d>> \o r.decls, nodes |-> r.nodes]
Flat(ds) == FlDecls(ds, <<>>)

(* ----------------------------------------------------------------------- seeds *)
L(t, v) == IF t \in FloatK THEN F(<<"1.5", "2.5", "3.0", "4.25", "7.0">>[v]) ELSE I(v)
ArOps(t) == IF t \in FloatK THEN {"add", "sub", "mul", "div"} ELSE {"add", "sub", "mul", "div", "mod"}
SignedTys == NumTys \ UnsignedK

SArith(t, op) == <<
  Fn("f1", <<Pm("a", T(t)), Pm("b", T(t))>>, T(t), Blk(<<
      Let("t", T(t), Bin("add", Bin(op, V("a"), V("b")), L(t, 2))),
      Asg(<<"t">>, Bin("sub", V("t"), V("a"))),
      CAsg("add", <<"t">>, L(t, 3)),
      CAsg(op, <<"t">>, V("b"))>>,
    If(Bin("and", Bin("gt", V("t"), V("b")), Not(Bin("eq", V("a"), V("b")))),
       Blk(<<>>, V("t")), Blk(<<>>, Bin("mul", V("t"), L(t, 2))))))>>

SNeg(t) == <<
  Fn("f1", <<Pm("x", T(t))>>, T(t), Blk(<<Let("y", T(t), Neg(V("x")))>>, Neg(Bin("mul", V("y"), L(t, 2))))),
  Fn("f2", <<>>, T(t), Blk(<<LetI("m", Neg(L(t, 5)))>>, V("m")))>>

SRecord(t) == <<
  RecordD("R1", <<Pm("a", T(t)), Pm("b", Bool)>>),
  Fn("mk", <<Pm("x", T(t))>>, Named("R1"),
     Blk(<<>>, Rec("R1", <<Fe("a", V("x")), Fe("b", Bin("lt", V("x"), L(t, 3)))>>))),
  Fn("co", <<Pm("x", T(t))>>, Named("R1"), Blk(<<>>, Rec("", <<Fe("b", B(TRUE)), Fe("a", V("x"))>>))),
  Fn("g", <<Pm("r", Named("R1"))>>, T(t),
     Blk(<<>>, If(Fld(V("r"), "b"), Blk(<<>>, Fld(V("r"), "a")), Blk(<<>>, L(t, 1))))),
  Fn("h", <<Pm("x", T(t))>>, T(t), Blk(<<
      Let("r", Named("R1"), Call("mk", <<V("x")>>)),
      Asg(<<"r", "a">>, L(t, 4)),
      CAsg("add", <<"r", "a">>, V("x")),
      Asg(<<"r", "b">>, Not(Fld(V("r"), "b")))>>,
    Bin("add", Call("g", <<V("r")>>), Call("g", <<Call("co", <<V("x")>>)>>))))>>

SEnum(t) == <<
  EnumD("E1", <<Vr("A", <<>>), Vr("B", <<T(t)>>), Vr("C", <<T(t), Bool>>)>>),
  Fn("f", <<Pm("e", Named("E1"))>>, T(t), Blk(<<>>, Match(V("e"), <<
      Arm("A", <<>>, Blk(<<>>, L(t, 1))),
      ArmG("B", <<"v">>, Bin("gt", V("v"), L(t, 3)), Blk(<<>>, V("v"))),
      Arm("B", <<"w">>, Blk(<<Let("u", T(t), Bin("add", V("w"), L(t, 1)))>>, V("u"))),
      Arm("C", <<"p", "q">>, Blk(<<>>, If(V("q"), Blk(<<>>, V("p")), Blk(<<>>, L(t, 2)))))>>))),
  Fn("g", <<Pm("e", Named("E1"))>>, T(t), Blk(<<>>, Match(V("e"), <<
      Arm("A", <<>>, Blk(<<>>, L(t, 1))),
      Arm("_", <<>>, Blk(<<>>, L(t, 2)))>>))),
  Fn("mkb", <<Pm("x", T(t))>>, Named("E1"), Blk(<<>>, Ctor("E1", "B", <<V("x")>>))),
  Fn("mka", <<>>, Named("E1"), Blk(<<>>, Ctor0("E1", "A"))),
  Fn("mkc", <<Pm("x", T(t))>>, Named("E1"), Blk(<<>>, Ctor("E1", "C", <<V("x"), B(FALSE)>>))),
  Fn("use", <<Pm("x", T(t))>>, T(t),
     Blk(<<>>, Bin("add", Call("f", <<Call("mkb", <<V("x")>>)>>), Call("g", <<Call("mka", <<>>)>>))))>>

SOption(t) == <<
  Fn("half", <<Pm("x", T(t))>>, Opt(T(t)), Blk(<<>>,
     If(Bin("gt", V("x"), L(t, 1)), Blk(<<>>, Some(Bin("sub", V("x"), L(t, 1)))), Blk(<<>>, None)))),
  Fn("f", <<Pm("x", T(t))>>, Opt(T(t)), Blk(<<Let("h", T(t), Try(Call("half", <<V("x")>>)))>>,
     Some(Bin("add", V("h"), L(t, 1))))),
  Fn("g", <<Pm("o", Opt(T(t)))>>, T(t), Blk(<<>>, Match(V("o"), <<
      Arm("Some", <<"v">>, Blk(<<>>, V("v"))),
      Arm("None", <<>>, Blk(<<>>, L(t, 2)))>>))),
  Fn("d2", <<Pm("o", Opt(T(t)))>>, T(t), Blk(<<
      Let("v", T(t), Match(V("o"), <<
         Arm("Some", <<"q">>, Blk(<<>>, V("q"))),
         Arm("None", <<>>, BlkU(<<Ret("return", L(t, 3))>>))>>))>>, V("v")))>>

SLoops(t) == <<
  Fn("f", <<Pm("n", T(t))>>, T(t), Blk(<<
      Let("l", ListOf(T(t)), Lst(<<L(t, 1), V("n"), L(t, 3)>>)),
      Let("tot", T(t), L(t, 1)),
      For("y", V("l"), BlkU(<<Asg(<<"tot">>, Bin("add", V("tot"), V("y")))>>)),
      Let("i", T(t), L(t, 1)),
      While(Bin("lt", V("i"), V("n")), BlkU(<<Asg(<<"i">>, Bin("add", V("i"), L(t, 1)))>>))>>,
    Bin("add", V("tot"), V("i")))),
  Fn("sum", <<Pm("xs", ListOf(T(t)))>>, T(t), Blk(<<
      Let("s", T(t), L(t, 1)),
      For("e", V("xs"), BlkU(<<CAsg("add", <<"s">>, V("e"))>>))>>, V("s"))),
  Fn("lo", <<Pm("x", T(t))>>, ListOf(Opt(T(t))), Blk(<<>>, Lst(<<Some(V("x")), None>>))),
  Fn("ol", <<Pm("x", T(t))>>, Opt(ListOf(T(t))), Blk(<<>>, Some(Lst(<<V("x"), L(t, 2)>>)))),
  Fn("cat", <<Pm("x", T(t))>>, ListOf(T(t)), Blk(<<>>, Bin("add", Lst(<<V("x")>>), Lst(<<L(t, 1), L(t, 2)>>))))>>

SFilter(t) == <<
  Fm("fm", <<Pm("x", T(t))>>, Blk(<<>>,
     If(Bin("lt", V("x"), L(t, 3)), Blk(<<>>, Ret("accept", V("x"))), Blk(<<>>, Ret("reject", S("big")))))),
  Fm("fm2", <<Pm("x", T(t))>>, Blk(<<
      Let("y", T(t), Bin("add", V("x"), L(t, 1))),
      If1(Bin("eq", V("y"), L(t, 2)), BlkU(<<Ret0("accept")>>))>>, Ret0("reject"))),
  Fn("usefm", <<Pm("x", T(t))>>, T(t), Blk(<<>>, Match(Call("fm", <<V("x")>>), <<
      Arm("Accept", <<"v">>, Blk(<<>>, V("v"))),
      Arm("Reject", <<"r">>, Blk(<<>>, V("x")))>>)))>>

SConst(t) == <<
  ConstD("K1", T(t), L(t, 3)),
  ConstD("K2", T(t), Bin("add", V("K1"), Call("dbl", <<L(t, 2)>>))),
  ConstD("KB", Bool, Bin("lt", V("K1"), L(t, 4))),
  ConstD("KS", Str, Bin("add", S("a"), S("b"))),
  Fn("dbl", <<Pm("x", T(t))>>, T(t), Blk(<<>>, Bin("mul", V("x"), L(t, 2)))),
  Fn("f", <<>>, T(t), Blk(<<>>, If(V("KB"), Blk(<<>>, Bin("add", V("K1"), V("K2"))), Blk(<<>>, V("K1")))))>>

SMisc(t) == <<
  Fn("u", <<Pm("x", T(t))>>, T(t), Blk(<<
      Let("z", T(t), Blk(<<Let("q", T(t), Bin("add", V("x"), L(t, 1)))>>, Bin("mul", V("q"), L(t, 2))))>>, V("z"))),
  Fn("w", <<Pm("x", T(t))>>, T(t), Blk(<<
      If1(Bin("eq", V("x"), L(t, 1)), BlkU(<<Ret("return", L(t, 2))>>))>>, Bin("sub", V("x"), L(t, 1)))),
  Fn("d", <<Pm("x", T(t))>>, T(t), BlkU(<<
      If(Bin("gt", V("x"), L(t, 1)), BlkU(<<Ret("return", V("x"))>>), BlkU(<<Ret("return", L(t, 2))>>))>>)),
  Fn("nothing", <<Pm("x", T(t))>>, Unit, BlkU(<<Let("k", T(t), Bin("add", V("x"), L(t, 1))), Ret0("return")>>)),
  Fn("s", <<Pm("a", Str)>>, Str, Blk(<<Let("b", Str, Bin("add", V("a"), S("z"))), CAsg("add", <<"b">>, S("y"))>>, V("b"))),
  Fn("cmp", <<Pm("a", Str), Pm("b", Str)>>, Bool,
     Blk(<<>>, Bin("or", Bin("eq", V("a"), V("b")), Bin("ne", V("a"), S("q")))))>>

SNested(t) == <<
  RecordD("P1", <<Pm("x", T(t)), Pm("y", T(t))>>),
  RecordD("Q1", <<Pm("p", Named("P1")), Pm("o", Opt(T(t))), Pm("l", ListOf(T(t)))>>),
  Fn("mk", <<Pm("a", T(t))>>, Named("Q1"), Blk(<<>>, Rec("Q1", <<
      Fe("p", Rec("P1", <<Fe("x", V("a")), Fe("y", L(t, 2))>>)),
      Fe("o", Some(V("a"))),
      Fe("l", Lst(<<V("a")>>))>>))),
  Fn("g", <<Pm("q", Named("Q1"))>>, T(t), Blk(<<>>, Bin("add", Fld(Fld(V("q"), "p"), "x"), Fld(Fld(V("q"), "p"), "y")))),
  Fn("upd", <<Pm("q", Named("Q1")), Pm("a", T(t))>>, Named("Q1"), Blk(<<Asg(<<"q", "p", "x">>, V("a"))>>, V("q"))),
  Fn("an", <<Pm("x", T(t))>>, T(t), Blk(<<LetI("r", Rec("", <<Fe("a", V("x")), Fe("b", B(TRUE))>>))>>,
     If(Fld(V("r"), "b"), Blk(<<>>, Fld(V("r"), "a")), Blk(<<>>, L(t, 1)))))>>

SCalls(t) == <<
  Fn("f3", <<Pm("a", T(t)), Pm("b", Bool), Pm("c", Str)>>, T(t), Blk(<<>>,
     If(V("b"), Blk(<<>>, V("a")), Blk(<<>>, Call("f3", <<V("a"), B(TRUE), Bin("add", V("c"), S("s"))>>))))),
  Fn("caller", <<Pm("x", T(t))>>, T(t), Blk(<<>>, Call("f3", <<V("x"), Bin("gt", V("x"), L(t, 1)), S("s")>>))),
  Fn("lg", <<Pm("a", Bool), Pm("b", Bool), Pm("x", T(t))>>, Bool, Blk(<<>>,
     Bin("or", Bin("and", V("a"), V("b")), Bin("and", Not(V("a")), Bin("ge", V("x"), L(t, 2)))))),
  Fn("wl", <<Pm("a", Bool)>>, T(t), Blk(<<
      Let("r", T(t), L(t, 1)),
      While(Bin("and", V("a"), Bin("le", V("r"), L(t, 3))), BlkU(<<CAsg("add", <<"r">>, L(t, 1))>>))>>, V("r")))>>

SWidths == <<
  Fn("m", <<Pm("a", T("u8")), Pm("b", T("i64")), Pm("c", T("f64")), Pm("d", T("u32"))>>, T("i64"), Blk(<<
      Let("x", T("u8"), Bin("add", V("a"), I(1))),
      Let("y", T("f64"), Bin("mul", V("c"), F("2.5"))),
      Let("z", T("u32"), Bin("mod", V("d"), I(3)))>>,
    If(Bin("and", Bin("gt", V("x"), I(2)), Bin("lt", V("y"), F("1.5"))),
       Blk(<<>>, V("b")), Blk(<<>>, Bin("sub", V("b"), I(1)))))),
  Fn("li", <<>>, T("u8"), Blk(<<
      Let("a", T("u8"), I(200)),
      Let("b", T("i64"), Bin("add", IS(3, "i64"), I(4))),
      Let("c", T("f64"), Bin("add", F("1.5"), FS("2.0", "f64")))>>,
    If(Bin("and", Bin("gt", V("b"), I(5)), Bin("lt", V("c"), F("7.0"))), Blk(<<>>, V("a")), Blk(<<>>, IS(7, "u8"))))),
  Fn("sg", <<Pm("p", T("u16")), Pm("q", T("u64"))>>, T("u64"), Blk(<<>>,
     If(Bin("gt", V("p"), IS(3, "u16")), Blk(<<>>, V("q")), Blk(<<>>, IS(9, "u64")))))>>


(* inference contexts: integer-literal variables, record-literal variables, never, generic instantiation *)
SInfer(t) == <<
  Fn("f", <<Pm("x", T(t))>>, T(t), Blk(<<LetI("y", L(t, 5)), LetI("z", Bin("add", V("y"), L(t, 1)))>>, Bin("add", V("x"), V("z")))),
  Fn("g", <<Pm("x", T(t))>>, T(t), Blk(<<LetI("r", Rec("", <<Fe("a", V("x")), Fe("b", L(t, 2))>>))>>,
     Bin("add", Fld(V("r"), "a"), Fld(V("r"), "b")))),
  Fn("h", <<Pm("c", Bool), Pm("x", T(t))>>, T(t), Blk(<<
      LetI("v", If(V("c"), Blk(<<>>, V("x")), BlkU(<<Ret("return", V("x"))>>)))>>, V("v"))),
  Fn("o", <<Pm("x", T(t))>>, Opt(T(t)), Blk(<<LetI("n", None), LetI("s", Some(V("x")))>>,
     If(Bin("gt", V("x"), L(t, 1)), Blk(<<>>, V("s")), Blk(<<>>, V("n"))))),
  Fn("l", <<Pm("x", T(t))>>, ListOf(T(t)), Blk(<<LetI("e", Lst(<<>>)), LetI("k", Lst(<<V("x")>>))>>, Bin("add", V("k"), V("e")))),
  Fn("a", <<Pm("x", T(t))>>, T(t), Blk(<<
      Let("q", T(t), If(Bin("gt", V("x"), L(t, 1)), BlkU(<<Ret("return", L(t, 2))>>), Blk(<<>>, L(t, 3))))>>, V("q"))),
  Fn("b", <<Pm("p", Opt(T(t)))>>, T(t), Blk(<<>>, Match(V("p"), <<
      Arm("Some", <<"w">>, BlkU(<<Ret("return", V("w"))>>)),
      Arm("None", <<>>, BlkU(<<Ret("return", L(t, 1))>>))>>)))>>


(* enum with record / list payloads, `?` on a call result, matches inside loops *)
SShapes(t) == <<
  RecordD("P1", <<Pm("x", T(t)), Pm("y", T(t))>>),
  EnumD("Shape", <<Vr("Dot", <<>>), Vr("Box", <<Named("P1")>>), Vr("Many", <<ListOf(T(t))>>)>>),
  Fn("area", <<Pm("s", Named("Shape"))>>, T(t), Blk(<<>>, Match(V("s"), <<
      Arm("Dot", <<>>, Blk(<<>>, L(t, 1))),
      Arm("Box", <<"p">>, Blk(<<>>, Bin("mul", Fld(V("p"), "x"), Fld(V("p"), "y")))),
      Arm("Many", <<"l">>, Blk(<<Let("acc", T(t), L(t, 1)),
                                 For("e", V("l"), BlkU(<<CAsg("add", <<"acc">>, V("e"))>>))>>, V("acc")))>>))),
  Fn("mk", <<Pm("a", T(t))>>, Named("Shape"), Blk(<<>>,
     If(Bin("gt", V("a"), L(t, 1)),
        Blk(<<>>, Ctor("Shape", "Box", <<Rec("P1", <<Fe("x", V("a")), Fe("y", V("a"))>>)>>)),
        Blk(<<>>, Ctor("Shape", "Many", <<Lst(<<V("a"), L(t, 2)>>)>>))))),
  Fn("opt", <<Pm("s", Named("Shape"))>>, Opt(Named("P1")), Blk(<<>>, Match(V("s"), <<
      Arm("Box", <<"p2">>, Blk(<<>>, Some(V("p2")))),
      Arm("_", <<>>, Blk(<<>>, None))>>))),
  Fn("chain", <<Pm("s", Named("Shape"))>>, Opt(T(t)), Blk(<<
      Let("p3", Named("P1"), Try(Call("opt", <<V("s")>>)))>>, Some(Fld(V("p3"), "x")))),
  Fn("total", <<Pm("ss", ListOf(Named("Shape")))>>, T(t), Blk(<<
      Let("sum", T(t), L(t, 1)),
      For("sh", V("ss"), BlkU(<<Match(V("sh"), <<
          Arm("Dot", <<>>, BlkU(<<>>)),
          Arm("Box", <<"bx">>, BlkU(<<CAsg("add", <<"sum">>, Fld(V("bx"), "x"))>>)),
          Arm("Many", <<"ml">>, BlkU(<<Asg(<<"sum">>, Bin("add", V("sum"), Call("area", <<V("sh")>>)))>>))>>)>>))>>,
    V("sum")))>>

(* if-else chains as values, nested loops with early return, nested blocks *)
SCtl(t) == <<
  Fn("sign", <<Pm("x", T(t))>>, T(t), Blk(<<>>,
     If(Bin("gt", V("x"), L(t, 2)), Blk(<<>>, L(t, 3)),
        Blk(<<>>, If(Bin("eq", V("x"), L(t, 2)), Blk(<<>>, L(t, 2)), Blk(<<>>, L(t, 1))))))),
  Fn("loop2", <<Pm("n", T(t))>>, T(t), Blk(<<
      Let("i", T(t), L(t, 1)),
      Let("acc", T(t), L(t, 1)),
      While(Bin("lt", V("i"), V("n")), BlkU(<<
          Let("j", T(t), L(t, 1)),
          While(Bin("lt", V("j"), V("i")), BlkU(<<CAsg("add", <<"acc">>, V("j")), CAsg("add", <<"j">>, L(t, 1))>>)),
          If1(Bin("gt", V("acc"), L(t, 3)), BlkU(<<Ret("return", V("acc"))>>)),
          CAsg("add", <<"i">>, L(t, 1))>>))>>, V("acc"))),
  Fn("pick", <<Pm("c", Bool), Pm("d", Bool), Pm("x", T(t))>>, T(t), Blk(<<
      Let("r", T(t), If(Bin("and", V("c"), Not(V("d"))),
                        Blk(<<Let("k", T(t), Bin("add", V("x"), L(t, 1)))>>, V("k")),
                        Blk(<<>>, Blk(<<Let("m", T(t), Bin("sub", V("x"), L(t, 1)))>>, Bin("mul", V("m"), L(t, 2))))))>>,
    Bin("add", V("r"), Call("sign", <<V("r")>>))))>>

(* addresses and prefixes: the one operator whose result type differs from its left operand *)
SIp == <<
  Fn("pfx", <<Pm("a", T("IpAddr")), Pm("n", T("u8"))>>, T("Prefix"), Blk(<<
      Let("p", T("Prefix"), Bin("div", V("a"), V("n")))>>, V("p"))),
  Fn("keep", <<Pm("a", T("IpAddr")), Pm("c", Bool)>>, T("IpAddr"), Blk(<<
      LetI("x", V("a")),
      If1(V("c"), BlkU(<<Asg(<<"x">>, Ip(1))>>)),
      Let("q", T("Prefix"), Bin("div", V("x"), I(24)))>>, V("x"))),
  RecordD("Host", <<Pm("addr", T("IpAddr")), Pm("w", T("u8"))>>),
  Fn("host", <<Pm("h", Named("Host"))>>, T("Prefix"), Blk(<<
      LetI("g", V("h")),
      Asg(<<"g", "addr">>, Ip(2))>>, Bin("div", Fld(V("g"), "addr"), Fld(V("g"), "w"))))>>

(* a filtermap over a record, matching on a call result, accept with a value *)
SFm(t) == <<
  RecordD("Msg", <<Pm("v", T(t)), Pm("ok", Bool)>>),
  Fn("score", <<Pm("m", Named("Msg"))>>, T(t), Blk(<<>>, If(Fld(V("m"), "ok"), Blk(<<>>, Fld(V("m"), "v")), Blk(<<>>, L(t, 1))))),
  Fn("mkopt", <<Pm("x", T(t))>>, Opt(T(t)), Blk(<<>>, If(Bin("gt", V("x"), L(t, 2)), Blk(<<>>, Some(V("x"))), Blk(<<>>, None)))),
  Fm("keep", <<Pm("m", Named("Msg")), Pm("lim", T(t))>>, Blk(<<
      Let("s", T(t), Call("score", <<V("m")>>)),
      Match(Call("mkopt", <<V("s")>>), <<
         Arm("Some", <<"q">>, BlkU(<<If1(Bin("gt", V("q"), V("lim")), Blk(<<>>, Ret("accept", V("q"))))>>)),
         Arm("None", <<>>, BlkU(<<>>))>>)>>, Ret0("reject"))),
  Fn("mkmsg", <<Pm("x", T(t))>>, Named("Msg"), Blk(<<>>, Rec("Msg", <<Fe("v", V("x")), Fe("ok", Bin("ge", V("x"), L(t, 1)))>>)))>>

(* cls: "plain" | "base" (a seed the renaming operator is applied to) | "ns" (a seed that declares a namesake) *)
Seed(name, ds) == [name |-> name, prog |-> Flat(ds), cls |-> "plain"]

(* scopes: lets of scalar, String and List type in then / else-if / else blocks, nested blocks, *)
(* match arms, loop bodies; every name is unique in its function                                 *)
SScope(t) == <<
  Fn("sc1", <<Pm("c", Bool), Pm("x", T(t))>>, T(t), Blk(<<>>,
     If(V("c"),
        Blk(<<Let("a1", T(t), Bin("add", V("x"), L(t, 1))), Let("s1", Str, S("h")), Let("l1", ListOf(T(t)), Lst(<<V("x")>>))>>, V("a1")),
        Blk(<<>>, If(Bin("gt", V("x"), L(t, 1)),
                     Blk(<<Let("b1", T(t), V("x"))>>, V("b1")),
                     Blk(<<>>, Blk(<<Let("d1", T(t), V("x"))>>, V("d1")))))))),
  Fn("sc2", <<Pm("c", Bool), Pm("s", Str)>>, Str, Blk(<<>>,
     If(V("c"), Blk(<<Let("s2", Str, Bin("add", V("s"), S("a")))>>, V("s2")),
                Blk(<<Let("e2", Str, Bin("add", V("s"), S("b")))>>, V("e2"))))),
  Fn("sc3", <<Pm("o", Opt(T(t))), Pm("y", T(t))>>, T(t), Blk(<<>>, Match(V("o"), <<
      Arm("Some", <<"v3">>, Blk(<<Let("w3", T(t), Bin("add", V("v3"), V("y")))>>, V("w3"))),
      Arm("None", <<>>, Blk(<<Let("n3", T(t), V("y")), Let("m3", Str, S("n"))>>, V("n3")))>>))),
  Fn("sc4", <<Pm("z", T(t))>>, T(t), Blk(<<
      Let("i4", T(t), L(t, 1)),
      While(Bin("lt", V("i4"), V("z")), BlkU(<<Let("t4", T(t), Bin("add", V("i4"), L(t, 1))), Asg(<<"i4">>, V("t4"))>>)),
      For("e4", Lst(<<V("z")>>), BlkU(<<Let("f4", T(t), V("e4")), Asg(<<"i4">>, V("f4"))>>)),
      BlkU(<<Let("g4", Str, S("z")), Let("h4", ListOf(Str), Lst(<<V("g4")>>))>>),
      If1(Bin("gt", V("i4"), V("z")), BlkU(<<Let("k4", T(t), V("z")), Asg(<<"i4">>, V("k4"))>>))>>, V("i4"))),
  Fn("sc5", <<Pm("ls", ListOf(Str))>>, Str, Blk(<<
      Let("r5", Str, S("")),
      For("q5", V("ls"), BlkU(<<Let("u5", Str, Bin("add", V("q5"), S("x"))), Asg(<<"r5">>, V("u5"))>>))>>, V("r5")))>>

(* type declarations drawn from a small grammar: the subject type TA (record or enum) has        *)
(* 1..MaxMembers members of the non-recursive shapes below; helper declarations: a generic G1,   *)
(* a plain record B1 and three types that refer back to TA (directly, under Option, under List). *)
(* The programs consist of declarations only, so an added member breaks no other rule.           *)
TPar(n)     == [k |-> "tparam", n |-> n]
Gen(n, as)  == [k |-> "gen", n |-> n, as |-> as]
U32         == T("u32")
TyHelpers == <<
  [k |-> "record", n |-> "G1", tp |-> <<"T">>, fs |-> <<Pm("v", TPar("T"))>>],
  RecordD("B1", <<Pm("v", U32)>>),
  RecordD("B2", <<Pm("back", Named("TA"))>>),
  RecordD("B3", <<Pm("back", Opt(Named("TA")))>>),
  RecordD("B4", <<Pm("n", ListOf(Str)), Pm("back", ListOf(Named("TA")))>>)>>
BaseShapes == <<U32, Opt(U32), ListOf(U32), Gen("G1", <<U32>>), Named("B1")>>
(* member types that make TA recursive: directly, under Option / List / a user generic, nested, *)
(* and through a second type that refers back                                                   *)
RecShapes == <<Named("TA"), Opt(Named("TA")), ListOf(Named("TA")), Gen("G1", <<Named("TA")>>),
               Opt(ListOf(Named("TA"))), ListOf(Opt(Named("TA"))), Gen("G1", <<Opt(Named("TA"))>>),
               Named("B2"), Opt(Named("B3")), ListOf(Named("B4")), Gen("G1", <<Named("B2")>>)>>
Digit == <<"1", "2", "3", "4", "5", "6", "7", "8", "9">>
ShapeSeqs == UNION {[1..k -> DOMAIN BaseShapes] : k \in 1..MaxMembers}
RECURSIVE Code(_)
Code(sq) == IF sq = <<>> THEN "" ELSE Digit[Head(sq)] \o Code(Tail(sq))
TyDecl(kind, sq) ==
  IF kind = "record" THEN RecordD("TA", [x \in DOMAIN sq |-> Pm("m" \o Digit[x], BaseShapes[sq[x]])])
  ELSE EnumD("TA", [x \in DOMAIN sq |-> Vr("V" \o Digit[x], <<BaseShapes[sq[x]]>>)])
TypeSeeds == {Seed("ty_" \o kind \o "_" \o Code(sq), TyHelpers \o <<TyDecl(kind, sq)>>) : kind \in {"record", "enum"}, sq \in ShapeSeqs}


(* ------------------------------------------------------------- method calls *)
(* Legal uses of the built-in methods (Typing.tla "methods"), with receivers of *)
(* every syntactic form: a parameter, a field path, a call result, a list /    *)
(* string / suffixed number literal, an operator expression, another method     *)
(* call, `?`.  Every function takes the same pack of parameters of different    *)
(* types, so that the edit "another variable as the receiver" has candidates.   *)
LS(t, v) == IF t \in FloatK THEN FS(<<"1.5", "2.5", "3.0", "4.25", "7.0">>[v], t) ELSE IS(v, t)
MPack(t) == <<Pm("s", Str), Pm("p", Str), Pm("ls", ListOf(Str)), Pm("lt", ListOf(T(t))), Pm("n", T("u64")), Pm("x", T(t)), Pm("b", Bool)>>
Add3(a, b, c) == Bin("add", a, Bin("add", b, c))

SMStrA == LET pk == MPack("i32") IN <<
  Fn("st1", pk, Bool, Blk(<<>>,
     Bin("and", MC(V("s"), "contains", <<V("p")>>),
         Bin("or", MC(V("s"), "starts_with", <<S("a")>>),
             Bin("or", MC(V("p"), "ends_with", <<V("s")>>), MC(V("s"), "eq", <<V("p")>>)))))),
  Fn("st2", pk, Str, Blk(<<>>,
     MC0(MC0(MC0(MC0(MC0(MC0(MC(MC(MC(V("s"), "append", <<V("p")>>), "repeat", <<V("n")>>), "replace", <<S("a"), V("p")>>),
        "to_lowercase"), "to_uppercase"), "trim"), "trim_start"), "trim_end"), "to_string")))>>
SMStrB == LET pk == MPack("i32") IN <<
  Fn("st3", pk, ListOf(Str), Blk(<<
      Let("a", ListOf(Str), MC(V("s"), "split", <<V("p")>>)),
      Let("c", ListOf(Str), MC(V("s"), "splitn", <<V("n"), S(",")>>)),
      LetI("d", MC(V("p"), "rsplitn", <<I(2), V("s")>>))>>,
    MC(MC(V("a"), "concat", <<V("c")>>), "concat", <<V("d")>>))),
  Fn("st4", pk, Opt(Str), Blk(<<Let("q", Str, Try(MC(V("s"), "strip_prefix", <<V("p")>>)))>>, MC(V("q"), "strip_suffix", <<S("z")>>)))>>
SMStrC == LET pk == MPack("i32") IN <<
  Fn("st5", pk, Str, Blk(<<>>,
     Add3(MC(V("ls"), "join", <<V("p")>>), MC(Lst(<<S("a"), V("s")>>), "join", <<S(", ")>>),
          Add3(MC(MC(V("s"), "split", <<S(",")>>), "join", <<V("s")>>), MC0(S("lit"), "to_uppercase"),
               Add3(MC0(V("x"), "to_string"), MC0(V("b"), "to_string"), MC0(V("n"), "to_string"))))))>>
SMStrD == <<
  RecordD("MR", <<Pm("flags", ListOf(Str)), Pm("nums", ListOf(T("i32"))), Pm("name", Str), Pm("cnt", T("i32")), Pm("on", Bool)>>),
  Fn("st6", <<Pm("r", Named("MR")), Pm("p", Str)>>, Str, Blk(<<>>,
     Add3(MC(Fld(V("r"), "flags"), "join", <<Fld(V("r"), "name")>>), MC0(Fld(V("r"), "cnt"), "to_string"), MC0(Fld(V("r"), "name"), "trim")))),
  Fn("mkl", <<>>, ListOf(Str), Blk(<<>>, Lst(<<S("a")>>))),
  Fn("st7", <<Pm("p", Str), Pm("k", T("i32"))>>, Str, Blk(<<>>, MC(Call("mkl", <<>>), "join", <<V("p")>>)))>>

SMListA(t) == LET pk == MPack(t) IN <<
  Fn("l1", pk, T("u64"), Blk(<<>>, Add3(MC0(V("lt"), "len"), MC0(V("lt"), "capacity"), MC0(V("ls"), "len")))),
  Fn("l2", pk, Bool, Blk(<<>>,
     Bin("or", MC(V("lt"), "contains", <<V("x")>>),
         Bin("or", MC0(V("lt"), "is_empty"),
             Bin("or", MC(V("ls"), "contains", <<V("s")>>), MC(Lst(<<V("x"), L(t, 2)>>), "contains", <<V("x")>>)))))),
  Fn("l3", pk, Opt(T(t)), Blk(<<>>, MC(V("lt"), "get", <<V("n")>>))),
  Fn("l4", pk, T(t), Blk(<<>>, Match(MC(V("lt"), "get", <<I(1)>>), <<
      Arm("Some", <<"v">>, Blk(<<>>, V("v"))),
      Arm("None", <<>>, Blk(<<>>, V("x")))>>)))>>
SMListB(t) == LET pk == MPack(t) IN <<
  Fn("l5", pk, Opt(T("u64")), Blk(<<>>, MC(V("lt"), "index", <<V("x")>>))),
  Fn("l6", pk, ListOf(T(t)), Blk(<<
      MC(V("lt"), "push", <<V("x")>>),
      MC(V("lt"), "swap", <<V("n"), I(1)>>),
      MC(V("ls"), "push", <<V("s")>>)>>,
    MC(MC(V("lt"), "concat", <<Lst(<<V("x")>>)>>), "concat", <<V("lt")>>))),
  Fn("l7", <<Pm("ll", ListOf(ListOf(Str))), Pm("lt", ListOf(T(t))), Pm("n", T("u64"))>>, Opt(Str),
     Blk(<<>>, Some(MC(Try(MC(V("ll"), "get", <<V("n")>>)), "join", <<S(",")>>)))),
  Fn("l8", pk, Str, Blk(<<>>,
     Add3(MC0(V("x"), "to_string"), MC0(Bin("add", V("x"), L(t, 2)), "to_string"), MC0(LS(t, 3), "to_string"))))>>
  \o (IF t \in FloatK THEN <<
  Fn("fl1", <<Pm("x", T(t)), Pm("y", T(t)), Pm("k", T("i32")), Pm("s", Str)>>, T(t), Blk(<<>>,
     MC(MC0(MC0(MC0(MC0(MC0(V("x"), "abs"), "ceil"), "floor"), "round"), "sqrt"), "pow", <<V("y")>>))),
  Fn("fl2", <<Pm("x", T(t)), Pm("y", T(t)), Pm("k", T("i32")), Pm("s", Str)>>, Bool, Blk(<<>>,
     Bin("or", MC0(V("x"), "is_nan"), Bin("or", MC0(V("x"), "is_finite"), MC0(Neg(V("y")), "is_infinite")))))>> ELSE <<>>)

SMIp == LET pk == <<Pm("a", T("IpAddr")), Pm("q", T("Prefix")), Pm("w", T("u8")), Pm("s", Str)>> IN <<
  Fn("ip1", pk, Bool, Blk(<<>>,
     Bin("or", MC0(V("a"), "is_ipv4"),
         Bin("or", MC0(V("a"), "is_ipv6"),
             Bin("or", MC(V("a"), "eq", <<MC0(V("a"), "to_canonical")>>), MC(V("q"), "eq", <<V("q")>>)))))),
  Fn("ip2", pk, Str, Blk(<<>>, Add3(MC0(V("a"), "to_string"), MC0(V("q"), "to_string"), MC0(MC0(V("q"), "len"), "to_string")))),
  Fn("ip3", pk, T("IpAddr"), Blk(<<>>,
     If(MC(MC0(V("q"), "addr"), "eq", <<MC0(V("q"), "min_addr")>>),
        Blk(<<>>, MC0(V("q"), "max_addr")), Blk(<<>>, MC0(Bin("div", V("a"), V("w")), "addr")))))>>

MethodSeeds ==
  {Seed("mstr_a", SMStrA), Seed("mstr_b", SMStrB), Seed("mstr_c", SMStrC), Seed("mstr_d", SMStrD), Seed("mip", SMIp)}
  \cup {Seed("mlist_a_" \o t, SMListA(t)) : t \in NumTys}
  \cup {Seed("mlist_b_" \o t, SMListB(t)) : t \in NumTys}

(* --------------------------------------------------- divergence accounting *)
(* A construct diverges only if EVERY way through it exits.  A SHAPE is a      *)
(* statement built from the exit block X (`{ return e; }`, in a filtermap the  *)
(* `{ accept .. ; }` / `{ reject; }` it ended in) and the empty block F:        *)
(*   if1(a)        if true { a }                  never diverges               *)
(*   ifelse(a, b)  if true { a } else { b }       diverges iff a and b do      *)
(*   while(a)      while false { a }              never (the body may not run) *)
(*   for(a)        for zz_it in [0] { a }         never                        *)
(*   and(a) or(a)  true && { a } / false || { a } never (the operand may be    *)
(*                                                skipped)                     *)
(*   match(f, as)  match Some(1) { arms of form f with the bodies as }         *)
(*                 diverges iff EVERY arm does: guarded or not, `_` or not      *)
(* AllExit is this rule, written on the shapes; the invariants hold it against *)
(* the judgement of Typing.tla in both directions: a function that must return *)
(* a value and ENDS in the statement of a shape is ill typed unless AllExit    *)
(* (MutantIllTyped, family fallthrough-after-branch), well typed if AllExit    *)
(* (the twin seeds, SeedWellTyped).                                            *)
Lf(s)   == [s |-> s, f |-> <<>>, ch |-> <<>>]
Ex      == Lf("exit")
Fa      == Lf("fall")
AF(v, g) == [v |-> v, g |-> g]
(* arm forms: variant (or `_`) and whether the arm has a guard *)
MatchForms == <<
  <<AF("Some", TRUE), AF("Some", FALSE), AF("None", FALSE)>>,    \* 1 guarded variant arm before the unguarded one
  <<AF("Some", FALSE), AF("None", FALSE)>>,                      \* 2 no guards
  <<AF("Some", FALSE), AF("_", FALSE)>>,                         \* 3 `_` arm
  <<AF("Some", FALSE), AF("_", TRUE), AF("None", FALSE)>>,       \* 4 guarded `_` arm
  <<AF("Some", TRUE), AF("_", FALSE)>>,                          \* 5 guard on the only arm of a variant, plus `_`
  <<AF("None", FALSE), AF("Some", TRUE), AF("_", FALSE)>>,       \* 6 the same after an arm for the other variant
  <<AF("Some", TRUE), AF("None", TRUE), AF("_", FALSE)>>>>       \* 7 every variant arm guarded
SkipKinds == {"if1", "while", "for", "and", "or"}
Conts == {[s |-> "if1", f |-> <<>>, n |-> 1], [s |-> "ifelse", f |-> <<>>, n |-> 2]}
         \cup {[s |-> w, f |-> <<>>, n |-> 1] : w \in {"while", "for", "and", "or"}}
         \cup {[s |-> "match", f |-> MatchForms[x], n |-> Len(MatchForms[x])] : x \in DOMAIN MatchForms}
Sh(c, ch) == [s |-> c.s, f |-> c.f, ch |-> IF c.n = 1 THEN <<ch[1]>> ELSE IF c.n = 2 THEN <<ch[1], ch[2]>> ELSE <<ch[1], ch[2], ch[3]>>]
RECURSIVE AllExit(_), HasExit(_), ShTags(_), ShCode(_)
AllExit(sh) ==
  CASE sh.s = "exit" -> TRUE
    [] sh.s = "fall" -> FALSE
    [] sh.s \in SkipKinds -> FALSE
    [] OTHER -> \A x \in DOMAIN sh.ch : AllExit(sh.ch[x])
HasExit(sh) == sh.s = "exit" \/ \E x \in DOMAIN sh.ch : HasExit(sh.ch[x])
IsLeaf(sh) == sh.s \in {"exit", "fall"}
(* shapes whose parts are taken from C; shapes with ONE part from X and exit blocks elsewhere *)
FullShapes(C)  == UNION {{Sh(c, ch) : ch \in [1..c.n -> C]} : c \in Conts}
NestShapes(X)  == UNION {{Sh(c, [y \in 1..c.n |-> IF y = z[1] THEN z[2] ELSE Ex]) : z \in (1..c.n) \X X} : c \in Conts}
Depth1 == FullShapes({Ex, Fa})
Depth2 == NestShapes({x \in Depth1 : HasExit(x)})
(* the shapes with at most one empty block, without the loops / && / || of the older families *)
CoreShapes == {sh \in Depth1 : sh.s \in {"if1", "ifelse", "match"} /\ Cardinality({x \in DOMAIN sh.ch : sh.ch[x] = Fa}) <= 1}
FormIdx(f) == CHOOSE x \in DOMAIN MatchForms : MatchForms[x] = f
(* what a shape contains (for the anti-vacuity guard of the check) *)
ShTags(sh) ==
  IF IsLeaf(sh) THEN {}
  ELSE {sh.s} \cup (IF \E x \in DOMAIN sh.ch : ~IsLeaf(sh.ch[x]) THEN {"nested"} ELSE {})
       \cup UNION {ShTags(sh.ch[x]) : x \in DOMAIN sh.ch}
       \cup (IF sh.s # "match" THEN {} ELSE
             {"form" \o Digit[FormIdx(sh.f)]}
             \cup UNION {IF AllExit(sh.ch[x]) THEN {}
                         ELSE {(IF sh.f[x].g THEN "guarded-" ELSE "unguarded-") \o (IF sh.f[x].v = "_" THEN "wildcard" ELSE "variant") \o "-arm-falls"}
                         : x \in DOMAIN sh.ch}
             \cup (IF (\A x \in DOMAIN sh.ch : ~sh.f[x].g => AllExit(sh.ch[x])) /\ (\E x \in DOMAIN sh.ch : sh.f[x].g /\ ~AllExit(sh.ch[x]))
                   THEN {"only-guarded-arms-fall"} ELSE {}))
HasGuardedWild(sh) == "form4" \in ShTags(sh)
ShCode(sh) ==
  CASE sh.s = "exit" -> "X"
    [] sh.s = "fall" -> "F"
    [] OTHER -> (IF sh.s = "match" THEN "m" \o Digit[FormIdx(sh.f)] ELSE sh.s) \o "("
                \o ShCode(sh.ch[1]) \o (IF Len(sh.ch) > 1 THEN ShCode(sh.ch[2]) ELSE "") \o (IF Len(sh.ch) > 2 THEN ShCode(sh.ch[3]) ELSE "") \o ")"

(* the statement / block of a shape as a nested tree; xb: the exit block *)
RECURSIVE ShStmt(_, _), ShBlock(_, _)
ShBlock(sh, xb) ==
  CASE sh.s = "exit" -> xb
    [] sh.s = "fall" -> BlkU(<<>>)
    [] OTHER -> BlkU(<<ShStmt(sh, xb)>>)
(* the right operand of && / ||: a block of type bool unless it exits *)
ShOperand(sh, xb) ==
  CASE sh.s = "exit" -> xb
    [] sh.s = "fall" -> Blk(<<>>, B(TRUE))
    [] OTHER -> Blk(<<ShStmt(sh, xb)>>, B(TRUE))
ShStmt(sh, xb) ==
  CASE sh.s = "if1"    -> If1(B(TRUE), ShBlock(sh.ch[1], xb))
    [] sh.s = "ifelse" -> If(B(TRUE), ShBlock(sh.ch[1], xb), ShBlock(sh.ch[2], xb))
    [] sh.s = "while"  -> While(B(FALSE), ShBlock(sh.ch[1], xb))
    [] sh.s = "for"    -> For("zz_it", Lst(<<I(0)>>), ShBlock(sh.ch[1], xb))
    [] sh.s \in {"and", "or"} -> Bin(sh.s, B(sh.s = "and"), ShOperand(sh.ch[1], xb))
    [] sh.s = "match"  ->
         Match(SomeB(I(1)), [x \in DOMAIN sh.f |->
            LET a == sh.f[x]
                bs == IF a.v = "Some" THEN <<"zz_v">> ELSE <<>>
            IN IF a.g THEN ArmG(a.v, bs, B(TRUE), ShBlock(sh.ch[x], xb)) ELSE Arm(a.v, bs, ShBlock(sh.ch[x], xb))])

(* seeds: functions of different result types and filtermaps, plus legal blocks that END in a statement *)
(* (one small program per group of functions: the judgement is evaluated on the whole program for every shape) *)
SDivA(t) == <<
  Fn("dv1", <<Pm("x", T(t)), Pm("c", Bool)>>, T(t), Blk(<<Let("y", T(t), Bin("add", V("x"), L(t, 1)))>>, Bin("mul", V("y"), L(t, 2))))>>
SDivB(t) == <<
  Fn("dv2", <<Pm("s", Str)>>, Str, Blk(<<>>, Bin("add", V("s"), S("z")))),
  Fn("dv3", <<Pm("o", Opt(T(t)))>>, Opt(T(t)), Blk(<<LetI("k", V("o"))>>, V("k")))>>
SDivC(t) == <<
  Fm("dv4", <<Pm("x", T(t))>>, Blk(<<Let("k", T(t), V("x"))>>, Ret("accept", V("k")))),
  Fm("dv5", <<Pm("x", T(t))>>, Blk(<<>>, Ret0("reject")))>>
SDivD(t) == <<
  Fn("dv6", <<Pm("o", Opt(T(t))), Pm("x", T(t))>>, T(t), BlkU(<<Match(V("o"), <<
      ArmG("Some", <<"v">>, Bin("gt", V("v"), L(t, 3)), BlkU(<<Ret("return", V("v"))>>)),
      Arm("Some", <<"w">>, BlkU(<<If(Bin("lt", V("w"), V("x")), BlkU(<<Ret("return", V("w"))>>), BlkU(<<Ret("return", V("x"))>>))>>)),
      Arm("None", <<>>, BlkU(<<Ret("return", V("x"))>>))>>)>>)),
  Fn("dv7", <<Pm("o", Opt(T(t))), Pm("x", T(t))>>, T(t), Blk(<<Match(V("o"), <<
      ArmG("Some", <<"v">>, Bin("gt", V("v"), L(t, 3)), BlkU(<<>>)),
      Arm("_", <<>>, BlkU(<<Ret("return", V("x"))>>))>>)>>, V("x")))>>
DivSeeds == UNION {{Seed("div_a_" \o t, SDivA(t)), Seed("div_b_" \o t, SDivB(t)), Seed("div_c_" \o t, SDivC(t)), Seed("div_d_" \o t, SDivD(t))} : t \in DivTys}

(* ------------------------------------------------------------------ namesakes *)
(* The namesake dimension: a script type declared under the name of a built-in  *)
(* type (Typing.tla, "name resolution").  Two generators of well-typed seeds:    *)
(*  (a) templates SNs(N, kind, t): the type N (record / enum / generic enum) is  *)
(*      declared, built, taken apart, copied, passed and returned, written both  *)
(*      as Named(N) and as the bare primitive name; the SAME module also uses    *)
(*      the built-in N through the forms that cannot be shadowed (literals,      *)
(*      operators, `T?`, bare Some / None, `?`, filtermap verdicts, for loops);  *)
(*  (b) the renaming operator Rename(P, old, N) applied to the seeds that        *)
(*      declare types: the judgement decides whether the renamed program is      *)
(*      still well typed (then it is a seed, class "ns") or not (then it is a    *)
(*      certified mutant of the family namesake-shadow, e.g. record bool with a  *)
(*      field of type bool is recursive, Option.Some(x) builds the script's      *)
(*      Option where a `T?` is expected).                                        *)
SomeFor(N, e) == IF N = "Option" THEN SomeB(e) ELSE Some(e)
NsVars(N) == CASE N = "Option"  -> <<"None", "Some">>
               [] N = "Verdict" -> <<"Reject", "Accept">>
               [] N = "Result"  -> <<"Err", "Ok">>
               [] OTHER         -> <<"Nil", "Val">>
(* the namesake written as the bare primitive name: the same type after resolution *)
NsW(N) == IF N \in PrimK THEN T(N) ELSE Named(N)

(* legal uses of the BUILT-IN called N in a module that declares its own N *)
NsBuiltinUse(N, t) ==
  CASE N = "Option" -> <<
         Fn("bo", <<Pm("o", Opt(T(t)))>>, Opt(T(t)), Blk(<<Let("h", T(t), Try(V("o")))>>,
            If(Bin("gt", V("h"), L(t, 1)), Blk(<<>>, SomeB(V("h"))), Blk(<<>>, NoneB)))),
         Fn("bm", <<Pm("o", Opt(Opt(T(t))))>>, T(t), Blk(<<>>, Match(V("o"), <<
            Arm("Some", <<"q">>, Blk(<<>>, Match(V("q"), <<Arm("Some", <<"r">>, Blk(<<>>, V("r"))), Arm("None", <<>>, Blk(<<>>, L(t, 1)))>>))),
            Arm("None", <<>>, Blk(<<>>, L(t, 2)))>>)))>>
    [] N = "String" -> <<
         Fn("bs", <<Pm("a", T(t))>>, T(t), Blk(<<LetI("s", Bin("add", S("a"), S("b"))), LetI("u", Bin("add", V("s"), S("c")))>>,
            If(Bin("eq", V("u"), S("abc")), Blk(<<>>, V("a")), Blk(<<>>, L(t, 1)))))>>
    [] N = "bool" -> <<
         Fn("bb", <<Pm("a", T(t))>>, T(t), Blk(<<LetI("c", Bin("and", Bin("gt", V("a"), L(t, 1)), Not(B(FALSE))))>>,
            If(Bin("or", V("c"), B(TRUE)), Blk(<<>>, V("a")), Blk(<<>>, L(t, 1)))))>>
    [] N \in IntK -> <<
         Fn("bn", <<Pm("a", T(t))>>, T(t), Blk(<<LetI("k", Bin("add", IS(1, N), IS(2, N)))>>,
            If(Bin("lt", V("k"), IS(3, N)), Blk(<<>>, V("a")), Blk(<<>>, L(t, 1)))))>>
    [] N \in FloatK -> <<
         Fn("bn", <<Pm("a", T(t))>>, T(t), Blk(<<LetI("k", Bin("mul", FS("1.5", N), FS("2.5", N)))>>,
            If(Bin("lt", V("k"), FS("7.0", N)), Blk(<<>>, V("a")), Blk(<<>>, L(t, 1)))))>>
    [] N = "List" -> <<
         Fn("bl", <<Pm("a", T(t))>>, T(t), Blk(<<
            LetI("l", Bin("add", Lst(<<V("a")>>), Lst(<<L(t, 1)>>))),
            Let("tot", T(t), V("a")),
            For("e", V("l"), BlkU(<<CAsg("add", <<"tot">>, V("e"))>>))>>, V("tot")))>>
    [] N = "Verdict" -> <<
         Fm("bf", <<Pm("a", T(t))>>, Blk(<<>>,
            If(Bin("lt", V("a"), L(t, 3)), Blk(<<>>, Ret("accept", V("a"))), Blk(<<>>, Ret("reject", V("a")))))),
         Fn("bv", <<Pm("b", T(t))>>, T(t), Blk(<<>>, Match(Call("bf", <<V("b")>>), <<
            Arm("Accept", <<"v">>, Blk(<<>>, V("v"))),
            Arm("Reject", <<"r">>, Blk(<<>>, V("r")))>>)))>>
    [] N = "IpAddr" -> <<
         Fn("bi", <<Pm("n", T("u8"))>>, T("Prefix"), Blk(<<LetI("i", Ip(1))>>, Bin("div", V("i"), V("n"))))>>
    [] OTHER -> <<>>

NsMix(N, ty, t, e) ==
  Fn("mix", <<Pm("x", ty), Pm("o", Opt(T(t)))>>, Opt(T(t)), Blk(<<Let("h", T(t), Try(V("o")))>>, SomeFor(N, e)))

SNs(N, kind, t) ==
  LET v1 == NsVars(N)[1]
      v2 == NsVars(N)[2]
      G  == Gen(N, <<T(t)>>)
  IN
  CASE kind = "record" -> <<
         RecordD(N, <<Pm("v", T(t)), Pm("w", T(t))>>),
         Fn("mk", <<Pm("a", T(t))>>, Named(N), Blk(<<>>, Rec(N, <<Fe("v", V("a")), Fe("w", L(t, 2))>>))),
         Fn("co", <<Pm("a", T(t))>>, NsW(N), Blk(<<>>, Rec("", <<Fe("w", L(t, 1)), Fe("v", V("a"))>>))),
         Fn("get", <<Pm("x", Named(N))>>, T(t), Blk(<<>>, Bin("add", Fld(V("x"), "v"), Fld(V("x"), "w")))),
         Fn("upd", <<Pm("x", NsW(N)), Pm("a", T(t))>>, Named(N),
            Blk(<<Let("y", NsW(N), V("x")), Asg(<<"y", "v">>, V("a"))>>, V("y"))),
         NsMix(N, Named(N), t, Bin("add", V("h"), Call("get", <<V("x")>>))),
         Fn("use", <<Pm("a", T(t))>>, T(t), Blk(<<>>, Call("get", <<Call("upd", <<Call("co", <<V("a")>>), L(t, 3)>>)>>)))>>
         \o NsBuiltinUse(N, t)
    [] kind = "enum" -> <<
         EnumD(N, <<Vr(v1, <<>>), Vr(v2, <<T(t)>>)>>),
         Fn("mk", <<Pm("a", T(t))>>, Named(N), Blk(<<>>,
            If(Bin("gt", V("a"), L(t, 1)), Blk(<<>>, Ctor(N, v2, <<V("a")>>)), Blk(<<>>, Ctor0(N, v1))))),
         Fn("get", <<Pm("x", Named(N))>>, T(t), Blk(<<>>, Match(V("x"), <<
            Arm(v2, <<"p">>, Blk(<<>>, V("p"))),
            Arm(v1, <<>>, Blk(<<>>, L(t, 2)))>>))),
         Fn("upd", <<Pm("x", NsW(N)), Pm("a", T(t))>>, Named(N),
            Blk(<<Let("y", NsW(N), V("x")), Asg(<<"y">>, Call("mk", <<V("a")>>))>>, V("y"))),
         NsMix(N, Named(N), t, Bin("add", V("h"), Call("get", <<V("x")>>))),
         Fn("use", <<Pm("a", T(t))>>, T(t), Blk(<<>>, Call("get", <<Call("upd", <<Call("mk", <<V("a")>>), L(t, 3)>>)>>)))>>
         \o NsBuiltinUse(N, t)
    [] kind = "genum" -> <<
         (* a generic enum: this fragment has no expressions that build or match generic values, they are passed on *)
         [k |-> "enum", n |-> N, tp |-> <<"T">>, vs |-> <<Vr(v1, <<>>), Vr(v2, <<TPar("T")>>)>>],
         Fn("idg", <<Pm("x", G), Pm("y", G), Pm("a", T(t))>>, G, Blk(<<Let("z", G, V("x"))>>,
            If(Bin("gt", V("a"), L(t, 1)), Blk(<<>>, V("z")), Blk(<<>>, V("y"))))),
         Fn("twice", <<Pm("u", G), Pm("b", T(t))>>, G,
            Blk(<<>>, Call("idg", <<V("u"), Call("idg", <<V("u"), V("u"), V("b")>>), V("b")>>))),
         NsMix(N, G, t, V("h"))>>
         \o NsBuiltinUse(N, t)

NsKinds == {"record", "enum", "genum"}
NsSeed(name, prog) == [name |-> name, prog |-> prog, cls |-> "ns"]
NsSeeds == {NsSeed("ns_" \o c[1] \o "_" \o c[2] \o "_" \o c[3], Flat(SNs(c[1], c[2], c[3]))) :
              c \in {d \in NsNames \X NsKinds \X NsTys : d[1] # d[3]}}

(* consistent renaming of the declared type `old` *)
RECURSIVE RenTy(_, _, _)
RenTy(t, old, new) ==
  CASE t.k = "named" -> IF t.n = old THEN Named(new) ELSE t
    [] t.k \in {"opt", "list"} -> [t EXCEPT !.a = RenTy(t.a, old, new)]
    [] t.k = "gen" -> [k |-> "gen", n |-> IF t.n = old THEN new ELSE t.n, as |-> [x \in DOMAIN t.as |-> RenTy(t.as[x], old, new)]]
    [] OTHER -> t
RenPs(ps, old, new) == [x \in DOMAIN ps |-> [n |-> ps[x].n, t |-> RenTy(ps[x].t, old, new)]]
RenDecl(d, old, new) ==
  LET e == IF d.n = old THEN [d EXCEPT !.n = new] ELSE d IN
  CASE d.k = "record" -> [e EXCEPT !.fs = RenPs(d.fs, old, new)]
    [] d.k = "enum"   -> [e EXCEPT !.vs = [x \in DOMAIN d.vs |->
                              [n |-> d.vs[x].n, ts |-> [y \in DOMAIN d.vs[x].ts |-> RenTy(d.vs[x].ts[y], old, new)]]]]
    [] d.k = "const"  -> [e EXCEPT !.t = RenTy(d.t, old, new)]
    [] d.k = "fn"     -> [e EXCEPT !.ps = RenPs(d.ps, old, new), !.ret = RenTy(d.ret, old, new)]
    [] d.k = "filtermap" -> [e EXCEPT !.ps = RenPs(d.ps, old, new)]
RenNode(n, old, new) ==
  CASE n.k = "let"  -> IF n.t = <<>> THEN n ELSE [n EXCEPT !.t = <<RenTy(n.t[1], old, new)>>]
    [] n.k = "rec"  -> IF n.n = old THEN [n EXCEPT !.n = new] ELSE n
    [] n.k = "ctor" -> IF n.en = old THEN [n EXCEPT !.en = new] ELSE n
    [] OTHER -> n
Rename(P, old, new) ==
  [decls |-> [x \in DOMAIN P.decls |-> RenDecl(P.decls[x], old, new)],
   nodes |-> [x \in DOMAIN P.nodes |-> RenNode(P.nodes[x], old, new)]]

BaseSeeds ==
  {Seed("arith_" \o t \o "_" \o op, SArith(t, op)) : <<t, op>> \in {x \in NumTys \X {"add", "sub", "mul", "div", "mod"} : x[2] \in ArOps(x[1])}}
  \cup {Seed("neg_" \o t, SNeg(t)) : t \in SignedTys}
  \cup {Seed("record_" \o t, SRecord(t)) : t \in NumTys}
  \cup {Seed("enum_" \o t, SEnum(t)) : t \in NumTys}
  \cup {Seed("option_" \o t, SOption(t)) : t \in NumTys}
  \cup {Seed("loops_" \o t, SLoops(t)) : t \in NumTys}
  \cup {Seed("filter_" \o t, SFilter(t)) : t \in NumTys}
  \cup {Seed("const_" \o t, SConst(t)) : t \in NumTys}
  \cup {Seed("misc_" \o t, SMisc(t)) : t \in NumTys}
  \cup {Seed("nested_" \o t, SNested(t)) : t \in NumTys}
  \cup {Seed("calls_" \o t, SCalls(t)) : t \in NumTys}
  \cup {Seed("infer_" \o t, SInfer(t)) : t \in NumTys}
  \cup {Seed("shapes_" \o t, SShapes(t)) : t \in NumTys}
  \cup {Seed("ctl_" \o t, SCtl(t)) : t \in NumTys}
  \cup {Seed("fm_" \o t, SFm(t)) : t \in NumTys}
  \cup {Seed("scope_" \o t, SScope(t)) : t \in NumTys}
  \cup {Seed("widths", SWidths)}
  \cup {Seed("ipaddr", SIp)}
  \cup TypeSeeds
  \cup MethodSeeds
  \cup DivSeeds

RenameBaseNames ==
  UNION {{"record_" \o t, "enum_" \o t, "nested_" \o t, "shapes_" \o t, "fm_" \o t} : t \in RenameTys}
  \cup (IF RenameTys = {} THEN {} ELSE {"ipaddr"})
RenameBases == {s \in BaseSeeds : s.name \in RenameBaseNames}
TypeDeclIdx0(P) == {x \in DOMAIN P.decls : P.decls[x].k \in {"record", "enum"}}
RenameCands ==
  UNION {{[s |-> s.name, x |-> x, new |-> N, prog |-> Rename(s.prog, s.prog.decls[x].n, N)] :
            x \in TypeDeclIdx0(s.prog), N \in {m \in NsNames : ~HasDecl(s.prog, m)}} : s \in RenameBases}
RenamedSeeds ==
  {NsSeed(c.s \o "~" \o c.new \o "@" \o Digit[c.x], c.prog) : c \in {d \in RenameCands : WellTyped(d.prog)}}

Seeds ==
  {IF s.name \in RenameBaseNames THEN [s EXCEPT !.cls = "base"] ELSE s : s \in BaseSeeds}
  \cup NsSeeds
  \cup RenamedSeeds

(* --------------------------------------------------------------- edit operators *)
NodesOf(P, K)   == {i \in DOMAIN P.nodes : P.nodes[i].k \in K}
SetNode(P, i, n) == [P EXCEPT !.nodes[i] = n]
NewIdx(P)       == Len(P.nodes) + 1
AddNode(P, n)   == [P EXCEPT !.nodes = Append(@, n)]
InsertAt(s, x, e) == SubSeq(s, 1, x - 1) \o <<e>> \o SubSeq(s, x, Len(s))     \* e becomes s[x]
RemoveAt(s, x)  == SubSeq(s, 1, x - 1) \o SubSeq(s, x + 1, Len(s))
(* a literal no rule accepts where a value of type t is expected *)
WrongLit(t)     == IF t.k = "bool" THEN S("x") ELSE B(TRUE)
FnIdx(P)        == {x \in DOMAIN P.decls : P.decls[x].k \in {"fn", "filtermap"}}
(* prepend a statement (a new node) to the body of function-like declaration x *)
Prepend(P, x, stmt) ==
  LET b == P.decls[x].body
      Q == AddNode(P, stmt)
  IN SetNode(Q, b, [P.nodes[b] EXCEPT !.ss = <<NewIdx(P)>> \o @])
(* the function-like declaration whose body contains node i *)
OwnerOf(P, i)   == CHOOSE x \in FnIdx(P) : i \in Subtree(P, P.decls[x].body)
HasOwner(P, i)  == \E x \in FnIdx(P) : i \in Subtree(P, P.decls[x].body)
RetOf(d)        == IF d.k = "fn" THEN d.ret ELSE Verdict(AnyT, AnyT)

ArithOrd == {"add", "sub", "mul", "div", "mod", "lt", "le", "gt", "ge"}

(* names bound inside the subtree of node i (lets, loop variables, pattern bindings) *)
BoundIn(P, i) ==
  LET ns == Subtree(P, i) IN
  {P.nodes[j].n : j \in {y \in ns : P.nodes[y].k \in {"let", "for"}}}
  \cup UNION {UNION {Range(P.nodes[j].arms[a].bs) : a \in DOMAIN P.nodes[j].arms} : j \in {y \in ns : P.nodes[y].k = "match"}}

(* a function whose parameters, result and annotated lets are all unsigned integers or bool and *)
(* whose other lets are un-annotated: every integer literal in it ends up unsigned              *)
UBK == UnsignedK \cup {"bool"}
UnsignedOnly(P, x) ==
  LET d == P.decls[x] IN
  /\ d.k = "fn" /\ d.ret.k \in UnsignedK
  /\ \A p \in DOMAIN d.ps : d.ps[p].t.k \in UBK
  /\ \A j \in Subtree(P, d.body) :
        /\ P.nodes[j].k = "let" /\ P.nodes[j].t # <<>> => P.nodes[j].t[1].k \in UBK
        /\ P.nodes[j].k \notin {"float", "str", "rec", "list", "ctor", "call", "mcall", "match", "for"}
        /\ P.nodes[j].k = "int" => P.nodes[j].suf = ""
        /\ P.nodes[j].k = "bin" /\ P.nodes[j].op \notin {"and", "or"} =>
              ~(P.nodes[P.nodes[j].l].k = "int" /\ P.nodes[P.nodes[j].r].k = "int")

BlksIn(P, i) == {j \in Subtree(P, i) : P.nodes[j].k = "blk"}
ArmNames(P, a) == Range(a.bs) \cup BoundIn(P, a.b)
(* the function-like declaration after x in declaration order (cyclic) *)
NextFn(P, x) == IF \E y \in FnIdx(P) : y > x THEN CHOOSE y \in FnIdx(P) : y > x /\ \A z \in FnIdx(P) : z > x => y <= z
                ELSE CHOOSE y \in FnIdx(P) : \A z \in FnIdx(P) : y <= z
(* uses of a name in a scope that is a SIBLING of the scope that binds it (lexical scoping: a binding is *)
(* visible from its let to the end of its block, a pattern binding in its arm, a loop variable in the   *)
(* loop body, a parameter / local in its function)                                                      *)
SiblingSites(P) ==
  \* then-bound names in the else part (its blocks, the conditions of its if / while) and vice versa
  UNION {{[w |-> "blk", b |-> b, n |-> n] : b \in BlksIn(P, P.nodes[j].e[1]), n \in BoundIn(P, P.nodes[j].t)}
         \cup {[w |-> "cond", i |-> k, n |-> n] : k \in {q \in Subtree(P, P.nodes[j].e[1]) : P.nodes[q].k \in {"if", "while"}},
                                                 n \in BoundIn(P, P.nodes[j].t)}
         \cup {[w |-> "blk", b |-> b, n |-> n] : b \in BlksIn(P, P.nodes[j].t), n \in BoundIn(P, P.nodes[j].e[1])}
         : j \in {q \in NodesOf(P, {"if"}) : P.nodes[q].e # <<>>}}
  \* names of one match arm in the other arms
  \cup UNION {UNION {{[w |-> "blk", b |-> b, n |-> n] : b \in BlksIn(P, P.nodes[j].arms[y].b), n \in ArmNames(P, P.nodes[j].arms[x])}
                     : <<x, y>> \in {z \in (DOMAIN P.nodes[j].arms) \X (DOMAIN P.nodes[j].arms) : z[1] # z[2]}}
              : j \in NodesOf(P, {"match"})}
  \* names of a loop body in the loop condition / iterated expression; the loop variable in the iterated expression
  \cup UNION {{[w |-> "cond", i |-> j, n |-> n] : n \in BoundIn(P, P.nodes[j].b)} : j \in NodesOf(P, {"while"})}
  \cup UNION {{[w |-> "iter", i |-> j, n |-> n] : n \in BoundIn(P, j)} : j \in NodesOf(P, {"for"})}
  \* names bound inside an earlier statement, used inside a later statement (or the final expression) of the same block
  \cup UNION {UNION {{[w |-> "blk", b |-> c, n |-> n] :
                       c \in UNION {BlksIn(P, P.nodes[b].ss[y]) : y \in {q \in DOMAIN P.nodes[b].ss : q > x}}
                              \cup UNION {BlksIn(P, l) : l \in Range(P.nodes[b].last)},
                       n \in BoundIn(P, P.nodes[b].ss[x])}
                     : x \in {q \in DOMAIN P.nodes[b].ss : P.nodes[P.nodes[b].ss[q]].k # "let"}}
              : b \in NodesOf(P, {"blk"})}
  \* parameters and locals of one function in the next function
  \cup UNION {{[w |-> "blk", b |-> P.decls[NextFn(P, x)].body, n |-> n] :
                n \in (Range(Names(P.decls[x].ps)) \cup BoundIn(P, P.decls[x].body)) \ Range(Names(P.decls[NextFn(P, x)].ps))}
              : x \in {q \in FnIdx(P) : NextFn(P, q) # q}}

TypeDeclIdx(P) == {x \in DOMAIN P.decls : P.decls[x].k \in {"record", "enum"}}
ConstIdx(P)    == {x \in DOMAIN P.decls : P.decls[x].k = "const"}

AllFamilies == {"operand-bool", "operand-str", "logic-int", "cond-nonbool", "arg-count", "arg-type",
                "field-unknown", "field-dup", "field-drop", "field-access-unknown", "field-type",
                "name-undeclared", "name-out-of-scope", "match-drop-arm", "match-after-default",
                "match-dup-arm", "neg-unsigned", "exit-forbidden", "assign-non-local", "redeclare",
                "recursive-type", "recursive-const", "elem-type", "return-type", "let-type", "assign-type",
                "fallthrough-after-loop", "fallthrough-after-shortcircuit", "cassign-result-type", "match-rename-arm", "name-sibling-scope", "recursive-member",
                "namesake-exit", "namesake-operand", "namesake-return", "namesake-arg", "namesake-let", "namesake-field", "namesake-shadow",
                "method-receiver", "method-arg-type", "method-arg-count", "method-unknown", "fallthrough-after-branch"}

(* ------------------------------------------------------- method call edit families *)
(*   method-receiver   the receiver replaced by a value of another type: a literal (string, numbers, bool, lists  *)
(*                     of several element types, None), another parameter of the function, another field of the   *)
(*                     record; the judgement decides which replacements the method does not accept                *)
(*   method-arg-type   an argument replaced by a literal the parameter does not accept (the judgement decides)     *)
(*   method-arg-count  an argument added / the last one dropped                                                   *)
(*   method-unknown    the method renamed: to a name no type has, to a method of other types (the judgement        *)
(*                     decides whether the receiver's type has it with these arguments)                            *)
RecvLits == <<S("x"), IS(1, "i32"), IS(1, "u64"), FS("1.5", "f64"), B(TRUE), Lst(<<IS(1, "u64")>>), Lst(<<S("a")>>),
              Lst(<<B(TRUE)>>), Lst(<<Lst(<<S("a")>>)>>), Lst(<<IS(1, "i32")>>), NoneB>>
ArgLits  == <<B(TRUE), S("x"), IS(1, "i8"), FS("1.5", "f32"), Lst(<<>>), NoneB>>
MCalls(P) == NodesOf(P, {"mcall"})
(* node i of P replaced by the nested tree e *)
SetNested(P, i, e) ==
  LET a == Fl(e, P.nodes) IN [P EXCEPT !.nodes = [a.ns EXCEPT ![i] = a.ns[a.i]]]
RecordFieldNames(P) == UNION {Range(Names(P.decls[x].fs)) : x \in {y \in DOMAIN P.decls : P.decls[y].k = "record"}}
MethCands(P, f) ==
  CASE f = "method-receiver" ->
         {[i |-> j, w |-> "lit", c |-> c] : j \in MCalls(P), c \in DOMAIN RecvLits}
         \cup UNION {{[i |-> j, w |-> "var", n |-> v] : v \in Range(Names(P.decls[OwnerOf(P, j)].ps))} : j \in {y \in MCalls(P) : HasOwner(P, y)}}
         \cup UNION {{[i |-> j, w |-> "field", n |-> v] : v \in RecordFieldNames(P) \ {P.nodes[P.nodes[j].e].f}}
                     : j \in {y \in MCalls(P) : P.nodes[P.nodes[y].e].k = "fld"}}
    [] f = "method-arg-type" ->
         UNION {{[i |-> j, x |-> x, c |-> c] : x \in DOMAIN P.nodes[j].args, c \in DOMAIN ArgLits} : j \in MCalls(P)}
    [] f = "method-unknown" ->
         {[i |-> j, w |-> "other", m |-> m] : j \in MCalls(P), m \in SwapMethods}
MethBreak(P, f, s) ==
  CASE f = "method-receiver" ->
         IF s.w = "lit" THEN SetNested(P, P.nodes[s.i].e, RecvLits[s.c])
         ELSE IF s.w = "var" THEN SetNode(AddNode(P, V(s.n)), s.i, [P.nodes[s.i] EXCEPT !.e = NewIdx(P)])
         ELSE SetNode(P, P.nodes[s.i].e, [P.nodes[P.nodes[s.i].e] EXCEPT !.f = s.n])
    [] f = "method-arg-type" -> SetNested(P, P.nodes[s.i].args[s.x], ArgLits[s.c])
    [] f = "method-arg-count" ->
         IF s.w = "add" THEN SetNode(AddNode(P, I(0)), s.i, [P.nodes[s.i] EXCEPT !.args = Append(@, NewIdx(P))])
         ELSE SetNode(P, s.i, [P.nodes[s.i] EXCEPT !.args = SubSeq(@, 1, Len(@) - 1)])
    [] f = "method-unknown" -> SetNode(P, s.i, [P.nodes[s.i] EXCEPT !.m = IF s.w = "fresh" THEN "zz_nomethod" ELSE s.m])
MethSites(P, f) ==
  IF MCalls(P) = {} THEN {} ELSE
  CASE f = "method-arg-count" ->
         {[i |-> j, w |-> "add"] : j \in MCalls(P)} \cup {[i |-> j, w |-> "drop"] : j \in {y \in MCalls(P) : P.nodes[y].args # <<>>}}
    [] f = "method-unknown" ->
         {[i |-> j, w |-> "fresh"] : j \in MCalls(P)}
         \cup {s \in MethCands(P, f) : s.m # P.nodes[s.i].m /\ ~WellTyped(MethBreak(P, f, s))}
    [] OTHER -> {s \in MethCands(P, f) : ~WellTyped(MethBreak(P, f, s))}
MethFams == {"method-receiver", "method-arg-type", "method-arg-count", "method-unknown"}

(* ------------------------------------------------- family fallthrough-after-branch *)
(* A function that must return a value (a filtermap that ended in accept / reject; an annotated let of the         *)
(* function's result type): its final expression e moves into the exit blocks of a shape that does NOT exit on     *)
(* every path, and the body (the initialiser block) ends in the statement of the shape.                            *)
DivFns(P) == {x \in FnIdx(P) : /\ P.nodes[P.decls[x].body].last # <<>>
                                /\ \/ P.decls[x].k = "fn" /\ P.decls[x].ret.k # "unit"
                                   \/ P.decls[x].k = "filtermap" /\ P.nodes[P.nodes[P.decls[x].body].last[1]].k = "ret"}
FirstDivFn(P) == {x \in DivFns(P) : \A y \in DivFns(P) : x <= y}
DivLets(P) == {j \in NodesOf(P, {"let"}) : /\ P.nodes[j].t # <<>> /\ HasOwner(P, j)
                                           /\ LET d == P.decls[OwnerOf(P, j)] IN
                                              d.k = "fn" /\ d.n \in DivDeepFns /\ d.ret.k # "unit" /\ d.ret = P.nodes[j].t[1]}
DivSite(x, w, sh) == [d |-> x, w |-> w, sh |-> sh, code |-> ShCode(sh), tags |-> ShTags(sh)]
DivCands(P) ==
  {DivSite(x, IF P.decls[x].k = "fn" THEN "fn-body" ELSE "filtermap-body", sh) :
      x \in {y \in DivFns(P) : P.decls[y].n \in DivDeepFns}, sh \in Depth1 \cup Depth2}
  \cup {DivSite(x, IF P.decls[x].k = "fn" THEN "fn-body" ELSE "filtermap-body", sh) :
      x \in {y \in FirstDivFn(P) : P.decls[y].n \notin DivDeepFns}, sh \in CoreShapes}
  \cup {DivSite(j, "let-init", sh) : j \in DivLets(P), sh \in Depth1}
DivBreak(P, s) ==
  IF s.w = "let-init" THEN
    LET xb == BlkU(<<Ret("return", Ref(P.nodes[s.d].e))>>)
        a == Fl(ShBlock(s.sh, xb), P.nodes)
    IN [P EXCEPT !.nodes = [a.ns EXCEPT ![s.d] = [P.nodes[s.d] EXCEPT !.e = a.i]]]
  ELSE
    LET b == P.decls[s.d].body
        e == P.nodes[b].last[1]
        xb == IF P.decls[s.d].k = "fn" THEN BlkU(<<Ret("return", Ref(e))>>) ELSE BlkU(<<Ref(e)>>)
        a == Fl(ShStmt(s.sh, xb), P.nodes)
    IN [P EXCEPT !.nodes = [a.ns EXCEPT ![b] = [P.nodes[b] EXCEPT !.ss = Append(@, a.i), !.last = <<>>]]]
(* twins: the same edit with a shape that exits on every path gives a well-typed program (a seed without edits of *)
(* its own).  A guarded `_` arm makes the unpatched compiler panic in lowering (a known C06-type finding), so the *)
(* twins leave that arm form out; the mutants do not.                                                             *)
DivTwinSeeds ==
  UNION {{[name |-> "twin_" \o sd.name \o "_" \o (IF c.w = "let-init" THEN "let" ELSE sd.prog.decls[c.d].n) \o "_" \o c.code,
           prog |-> DivBreak(sd.prog, c), cls |-> "twin"] :
            c \in {z \in DivCands(sd.prog) : AllExit(z.sh) /\ ~HasGuardedWild(z.sh)}} : sd \in DivSeeds}

(* --------------------------------------------------------- namesake edit families *)
(* Each edit confuses a declared namesake with the built-in of the same name at a  *)
(* position where a typing rule mentions the built-in:                              *)
(*   namesake-exit     `Some(1)?` / `accept 1` / `reject 1` in a function whose RETURN TYPE is a namesake      *)
(*   namesake-operand  the built-in's operators applied to a parameter of namesake type (+ - < ! && if while   *)
(*                     for == / and `?`)                                                                       *)
(*   namesake-return   a literal of the built-in returned as the namesake; a namesake Option returned as `T?`  *)
(*   namesake-arg / -let / -field   a literal of the built-in passed / bound / stored as the namesake          *)
(*   namesake-shadow   a declared type renamed to a built-in name the program also uses as the built-in        *)
IsNsTy(P, t) == \/ t.k \in {"named", "gen"} /\ t.n \in BuiltinNames /\ TyDeclared(P, t.n)
                \/ t.k \in PrimK \ {"unit"} /\ TyDeclared(P, t.k)
NsName(t)    == IF t.k \in {"named", "gen"} THEN t.n ELSE t.k
NsOf(P)      == {P.decls[x].n : x \in {y \in DOMAIN P.decls : P.decls[y].k \in {"record", "enum"} /\ P.decls[y].n \in BuiltinNames}}
(* the built-in called N has a literal form *)
HasLit(N)    == N \in IntK \cup FloatK \cup {"bool", "String", "Option", "List", "IpAddr"}
BuiltinLit(N) ==
  CASE N \in IntK    -> IS(1, N)
    [] N \in FloatK  -> FS("1.5", N)
    [] N = "bool"    -> B(TRUE)
    [] N = "String"  -> S("x")
    [] N = "Option"  -> NoneB
    [] N = "List"    -> Lst(<<>>)
    [] N = "IpAddr"  -> Ip(1)
(* statements applying the operators of the built-in called N to the variable v *)
OpForms(N, v) ==
  CASE N = "String" -> <<Bin("add", V(v), V(v)), Bin("add", V(v), S("x")), Bin("add", S("x"), V(v))>>
    [] N = "bool"   -> <<If1(V(v), BlkU(<<>>)), Not(V(v)), Bin("and", V(v), B(TRUE)), Bin("or", B(FALSE), V(v)), While(V(v), BlkU(<<>>))>>
    [] N \in SignedK   -> <<Bin("add", V(v), V(v)), Bin("lt", V(v), IS(1, N)), Bin("mod", IS(7, N), V(v)), Neg(V(v))>>
    [] N \in UnsignedK -> <<Bin("add", V(v), V(v)), Bin("lt", V(v), IS(1, N)), Bin("mod", IS(7, N), V(v))>>
    [] N \in FloatK -> <<Bin("mul", V(v), V(v)), Bin("ge", FS("1.5", N), V(v)), Neg(V(v))>>
    [] N = "List"   -> <<For("zz_e", V(v), BlkU(<<>>)), Bin("add", V(v), Lst(<<>>)), Bin("add", Lst(<<>>), V(v))>>
    [] N = "Option" -> <<Let("zz_o", Opt(T("i32")), V(v)), Bin("eq", V(v), NoneB), Bin("eq", NoneB, V(v))>>
    [] N = "IpAddr" -> <<Bin("div", V(v), I(8)), Bin("eq", Ip(1), V(v))>>
    [] OTHER        -> <<>>
(* prepend a statement given as a nested tree to the body of function-like declaration x *)
PrependNested(P, x, e) ==
  LET a == Fl(e, P.nodes)
      b == P.decls[x].body
  IN [P EXCEPT !.nodes = [a.ns EXCEPT ![b] = [P.nodes[b] EXCEPT !.ss = <<a.i>> \o @]]]
NsParams(P, x) == {p \in DOMAIN P.decls[x].ps : IsNsTy(P, P.decls[x].ps[p].t)}
PlainFns(P)    == {x \in DOMAIN P.decls : P.decls[x].k = "fn"}
NsSites(P, f) ==
  IF NsOf(P) = {} THEN {} ELSE
  CASE f = "namesake-exit" ->
         {[d |-> x, w |-> w] : x \in {y \in PlainFns(P) : IsNsTy(P, P.decls[y].ret)}, w \in {"try-ret", "accept-ret", "reject-ret"}}
    [] f = "namesake-operand" ->
         UNION {UNION {{[d |-> x, p |-> p, w |-> "op", o |-> o] : o \in DOMAIN OpForms(NsName(P.decls[x].ps[p].t), P.decls[x].ps[p].n)}
                       : p \in NsParams(P, x)} : x \in {y \in DOMAIN P.decls : P.decls[y].k \in {"fn", "filtermap"}}}
         \cup UNION {{[d |-> x, p |-> p, w |-> "try-operand", o |-> 0] : p \in NsParams(P, x)}
                     : x \in {y \in PlainFns(P) : P.decls[y].ret.k = "opt"}}
    [] f = "namesake-return" ->
         {[d |-> x, p |-> 0, w |-> "lit-ret"] : x \in {y \in PlainFns(P) : IsNsTy(P, P.decls[y].ret) /\ HasLit(NsName(P.decls[y].ret))
                                                                      /\ P.nodes[P.decls[y].body].last # <<>>}}
         \cup UNION {{[d |-> x, p |-> p, w |-> "ns-ret"] : p \in {q \in NsParams(P, x) : NsName(P.decls[x].ps[q].t) = "Option"}}
                     : x \in {y \in PlainFns(P) : P.decls[y].ret.k = "opt" /\ P.nodes[P.decls[y].body].last # <<>>}}
    [] f = "namesake-arg" ->
         {[i |-> c[1], x |-> c[2]] : c \in UNION {{j} \X {a \in DOMAIN P.nodes[j].args :
                  LET pt == DeclOf(P, P.nodes[j].f).ps[a].t IN IsNsTy(P, pt) /\ HasLit(NsName(pt))} :
               j \in {y \in NodesOf(P, {"call"}) : HasDecl(P, P.nodes[y].f) /\ DeclOf(P, P.nodes[y].f).k \in {"fn", "filtermap"}
                                                   /\ Len(P.nodes[y].args) = Len(DeclOf(P, P.nodes[y].f).ps)}}}
    [] f = "namesake-let" ->
         {[i |-> j] : j \in {y \in NodesOf(P, {"let"}) : P.nodes[y].t # <<>> /\ IsNsTy(P, P.nodes[y].t[1]) /\ HasLit(NsName(P.nodes[y].t[1]))}}
    [] f = "namesake-field" ->
         {[i |-> c[1], x |-> c[2]] : c \in UNION {{j} \X {a \in DOMAIN P.nodes[j].fs :
                  LET dfs == DeclOf(P, P.nodes[j].n).fs IN
                  HasField(dfs, P.nodes[j].fs[a].n) /\ IsNsTy(P, FieldTy(dfs, P.nodes[j].fs[a].n))
                  /\ HasLit(NsName(FieldTy(dfs, P.nodes[j].fs[a].n)))} :
               j \in {y \in NodesOf(P, {"rec"}) : P.nodes[y].n # "" /\ IsRecordTy(P, Named(P.nodes[y].n))}}}
NsBreak(P, f, s) ==
  CASE f = "namesake-exit" ->
         IF s.w = "try-ret" THEN PrependNested(P, s.d, Try(SomeB(I(1))))
         ELSE PrependNested(P, s.d, Ret(IF s.w = "accept-ret" THEN "accept" ELSE "reject", I(1)))
    [] f = "namesake-operand" ->
         LET pm == P.decls[s.d].ps[s.p] IN
         IF s.w = "op" THEN PrependNested(P, s.d, OpForms(NsName(pm.t), pm.n)[s.o])
         ELSE PrependNested(P, s.d, Try(V(pm.n)))
    [] f = "namesake-return" ->
         IF s.w = "lit-ret" THEN SetNode(P, P.nodes[P.decls[s.d].body].last[1], BuiltinLit(NsName(P.decls[s.d].ret)))
         ELSE SetNode(P, P.nodes[P.decls[s.d].body].last[1], V(P.decls[s.d].ps[s.p].n))
    [] f = "namesake-arg" ->
         SetNode(P, P.nodes[s.i].args[s.x], BuiltinLit(NsName(DeclOf(P, P.nodes[s.i].f).ps[s.x].t)))
    [] f = "namesake-let" -> SetNode(P, P.nodes[s.i].e, BuiltinLit(NsName(P.nodes[s.i].t[1])))
    [] f = "namesake-field" ->
         SetNode(P, P.nodes[s.i].fs[s.x].e, BuiltinLit(NsName(FieldTy(DeclOf(P, P.nodes[s.i].n).fs, P.nodes[s.i].fs[s.x].n))))
NsFams == {"namesake-exit", "namesake-operand", "namesake-return", "namesake-arg", "namesake-let", "namesake-field"}

(* the rule of the property statement each family breaks *)
RuleOf(f) ==
  CASE f \in {"operand-bool", "operand-str"} -> "operand type / arithmetic or ordering on non-numbers"
    [] f = "logic-int"            -> "operand type"
    [] f = "cond-nonbool"         -> "condition type"
    [] f = "arg-count"            -> "wrong argument count"
    [] f = "arg-type"             -> "argument type"
    [] f \in {"field-unknown", "field-dup", "field-drop", "field-access-unknown"} -> "missing, duplicate or unknown record field"
    [] f = "field-type"           -> "field type"
    [] f \in {"name-undeclared", "name-out-of-scope", "name-sibling-scope"} -> "unknown or out-of-scope name"
    [] f \in {"match-drop-arm", "match-rename-arm"} -> "non-exhaustive match"
    [] f \in {"match-after-default", "match-dup-arm"} -> "unreachable match arm"
    [] f = "neg-unsigned"         -> "negating an unsigned value"
    [] f = "exit-forbidden"       -> "?, accept/reject or return where the enclosing item forbids it"
    [] f = "assign-non-local"     -> "assigning to something that is not a local variable"
    [] f = "redeclare"            -> "redeclaring a name in the same scope"
    [] f \in {"recursive-type", "recursive-const", "recursive-member"} -> "recursive types or constants"
    [] f = "elem-type"            -> "element type"
    [] f \in {"return-type", "fallthrough-after-loop", "fallthrough-after-shortcircuit"} -> "return type"
    [] f \in {"let-type", "assign-type", "cassign-result-type"} -> "assigned value type"
    [] f = "namesake-exit"        -> "?, accept/reject or return where the enclosing item forbids it"
    [] f = "namesake-operand"     -> "operand type / arithmetic or ordering on non-numbers"
    [] f = "namesake-return"      -> "return type"
    [] f = "namesake-arg"         -> "argument type"
    [] f = "namesake-let"         -> "assigned value type"
    [] f = "namesake-field"       -> "field type"
    [] f \in {"method-receiver", "method-arg-type"} -> "argument type"
    [] f = "method-arg-count"     -> "wrong argument count"
    [] f = "method-unknown"       -> "unknown or out-of-scope name"
    [] f = "fallthrough-after-branch" -> "return type"
    [] f = "namesake-shadow"      -> "a type that cannot equal the expected one (or a recursive type) through a declaration that shadows a built-in name"

(* the sites at which family f applies to program P *)
Sites(P, f) ==
  CASE f \in NsFams -> NsSites(P, f)
    [] f \in MethFams -> MethSites(P, f)
    [] f = "fallthrough-after-branch" -> {s \in DivCands(P) : HasExit(s.sh) /\ ~AllExit(s.sh)}
    [] f = "namesake-shadow" ->
         (* the renamings of a declared type to a built-in name that the judgement rejects *)
         {s \in {[d |-> x, b |-> N] : x \in TypeDeclIdx(P), N \in {m \in NsNames : ~HasDecl(P, m)}} :
             ~WellTyped(Rename(P, P.decls[s.d].n, s.b))}
    [] f = "operand-bool" ->
         {[i |-> c] : c \in UNION {{P.nodes[j].l, P.nodes[j].r} : j \in {y \in NodesOf(P, {"bin"}) : P.nodes[y].op \in ArithOrd}}}
         \cup {[i |-> P.nodes[j].e] : j \in NodesOf(P, {"cassign"})}
    [] f = "operand-str" ->
         {[i |-> c] : c \in UNION {{P.nodes[j].l, P.nodes[j].r} : j \in {y \in NodesOf(P, {"bin"}) : P.nodes[y].op \in ArithOrd \ {"add"}}}}
         \cup {[i |-> P.nodes[j].e] : j \in {y \in NodesOf(P, {"cassign"}) : P.nodes[y].op # "add"}}
    [] f = "logic-int" ->
         {[i |-> c] : c \in UNION {{P.nodes[j].l, P.nodes[j].r} : j \in {y \in NodesOf(P, {"bin"}) : P.nodes[y].op \in {"and", "or"}}}}
         \cup {[i |-> P.nodes[j].e] : j \in NodesOf(P, {"not"})}
    [] f = "cond-nonbool" ->
         {[i |-> c, w |-> w] : c \in {P.nodes[j].c : j \in NodesOf(P, {"if", "while"})}
                                      \cup UNION {UNION {Range(P.nodes[j].arms[a].g) : a \in DOMAIN P.nodes[j].arms} : j \in NodesOf(P, {"match"})},
                               w \in {"int", "str"}}
    [] f = "arg-count" ->
         {[i |-> j, w |-> "add"] : j \in {y \in NodesOf(P, {"call", "ctor"}) : P.nodes[y].k = "call" \/ P.nodes[y].call}}
         \cup {[i |-> j, w |-> "drop"] : j \in {y \in NodesOf(P, {"call", "ctor"}) : P.nodes[y].args # <<>>}}
    [] f = "arg-type" ->
         {[i |-> j, x |-> x] : <<j, x>> \in UNION {{j} \X DOMAIN P.nodes[j].args :
               j \in {y \in NodesOf(P, {"call"}) : HasDecl(P, P.nodes[y].f)}
                    \cup {y \in NodesOf(P, {"ctor"}) : P.nodes[y].en \notin {"Option", ""}}}}
    [] f = "field-unknown" ->
         {[i |-> j, x |-> x] : <<j, x>> \in UNION {{j} \X DOMAIN P.nodes[j].fs : j \in {y \in NodesOf(P, {"rec"}) : P.nodes[y].n # ""}}}
    [] f = "field-dup" ->
         {[i |-> j] : j \in {y \in NodesOf(P, {"rec"}) : P.nodes[y].fs # <<>>}}
    [] f = "field-drop" ->
         {[i |-> j, x |-> x] : <<j, x>> \in UNION {{j} \X DOMAIN P.nodes[j].fs : j \in {y \in NodesOf(P, {"rec"}) : P.nodes[y].n # ""}}}
    [] f = "field-access-unknown" ->
         {[i |-> j] : j \in NodesOf(P, {"fld"}) \cup {y \in NodesOf(P, {"assign", "cassign"}) : Len(P.nodes[y].p) > 1}}
    [] f = "field-type" ->
         {[i |-> j, x |-> x] : <<j, x>> \in UNION {{j} \X DOMAIN P.nodes[j].fs : j \in {y \in NodesOf(P, {"rec"}) : P.nodes[y].n # ""}}}
    [] f = "name-undeclared" ->
         {[i |-> j] : j \in NodesOf(P, {"var", "call"})}
    [] f = "name-out-of-scope" ->
         (* after a statement that opens scopes: use a name bound inside it; before a let: use its name *)
         {[b |-> b, x |-> x + 1, n |-> n] : <<b, x, n>> \in UNION {UNION {{<<b, x, n>> : n \in BoundIn(P, P.nodes[b].ss[x])} :
               x \in {y \in DOMAIN P.nodes[b].ss : P.nodes[P.nodes[b].ss[y]].k # "let"}} : b \in NodesOf(P, {"blk"})}}
         \cup {[b |-> b, x |-> x, n |-> P.nodes[P.nodes[b].ss[x]].n] : <<b, x>> \in UNION {{b} \X
               {y \in DOMAIN P.nodes[b].ss : P.nodes[P.nodes[b].ss[y]].k = "let"} : b \in NodesOf(P, {"blk"})}}
    [] f = "name-sibling-scope" -> SiblingSites(P)
    [] f = "recursive-member" ->
         (* the subject type of the declaration grammar gets a member of a recursive shape, at every position *)
         {s \in {[d |-> x, p |-> p, r |-> r] : x \in {y \in TypeDeclIdx(P) : P.decls[y].n = "TA"},
                                                p \in 0..MaxMembers, r \in DOMAIN RecShapes} :
             s.p <= Len(IF P.decls[s.d].k = "record" THEN P.decls[s.d].fs ELSE P.decls[s.d].vs)}
    [] f = "match-drop-arm" ->
         {[i |-> j, x |-> x] : <<j, x>> \in UNION {{j} \X {a \in DOMAIN P.nodes[j].arms : P.nodes[j].arms[a].g = <<>>} :
               j \in {y \in NodesOf(P, {"match"}) : \A a \in DOMAIN P.nodes[y].arms : P.nodes[y].arms[a].v # "_"}}}
    [] f = "match-rename-arm" ->
         (* arm x (no bindings, so its body names none) takes over the variant and the binding shape of *)
         (* another unguarded arm y: that variant is covered twice, the one of x not at all, no `_` arm  *)
         {[i |-> j, x |-> x, y |-> y] : <<j, x, y>> \in UNION {{<<j, x, y>> : <<x, y>> \in
               {z \in (DOMAIN P.nodes[j].arms) \X (DOMAIN P.nodes[j].arms) :
                  /\ P.nodes[j].arms[z[1]].g = <<>> /\ P.nodes[j].arms[z[2]].g = <<>>
                  /\ P.nodes[j].arms[z[1]].bs = <<>>
                  /\ P.nodes[j].arms[z[1]].v # P.nodes[j].arms[z[2]].v}} :
               j \in {q \in NodesOf(P, {"match"}) : \A a \in DOMAIN P.nodes[q].arms : P.nodes[q].arms[a].v # "_"}}}
    [] f = "match-after-default" ->
         {[i |-> j] : j \in {y \in NodesOf(P, {"match"}) : P.nodes[y].arms # <<>>}}
    [] f = "match-dup-arm" ->
         {[i |-> j, x |-> x] : <<j, x>> \in UNION {{j} \X {a \in DOMAIN P.nodes[j].arms :
               P.nodes[j].arms[a].g = <<>> /\ P.nodes[j].arms[a].v # "_"} : j \in NodesOf(P, {"match"})}}
    [] f = "neg-unsigned" ->
         {[i |-> j] : j \in {y \in NodesOf(P, {"int"}) : P.nodes[y].suf \in UnsignedK}}
         \cup {[i |-> j] : j \in {y \in NodesOf(P, {"var"}) : HasOwner(P, y) /\
                 LET ps == P.decls[OwnerOf(P, y)].ps IN HasField(ps, P.nodes[y].n) /\ FieldTy(ps, P.nodes[y].n).k \in UnsignedK}}
         \cup {[i |-> j] : j \in {y \in NodesOf(P, {"int"}) : HasOwner(P, y) /\ UnsignedOnly(P, OwnerOf(P, y))}}
    [] f = "exit-forbidden" ->
         {[d |-> x, w |-> w] : x \in {y \in FnIdx(P) : P.decls[y].k = "fn"}, w \in {"accept", "reject"}}
         \cup {[d |-> x, w |-> "return"] : x \in {y \in FnIdx(P) : P.decls[y].k = "filtermap"}}
         \cup {[d |-> x, w |-> "try"] : x \in {y \in FnIdx(P) : RetOf(P.decls[y]).k # "opt"}}
         \cup {[d |-> x, w |-> w] : x \in ConstIdx(P), w \in {"return-const", "try-const"}}
    [] f = "assign-non-local" ->
         {[d |-> x, c |-> c, w |-> "assign"] : x \in FnIdx(P), c \in ConstIdx(P)}
         \cup {[d |-> x, c |-> c, w |-> "cassign"] : x \in FnIdx(P), c \in {y \in ConstIdx(P) : IsNumericTy(P.decls[y].t)}}
         \cup {[d |-> x, c |-> c, w |-> "assign-fn"] : x \in FnIdx(P), c \in FnIdx(P)}
    [] f = "redeclare" ->
         {[d |-> x, w |-> "copy"] : x \in DOMAIN P.decls}
         \cup {[d |-> x, w |-> "const-named"] : x \in FnIdx(P) \cup TypeDeclIdx(P)}
         \cup {[d |-> x, w |-> "member"] : x \in {y \in DOMAIN P.decls :
                  (P.decls[y].k = "record" /\ P.decls[y].fs # <<>>) \/ (P.decls[y].k = "enum" /\ P.decls[y].vs # <<>>)
                  \/ (P.decls[y].k \in {"fn", "filtermap"} /\ P.decls[y].ps # <<>>)}}
         \cup {[d |-> x, p |-> p, w |-> "param-let"] : <<x, p>> \in UNION {{x} \X DOMAIN P.decls[x].ps : x \in FnIdx(P)}}
         \cup {[b |-> b, x |-> x, w |-> "let"] : <<b, x>> \in UNION {{b} \X
               {y \in DOMAIN P.nodes[b].ss : P.nodes[P.nodes[b].ss[y]].k = "let"} : b \in NodesOf(P, {"blk"})}}
         \cup {[i |-> j, w |-> "for-let"] : j \in NodesOf(P, {"for"})}
         \cup {[i |-> j, a |-> a, w |-> "bind-let"] : <<j, a>> \in UNION {{j} \X
               {y \in DOMAIN P.nodes[j].arms : P.nodes[j].arms[y].bs # <<>>} : j \in NodesOf(P, {"match"})}}
    [] f = "recursive-type" ->
         (* give x a member of type y where x is y or stored inline in y *)
         {[d |-> x, y |-> y, w |-> w] : <<x, y>> \in {z \in TypeDeclIdx(P) \X TypeDeclIdx(P) :
               z[1] = z[2] \/ P.decls[z[1]].n \in TReach(P, TypeRefs(P, P.decls[z[2]].n), TypeRefs(P, P.decls[z[2]].n))},
               w \in {"plain", "opt", "list"}}
    [] f = "recursive-const" ->
         {[d |-> x, y |-> y] : <<x, y>> \in {z \in ConstIdx(P) \X ConstIdx(P) :
               P.decls[z[1]].t = P.decls[z[2]].t /\ (z[1] = z[2] \/ z[1] \in ReachFrom(P, z[2]))}}
    [] f = "elem-type" ->
         {[i |-> j, x |-> 0] : j \in {y \in NodesOf(P, {"list"}) : P.nodes[y].es # <<>>}}
         \cup {[i |-> j, x |-> x] : <<j, x>> \in UNION {{j} \X DOMAIN P.nodes[j].es : j \in {y \in NodesOf(P, {"list"}) : Len(P.nodes[y].es) > 1}}}
    [] f = "return-type" ->
         {[i |-> j, w |-> "return"] : j \in {y \in NodesOf(P, {"ret"}) : P.nodes[y].kind = "return" /\ P.nodes[y].e # <<>>
                                              /\ HasOwner(P, y) /\ P.decls[OwnerOf(P, y)].k = "fn"}}
         \cup {[d |-> x, w |-> "last"] : x \in {y \in FnIdx(P) : P.decls[y].k = "fn" /\ P.decls[y].ret.k # "unit"
                                                 /\ P.nodes[P.decls[y].body].last # <<>>}}
    [] f = "fallthrough-after-loop" ->
         (* a function that must return a value: its final expression moved into a loop that returns it *)
         {[d |-> x, w |-> w] : x \in {y \in FnIdx(P) : P.decls[y].k = "fn" /\ P.decls[y].ret.k # "unit"
                                                 /\ P.nodes[P.decls[y].body].last # <<>>}, w \in {"while", "for"}}
    [] f = "fallthrough-after-shortcircuit" ->
         (* a function that must return a value: its final expression moved into the right operand of && / ||, *)
         (* which is skipped when the left operand decides *)
         {[d |-> x, w |-> w] : x \in {y \in FnIdx(P) : P.decls[y].k = "fn" /\ P.decls[y].ret.k # "unit"
                                                 /\ P.nodes[P.decls[y].body].last # <<>>}, w \in {"and", "or"}}
    [] f = "cassign-result-type" ->
         (* an assignment to a place of type IpAddr turned into `place /= 24`: IpAddr / u8 is a Prefix *)
         {[i |-> j] : j \in {y \in NodesOf(P, {"assign"}) : P.nodes[P.nodes[y].e].k = "ip"}}
    [] f = "let-type" ->
         {[i |-> j, w |-> "let"] : j \in {y \in NodesOf(P, {"let"}) : P.nodes[y].t # <<>>}}
         \cup {[d |-> x, w |-> "const"] : x \in ConstIdx(P)}
    [] f = "assign-type" ->
         {[i |-> j] : j \in {y \in NodesOf(P, {"assign"}) : Len(P.nodes[y].p) = 1 /\ HasOwner(P, y)
                               /\ HasField(P.decls[OwnerOf(P, y)].ps, P.nodes[y].p[1])}}
         \cup {[i |-> j] : j \in {y \in NodesOf(P, {"assign"}) : Len(P.nodes[y].p) = 1 /\ HasOwner(P, y)
                               /\ \E q \in Subtree(P, P.decls[OwnerOf(P, y)].body) :
                                     P.nodes[q].k = "let" /\ P.nodes[q].n = P.nodes[y].p[1] /\ P.nodes[q].t # <<>>}}

(* the declared type of the variable a single-segment assignment writes (see Sites) *)
TargetTy(P, j) ==
  LET d == P.decls[OwnerOf(P, j)]
      nm == P.nodes[j].p[1]
  IN IF HasField(d.ps, nm) THEN FieldTy(d.ps, nm)
     ELSE P.nodes[CHOOSE q \in Subtree(P, d.body) : P.nodes[q].k = "let" /\ P.nodes[q].n = nm /\ P.nodes[q].t # <<>>].t[1]

(* member types at a call / constructor site *)
ParamTys(P, j) ==
  LET n == P.nodes[j] IN
  IF n.k = "call" THEN [x \in DOMAIN DeclOf(P, n.f).ps |-> DeclOf(P, n.f).ps[x].t]
  ELSE LET vs == DeclOf(P, n.en).vs IN vs[CHOOSE x \in DOMAIN vs : vs[x].n = n.v].ts

(* Break(f, s): the program obtained from P by the single edit of family f at site s *)
Break(P, f, s) ==
  CASE f \in NsFams -> NsBreak(P, f, s)
    [] f \in MethFams -> MethBreak(P, f, s)
    [] f = "fallthrough-after-branch" -> DivBreak(P, s)
    [] f = "namesake-shadow" -> Rename(P, P.decls[s.d].n, s.b)
    [] f = "operand-bool" -> SetNode(P, s.i, B(TRUE))
    [] f = "operand-str"  -> SetNode(P, s.i, S("x"))
    [] f = "logic-int"    -> SetNode(P, s.i, I(1))
    [] f = "cond-nonbool" -> SetNode(P, s.i, IF s.w = "int" THEN I(1) ELSE S("x"))
    [] f = "arg-count" ->
         IF s.w = "add" THEN SetNode(AddNode(P, I(0)), s.i, [P.nodes[s.i] EXCEPT !.args = Append(@, NewIdx(P))])
         ELSE SetNode(P, s.i, [P.nodes[s.i] EXCEPT !.args = SubSeq(@, 1, Len(@) - 1)])
    [] f = "arg-type" -> SetNode(P, P.nodes[s.i].args[s.x], WrongLit(ParamTys(P, s.i)[s.x]))
    [] f = "field-unknown" -> SetNode(P, s.i, [P.nodes[s.i] EXCEPT !.fs[s.x].n = "zz_nofield"])
    [] f = "field-dup"  -> SetNode(P, s.i, [P.nodes[s.i] EXCEPT !.fs = Append(@, @[1])])
    [] f = "field-drop" -> SetNode(P, s.i, [P.nodes[s.i] EXCEPT !.fs = RemoveAt(@, s.x)])
    [] f = "field-access-unknown" ->
         IF P.nodes[s.i].k = "fld" THEN SetNode(P, s.i, [P.nodes[s.i] EXCEPT !.f = "zz_nofield"])
         ELSE SetNode(P, s.i, [P.nodes[s.i] EXCEPT !.p[Len(P.nodes[s.i].p)] = "zz_nofield"])
    [] f = "field-type" ->
         SetNode(P, P.nodes[s.i].fs[s.x].e, WrongLit(FieldTy(DeclOf(P, P.nodes[s.i].n).fs, P.nodes[s.i].fs[s.x].n)))
    [] f = "name-undeclared" ->
         IF P.nodes[s.i].k = "var" THEN SetNode(P, s.i, V("zz_undeclared"))
         ELSE SetNode(P, s.i, [P.nodes[s.i] EXCEPT !.f = "zz_undeclared"])
    [] f = "name-out-of-scope" ->
         SetNode(AddNode(P, V(s.n)), s.b, [P.nodes[s.b] EXCEPT !.ss = InsertAt(@, s.x, NewIdx(P))])
    [] f = "name-sibling-scope" ->
        (CASE s.w = "blk"  -> SetNode(AddNode(P, V(s.n)), s.b, [P.nodes[s.b] EXCEPT !.ss = <<NewIdx(P)>> \o @])
           [] s.w = "cond" -> LET Q1 == AddNode(P, V(s.n))
                                  Q2 == AddNode(Q1, [k |-> "blk", ss |-> <<NewIdx(P)>>, last |-> <<P.nodes[s.i].c>>])
                              IN SetNode(Q2, s.i, [P.nodes[s.i] EXCEPT !.c = NewIdx(Q1)])
           [] s.w = "iter" -> LET Q1 == AddNode(P, V(s.n))
                                  Q2 == AddNode(Q1, [k |-> "blk", ss |-> <<NewIdx(P)>>, last |-> <<P.nodes[s.i].e>>])
                              IN SetNode(Q2, s.i, [P.nodes[s.i] EXCEPT !.e = NewIdx(Q1)]))
    [] f = "recursive-member" ->
         IF P.decls[s.d].k = "record" THEN [P EXCEPT !.decls[s.d].fs = InsertAt(@, s.p + 1, Pm("zz_rec", RecShapes[s.r]))]
         ELSE [P EXCEPT !.decls[s.d].vs = InsertAt(@, s.p + 1, Vr("ZzRec", <<RecShapes[s.r]>>))]
    [] f = "match-drop-arm" -> SetNode(P, s.i, [P.nodes[s.i] EXCEPT !.arms = RemoveAt(@, s.x)])
    [] f = "match-rename-arm" ->
         LET ay == P.nodes[s.i].arms[s.y] IN
         SetNode(P, s.i, [P.nodes[s.i] EXCEPT !.arms[s.x] =
              [@ EXCEPT !.v = ay.v, !.hb = ay.hb,
                        !.bs = [b \in DOMAIN ay.bs |-> <<"zz_b1", "zz_b2", "zz_b3", "zz_b4">>[b]]]])
    [] f = "match-after-default" ->
         (* an unguarded `_` arm in front: every arm after it is unreachable *)
         SetNode(P, s.i, [P.nodes[s.i] EXCEPT !.arms = <<Arm("_", <<>>, @[Len(@)].b)>> \o @])
    [] f = "match-dup-arm" -> SetNode(P, s.i, [P.nodes[s.i] EXCEPT !.arms = InsertAt(@, s.x + 1, @[s.x])])
    [] f = "neg-unsigned" -> SetNode(AddNode(P, P.nodes[s.i]), s.i, Neg(NewIdx(P)))
    [] f = "exit-forbidden" ->
        (CASE s.w \in {"accept", "reject"} -> Prepend(P, s.d, Ret0(s.w))
           [] s.w = "return" -> Prepend(AddNode(P, I(0)), s.d, Ret("return", NewIdx(P)))
           [] s.w = "try" ->
                (* the built-in Some: written bare where the script declares an Option of its own *)
                LET Q1 == AddNode(P, I(1))
                    Q2 == AddNode(Q1, IF TyDeclared(P, "Option") THEN SomeB(NewIdx(P)) ELSE Some(NewIdx(P)))
                IN Prepend(Q2, s.d, Try(NewIdx(Q1)))
           [] s.w = "return-const" ->
                [AddNode(P, Ret("return", P.decls[s.d].e)) EXCEPT !.decls[s.d].e = NewIdx(P)]
           [] s.w = "try-const" ->
                LET Q1 == AddNode(P, IF TyDeclared(P, "Option") THEN SomeB(P.decls[s.d].e) ELSE Some(P.decls[s.d].e)) IN
                [AddNode(Q1, Try(NewIdx(P))) EXCEPT !.decls[s.d].e = NewIdx(Q1)])
    [] f = "assign-non-local" ->
        (CASE s.w = "assign"  -> Prepend(AddNode(P, V(P.decls[s.c].n)), s.d, Asg(<<P.decls[s.c].n>>, NewIdx(P)))
           [] s.w = "cassign" -> Prepend(AddNode(P, V(P.decls[s.c].n)), s.d, CAsg("add", <<P.decls[s.c].n>>, NewIdx(P)))
           [] s.w = "assign-fn" -> Prepend(AddNode(P, I(0)), s.d, Asg(<<P.decls[s.c].n>>, NewIdx(P))))
    [] f = "redeclare" ->
        (CASE s.w = "copy" -> [P EXCEPT !.decls = Append(@, @[s.d])]
           [] s.w = "const-named" ->
                [AddNode(P, I(0)) EXCEPT !.decls = Append(@, ConstD(P.decls[s.d].n, T("i32"), NewIdx(P)))]
           [] s.w = "member" ->
                IF P.decls[s.d].k = "record" THEN [P EXCEPT !.decls[s.d].fs = Append(@, @[1])]
                ELSE IF P.decls[s.d].k = "enum" THEN [P EXCEPT !.decls[s.d].vs = Append(@, @[1])]
                ELSE [P EXCEPT !.decls[s.d].ps = Append(@, @[1])]
           [] s.w = "param-let" ->
                LET nm == P.decls[s.d].ps[s.p].n IN Prepend(AddNode(P, V(nm)), s.d, LetI(nm, NewIdx(P)))
           [] s.w = "let" -> SetNode(P, s.b, [P.nodes[s.b] EXCEPT !.ss = InsertAt(@, s.x + 1, @[s.x])])
           [] s.w = "for-let" ->
                LET nm == P.nodes[s.i].n
                    b == P.nodes[s.i].b
                    Q1 == AddNode(P, V(nm))
                    Q2 == AddNode(Q1, LetI(nm, NewIdx(P)))
                IN SetNode(Q2, b, [P.nodes[b] EXCEPT !.ss = <<NewIdx(Q1)>> \o @])
           [] s.w = "bind-let" ->
                LET nm == P.nodes[s.i].arms[s.a].bs[1]
                    b == P.nodes[s.i].arms[s.a].b
                    Q1 == AddNode(P, V(nm))
                    Q2 == AddNode(Q1, LetI(nm, NewIdx(P)))
                IN SetNode(Q2, b, [P.nodes[b] EXCEPT !.ss = <<NewIdx(Q1)>> \o @]))
    [] f = "recursive-type" ->
         LET ty == IF s.w = "opt" THEN Opt(Named(P.decls[s.y].n))
                   ELSE IF s.w = "list" THEN ListOf(Named(P.decls[s.y].n)) ELSE Named(P.decls[s.y].n) IN
         IF P.decls[s.d].k = "record" THEN [P EXCEPT !.decls[s.d].fs = Append(@, Pm("zz_self", ty))]
         ELSE [P EXCEPT !.decls[s.d].vs = Append(@, Vr("ZzSelf", <<ty>>))]
    [] f = "recursive-const" -> [AddNode(P, V(P.decls[s.y].n)) EXCEPT !.decls[s.d].e = NewIdx(P)]
    [] f = "elem-type" ->
         IF s.x = 0 THEN SetNode(AddNode(P, U), s.i, [P.nodes[s.i] EXCEPT !.es = Append(@, NewIdx(P))])
         ELSE SetNode(P, P.nodes[s.i].es[s.x], U)
    [] f = "return-type" ->
         IF s.w = "return" THEN SetNode(P, P.nodes[s.i].e[1], WrongLit(P.decls[OwnerOf(P, s.i)].ret))
         ELSE SetNode(P, P.nodes[P.decls[s.d].body].last[1], WrongLit(P.decls[s.d].ret))
    [] f = "fallthrough-after-loop" ->
         LET b == P.decls[s.d].body
             Q1 == AddNode(P, Ret("return", P.nodes[b].last[1]))          \* return e
             Q2 == AddNode(Q1, BlkU(<<NewIdx(P)>>))                       \* { return e; }
             Q3 == AddNode(Q2, IF s.w = "while" THEN B(FALSE) ELSE I(0))
             Q4 == IF s.w = "while" THEN AddNode(Q3, While(NewIdx(Q2), NewIdx(Q1)))
                   ELSE AddNode(AddNode(Q3, Lst(<<NewIdx(Q2)>>)), For("zz_it", NewIdx(Q3), NewIdx(Q1)))
         IN SetNode(Q4, b, [P.nodes[b] EXCEPT !.ss = Append(@, Len(Q4.nodes)), !.last = <<>>])
    [] f = "fallthrough-after-shortcircuit" ->
         LET b == P.decls[s.d].body
             Q1 == AddNode(P, Ret("return", P.nodes[b].last[1]))          \* return e
             Q2 == AddNode(Q1, BlkU(<<NewIdx(P)>>))                       \* { return e; }
             Q3 == AddNode(Q2, B(s.w = "and"))                            \* true && .. / false || ..
             Q4 == AddNode(Q3, Bin(s.w, NewIdx(Q2), NewIdx(Q1)))
         IN SetNode(Q4, b, [P.nodes[b] EXCEPT !.ss = Append(@, Len(Q4.nodes)), !.last = <<>>])
    [] f = "cassign-result-type" ->
         SetNode(SetNode(P, P.nodes[s.i].e, I(24)), s.i, CAsg("div", P.nodes[s.i].p, P.nodes[s.i].e))
    [] f = "let-type" ->
         IF s.w = "let" THEN SetNode(P, P.nodes[s.i].e, WrongLit(P.nodes[s.i].t[1]))
         ELSE SetNode(P, P.decls[s.d].e, WrongLit(P.decls[s.d].t))
    [] f = "assign-type" -> SetNode(P, P.nodes[s.i].e, WrongLit(TargetTy(P, s.i)))

(* ---------------------------------------------------------------- state machine *)
VARIABLES seed, fam, site, stage
vars == <<seed, fam, site, stage>>

NoSite == [none |-> TRUE]

AllSeeds == Seeds \cup DivTwinSeeds
MCInit == seed \in AllSeeds /\ fam = "" /\ site = NoSite /\ stage = "seed"

(* namesake seeds get the families of NsFamilies; the renaming family applies to the base seeds only *)
FamsOf(sd) == IF sd.cls = "ns" THEN NsFamilies
              ELSE IF sd.cls = "twin" THEN {}
              ELSE IF sd.cls = "base" THEN Families
              ELSE Families \ {"namesake-shadow"}

MCNext ==
  /\ stage = "seed"
  /\ \E f \in FamsOf(seed) : \E s \in Sites(seed.prog, f) :
       /\ fam' = f /\ site' = s /\ stage' = "mutant" /\ seed' = seed

MCSpec == MCInit /\ [][MCNext]_vars

Mutant == Break(seed.prog, fam, site)

(* every seed is accepted by the judgement *)
SeedWellTyped == stage = "seed" => WellTyped(seed.prog)
(* every edit at every applicable site is rejected by the judgement: ill-typed by construction *)
MutantIllTyped == stage = "mutant" => ~WellTyped(Mutant)

Emit ==
  IF stage = "seed"
  THEN PrintT(<<"REPLAY", ToJson([kind |-> "seed", seed |-> seed.name, prog |-> seed.prog, cls |-> seed.cls, ns |-> NsOf(seed.prog)])>>)
  ELSE LET m == Mutant
           \* (the shape itself stays in the model: its code and tags are what the check reads)
           st == IF fam = "fallthrough-after-branch" THEN [d |-> site.d, w |-> site.w, code |-> site.code, tags |-> site.tags] ELSE site
       IN PrintT(<<"REPLAY", ToJson([kind |-> "mutant", seed |-> seed.name, family |-> fam, rule |-> RuleOf(fam),
                                  site |-> st, prog |-> m, cls |-> seed.cls, ns |-> NsOf(m),
                                  lax_rule |-> IF fam \in {"match-dup-arm", "fallthrough-after-loop", "match-rename-arm"} THEN LaxRule(m) ELSE ""])>>)
=============================================================================
