------------------------------ MODULE TypeGate ------------------------------
(***************************************************************************)
(* The type gate of the embedding API (property C04).                      *)
(*                                                                         *)
(* `Package::get_function::<F>(name)` hands out a callable handle iff      *)
(*   - `name` is a function or filtermap the script declares, and          *)
(*   - F has as many parameters as the declaration, and                    *)
(*   - position by position (parameters and return value) the Roto type is *)
(*     the one the documented mapping assigns to the Rust type             *)
(*     (docs/source/reference/rust_interoperability.rst), recursively      *)
(*     through Option, List, Result, Verdict, registered host types by     *)
(*     identity.                                                           *)
(* A filtermap is a function returning Verdict[A, R]; a side that is never *)
(* used, or only used without a payload, is ().                            *)
(*                                                                         *)
(* Type terms are tuples: <<leaf>> | <<"Option", t>> | <<"List", t>> |     *)
(* <<"Result", t, e>> | <<"Verdict", a, r>>.  Rust terms and Roto terms    *)
(* are two different languages with different leaf names; `Maps` is the    *)
(* translation Rust -> Roto.  A signature is [params: Seq(term), ret: term]*)
(* This module is stateless: it defines the verdict; MCTypeGate enumerates *)
(* it, TraceTypeGate judges recorded retrievals with it.                   *)
(***************************************************************************)
EXTENDS Naturals, Sequences, FiniteSets, TLC

(* ---- the documented mapping: <<Roto type, Rust type>> ------------------ *)
(* rows of the table in rust_interoperability.rst ...                       *)
DocLeafTable ==
  { <<"bool", "bool">>, <<"u8", "u8">>, <<"u16", "u16">>, <<"u32", "u32">>, <<"u64", "u64">>,
    <<"i8", "i8">>, <<"i16", "i16">>, <<"i32", "i32">>, <<"i64", "i64">>,
    <<"f32", "f32">>, <<"f64", "f64">>,
    <<"String", "RotoString">>, <<"IpAddr", "IpAddr">>, <<"Prefix", "Prefix">>, <<"Asn", "Asn">> }
(* ... the two primitives the table omits but the property covers ...       *)
ExtraLeafTable == { <<"char", "char">>, <<"()", "()">> }
(* ... "other types T -> roto::Val<T>": a host type registered under a Roto *)
(* name maps to that name; identity of the Rust type decides, not its name. *)
(* Val<Unreg> wraps a Rust type that was never registered (the harness even *)
(* gives it the same Rust identifier as RegA, in another module).           *)
RegisteredTable == { <<"RegA", "Val<RegA>">>, <<"RegB", "Val<RegB>">> }
LeafTable == DocLeafTable \cup ExtraLeafTable \cup RegisteredTable

UnregisteredRust == {"Val<Unreg>"}
RustLeaves == {p[2] : p \in LeafTable} \cup UnregisteredRust
(* `Rec` is a record type the script itself declares: no Rust type maps to it *)
ScriptOnlyRoto == {"Rec"}
RotoLeaves == {p[1] : p \in LeafTable} \cup ScriptOnlyRoto

(* Script-declared NAMESAKES.  A script may declare its own record or enum  *)
(* whose identifier is that of a built-in (or registered) leaf type: in its *)
(* root module (`record Asn {..}`: the type pkg.Asn, which shadows the      *)
(* global Asn in that module) or in a sub-module (pkg.ns.Asn, written       *)
(* `ns.Asn`).  Such a type is a script type like Rec: it is a different     *)
(* type from the global leaf of the same identifier and NO Rust type maps   *)
(* to it - in particular not the Rust leaf of that name, and not Val<T> of  *)
(* a registered type registered under that name.                            *)
NamesakeBases == {p[1] : p \in LeafTable} \ {"()"}     \* every leaf that is an identifier
NsRoot(l) == "pkg." \o l
NsSub(l)  == "pkg.ns." \o l
NamesakeLeaves == {NsRoot(l) : l \in NamesakeBases} \cup {NsSub(l) : l \in NamesakeBases}

UnaryCtors  == {"Option", "List"}
BinaryCtors == {"Result", "Verdict"}     \* same constructor names on both sides

NoRotoType == "<no Roto type>"

Leaf(l)   == <<l>>
Opt(t)    == <<"Option", t>>
Lst(t)    == <<"List", t>>
Res(t, e) == <<"Result", t, e>>
Ver(a, r) == <<"Verdict", a, r>>
IsLeaf(t) == Len(t) = 1

(* Rust leaf -> Roto leaf: the tables read from right to left *)
LeafMap == [l \in RustLeaves |->
              IF \E p \in LeafTable : p[2] = l
              THEN (CHOOSE p \in LeafTable : p[2] = l)[1]
              ELSE NoRotoType]

(* Rust term -> the Roto term the mapping assigns (identity on structure)   *)
RECURSIVE Maps(_)
Maps(t) ==
  IF Len(t) = 1 THEN <<LeafMap[t[1]]>>
  ELSE IF Len(t) = 2 THEN <<t[1], Maps(t[2])>>
  ELSE <<t[1], Maps(t[2]), Maps(t[3])>>

(* Compatible(rust, roto): the Rust term is the one the mapping assigns.    *)
(* Script types (Rec, namesakes) are compatible with no Rust term at all.   *)
Compatible(rust, roto) == Maps(rust) = roto
ASSUME \A l \in RustLeaves : LeafMap[l] \notin ScriptOnlyRoto \cup NamesakeLeaves

Sig(ps, r) == [params |-> ps, ret |-> r]

(* the gate proper: arity, every parameter, the return value *)
ArityOk(roto, rust)  == Len(roto.params) = Len(rust.params)
ParamOk(roto, rust, i) == Compatible(rust.params[i], roto.params[i])
RetOk(roto, rust)    == Compatible(rust.ret, roto.ret)
Gate(roto, rust) ==
  /\ ArityOk(roto, rust)
  /\ \A i \in 1..Len(rust.params) : ParamOk(roto, rust, i)
  /\ RetOk(roto, rust)

(* ---- script items ------------------------------------------------------ *)
(* [kind |-> "fn", params, ret]                                             *)
(* [kind |-> "filtermap", params, acc, rej] where acc / rej say how the     *)
(* body uses `accept` / `reject`: <<"unused">>, <<"bare">> (no payload),    *)
(* <<"intlit">> (`accept 1`: an integer literal defaults to i32),           *)
(* <<"floatlit">> (defaults to f64) or a Roto type term (typed payload).    *)
Fn(ps, r)       == [kind |-> "fn", params |-> ps, ret |-> r]
Fm(ps, a, r)    == [kind |-> "filtermap", params |-> ps, acc |-> a, rej |-> r]
SideForms == { <<"unused">>, <<"bare">>, <<"intlit">>, <<"floatlit">> }
Side(s) == CASE s = <<"unused">>   -> <<"()">>
             [] s = <<"bare">>     -> <<"()">>
             [] s = <<"intlit">>   -> <<"i32">>
             [] s = <<"floatlit">> -> <<"f64">>
             [] OTHER              -> s
SigOf(item) == IF item.kind = "fn" THEN Sig(item.params, item.ret)
               ELSE Sig(item.params, Ver(Side(item.acc), Side(item.rej)))

(* ---- names ------------------------------------------------------------- *)
(* "declared": the name of the item itself.  "unknown": a name the script   *)
(* does not declare.  "helper": the internal name of a compiler-generated   *)
(* clone/drop/eq function.  "nonfn": the name of an item the script does    *)
(* declare but that is not a function or filtermap - a constant whose type  *)
(* is the return type of the probed item (its initialiser is compiled like  *)
(* a parameterless function), a record type.  Only declared names of        *)
(* functions and filtermaps are gettable.                                   *)
NameClasses == {"declared", "unknown", "helper", "nonfn"}

(* ---- module placement -------------------------------------------------- *)
(* A script is a tree of modules (pkg, pkg.a, pkg.a.c, ...).  An item may   *)
(* carry a field `place` = [mods: the modules of the script in tree order,  *)
(* at: the module that declares the item, fmIn: the OTHER modules that      *)
(* declare a filtermap of their own].  The item is then retrieved by its    *)
(* module path ("a.c.name"; a bare "name" or another module's path is an    *)
(* unknown name).  The verdict does not depend on the placement: a          *)
(* filtermap's unused side is () in whatever module it is declared and      *)
(* whatever the other modules contain - SigOf never looks at `place`.       *)
Placed(item, place) == [place |-> place] @@ item

Retrievable(item, nameClass, rust) ==
  /\ nameClass = "declared"
  /\ Gate(SigOf(item), rust)

Verdict(item, nameClass, rust) == IF Retrievable(item, nameClass, rust) THEN "ok" ELSE "err"

(* ---- term sets --------------------------------------------------------- *)
D0(L) == {Leaf(l) : l \in L}
Close(S) ==         \* one more constructor on top of the terms of S
  S \cup {Opt(t) : t \in S} \cup {Lst(t) : t \in S}
    \cup {Res(a, b) : a \in S, b \in S} \cup {Ver(a, b) : a \in S, b \in S}
D1(L) == Close(D0(L))
(* depth <= 2, restricted: a binary constructor has at most one non-leaf argument *)
D2r(L) ==
  LET S0 == D0(L)
      S1 == D1(L)
      Mixed == (S1 \X S0) \cup (S0 \X S1)
  IN S1 \cup {Opt(t) : t \in S1} \cup {Lst(t) : t \in S1}
        \cup {Res(p[1], p[2]) : p \in Mixed} \cup {Ver(p[1], p[2]) : p \in Mixed}
(* depth 3: chains of three wrappers around one leaf, filler in the other slot *)
Wrap(w, t, fill) == CASE w = 1 -> Opt(t) [] w = 2 -> Lst(t)
                      [] w = 3 -> Res(t, fill) [] w = 4 -> Res(fill, t)
                      [] w = 5 -> Ver(t, fill) [] w = 6 -> Ver(fill, t)
Chain3(leaf, fill) ==
  {Wrap(w1, Wrap(w2, Wrap(w3, Leaf(leaf), Leaf(fill)), Leaf(fill)), Leaf(fill)) : w1 \in 1..6, w2 \in 1..6, w3 \in 1..6}
=============================================================================
