------------------------------ MODULE EvalMem ------------------------------
(***************************************************************************)
(* The checked memory of the LIR evaluator (property C20, second half):    *)
(* roto::lir::Memory in src/lir/eval.rs, written to what the doc comment   *)
(* on `struct Memory` promises.                                            *)
(*                                                                         *)
(* stack   : the frames, root first.  A frame is [id, allocs]; allocs is a *)
(*           sequence of allocations, an allocation a sequence of bytes    *)
(*           (zero-initialised, its length never changes).                 *)
(* idc     : the id the next pushed frame gets (ids are never reused).     *)
(* ptrs    : the pointer table; the code's pointer p is ptrs[p + 1].  A    *)
(*           pointer is [si, id, ai, off]: 0-based stack index, id of the  *)
(*           frame it was created in, 0-based allocation index, offset.    *)
(* out     : what the last operation returned to its caller                *)
(*           [k |-> "done"] | [k |-> "index", v |-> i] |                   *)
(*           [k |-> "bytes", v |-> <<..>>] | [k |-> "panic", why |-> r];   *)
(*           `why` is the reason class of the specification                *)
(*           (unknown-pointer, dangling-beyond-stack,                      *)
(*           dangling-frame-reused, oob, unaligned); it is never compared  *)
(*           with the implementation's message.                            *)
(* last    : ghost, the operation just performed with its arguments.       *)
(* shadow  : ghost, for every (frame id, allocation index) EVER created    *)
(*           the bytes last written there, maintained byte by byte and     *)
(*           through its own data path (Copy reads the shadow, not the     *)
(*           stack), so that agreement with `stack` is a real check of the *)
(*           splice formulation used for the memory itself.                *)
(* popped  : ghost, ids of the frames that were popped.                    *)
(*                                                                         *)
(* Every access through a pointer (Write, Read, Copy, Get) does:           *)
(*   1. the frame at the pointer's stack index must exist and              *)
(*   2. must have the pointer's frame id (no use after free), then         *)
(*   3. offset + size <= length of the allocation (no out of bounds),      *)
(*   4. offset is a multiple of size, Rust's is_multiple_of:               *)
(*      x.is_multiple_of(0) <=> x = 0 (no unaligned access).               *)
(* Get (the raw address of one byte, handed to clone/drop/eq functions and *)
(* runtime calls) indexes the byte: offset < length.  A failed check is a  *)
(* panic and leaves the memory unchanged.  OffsetBy never checks anything. *)
(***************************************************************************)
EXTENDS Naturals, Sequences, FiniteSets, TLC

VARIABLES stack, idc, ptrs, out, last, shadow, popped
mem   == <<stack, idc, ptrs>>
ghost == <<shadow, popped>>
vars  == <<stack, idc, ptrs, out, last, shadow, popped>>

Byte       == 0..255
Zeros(n)   == [i \in 1..n |-> 0]
Top        == stack[Len(stack)]

Done       == [k |-> "done"]
Idx(i)     == [k |-> "index", v |-> i]
Bytes(b)   == [k |-> "bytes", v |-> b]
Panic(w)   == [k |-> "panic", why |-> w]

(* ---- pointers ----------------------------------------------------------- *)
Known(p)   == p \in 0..(Len(ptrs) - 1)
Ptr(p)     == ptrs[p + 1]
OnStack(q) == q.si < Len(stack) /\ stack[q.si + 1].id = q.id
AllocOf(q) == stack[q.si + 1].allocs[q.ai + 1]
Key(q)     == <<q.id, q.ai>>
Mult(x, n) == IF n = 0 THEN x = 0 ELSE x % n = 0

FrameVerdict(q) ==
    IF q.si >= Len(stack) THEN "dangling-beyond-stack"
    ELSE IF stack[q.si + 1].id # q.id THEN "dangling-frame-reused"
    ELSE "ok"

(* an access of `n` bytes through pointer q *)
AccessVerdict(q, n) ==
    IF FrameVerdict(q) # "ok" THEN FrameVerdict(q)
    ELSE IF q.off + n > Len(AllocOf(q)) THEN "oob"
    ELSE IF ~Mult(q.off, n) THEN "unaligned"
    ELSE "ok"

(* the address of the byte q points at *)
AddrVerdict(q) ==
    IF FrameVerdict(q) # "ok" THEN FrameVerdict(q)
    ELSE IF q.off >= Len(AllocOf(q)) THEN "oob"
    ELSE "ok"

Check(p, n) == IF Known(p) THEN AccessVerdict(Ptr(p), n) ELSE "unknown-pointer"
CheckAddr(p) == IF Known(p) THEN AddrVerdict(Ptr(p)) ELSE "unknown-pointer"

(* the observation of a read / get in the current state *)
ReadRes(p, n) == IF Check(p, n) = "ok"
                 THEN Bytes(SubSeq(AllocOf(Ptr(p)), Ptr(p).off + 1, Ptr(p).off + n))
                 ELSE Panic(Check(p, n))
GetRes(p)     == IF CheckAddr(p) = "ok"
                 THEN Bytes(<<AllocOf(Ptr(p))[Ptr(p).off + 1]>>)
                 ELSE Panic(CheckAddr(p))

(* ---- initial state: the root frame (id 0), no allocation, no pointer ----- *)
InitMem == /\ stack = << [id |-> 0, allocs |-> <<>>] >>
           /\ idc = 1
           /\ ptrs = <<>>
           /\ shadow = [x \in {} |-> <<>>]
           /\ popped = {}
Init == InitMem /\ out = [k |-> "init"] /\ last = [op |-> "new"]

Quiet == UNCHANGED <<stack, idc, ptrs, shadow, popped>>

(* ---- one action per operation of Memory --------------------------------- *)
Allocate(n) ==
    /\ last' = [op |-> "allocate", n |-> n]
    /\ stack' = [stack EXCEPT ![Len(stack)].allocs = Append(@, Zeros(n))]
    /\ ptrs' = Append(ptrs, [si |-> Len(stack) - 1, id |-> Top.id, ai |-> Len(Top.allocs), off |-> 0])
    /\ shadow' = shadow @@ (<<Top.id, Len(Top.allocs)>> :> Zeros(n))
    /\ out' = Idx(Len(ptrs))
    /\ UNCHANGED <<idc, popped>>

PushFrame ==
    /\ last' = [op |-> "push_frame"]
    /\ stack' = Append(stack, [id |-> idc, allocs |-> <<>>])
    /\ idc' = idc + 1
    /\ out' = Done
    /\ UNCHANGED <<ptrs, shadow, popped>>

(* the root frame holds the values provided by the runtime and is kept *)
PopFrame ==
    /\ last' = [op |-> "pop_frame"]
    /\ IF Len(stack) = 1
       THEN out' = Idx(0) /\ Quiet
       ELSE /\ stack' = SubSeq(stack, 1, Len(stack) - 1)
            /\ popped' = popped \cup {Top.id}
            /\ out' = Idx(1)
            /\ UNCHANGED <<idc, ptrs, shadow>>

OffsetBy(p, k) ==
    /\ last' = [op |-> "offset_by", p |-> p, k |-> k]
    /\ IF Known(p)
       THEN /\ ptrs' = Append(ptrs, [Ptr(p) EXCEPT !.off = @ + k])
            /\ out' = Idx(Len(ptrs))
            /\ UNCHANGED <<stack, idc, shadow, popped>>
       ELSE out' = Panic("unknown-pointer") /\ Quiet

(* storing b through pointer q (checks already passed); sb is the same data *)
(* as obtained through the shadow                                            *)
Store(q, b, sb) ==
    /\ stack' = [stack EXCEPT ![q.si + 1].allocs[q.ai + 1] =
                    SubSeq(@, 1, q.off) \o b \o SubSeq(@, q.off + Len(b) + 1, Len(@))]
    /\ shadow' = [shadow EXCEPT ![Key(q)] =
                    [i \in 1..Len(@) |-> IF i > q.off /\ i <= q.off + Len(sb) THEN sb[i - q.off] ELSE @[i]]]
    /\ UNCHANGED <<idc, ptrs, popped>>

Write(p, b) ==
    /\ last' = [op |-> "write", p |-> p, bytes |-> b]
    /\ IF Check(p, Len(b)) = "ok"
       THEN Store(Ptr(p), b, b) /\ out' = Done
       ELSE out' = Panic(Check(p, Len(b))) /\ Quiet

Read(p, n) ==
    /\ last' = [op |-> "read", p |-> p, n |-> n]
    /\ out' = ReadRes(p, n)
    /\ Quiet

(* copy = read `n` bytes through `from`, then write them through `to` *)
Copy(to, from, n) ==
    /\ last' = [op |-> "copy", to |-> to, from |-> from, n |-> n]
    /\ IF Check(from, n) # "ok" THEN out' = Panic(Check(from, n)) /\ Quiet
       ELSE IF Check(to, n) # "ok" THEN out' = Panic(Check(to, n)) /\ Quiet
       ELSE LET f == Ptr(from) IN
            /\ Store(Ptr(to), ReadRes(from, n).v, [i \in 1..n |-> shadow[Key(f)][f.off + i]])
            /\ out' = Done

Get(p) ==
    /\ last' = [op |-> "get_byte", p |-> p]
    /\ out' = GetRes(p)
    /\ Quiet

Next == \/ \E n \in Nat : Allocate(n)
        \/ PushFrame
        \/ PopFrame
        \/ \E p, k \in Nat : OffsetBy(p, k)
        \/ \E p \in Nat, b \in Seq(Byte) : Write(p, b)
        \/ \E p, n \in Nat : Read(p, n)
        \/ \E t, f, n \in Nat : Copy(t, f, n)
        \/ \E p \in Nat : Get(p)

Spec == Init /\ [][Next]_vars

(* ======================= properties of the design ======================= *)
TypeOK ==
    /\ stack \in Seq([id : Nat, allocs : Seq(Seq(Byte))])
    /\ Len(stack) >= 1
    /\ idc \in Nat
    /\ ptrs \in Seq([si : Nat, id : Nat, ai : Nat, off : Nat])
    /\ popped \subseteq Nat

(* freshness: the root is frame 0, ids on the stack grow strictly (so they   *)
(* are pairwise distinct) and are all smaller than the counter; every id     *)
(* ever handed out is either on the stack or popped, never both.  This is    *)
(* why a dangling pointer can never match a frame pushed later.              *)
FrameIdsFresh ==
    /\ stack[1].id = 0
    /\ \A i \in 1..Len(stack) : stack[i].id < idc
    /\ \A i, j \in 1..Len(stack) : i < j => stack[i].id < stack[j].id
    /\ \A i \in 1..Len(stack) : stack[i].id \notin popped
    /\ popped \cup {stack[i].id : i \in 1..Len(stack)} = 0..(idc - 1)

(* pointers only ever name frames and allocations that were created *)
PointersNameCreated ==
    \A p \in 0..(Len(ptrs) - 1) :
        /\ Ptr(p).id < idc
        /\ Key(Ptr(p)) \in DOMAIN shadow
        /\ OnStack(Ptr(p)) => Ptr(p).ai < Len(stack[Ptr(p).si + 1].allocs)

(* a pointer into a popped frame stays unusable for ever, whatever frame     *)
(* occupies its stack index later                                            *)
DanglingStaysDangling ==
    \A p \in 0..(Len(ptrs) - 1) : Ptr(p).id \in popped => ~OnStack(Ptr(p))

(* the memory holds exactly the bytes last written (byte-wise bookkeeping)   *)
ShadowAgrees ==
    \A s \in 1..Len(stack) : \A a \in 1..Len(stack[s].allocs) :
        /\ <<stack[s].id, a - 1>> \in DOMAIN shadow
        /\ shadow[<<stack[s].id, a - 1>>] = stack[s].allocs[a]

Inv == TypeOK /\ FrameIdsFresh /\ PointersNameCreated /\ DanglingStaysDangling /\ ShadowAgrees

(* ---- step properties (checked on every transition) ----------------------- *)
AccessPtrs(l) == CASE l.op \in {"write", "read", "get_byte"} -> {l.p}
                   [] l.op = "copy" -> {l.to, l.from}
                   [] OTHER -> {}

(* an access through a pointer whose frame is not on the stack at that index *)
(* ALWAYS panics                                                             *)
DanglingAlwaysPanics ==
    [][\A p \in AccessPtrs(last') :
          (Known(p) /\ ~OnStack(Ptr(p))) => (out'.k = "panic" /\ UNCHANGED mem)]_vars

UnknownPointerPanics ==
    [][\A p \in AccessPtrs(last') \cup (IF last'.op = "offset_by" THEN {last'.p} ELSE {}) :
          ~Known(p) => (out'.k = "panic" /\ UNCHANGED mem)]_vars

PanicChangesNothing ==
    [][out'.k = "panic" => UNCHANGED <<stack, idc, ptrs, shadow, popped>>]_vars

(* every successful read returns the bytes last written there *)
ReadFaithful ==
    [][(last'.op = "read" /\ out'.k = "bytes") =>
          LET q == Ptr(last'.p) IN
          /\ OnStack(q)
          /\ q.off + last'.n <= Len(shadow[Key(q)])
          /\ out'.v = [i \in 1..last'.n |-> shadow[Key(q)][q.off + i]]]_vars

GetFaithful ==
    [][(last'.op = "get_byte" /\ out'.k = "bytes") =>
          LET q == Ptr(last'.p) IN
          /\ OnStack(q)
          /\ q.off < Len(shadow[Key(q)])
          /\ out'.v = <<shadow[Key(q)][q.off + 1]>>]_vars

(* a successful write / copy of n bytes through q changes no byte outside    *)
(* [q.off, q.off + n) of exactly that allocation: allocations never alias    *)
Target(l) == IF l.op = "write" THEN [q |-> Ptr(l.p), n |-> Len(l.bytes)]
             ELSE [q |-> Ptr(l.to), n |-> l.n]
WriteIsLocal ==
    [][(last'.op \in {"write", "copy"} /\ out'.k = "done") =>
          LET q == Target(last').q
              n == Target(last').n IN
          /\ \A key \in DOMAIN shadow : \A i \in 1..Len(shadow[key]) :
                (key # Key(q) \/ i <= q.off \/ i > q.off + n) => shadow'[key][i] = shadow[key][i]
          /\ Len(stack') = Len(stack)
          /\ \A s \in 1..Len(stack) :
                /\ stack'[s].id = stack[s].id
                /\ Len(stack'[s].allocs) = Len(stack[s].allocs)
                /\ \A a \in 1..Len(stack[s].allocs) : \A i \in 1..Len(stack[s].allocs[a]) :
                      (s # q.si + 1 \/ a # q.ai + 1 \/ i <= q.off \/ i > q.off + n)
                          => stack'[s].allocs[a][i] = stack[s].allocs[a][i]]_vars

(* only write and copy change bytes; push/pop/allocate never touch existing  *)
(* allocations of frames that stay                                           *)
OnlyWritersWrite ==
    [][last'.op \notin {"write", "copy"} =>
          \A key \in DOMAIN shadow : shadow'[key] = shadow[key]]_vars

AllocationSizesNeverChange ==
    [][\A key \in DOMAIN shadow :
          key \in DOMAIN shadow' /\ Len(shadow'[key]) = Len(shadow[key])]_vars

(* ids are handed out once: the counter never decreases, a popped id stays   *)
(* popped                                                                    *)
IdsMonotonic == [][idc' >= idc /\ popped \subseteq popped']_vars
=============================================================================
