----------------------------- MODULE MCLifetime -----------------------------
(* Model-checking / behaviour-generation wrapper of Lifetime (C11).        *)
(*                                                                         *)
(* MCSpecInv : the bare Lifetime graph (history stays empty)   under the     *)
(*             resource bounds, closure counter bounded by MaxCnt; used to *)
(*             check the invariants and action properties exhaustively.    *)
(* MCSpec    : the same actions with the history variable `hist` as part   *)
(*             of the state: every behaviour of length Len(Pre) + N is     *)
(*             emitted with, per step, the action, the specified result    *)
(*             and the specified live-instance counts, to be replayed into *)
(*             the real crate.  The first Len(Pre) steps are forced (a     *)
(*             fixed prefix that brings the system into an interesting     *)
(*             configuration); handle slots are taken lowest-free first    *)
(*             (slot names carry no meaning).                              *)
EXTENDS Lifetime, Json, IOUtils

CONSTANTS N,         \* number of free steps after the prefix
          InitKind,  \* which prefix
          MaxCnt     \* bound on the closure counter (MCSpecInv only)

VARIABLE hist

Pre == CASE InitKind = "empty"  -> <<>>
         [] InitKind = "one"    -> << [op |-> "build", g |-> 1], [op |-> "compile", v |-> 1, m |-> 1],
                                      [op |-> "get", m |-> 1, h |-> 1] >>
         [] InitKind = "two"    -> << [op |-> "build", g |-> 1], [op |-> "compile", v |-> 1, m |-> 1],
                                      [op |-> "compile", v |-> 2, m |-> 2],
                                      [op |-> "get", m |-> 1, h |-> 1], [op |-> "get", m |-> 2, h |-> 2] >>
         [] InitKind = "reload" -> << [op |-> "build", g |-> 1], [op |-> "compile", v |-> 1, m |-> 1],
                                      [op |-> "get", m |-> 1, h |-> 1], [op |-> "drop_pkg", m |-> 1],
                                      [op |-> "compile", v |-> 2, m |-> 2] >>
         [] InitKind = "regen"  -> << [op |-> "build", g |-> 1], [op |-> "compile", v |-> 1, m |-> 1],
                                      [op |-> "get", m |-> 1, h |-> 1], [op |-> "drop_rt"],
                                      [op |-> "build", g |-> 2] >>
         \* a constant added to the runtime between two compilations (hot reload after the host extended its library)
         [] InitKind = "late"   -> << [op |-> "build", g |-> 1], [op |-> "compile", v |-> 1, m |-> 1],
                                      [op |-> "get", m |-> 1, h |-> 1], [op |-> "add_const"],
                                      [op |-> "compile", v |-> 2, m |-> 2] >>
         [] InitKind = "clo"    -> << [op |-> "build", g |-> 1], [op |-> "compile", v |-> 1, m |-> 1],
                                      [op |-> "get", m |-> 1, h |-> 1], [op |-> "into_func", h |-> 1, c |-> 1] >>
         [] InitKind = "same"   -> << [op |-> "build", g |-> 1], [op |-> "compile", v |-> 1, m |-> 1],
                                      [op |-> "compile", v |-> 1, m |-> 2],
                                      [op |-> "get", m |-> 1, h |-> 1], [op |-> "get", m |-> 2, h |-> 2] >>

MCInit == Init /\ hist = <<>>

LowestFree == CHOOSE h \in Handles : hnd[h] = 0 /\ \A x \in Handles : hnd[x] = 0 => h <= x
HasFree    == \E h \in Handles : hnd[h] = 0
LowestFreeC == CHOOSE c \in Closures : clo[c] = 0 /\ \A x \in Closures : clo[x] = 0 => c <= x
HasFreeC    == \E c \in Closures : clo[c] = 0

Step(r) == /\ IF Len(hist) < Len(Pre) THEN Pre[Len(hist) + 1] = r ELSE TRUE
           /\ hist' = Append(hist, r @@ (IF r.op \in {"call", "move", "call_closure"}
                                          THEN [res |-> ResVec(obs'), live |-> LiveVec']
                                          ELSE [live |-> LiveVec']))

MCNext ==
  /\ Len(hist) < Len(Pre) + N
  /\ \/ BuildRuntime /\ Step([op |-> "build", g |-> Len(gens) + 1])
     \/ DropRuntime  /\ Step([op |-> "drop_rt"])
     \/ AddConst     /\ Step([op |-> "add_const"])
     \/ \E v \in Versions : Compile(v) /\ Step([op |-> "compile", v |-> v, m |-> Len(mods) + 1])
     \/ \E m \in Mods :
          \/ DropPkg(m) /\ Step([op |-> "drop_pkg", m |-> m])
          \/ HasFree /\ GetHandle(m, LowestFree) /\ Step([op |-> "get", m |-> m, h |-> LowestFree])
     \/ \E a \in Handles :
          HasFree /\ CloneHandle(a, LowestFree) /\ Step([op |-> "clone", a |-> a, b |-> LowestFree])
     \/ \E h \in Handles :
          \/ Call(h)         /\ Step([op |-> "call", h |-> h])
          \/ DropHandle(h)   /\ Step([op |-> "drop_handle", h |-> h])
          \/ MoveToThread(h) /\ Step([op |-> "move", h |-> h])
          \/ HasFreeC /\ IntoFunc(h, LowestFreeC) /\ Step([op |-> "into_func", h |-> h, c |-> LowestFreeC])
     \/ \E c \in Closures :
          \/ CallClosure(c) /\ Step([op |-> "call_closure", c |-> c])
          \/ DropClosure(c) /\ Step([op |-> "drop_closure", c |-> c])

MCSpec == MCInit /\ [][MCNext]_<<vars, hist>>

Case == [init |-> InitKind, npre |-> Len(Pre), ops |-> hist]
(* no action is enabled: the behaviour ends before N free steps were taken *)
Stuck == /\ rt = 0 /\ Len(gens) = MaxGens
         /\ \A m \in Mods : ~mods[m].pobj
         /\ \A h \in Handles : hnd[h] = 0
         /\ \A c \in Closures : clo[c] = 0
Emit == (Len(hist) = Len(Pre) + N \/ (Len(hist) >= Len(Pre) /\ Stuck))
            => PrintT(<<"REPLAY", ToJson(Case)>>)

(* ---- exhaustive check of the design invariants (history stays empty) ---- *)
InvInit == Init /\ hist = <<>>
InvNext == Next /\ UNCHANGED hist
MCSpecInv == InvInit /\ [][InvNext]_<<vars, hist>>
CntBound == \A g \in Gens : \A f \in Fns : gens[g].cnt[f] <= Base(f) + MaxCnt

Inv == TypeOK /\ RefCountsExact /\ FreedIffUnheld /\ CallValid
=============================================================================
