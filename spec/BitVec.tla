------------------------------- MODULE BitVec -------------------------------
(***************************************************************************)
(* Fixed-width two's-complement integers as little-endian byte vectors.    *)
(* TLC's integers are 32 bit, so the 32- and 64-bit Roto integers cannot   *)
(* be native; every width uses the same representation: a tuple of w       *)
(* bytes (0..255), least significant first.                                *)
(*                                                                         *)
(* Operations are the language-level meaning of Roto's integer operators:  *)
(* + - * wrap modulo 2^(8w); / truncates toward zero and % takes the sign  *)
(* of the dividend (signed), plain quotient/remainder (unsigned);          *)
(* comparisons are signed or unsigned by the operand type.  Division by    *)
(* zero and MIN / -1 have no defined result (they are outside the domain). *)
(***************************************************************************)
EXTENDS Naturals, Integers, Sequences, TLC

W(a) == Len(a)

Zero(w) == [i \in 1..w |-> 0]
One(w)  == [i \in 1..w |-> IF i = 1 THEN 1 ELSE 0]
Ones(w) == [i \in 1..w |-> 255]

(* from a natural number that fits a TLC integer *)
RECURSIVE FromNatR(_, _, _)
FromNatR(n, w, i) == IF i > w THEN <<>> ELSE <<n % 256>> \o FromNatR(n \div 256, w, i + 1)
FromNat(n, w) == FromNatR(n, w, 1)

IsZero(a) == \A i \in 1..Len(a) : a[i] = 0
Msb(a) == a[Len(a)] >= 128

(* a + b + carry-in, modulo 2^(8w); AddC returns <<sum, carry-out>> *)
RECURSIVE AddR(_, _, _, _)
AddR(a, b, c, i) ==
    IF i > Len(a) THEN <<>>
    ELSE LET s == a[i] + b[i] + c IN <<s % 256>> \o AddR(a, b, s \div 256, i + 1)
Add(a, b) == AddR(a, b, 0, 1)

Not(a) == [i \in 1..Len(a) |-> 255 - a[i]]
Neg(a) == AddR(Not(a), Zero(Len(a)), 1, 1)
Sub(a, b) == AddR(a, Not(b), 1, 1)

(* unsigned comparison, most significant byte first *)
RECURSIVE ULtR(_, _, _)
ULtR(a, b, i) == IF i = 0 THEN FALSE
                 ELSE IF a[i] # b[i] THEN a[i] < b[i] ELSE ULtR(a, b, i - 1)
ULt(a, b) == ULtR(a, b, Len(a))
ULe(a, b) == ~ULt(b, a)
SLt(a, b) == IF Msb(a) # Msb(b) THEN Msb(a) ELSE ULt(a, b)
SLe(a, b) == ~SLt(b, a)

(* schoolbook multiplication modulo 2^(8w): column sums stay below 2^31 *)
RECURSIVE ColSum(_, _, _, _)
ColSum(a, b, k, i) == IF i > k THEN 0 ELSE a[i] * b[k - i + 1] + ColSum(a, b, k, i + 1)
RECURSIVE MulR(_, _, _, _)
MulR(a, b, k, carry) ==
    IF k > Len(a) THEN <<>>
    ELSE LET s == ColSum(a, b, k, 1) + carry IN <<s % 256>> \o MulR(a, b, k + 1, s \div 256)
Mul(a, b) == MulR(a, b, 1, 0)

(* shift left by one bit, shifting `bit` in at the bottom *)
RECURSIVE Shl1R(_, _, _)
Shl1R(a, c, i) == IF i > Len(a) THEN <<>>
                  ELSE LET s == 2 * a[i] + c IN <<s % 256>> \o Shl1R(a, s \div 256, i + 1)
Shl1(a, bit) == Shl1R(a, bit, 1)
Bit(a, k) == (a[(k \div 8) + 1] \div (2 ^ (k % 8))) % 2       \* k = 0 is the least significant bit

(* restoring division of unsigned a by b # 0: <<quotient, remainder>> *)
RECURSIVE UDivR(_, _, _, _, _)
UDivR(a, b, k, q, r) ==
    IF k < 0 THEN <<q, r>>
    ELSE LET r2 == Shl1(r, Bit(a, k))
             ge == ULe(b, r2) IN
         UDivR(a, b, k - 1, Shl1(q, IF ge THEN 1 ELSE 0), IF ge THEN Sub(r2, b) ELSE r2)
UDivRem(a, b) == UDivR(a, b, 8 * Len(a) - 1, Zero(Len(a)), Zero(Len(a)))
UDiv(a, b) == UDivRem(a, b)[1]
URem(a, b) == UDivRem(a, b)[2]

Abs(a) == IF Msb(a) THEN Neg(a) ELSE a
(* signed: truncation toward zero, remainder has the sign of the dividend *)
SDiv(a, b) == LET q == UDiv(Abs(a), Abs(b)) IN IF Msb(a) # Msb(b) THEN Neg(q) ELSE q
SRem(a, b) == LET r == URem(Abs(a), Abs(b)) IN IF Msb(a) THEN Neg(r) ELSE r

IsMin(a) == a[Len(a)] = 128 /\ \A i \in 1..(Len(a) - 1) : a[i] = 0
IsMinusOne(a) == \A i \in 1..Len(a) : a[i] = 255

(* the operator meanings, by signedness *)
Div(s, a, b) == IF s THEN SDiv(a, b) ELSE UDiv(a, b)
Rem(s, a, b) == IF s THEN SRem(a, b) ELSE URem(a, b)
Lt(s, a, b)  == IF s THEN SLt(a, b) ELSE ULt(a, b)
Le(s, a, b)  == IF s THEN SLe(a, b) ELSE ULe(a, b)
(* domain of / and %: divisor non-zero, and not MIN / -1 for signed types *)
DivDefined(s, a, b) == ~IsZero(b) /\ ~(s /\ IsMin(a) /\ IsMinusOne(b))

(* ---- self check against native arithmetic (16-bit values fit TLC ints) ---- *)
ToNat(a) == LET RECURSIVE R(_)
                R(i) == IF i > Len(a) THEN 0 ELSE a[i] * (256 ^ (i - 1)) + R(i + 1)
            IN R(1)
ToInt(a) == IF Msb(a) THEN ToNat(a) - 256 ^ Len(a) ELSE ToNat(a)
TruncDiv(x, y) == LET q == (IF x < 0 THEN -x ELSE x) \div (IF y < 0 THEN -y ELSE y)
                  IN IF (x < 0) # (y < 0) THEN -q ELSE q
SelfCheck(w, S) ==
    \A x \in S, y \in S :
      LET a == FromNat(x, w)  b == FromNat(y, w)  m == 256 ^ w IN
      /\ ToNat(Add(a, b)) = (x + y) % m
      /\ ToNat(Sub(a, b)) = (x - y + m) % m
      /\ (x < 46341 /\ y < 46341 => ToNat(Mul(a, b)) = (x * y) % m)
      /\ ULt(a, b) = (x < y)
      /\ SLt(a, b) = (ToInt(a) < ToInt(b))
      /\ (y # 0 => /\ ToNat(UDiv(a, b)) = x \div y
                   /\ ToNat(URem(a, b)) = x % y)
      /\ (DivDefined(TRUE, a, b) =>
             /\ ToInt(SDiv(a, b)) = TruncDiv(ToInt(a), ToInt(b))
             /\ ToInt(SRem(a, b)) = ToInt(a) - ToInt(b) * TruncDiv(ToInt(a), ToInt(b)))
=============================================================================
