------------------------------ MODULE Lifetime ------------------------------
(***************************************************************************)
(* Property C11: function handles keep alive exactly what they need.       *)
(*                                                                         *)
(* Objects the host program can hold:                                      *)
(*   the Runtime            rt = 0 (none) or g, the generation alive       *)
(*   Package objects        mods[m].pobj (Package = result of compile)     *)
(*   function handles       hnd[h] = m : TypedFunc obtained from package m *)
(*   closures               clo[c] = m : the `impl Fn` that                 *)
(*                          TypedFunc::into_func made out of a handle; it   *)
(*                          owns the handle it was made from                *)
(*                                                                         *)
(* Resources and who holds them (src/codegen/mod.rs ModuleData,            *)
(* SharedModuleData = Arc<ModuleData>; src/runtime/mod.rs ConstantValue =  *)
(* Arc<..>; src/runtime/func.rs FunctionDescription.pointer = Arc<Box<..>>)*)
(*   module m  = machine code + script constants of one compilation;       *)
(*               held by the Package object, by every handle into it and   *)
(*               by every closure made from such a handle                  *)
(*   constant g = the registered constant of runtime generation g;         *)
(*               held by the Runtime and by every module compiled from it  *)
(*               (declare_constant clones every registered constant's Arc  *)
(*               into the module)                                          *)
(*   late g    = a second constant registered with Runtime::add AFTER the   *)
(*               runtime was built (and possibly after compilations): held  *)
(*               by the Runtime and by every module compiled after the add  *)
(*               (whose script reads it); modules compiled before never see *)
(*               it                                                         *)
(*   fn <<g,f>> = the state captured by the f-th registered closure of     *)
(*               generation g (f in Fns).  All registered closures are     *)
(*               made by ONE factory function, so they have the same Rust  *)
(*               type (and share one trampoline), but each is a value of   *)
(*               its own with its own captured counter; each is held by    *)
(*               the Runtime and by every module compiled from it whose    *)
(*               script calls that very closure (registered_fns)           *)
(*                                                                         *)
(* The design is reference counting: rc fields are the Arc strong counts,  *)
(* nfree/cfree/ffree count how often a resource has been released.  The    *)
(* invariants state that this mechanism realises "released exactly once,   *)
(* when the holder set becomes empty and not before".                      *)
(*                                                                         *)
(* Two script versions (harness/src/bin/c11.rs `script`):                  *)
(*   version 1: one tracked script constant (tag 11), calls the registered *)
(*              closures 1 and 2: main() returns (11, tag of the           *)
(*              registered constant, counter 1 ++, counter 2 ++)           *)
(*   version 2: two tracked script constants (22 + 20) in a LARGE constant  *)
(*              section (36 further constants of a 128-byte record type,   *)
(*              more than a page of constant storage, of which main()      *)
(*              reads the first, a middle and the last one), calls the     *)
(*              registered closures 2 and 3: main() returns (42, tag of    *)
(*              the registered constant, counter 2 ++, counter 3 ++)       *)
(* so closure 1 is needed only by version-1 modules, closure 3 only by     *)
(* version-2 modules, closure 2 by both.                                   *)
(***************************************************************************)
EXTENDS Naturals, Sequences, FiniteSets, TLC

CONSTANTS Versions,   \* script versions that may be compiled (subset of {1, 2})
          Handles,    \* handle slots: a set of positive naturals
          Closures,   \* slots for closures made by into_func: positive naturals
          MaxMods,    \* bound on the number of compilations
          MaxGens     \* bound on the number of runtimes built

NConst(v)      == IF v = 1 THEN 1 ELSE 2      \* tracked script constants of version v
KSum(v)        == IF v = 1 THEN 11 ELSE 42    \* what main() reads from its script constants
Fns            == 1..3                        \* the registered closures of a runtime
UsesSeq(v)     == IF v = 1 THEN <<1, 2>> ELSE <<2, 3>>   \* the closures main() calls, in order
Uses(v)        == {UsesSeq(v)[1], UsesSeq(v)[2]}
Base(f)        == 2000 * f                    \* where the counter captured by closure f starts
RcTag(g)       == 50 + g                      \* value of the registered constant of generation g
LcTag(g)       == 100 * g                     \* value of the late registered constant of generation g
NoRes          == [k |-> 0, rc |-> 0, na |-> 0, nb |-> 0]

VARIABLES rt,     \* 0, or the generation of the Runtime object that is alive
          gens,   \* per generation: [crc, cfree, frc, ffree, cnt (these three per closure), late, lrc, lfree]
          mods,   \* per compilation: [v, g, pobj, rc, nfree, late (compiled after the late constant was added)]
          hnd,    \* handle slot -> module (0 = slot empty)
          clo,    \* closure slot -> module (0 = slot empty)
          obs     \* what the last action returned to the host
vars == <<rt, gens, mods, hnd, clo, obs>>

Mods == DOMAIN mods
Gens == DOMAIN gens

(* ---- the object graph: who holds what ---------------------------------- *)
(* holders are named <<kind, id>>: "p" the Package object, "h" a handle,     *)
(* "c" a closure, "r" the Runtime object, "m" a module                      *)
HoldersM(m) == (IF mods[m].pobj THEN {<<"p", 0>>} ELSE {})
               \cup {<<"h", h>> : h \in {x \in Handles : hnd[x] = m}}
               \cup {<<"c", c>> : c \in {x \in Closures : clo[x] = m}}
Held(m)     == HoldersM(m) # {}
HoldersC(g) == (IF rt = g THEN {<<"r", 0>>} ELSE {})
               \cup {<<"m", m>> : m \in {x \in Mods : mods[x].g = g /\ Held(x)}}
HoldersL(g) == IF ~gens[g].late THEN {}
               ELSE (IF rt = g THEN {<<"r", 0>>} ELSE {})
                    \cup {<<"m", m>> : m \in {x \in Mods : mods[x].g = g /\ mods[x].late /\ Held(x)}}
HoldersF(g, f) == (IF rt = g THEN {<<"r", 0>>} ELSE {})
               \cup {<<"m", m>> : m \in {x \in Mods : mods[x].g = g /\ f \in Uses(mods[x].v) /\ Held(x)}}

(* ---- observations -------------------------------------------------------- *)
LiveK(v) == NConst(v) * Cardinality({m \in Mods : mods[m].v = v /\ mods[m].nfree = 0})
(* tracked instances that must be alive, per resource class *)
Live == [k1  |-> LiveK(1),
         k2  |-> LiveK(2),
         rc  |-> Cardinality({g \in Gens : gens[g].cfree = 0}),
         lc  |-> Cardinality({g \in Gens : gens[g].late /\ gens[g].lfree = 0}),
         cap |-> [f \in Fns |-> Cardinality({g \in Gens : gens[g].ffree[f] = 0})]]

\* the order the harness reports them in
LiveVec == <<Live.k1, Live.k2, Live.rc, Live.cap[1], Live.cap[2], Live.cap[3], Live.lc>>

(* what main() of module m returns when called now *)
Result(m) == LET v == mods[m].v  g == mods[m].g
             IN [k |-> KSum(v), rc |-> RcTag(g) + (IF mods[m].late THEN LcTag(g) ELSE 0),
                 na |-> gens[g].cnt[UsesSeq(v)[1]], nb |-> gens[g].cnt[UsesSeq(v)[2]]]

ResVec(o) == <<o.k, o.rc, o.na, o.nb>>

(* ---- reference counting -------------------------------------------------- *)
(* generation record r loses a holder of its constant, of the closures in FS *)
(* and (hl) of its late constant                                              *)
DecGen(r, FS, hl) ==
    LET crc1 == r.crc - 1
        lrc1 == IF hl THEN r.lrc - 1 ELSE r.lrc
        frc1 == [f \in Fns |-> IF f \in FS THEN r.frc[f] - 1 ELSE r.frc[f]]
    IN [r EXCEPT !.crc = crc1, !.cfree = IF crc1 = 0 THEN @ + 1 ELSE @,
                 !.lrc = lrc1, !.lfree = IF hl /\ lrc1 = 0 THEN @ + 1 ELSE @,
                 !.frc = frc1,
                 !.ffree = [f \in Fns |-> IF f \in FS /\ frc1[f] = 0 THEN @[f] + 1 ELSE @[f]]]

(* module m of M loses one holder; the last one releases the module *)
DecModM(M, m) == [M EXCEPT ![m].rc = @ - 1,
                           ![m].nfree = IF M[m].rc = 1 THEN @ + 1 ELSE @]
(* ... and with it the module's share in the resources of its generation *)
DecModG(G, M, m) == IF M[m].rc = 1
                    THEN [G EXCEPT ![M[m].g] = DecGen(@, Uses(M[m].v), M[m].late)]
                    ELSE G
(* every closure the script of m calls runs once *)
CallG(G, m) == [G EXCEPT ![mods[m].g].cnt = [f \in Fns |-> IF f \in Uses(mods[m].v) THEN @[f] + 1 ELSE @[f]]]

(* ---- actions --------------------------------------------------------------- *)
Init == /\ rt = 0 /\ gens = <<>> /\ mods = <<>> /\ obs = NoRes
        /\ hnd = [h \in Handles |-> 0] /\ clo = [c \in Closures |-> 0]

BuildRuntime ==
    /\ rt = 0 /\ Len(gens) < MaxGens
    /\ gens' = Append(gens, [crc |-> 1, cfree |-> 0, frc |-> [f \in Fns |-> 1],
                              ffree |-> [f \in Fns |-> 0], cnt |-> [f \in Fns |-> Base(f)],
                              late |-> FALSE, lrc |-> 0, lfree |-> 0])
    /\ rt' = Len(gens) + 1
    /\ UNCHANGED <<mods, hnd, clo>> /\ obs' = NoRes

Compile(v) ==
    /\ rt # 0 /\ Len(mods) < MaxMods
    /\ mods' = Append(mods, [v |-> v, g |-> rt, pobj |-> TRUE, rc |-> 1, nfree |-> 0, late |-> gens[rt].late])
    /\ gens' = [gens EXCEPT ![rt].crc = @ + 1,
                            ![rt].lrc = IF gens[rt].late THEN @ + 1 ELSE @,
                            ![rt].frc = [f \in Fns |-> IF f \in Uses(v) THEN @[f] + 1 ELSE @[f]]]
    /\ UNCHANGED <<rt, hnd, clo>> /\ obs' = NoRes

(* Runtime::add of one more constant on the live runtime, at any time: only *)
(* compilations that follow see (and hold) it                                *)
AddConst ==
    /\ rt # 0 /\ ~gens[rt].late
    /\ gens' = [gens EXCEPT ![rt].late = TRUE, ![rt].lrc = 1]
    /\ UNCHANGED <<rt, mods, hnd, clo>> /\ obs' = NoRes

GetHandle(m, h) ==
    /\ m \in Mods /\ mods[m].pobj /\ hnd[h] = 0
    /\ hnd' = [hnd EXCEPT ![h] = m]
    /\ mods' = [mods EXCEPT ![m].rc = @ + 1]
    /\ UNCHANGED <<rt, gens, clo>> /\ obs' = NoRes

CloneHandle(a, b) ==
    /\ hnd[a] # 0 /\ hnd[b] = 0
    /\ hnd' = [hnd EXCEPT ![b] = hnd[a]]
    /\ mods' = [mods EXCEPT ![hnd[a]].rc = @ + 1]
    /\ UNCHANGED <<rt, gens, clo>> /\ obs' = NoRes

(* a handle that exists can always be called *)
Call(h) ==
    /\ hnd[h] # 0
    /\ obs' = Result(hnd[h])
    /\ gens' = CallG(gens, hnd[h])
    /\ UNCHANGED <<rt, mods, hnd, clo>>

DropHandle(h) ==
    /\ hnd[h] # 0
    /\ hnd' = [hnd EXCEPT ![h] = 0]
    /\ mods' = DecModM(mods, hnd[h])
    /\ gens' = DecModG(gens, mods, hnd[h])
    /\ UNCHANGED <<rt, clo>> /\ obs' = NoRes

DropPkg(m) ==
    /\ m \in Mods /\ mods[m].pobj
    /\ mods' = DecModM([mods EXCEPT ![m].pobj = FALSE], m)
    /\ gens' = DecModG(gens, mods, m)
    /\ UNCHANGED <<rt, hnd, clo>> /\ obs' = NoRes

DropRuntime ==
    /\ rt # 0
    /\ rt' = 0
    /\ gens' = [gens EXCEPT ![rt] = DecGen(@, Fns, gens[rt].late)]
    /\ UNCHANGED <<mods, hnd, clo>> /\ obs' = NoRes

(* the handle is moved to another thread, called there once and dropped there *)
MoveToThread(h) ==
    /\ hnd[h] # 0
    /\ obs' = Result(hnd[h])
    /\ hnd' = [hnd EXCEPT ![h] = 0]
    /\ mods' = DecModM(mods, hnd[h])
    /\ gens' = DecModG(CallG(gens, hnd[h]), mods, hnd[h])
    /\ UNCHANGED <<rt, clo>>

(* TypedFunc::into_func: the handle is consumed, the closure that comes back *)
(* owns it: the reference moves from the handle to the closure               *)
IntoFunc(h, c) ==
    /\ hnd[h] # 0 /\ clo[c] = 0
    /\ hnd' = [hnd EXCEPT ![h] = 0]
    /\ clo' = [clo EXCEPT ![c] = hnd[h]]
    /\ UNCHANGED <<rt, gens, mods>> /\ obs' = NoRes

(* a closure that exists can always be called, and means what Call means *)
CallClosure(c) ==
    /\ clo[c] # 0
    /\ obs' = Result(clo[c])
    /\ gens' = CallG(gens, clo[c])
    /\ UNCHANGED <<rt, mods, hnd, clo>>

DropClosure(c) ==
    /\ clo[c] # 0
    /\ clo' = [clo EXCEPT ![c] = 0]
    /\ mods' = DecModM(mods, clo[c])
    /\ gens' = DecModG(gens, mods, clo[c])
    /\ UNCHANGED <<rt, hnd>> /\ obs' = NoRes

Next == \/ BuildRuntime \/ DropRuntime \/ AddConst
        \/ \E v \in Versions : Compile(v)
        \/ \E m \in Mods : DropPkg(m) \/ \E h \in Handles : GetHandle(m, h)
        \/ \E a, b \in Handles : CloneHandle(a, b)
        \/ \E h \in Handles : Call(h) \/ DropHandle(h) \/ MoveToThread(h)
        \/ \E h \in Handles, c \in Closures : IntoFunc(h, c)
        \/ \E c \in Closures : CallClosure(c) \/ DropClosure(c)

Spec == Init /\ [][Next]_vars

(* ---- what the design must guarantee ---------------------------------------- *)
TypeOK ==
    /\ rt \in 0..Len(gens)
    /\ \A g \in Gens : gens[g] \in [crc : Nat, cfree : Nat, frc : [Fns -> Nat], ffree : [Fns -> Nat], cnt : [Fns -> Nat],
                                     late : BOOLEAN, lrc : Nat, lfree : Nat]
    /\ \A m \in Mods : mods[m] \in [v : Versions, g : Gens, pobj : BOOLEAN, rc : Nat, nfree : Nat, late : BOOLEAN]
    /\ hnd \in [Handles -> 0..Len(mods)]
    /\ clo \in [Closures -> 0..Len(mods)]

(* the strong counts are exactly the sizes of the holder sets *)
RefCountsExact ==
    /\ \A m \in Mods : mods[m].rc = Cardinality(HoldersM(m))
    /\ \A g \in Gens : /\ gens[g].crc = Cardinality(HoldersC(g))
                       /\ gens[g].lrc = Cardinality(HoldersL(g))
                       /\ \A f \in Fns : gens[g].frc[f] = Cardinality(HoldersF(g, f))

(* released iff nobody holds it, exactly once, never while held *)
FreedIffUnheld ==
    /\ \A m \in Mods : mods[m].nfree = IF Held(m) THEN 0 ELSE 1
    /\ \A g \in Gens : /\ gens[g].cfree = IF HoldersC(g) # {} THEN 0 ELSE 1
                       /\ gens[g].lfree = IF gens[g].late /\ HoldersL(g) = {} THEN 1 ELSE 0
                       /\ \A m \in Mods : (mods[m].g = g /\ mods[m].late) => gens[g].late
                       /\ \A f \in Fns : gens[g].ffree[f] = IF HoldersF(g, f) # {} THEN 0 ELSE 1

(* everything a call touches is alive as long as the handle / closure exists *)
Callable(m) == /\ mods[m].nfree = 0
               /\ gens[mods[m].g].cfree = 0
               /\ (mods[m].late => gens[mods[m].g].lfree = 0)
               /\ \A f \in Uses(mods[m].v) : gens[mods[m].g].ffree[f] = 0
CallValid == /\ \A h \in Handles : hnd[h] # 0 => Callable(hnd[h])
             /\ \A c \in Closures : clo[c] # 0 => Callable(clo[c])

(* a released module never comes back, a module never changes its script    *)
(* version / runtime (its constants)                                         *)
NoResurrection ==
    [][\A m \in Mods : /\ mods'[m].v = mods[m].v /\ mods'[m].g = mods[m].g /\ mods'[m].late = mods[m].late
                       /\ mods[m].nfree = 1 => mods'[m] = mods[m]]_vars

(* packages never influence each other: the counts of a module only move    *)
(* when one of its own holders comes or goes, and the state of a registered  *)
(* closure only moves by the one call that observed it: the call of a module *)
(* of that runtime whose script calls that very closure                      *)
Isolation ==
    [][/\ \A m \in Mods : (mods'[m].rc # mods[m].rc \/ mods'[m].nfree # mods[m].nfree)
                              => HoldersM(m)' # HoldersM(m)
       /\ \A g \in Gens : \A f \in Fns : gens'[g].cnt[f] # gens[g].cnt[f]
              => /\ gens'[g].cnt[f] = gens[g].cnt[f] + 1
                 /\ obs'.rc \in {RcTag(g), RcTag(g) + LcTag(g)}
                 /\ \E v \in Versions :
                      /\ obs'.k = KSum(v)
                      /\ \/ UsesSeq(v)[1] = f /\ obs'.na = gens[g].cnt[f]
                         \/ UsesSeq(v)[2] = f /\ obs'.nb = gens[g].cnt[f]]_vars
=============================================================================
