------------------------------ MODULE Lifetime ------------------------------
(***************************************************************************)
(* Property C11: function handles keep alive exactly what they need.       *)
(*                                                                         *)
(* Objects the host program can hold:                                      *)
(*   the Runtime            rt = 0 (none) or g, the generation alive       *)
(*   Package objects        mods[m].pobj (Package = result of compile)     *)
(*   function handles       hnd[h] = m : TypedFunc obtained from package m *)
(*   closures               clo[c] = m : the `impl Fn` that                 *)
(*                          TypedFunc::into_func made out of a handle; it   *)
(*                          owns the handle it was made from                *)
(*                                                                         *)
(* Resources and who holds them (src/codegen/mod.rs ModuleData,            *)
(* SharedModuleData = Arc<ModuleData>; src/runtime/mod.rs ConstantValue =  *)
(* Arc<..>; src/runtime/func.rs FunctionDescription.pointer = Arc<Box<..>>)*)
(*   module m  = machine code + script constants of one compilation;       *)
(*               held by the Package object, by every handle into it and   *)
(*               by every closure made from such a handle                  *)
(*   constant g = the registered constant of runtime generation g;         *)
(*               held by the Runtime and by every module compiled from it  *)
(*               (declare_constant clones every registered constant's Arc  *)
(*               into the module)                                          *)
(*   closure g  = the state captured by the registered closure; held by    *)
(*               the Runtime and by every module compiled from it whose    *)
(*               script calls the closure (registered_fns)                 *)
(*                                                                         *)
(* The design is reference counting: rc fields are the Arc strong counts,  *)
(* nfree/cfree/ffree count how often a resource has been released.  The    *)
(* invariants state that this mechanism realises "released exactly once,   *)
(* when the holder set becomes empty and not before".                      *)
(*                                                                         *)
(* Two script versions (harness/src/bin/c11.rs `script`):                  *)
(*   version 1: one tracked script constant (tag 11), main() returns       *)
(*              (11, tag of the registered constant, closure counter++)    *)
(*   version 2: two tracked script constants (22 + 20), main() returns     *)
(*              (42, tag of the registered constant, NoCount); it does     *)
(*              not call the closure                                       *)
(***************************************************************************)
EXTENDS Naturals, Sequences, FiniteSets, TLC

CONSTANTS Versions,   \* script versions that may be compiled (subset of {1, 2})
          Handles,    \* handle slots: a set of positive naturals
          Closures,   \* slots for closures made by into_func: positive naturals
          MaxMods,    \* bound on the number of compilations
          MaxGens     \* bound on the number of runtimes built

NConst(v)      == IF v = 1 THEN 1 ELSE 2      \* tracked script constants of version v
KSum(v)        == IF v = 1 THEN 11 ELSE 42    \* what main() reads from its script constants
UsesClosure(v) == v = 1
RcTag(g)       == 50 + g                      \* value of the registered constant of generation g
NoCount        == 9999
NoRes          == [k |-> 0, rc |-> 0, n |-> 0]

VARIABLES rt,     \* 0, or the generation of the Runtime object that is alive
          gens,   \* per generation: [crc, cfree, frc, ffree, cnt]
          mods,   \* per compilation: [v, g, pobj, rc, nfree]
          hnd,    \* handle slot -> module (0 = slot empty)
          clo,    \* closure slot -> module (0 = slot empty)
          obs     \* what the last action returned to the host
vars == <<rt, gens, mods, hnd, clo, obs>>

Mods == DOMAIN mods
Gens == DOMAIN gens

(* ---- the object graph: who holds what ---------------------------------- *)
(* holders are named <<kind, id>>: "p" the Package object, "h" a handle,     *)
(* "c" a closure, "r" the Runtime object, "m" a module                      *)
HoldersM(m) == (IF mods[m].pobj THEN {<<"p", 0>>} ELSE {})
               \cup {<<"h", h>> : h \in {x \in Handles : hnd[x] = m}}
               \cup {<<"c", c>> : c \in {x \in Closures : clo[x] = m}}
Held(m)     == HoldersM(m) # {}
HoldersC(g) == (IF rt = g THEN {<<"r", 0>>} ELSE {})
               \cup {<<"m", m>> : m \in {x \in Mods : mods[x].g = g /\ Held(x)}}
HoldersF(g) == (IF rt = g THEN {<<"r", 0>>} ELSE {})
               \cup {<<"m", m>> : m \in {x \in Mods : mods[x].g = g /\ UsesClosure(mods[x].v) /\ Held(x)}}

(* ---- observations -------------------------------------------------------- *)
LiveK(v) == NConst(v) * Cardinality({m \in Mods : mods[m].v = v /\ mods[m].nfree = 0})
(* tracked instances that must be alive, per resource class *)
Live == [k1  |-> LiveK(1),
         k2  |-> LiveK(2),
         rc  |-> Cardinality({g \in Gens : gens[g].cfree = 0}),
         cap |-> Cardinality({g \in Gens : gens[g].ffree = 0})]

LiveVec == <<Live.k1, Live.k2, Live.rc, Live.cap>>   \* the order the harness reports them in

(* what main() of module m returns when called now *)
Result(m) == LET v == mods[m].v  g == mods[m].g
             IN [k |-> KSum(v), rc |-> RcTag(g),
                 n |-> IF UsesClosure(v) THEN gens[g].cnt ELSE NoCount]

ResVec(o) == <<o.k, o.rc, o.n>>

(* ---- reference counting -------------------------------------------------- *)
(* generation record r loses a holder of its constant (c) / closure (f) *)
DecGen(r, c, f) ==
    LET crc1 == IF c THEN r.crc - 1 ELSE r.crc
        frc1 == IF f THEN r.frc - 1 ELSE r.frc
    IN [r EXCEPT !.crc = crc1, !.cfree = IF c /\ crc1 = 0 THEN @ + 1 ELSE @,
                 !.frc = frc1, !.ffree = IF f /\ frc1 = 0 THEN @ + 1 ELSE @]

(* module m of M loses one holder; the last one releases the module *)
DecModM(M, m) == [M EXCEPT ![m].rc = @ - 1,
                           ![m].nfree = IF M[m].rc = 1 THEN @ + 1 ELSE @]
(* ... and with it the module's share in the resources of its generation *)
DecModG(G, M, m) == IF M[m].rc = 1
                    THEN [G EXCEPT ![M[m].g] = DecGen(@, TRUE, UsesClosure(M[m].v))]
                    ELSE G
(* the closure runs once if the script of m calls it *)
CallG(G, m) == IF UsesClosure(mods[m].v) THEN [G EXCEPT ![mods[m].g].cnt = @ + 1] ELSE G

(* ---- actions --------------------------------------------------------------- *)
Init == /\ rt = 0 /\ gens = <<>> /\ mods = <<>> /\ obs = NoRes
        /\ hnd = [h \in Handles |-> 0] /\ clo = [c \in Closures |-> 0]

BuildRuntime ==
    /\ rt = 0 /\ Len(gens) < MaxGens
    /\ gens' = Append(gens, [crc |-> 1, cfree |-> 0, frc |-> 1, ffree |-> 0, cnt |-> 0])
    /\ rt' = Len(gens) + 1
    /\ UNCHANGED <<mods, hnd, clo>> /\ obs' = NoRes

Compile(v) ==
    /\ rt # 0 /\ Len(mods) < MaxMods
    /\ mods' = Append(mods, [v |-> v, g |-> rt, pobj |-> TRUE, rc |-> 1, nfree |-> 0])
    /\ gens' = [gens EXCEPT ![rt].crc = @ + 1,
                            ![rt].frc = IF UsesClosure(v) THEN @ + 1 ELSE @]
    /\ UNCHANGED <<rt, hnd, clo>> /\ obs' = NoRes

GetHandle(m, h) ==
    /\ m \in Mods /\ mods[m].pobj /\ hnd[h] = 0
    /\ hnd' = [hnd EXCEPT ![h] = m]
    /\ mods' = [mods EXCEPT ![m].rc = @ + 1]
    /\ UNCHANGED <<rt, gens, clo>> /\ obs' = NoRes

CloneHandle(a, b) ==
    /\ hnd[a] # 0 /\ hnd[b] = 0
    /\ hnd' = [hnd EXCEPT ![b] = hnd[a]]
    /\ mods' = [mods EXCEPT ![hnd[a]].rc = @ + 1]
    /\ UNCHANGED <<rt, gens, clo>> /\ obs' = NoRes

(* a handle that exists can always be called *)
Call(h) ==
    /\ hnd[h] # 0
    /\ obs' = Result(hnd[h])
    /\ gens' = CallG(gens, hnd[h])
    /\ UNCHANGED <<rt, mods, hnd, clo>>

DropHandle(h) ==
    /\ hnd[h] # 0
    /\ hnd' = [hnd EXCEPT ![h] = 0]
    /\ mods' = DecModM(mods, hnd[h])
    /\ gens' = DecModG(gens, mods, hnd[h])
    /\ UNCHANGED <<rt, clo>> /\ obs' = NoRes

DropPkg(m) ==
    /\ m \in Mods /\ mods[m].pobj
    /\ mods' = DecModM([mods EXCEPT ![m].pobj = FALSE], m)
    /\ gens' = DecModG(gens, mods, m)
    /\ UNCHANGED <<rt, hnd, clo>> /\ obs' = NoRes

DropRuntime ==
    /\ rt # 0
    /\ rt' = 0
    /\ gens' = [gens EXCEPT ![rt] = DecGen(@, TRUE, TRUE)]
    /\ UNCHANGED <<mods, hnd, clo>> /\ obs' = NoRes

(* the handle is moved to another thread, called there once and dropped there *)
MoveToThread(h) ==
    /\ hnd[h] # 0
    /\ obs' = Result(hnd[h])
    /\ hnd' = [hnd EXCEPT ![h] = 0]
    /\ mods' = DecModM(mods, hnd[h])
    /\ gens' = DecModG(CallG(gens, hnd[h]), mods, hnd[h])
    /\ UNCHANGED <<rt, clo>>

(* TypedFunc::into_func: the handle is consumed, the closure that comes back *)
(* owns it: the reference moves from the handle to the closure               *)
IntoFunc(h, c) ==
    /\ hnd[h] # 0 /\ clo[c] = 0
    /\ hnd' = [hnd EXCEPT ![h] = 0]
    /\ clo' = [clo EXCEPT ![c] = hnd[h]]
    /\ UNCHANGED <<rt, gens, mods>> /\ obs' = NoRes

(* a closure that exists can always be called, and means what Call means *)
CallClosure(c) ==
    /\ clo[c] # 0
    /\ obs' = Result(clo[c])
    /\ gens' = CallG(gens, clo[c])
    /\ UNCHANGED <<rt, mods, hnd, clo>>

DropClosure(c) ==
    /\ clo[c] # 0
    /\ clo' = [clo EXCEPT ![c] = 0]
    /\ mods' = DecModM(mods, clo[c])
    /\ gens' = DecModG(gens, mods, clo[c])
    /\ UNCHANGED <<rt, hnd>> /\ obs' = NoRes

Next == \/ BuildRuntime \/ DropRuntime
        \/ \E v \in Versions : Compile(v)
        \/ \E m \in Mods : DropPkg(m) \/ \E h \in Handles : GetHandle(m, h)
        \/ \E a, b \in Handles : CloneHandle(a, b)
        \/ \E h \in Handles : Call(h) \/ DropHandle(h) \/ MoveToThread(h)
        \/ \E h \in Handles, c \in Closures : IntoFunc(h, c)
        \/ \E c \in Closures : CallClosure(c) \/ DropClosure(c)

Spec == Init /\ [][Next]_vars

(* ---- what the design must guarantee ---------------------------------------- *)
TypeOK ==
    /\ rt \in 0..Len(gens)
    /\ \A g \in Gens : gens[g] \in [crc : Nat, cfree : Nat, frc : Nat, ffree : Nat, cnt : Nat]
    /\ \A m \in Mods : mods[m] \in [v : Versions, g : Gens, pobj : BOOLEAN, rc : Nat, nfree : Nat]
    /\ hnd \in [Handles -> 0..Len(mods)]
    /\ clo \in [Closures -> 0..Len(mods)]

(* the strong counts are exactly the sizes of the holder sets *)
RefCountsExact ==
    /\ \A m \in Mods : mods[m].rc = Cardinality(HoldersM(m))
    /\ \A g \in Gens : /\ gens[g].crc = Cardinality(HoldersC(g))
                       /\ gens[g].frc = Cardinality(HoldersF(g))

(* released iff nobody holds it, exactly once, never while held *)
FreedIffUnheld ==
    /\ \A m \in Mods : mods[m].nfree = IF Held(m) THEN 0 ELSE 1
    /\ \A g \in Gens : /\ gens[g].cfree = IF HoldersC(g) # {} THEN 0 ELSE 1
                       /\ gens[g].ffree = IF HoldersF(g) # {} THEN 0 ELSE 1

(* everything a call touches is alive as long as the handle / closure exists *)
Callable(m) == /\ mods[m].nfree = 0
               /\ gens[mods[m].g].cfree = 0
               /\ UsesClosure(mods[m].v) => gens[mods[m].g].ffree = 0
CallValid == /\ \A h \in Handles : hnd[h] # 0 => Callable(hnd[h])
             /\ \A c \in Closures : clo[c] # 0 => Callable(clo[c])

(* a released module never comes back, a module never changes its script    *)
(* version / runtime (its constants)                                         *)
NoResurrection ==
    [][\A m \in Mods : /\ mods'[m].v = mods[m].v /\ mods'[m].g = mods[m].g
                       /\ mods[m].nfree = 1 => mods'[m] = mods[m]]_vars

(* packages never influence each other: the counts of a module only move    *)
(* when one of its own holders comes or goes, and the closure state of a    *)
(* generation only moves by the one call that observed it                   *)
Isolation ==
    [][/\ \A m \in Mods : (mods'[m].rc # mods[m].rc \/ mods'[m].nfree # mods[m].nfree)
                              => HoldersM(m)' # HoldersM(m)
       /\ \A g \in Gens : gens'[g].cnt # gens[g].cnt
                              => /\ gens'[g].cnt = gens[g].cnt + 1
                                 /\ obs' = [k |-> KSum(1), rc |-> RcTag(g), n |-> gens[g].cnt]]_vars
=============================================================================
