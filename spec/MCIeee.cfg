SPECIFICATION MCSpec
CONSTANTS
  E = 3
  F = 2
INVARIANTS Conforms Emit
CHECK_DEADLOCK FALSE
