SPECIFICATION MCSpec
CONSTANTS
  E = 4
  F = 2
INVARIANTS Conforms Emit
CHECK_DEADLOCK FALSE
