SPECIFICATION MCSpec
CONSTANTS
  Family = "api"
  MaxTests1 = 3
  MaxTests2 = 2
  TNames = {"a", "b"}
  SubNames = {"m", "u"}
  FnNames = {"a"}
  CallNames = {"a", "b"}
  Brokens = {"none"}
  MainSigs = {"none"}
  RunNames = {}
  SubMain = {FALSE}
  BodyForms = {"plain"}
  FnPositions = {"mixed"}
  NoDups = FALSE
  ModShapes = {"single", "sub"}
  SubFnNames = {}
  RunMods = {""}
INVARIANTS MCInv Emit
CHECK_DEADLOCK FALSE
