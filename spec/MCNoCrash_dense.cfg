SPECIFICATION MCSpec
CONSTANTS
  Dense = TRUE
INVARIANTS MCInv Emit
CHECK_DEADLOCK FALSE
