SPECIFICATION MCSpec
CONSTANTS
  Family = "cli"
  MaxTests1 = 2
  MaxTests2 = 1
  TNames = {"a", "main"}
  SubNames = {"m"}
  FnNames = {"a"}
  CallNames = {"a"}
  Brokens = {"none", "syntax", "type"}
  MainSigs = {"none", "unit", "param", "ret"}
  RunNames = {"a"}
  SubMain = {FALSE, TRUE}
  BodyForms = {"plain"}
  FnPositions = {"mixed"}
  NoDups = FALSE
  ModShapes = {"single", "sub"}
  SubFnNames = {}
  RunMods = {""}
INVARIANTS MCInv Emit
CHECK_DEADLOCK FALSE
