--------------------------- MODULE TraceBuiltins ---------------------------
(* I->S binding for C17: every event {m, a, res} logged by the harness's    *)
(* own seeded generator (arguments longer and more varied than the ones TLC *)
(* enumerates) after the script function `m` returned must carry exactly    *)
(* the value Builtins.Apply specifies for these arguments.  An event whose  *)
(* arguments lie outside the specified domain (Defined) is not accepted     *)
(* either: the generator is required to stay inside it.                     *)
EXTENDS Builtins, Json, IOUtils, TLC, TLCExt

Rec == ndJsonDeserialize(IOEnv.TRACE)

VARIABLE l

Ev == Rec[l]

TraceInit == l = 1
TraceNext == /\ l <= Len(Rec)
             /\ Defined(Ev.m, Ev.a)
             /\ Apply(Ev.m, Ev.a) = Ev.res
             /\ l' = l + 1
TraceSpec == TraceInit /\ [][TraceNext]_l

(* accepted iff every recorded event was matched *)
TraceAccepted ==
  LET d == TLCGet("stats").diameter IN
  IF d - 1 = Len(Rec) THEN TRUE
  ELSE /\ PrintT(<<"UNMATCHED", ToJson([line |-> d, ev |-> Rec[d],
                    defined |-> Defined(Rec[d].m, Rec[d].a),
                    spec |-> IF Defined(Rec[d].m, Rec[d].a) THEN Apply(Rec[d].m, Rec[d].a) ELSE "undefined"])>>)
       /\ FALSE
=============================================================================
