SPECIFICATION MCSpec
CONSTANTS
  TreeIds = {"alias4"}
  Families = {"path", "imp1", "list", "modimp", "chain", "shadow", "two", "other"}
  Disc = "small"
  GModes = {"same"}
  NSlices = 8
  Slice = 0
INVARIANT Emit
CHECK_DEADLOCK FALSE
