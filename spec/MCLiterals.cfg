SPECIFICATION MCSpec
CONSTANTS
  Family = "fstr"
  N = 2
  MinEmit = 0
  Big = FALSE
INVARIANT Emit
CHECK_DEADLOCK FALSE
