SPECIFICATION TraceSpec
CONSTANTS
  MaxDepth = 64
INVARIANT TypeOK
INVARIANT CitedWellFormed
POSTCONDITION TraceAccepted
CHECK_DEADLOCK FALSE
