---------------------------- MODULE Registration ----------------------------
(***************************************************************************)
(* Registration of host items in a Roto runtime (property C18).            *)
(*                                                                         *)
(* A library is a sequence of items; an item is the uniform record         *)
(*   [k, name, cls, items, ty, mov, ps, r, tag, paths]                      *)
(*   k     "mod" | "type" | "fn" | "const" | "impl" | "use"                 *)
(*   name  Roto name (mod/type/fn/const)   cls  lexical class of the name  *)
(*   items children (mod, impl)                                            *)
(*   ty    Rust type: of a `type` item the Rust type being registered, of  *)
(*         a constant its type, of an impl block the type it extends       *)
(*         (0 = i32, built in; 1.. = host types)                            *)
(*   ps, r parameter / return Rust types of a function                     *)
(*   tag   what the function returns / the constant holds                   *)
(*   paths the paths a `use` names                                          *)
(*                                                                         *)
(* The runtime state `rt`:                                                  *)
(*   decl   path -> declaration; the scope of an item is Front(path); a    *)
(*          type is the scope of its methods and associated constants      *)
(*   rtypes Rust type -> path of the Roto type it is registered as         *)
(*   alias  bare name -> path, for `use` items at the top of a library     *)
(*   loose  names whose visibility the property leaves open (see Add)      *)
(*   opennames / opentys  names and Rust types of REFUSED libraries: an Add  *)
(*          that fails may have registered part of its library, so nothing  *)
(*          is asserted about those names (see Refused)                      *)
(*                                                                         *)
(* Add(lib) = the single public operation (Runtime::add, src/runtime/      *)
(* mod.rs Rt::add).  Its outcome is defined declaratively - no passes, no  *)
(* item order:                                                              *)
(*   Err  iff (a) a name is not a valid non-keyword identifier,            *)
(*            (b) a name is already taken in its scope,                     *)
(*            (c) a Rust type is registered twice,                          *)
(*            (d) a signature / constant / impl block mentions a Rust type *)
(*                that is not registered                                    *)
(*   Ok   otherwise, and then every item is reachable at its declaration   *)
(*        path and through every top-level `use`.                           *)
(* A refused Add (Err) leaves everything that EARLIER successful Adds made *)
(* reachable unchanged: every earlier item is still reachable at its       *)
(* declaration path and through its aliases and still means the same       *)
(* (same function tag, same constant value, same type); nothing is         *)
(* asserted about the items of the refused library itself (Refused).       *)
(* There is no outcome Panic.  Where the statement of the property is      *)
(* silent the outcome is "Unspec" (Ok or Err allowed, never a panic):      *)
(* a `use` whose path is empty or names nothing, items other than          *)
(* functions/constants inside an impl block, and alias names that collide  *)
(* with a declaration or with an alias of the same target.  A `use` inside *)
(* a module must name an existing item by its full path; WHERE its alias   *)
(* becomes visible is left open (the name is put into `loose`, nothing is  *)
(* asserted about paths starting with a loose name).                        *)
(***************************************************************************)
EXTENDS Naturals, Integers, Sequences, FiniteSets, TLC

CONSTANTS BuiltinRoot,    \* names declared in the root scope of Runtime::new()
          BuiltinAlias,   \* bare names imported in the root scope of Runtime::new()
          ValidCls        \* lexical classes that are valid non-keyword identifiers

Range(s) == {s[i] : i \in DOMAIN s}
Front(s) == SubSeq(s, 1, Len(s) - 1)
Last(s)  == s[Len(s)]

IsNamed(it)  == it.k \in {"mod", "type", "fn", "const"}

(* every item of a library, at any depth *)
RECURSIVE Flat(_)
Flat(items) == IF items = <<>> THEN <<>>
               ELSE <<Head(items)>> \o Flat(Head(items).items) \o Flat(Tail(items))

(* `type` items with their declaration paths (types are only looked for    *)
(* inside modules: a type inside an impl block is not a registration)      *)
RECURSIVE TypeEntries(_, _)
TypeEntries(items, scope) ==
  IF items = <<>> THEN <<>>
  ELSE LET it == Head(items)
           here == CASE it.k = "type" -> <<[path |-> Append(scope, it.name), ty |-> it.ty]>>
                     [] it.k = "mod"  -> TypeEntries(it.items, Append(scope, it.name))
                     [] OTHER         -> <<>>
       IN here \o TypeEntries(Tail(items), scope)

(***************************************************************************)
(* Rust types in signatures.  0 = i32 and 1..4 = host types (Val<..>) are  *)
(* the types a library can register / mention by themselves; 5 = u32,      *)
(* 6 = bool, 7 = String are further built-in types; compound types are     *)
(* coded structurally, one or two levels deep:                              *)
(*   K*100 + x*10 + y           K[x] / K[x, y] with x, y single digits      *)
(*   K*1000000 + cx*1000 + cy   the same with a compound component          *)
(*   K: 1 Option, 2 List, 3 Result, 4 Verdict (y / cy = 0 for Option, List) *)
(* A Rust type denotes the Roto type of the same structure, component      *)
(* order preserved: Result<T, E> is Result[T, E], Verdict<A, R> is          *)
(* Verdict[A, R].                                                           *)
(***************************************************************************)
TyKind(t) == IF t < 100 THEN 0 ELSE IF t < 1000 THEN t \div 100 ELSE t \div 1000000
TyArgs(t) == IF t < 100 THEN <<>>
             ELSE IF t < 1000 THEN (IF TyKind(t) <= 2 THEN <<(t \div 10) % 10>> ELSE <<(t \div 10) % 10, t % 10>>)
             ELSE IF TyKind(t) <= 2 THEN <<(t \div 1000) % 1000>> ELSE <<(t \div 1000) % 1000, t % 1000>>
(* the registrable Rust types a type mentions *)
RECURSIVE Mentions(_)
Mentions(t) == IF t < 100 THEN (IF t <= 4 THEN {t} ELSE {})
               ELSE UNION {Mentions(TyArgs(t)[i]) : i \in DOMAIN TyArgs(t)}
(* Values of the types >= 5 are observed structurally.  The canonical      *)
(* value number sel of a type: variant sel % 2 (Some | None, [x] | [],     *)
(* Ok | Err, Accept | Reject) with the canonical value sel \div 2 of the   *)
(* component as payload; its observation: weight * (variant + 1) + the     *)
(* observation of the payload, where every built-in leaf has its own code. *)
LeafCode(b) == CASE b = 5 -> 7 [] b = 6 -> 1 [] b = 7 -> 3 [] b = 1 -> 5 [] OTHER -> 0
RECURSIVE Obs(_, _)
Obs(t, sel) ==
  IF t < 100 THEN LeafCode(t)
  ELSE LET w == IF t >= 1000000 THEN 100 ELSE 10
           a == TyArgs(t)
           v == sel % 2
       IN IF v = 0 THEN w + Obs(a[1], sel \div 2)
          ELSE IF Len(a) = 2 THEN 2 * w + Obs(a[2], sel \div 2)
          ELSE 2 * w

(* declarations of a library: tm maps Rust types to Roto type paths, self  *)
(* is the Rust type of the enclosing impl block or -1                       *)
Info(kind, it, self) == [kind |-> kind, tag |-> it.tag, ty |-> it.ty, ps |-> it.ps, r |-> it.r, self |-> self]
RECURSIVE Entries(_, _, _, _)
Entries(items, scope, tm, self) ==
  IF items = <<>> THEN <<>>
  ELSE LET it == Head(items)
           p  == Append(scope, it.name)
           here ==
             CASE it.k = "mod" /\ self < 0   -> <<[path |-> p, info |-> Info("mod", it, -1)]>> \o Entries(it.items, p, tm, -1)
               [] it.k = "type" /\ self < 0  -> <<[path |-> p, info |-> Info("type", [it EXCEPT !.tag = it.ty], -1)]>>
               [] it.k = "fn"                -> <<[path |-> p, info |-> Info(IF self >= 0 THEN "method" ELSE "fn", it, self)]>>
               [] it.k = "const"             -> <<[path |-> p, info |-> Info("const", it, self)]>>
               [] it.k = "impl" /\ self < 0 /\ it.ty \in DOMAIN tm -> Entries(it.items, tm[it.ty], tm, it.ty)
               [] OTHER                      -> <<>>
       IN here \o Entries(Tail(items), scope, tm, self)

(* `use` items: top = the use is a direct member of the library *)
RECURSIVE Uses(_, _)
Uses(items, top) ==
  IF items = <<>> THEN <<>>
  ELSE LET it == Head(items)
           here == CASE it.k = "use" -> [i \in 1..Len(it.paths) |-> [path |-> it.paths[i], top |-> top]]
                     [] it.k \in {"mod", "impl"} -> Uses(it.items, FALSE)
                     [] OTHER -> <<>>
       IN here \o Uses(Tail(items), top)

(* A `use` item as written in library! is a tree:                          *)
(*   [t |-> "name",  x |-> ident, kids |-> <<>>]        use .. ident        *)
(*   [t |-> "path",  x |-> ident, kids |-> <<tree>>]    ident :: tree       *)
(*   [t |-> "group", x |-> "",    kids |-> trees]       { tree, tree, .. }  *)
(* The paths it names: every leaf prefixed by exactly the idents on the    *)
(* way from the root of the tree to that leaf, in source order.            *)
RECURSIVE ConcatAll(_)
ConcatAll(ss) == IF ss = <<>> THEN <<>> ELSE Head(ss) \o ConcatAll(Tail(ss))
RECURSIVE UsePaths(_)
UsePaths(tr) ==
  CASE tr.t = "name"  -> << <<tr.x>> >>
    [] tr.t = "path"  -> LET s == UsePaths(tr.kids[1]) IN [i \in DOMAIN s |-> <<tr.x>> \o s[i]]
    [] tr.t = "group" -> ConcatAll([i \in DOMAIN tr.kids |-> UsePaths(tr.kids[i])])

(* mod / type / impl inside an impl block *)
RECURSIVE NestedInImpl(_, _)
NestedInImpl(items, inimpl) ==
  \E i \in DOMAIN items :
     \/ inimpl /\ items[i].k \in {"mod", "type", "impl"}
     \/ items[i].k = "impl" /\ NestedInImpl(items[i].items, TRUE)
     \/ items[i].k = "mod" /\ NestedInImpl(items[i].items, inimpl)

HasDup(s) == \E i, j \in DOMAIN s : i < j /\ s[i] = s[j]

EmptyRt == [decl   |-> <<>>,                       \* function with empty domain
            rtypes |-> (0 :> <<"i32">>),
            alias  |-> <<>>,
            loose  |-> {},
            opennames |-> {},
            opentys   |-> {}]

Taken(rt, p)    == p \in DOMAIN rt.decl \/ (Len(p) = 1 /\ p[1] \in BuiltinRoot)
AliasNames(rt)  == DOMAIN rt.alias \cup BuiltinAlias

(***************************************************************************)
(* The analysis of one Add: everything the outcome depends on.             *)
(***************************************************************************)
Analyse(rt, lib) ==
  LET flat    == Flat(lib)
      tents   == TypeEntries(lib, <<>>)
      tys     == [i \in DOMAIN tents |-> tents[i].ty]
      dupty   == HasDup(tys) \/ \E i \in DOMAIN tys : tys[i] \in DOMAIN rt.rtypes
      newtm   == [t \in Range(tys) |-> (CHOOSE e \in Range(tents) : e.ty = t).path]
      tm      == IF dupty THEN rt.rtypes ELSE newtm @@ rt.rtypes
      known   == DOMAIN rt.rtypes \cup Range(tys)
      ents    == Entries(lib, <<>>, tm, -1)
      paths   == [i \in DOMAIN ents |-> ents[i].path]
      newdecl == [p \in Range(paths) |-> (CHOOSE e \in Range(ents) : e.path = p).info]
      decl2   == newdecl @@ rt.decl
      uses    == Uses(lib, TRUE)
      (* (a) *)
      badname == \E it \in Range(flat) : IsNamed(it) /\ it.cls \notin ValidCls
      (* (b) *)
      taken   == HasDup(paths) \/ \E i \in DOMAIN paths : Taken(rt, paths[i])
      (* (d) *)
      unreg   == \E it \in Range(flat) :
                    \/ it.k = "fn" /\ (~(Mentions(it.r) \subseteq known) \/ \E i \in DOMAIN it.ps : ~(Mentions(it.ps[i]) \subseteq known))
                    \/ it.k = "const" /\ ~(Mentions(it.ty) \subseteq known)
                    \/ it.k = "impl" /\ it.ty \notin known
      (* uses *)
      Exists(p)   == p # <<>> /\ p \in DOMAIN decl2
      topuses     == SelectSeq(uses, LAMBDA u : u.top)
      inuses      == SelectSeq(uses, LAMBDA u : ~u.top /\ u.path # <<>>)
      innameseq   == [i \in DOMAIN inuses |-> Last(inuses[i].path)]
      innames     == Range(innameseq)
      (* two top-level aliases with one name and different targets: a name taken twice *)
      aliasclash  == \/ \E i, j \in DOMAIN topuses :
                           /\ i # j /\ topuses[i].path # <<>> /\ topuses[j].path # <<>>
                           /\ Last(topuses[i].path) = Last(topuses[j].path)
                           /\ topuses[i].path # topuses[j].path
                     \/ \E k \in DOMAIN topuses :
                           /\ topuses[k].path # <<>>
                           /\ Last(topuses[k].path) \in DOMAIN rt.alias
                           /\ rt.alias[Last(topuses[k].path)] # topuses[k].path
                           /\ Last(topuses[k].path) \notin rt.loose
      (* a top-level alias is asserted when nothing about it is left open *)
      Clean(i)    == LET p == topuses[i].path IN
                     /\ Exists(p)
                     /\ Last(p) \notin AliasNames(rt)
                     /\ Last(p) \notin rt.loose
                     /\ Last(p) \notin innames
                     /\ ~ \E j \in DOMAIN topuses : j # i /\ topuses[j].path # <<>> /\ Last(topuses[j].path) = Last(p)
                     /\ <<Last(p)>> \notin DOMAIN decl2
                     /\ Last(p) \notin BuiltinRoot
      cleanidx    == {i \in DOMAIN topuses : Clean(i)}
      newalias    == [n \in {Last(topuses[i].path) : i \in cleanidx} |->
                        (CHOOSE i \in cleanidx : Last(topuses[i].path) = n)]
      newaliasmap == [n \in DOMAIN newalias |-> topuses[newalias[n]].path]
      openidx     == DOMAIN topuses \ cleanidx
      newloose    == {Last(topuses[i].path) : i \in {j \in openidx : topuses[j].path # <<>>}} \cup innames
      unspec      == \/ openidx # {}
                     \/ \E u \in Range(uses) : ~u.top /\ ~Exists(u.path)
                     \/ \E n \in innames : n \in AliasNames(rt) \/ <<n>> \in DOMAIN decl2 \/ n \in BuiltinRoot
                                               \/ n \in rt.loose
                     \/ HasDup(innameseq)
                     \/ NestedInImpl(lib, FALSE)
      dangling    == {Last(u.path) : u \in {x \in Range(uses) : x.path # <<>> /\ ~Exists(x.path)}}
      (* what an earlier REFUSED Add may have registered: a library that uses one of those names / *)
      (* Rust types again may find it taken / registered or not                                     *)
      usenames    == {Last(u.path) : u \in {x \in Range(uses) : x.path # <<>>}}
      touches     == \/ \E it \in Range(flat) : IsNamed(it) /\ it.name \in rt.opennames
                     \/ usenames \cap rt.opennames # {}
                     \/ \E it \in Range(flat) :
                           \/ it.k \in {"type", "impl", "const"} /\ it.ty \in rt.opentys
                           \/ it.k = "const" /\ Mentions(it.ty) \cap rt.opentys # {}
                           \/ it.k = "fn" /\ (Mentions(it.r) \cap rt.opentys # {} \/ \E i \in DOMAIN it.ps : Mentions(it.ps[i]) \cap rt.opentys # {})
      (* a declaration in the root scope named like an alias that exists already: which of the two *)
      (* a script sees is left open (like an alias named like a declaration)                        *)
      shadowed    == {paths[i][1] : i \in {j \in DOMAIN paths : Len(paths[j]) = 1 /\ paths[j][1] \in DOMAIN rt.alias}}
      certain     == badname \/ taken \/ aliasclash \/ dupty
      why         == (IF badname THEN {"badname"} ELSE {}) \cup (IF taken \/ aliasclash THEN {"taken"} ELSE {})
                     \cup (IF dupty THEN {"duptype"} ELSE {}) \cup (IF unreg THEN {"unregistered"} ELSE {})
  IN [out      |-> IF touches THEN (IF certain THEN "Err" ELSE "Unspec")
                   ELSE IF why # {} THEN "Err" ELSE IF unspec \/ shadowed # {} THEN "Unspec" ELSE "Ok",
      why      |-> why,
      dangling |-> dangling,
      touches  |-> touches,
      shadowed |-> shadowed,
      names    |-> {it.name : it \in {x \in Range(flat) : IsNamed(x)}} \cup usenames,
      newtys   |-> Range(tys) \ DOMAIN rt.rtypes,
      rt       |-> [decl   |-> decl2,
                    rtypes |-> tm,
                    alias  |-> newaliasmap @@ rt.alias,
                    loose  |-> rt.loose \cup newloose \cup shadowed,
                    opennames |-> rt.opennames,
                    opentys   |-> rt.opentys]]

(***************************************************************************)
(* The runtime after a REFUSED Add.  Declarations, registered Rust types   *)
(* and aliases of the earlier successful Adds are untouched - they stay    *)
(* reachable and keep their meaning.  The refused library may have been    *)
(* registered in part: its names and its new Rust types become open.  A    *)
(* root name of the refused library that is the name of an alias makes     *)
(* that alias open (declaration and alias of one name: left open above).   *)
(***************************************************************************)
Refused(rt, a) == [rt EXCEPT !.opennames = @ \cup a.names,
                             !.opentys   = @ \cup a.newtys,
                             !.loose     = @ \cup a.shadowed]

(***************************************************************************)
(* Reachability from a script.                                             *)
(***************************************************************************)
(* the declaration a script path denotes: <<TRUE, declpath>>, or           *)
(* <<FALSE, "none">> (not reachable), or <<FALSE, "open">> (left open)     *)
Resolve(rt, p) ==
  IF p = <<>> THEN <<FALSE, "none">>
  ELSE IF p[1] \in rt.loose THEN <<FALSE, "open">>
  ELSE IF p \in DOMAIN rt.decl THEN <<TRUE, p>>
  ELSE IF p[1] \in DOMAIN rt.alias /\ (rt.alias[p[1]] \o Tail(p)) \in DOMAIN rt.decl
       THEN <<TRUE, rt.alias[p[1]] \o Tail(p)>>
  ELSE IF p[1] \in BuiltinRoot \cup BuiltinAlias THEN <<FALSE, "open">>
  ELSE IF \E i \in DOMAIN p : p[i] \in rt.opennames THEN <<FALSE, "open">>   \* perhaps registered by a refused Add
  ELSE <<FALSE, "none">>

(* does probe q (kind, path, ps, r, ty) fit declaration d *)
Fits(q, d) ==
  CASE q.kind = "fn"     -> d.kind \in {"fn", "method"} /\ d.ps = q.ps /\ d.r = q.r
    [] q.kind = "method" -> d.kind = "method" /\ d.ps = q.ps /\ d.r = q.r /\ Len(d.ps) > 0 /\ d.ps[1] = d.self
    [] q.kind \in {"match", "cons"} -> d.kind = "fn" /\ d.ps = q.ps /\ d.r = q.r
    [] q.kind = "const"  -> d.kind = "const" /\ d.ty = q.ty
    [] q.kind = "type"   -> d.kind = "type" /\ d.ty = q.ty
    [] OTHER             -> FALSE

(* the tag a probe must observe: >= 0 the tag, -1 not usable, -3 left open *)
(* What a probe of declaration d observes.  A result of a type < 5 carries *)
(* the tag of the item.  An item whose signature has a type >= 5 is        *)
(* observed through the values of that type: a function / constant that    *)
(* returns it yields the canonical values (tag 0: such a value carries no  *)
(* tag), a function / method that takes it reports the observation of what *)
(* it was given (and its tag).                                              *)
ResultTy(d) == IF d.kind = "const" THEN d.ty ELSE d.r
ValTy(d) == IF d.kind \in {"mod", "type"} THEN 0
            ELSE IF ResultTy(d) >= 5 THEN ResultTy(d)
            ELSE IF \E i \in DOMAIN d.ps : d.ps[i] >= 5 THEN d.ps[CHOOSE i \in DOMAIN d.ps : d.ps[i] >= 5]
            ELSE 0
ProbeTag(d) == IF d.kind \notin {"mod", "type"} /\ ResultTy(d) >= 5 THEN 0 ELSE d.tag
ObsSeq(d) == IF ValTy(d) = 0 THEN <<>>
             ELSE IF d.kind = "const" THEN <<Obs(d.ty, 0)>>
             ELSE [s \in 1..4 |-> Obs(ValTy(d), s - 1)]

Expect(rt, q) ==
  LET res == Resolve(rt, q.path) IN
  IF res[1] THEN (IF Fits(q, rt.decl[res[2]]) THEN ProbeTag(rt.decl[res[2]]) ELSE -1)
  ELSE IF res[2] = "open" THEN -3 ELSE -1
ExpectObs(rt, q) ==
  LET res == Resolve(rt, q.path) IN
  IF res[1] /\ Fits(q, rt.decl[res[2]]) THEN ObsSeq(rt.decl[res[2]]) ELSE <<>>

Reach(rt, p) == Resolve(rt, p)[1]

(* all positive probes of a runtime state: every declared item at its      *)
(* declaration path and through every asserted alias (an alias of a        *)
(* module or type gives access to its members)                              *)
ProbeOf(p, d, via) ==
  LET base == [path |-> p, ps |-> d.ps, r |-> d.r, ty |-> d.ty, tag |-> ProbeTag(d), obs |-> ObsSeq(d),
               via |-> via, neg |-> FALSE]
      (* a script that takes the value apart (match) / builds it from its components (constructors) *)
      apart == IF d.kind = "fn" /\ d.r >= 100 /\ TyKind(d.r) \in {1, 3, 4} /\ d.ps = <<0>>
               THEN {[kind |-> "match"] @@ base} ELSE {}
      build == IF d.kind = "fn" /\ d.r = 0 /\ Len(d.ps) = 1 /\ d.ps[1] >= 100 /\ TyKind(d.ps[1]) \in {1, 3, 4}
               THEN {[kind |-> "cons"] @@ base} ELSE {}
  IN
  CASE d.kind = "fn"     -> {[kind |-> "fn"] @@ base} \cup apart \cup build
    [] d.kind = "const"  -> {[kind |-> "const"] @@ base}
    [] d.kind = "type"   -> {[kind |-> "type"] @@ base}
    [] d.kind = "method" -> {[kind |-> "fn"] @@ base} \cup
                            (IF Len(d.ps) > 0 /\ d.ps[1] = d.self THEN {[kind |-> "method"] @@ base} ELSE {})
    [] OTHER             -> {}

IsPrefix(a, b) == Len(a) <= Len(b) /\ SubSeq(b, 1, Len(a)) = a

PositiveProbes(rt) ==
  UNION {ProbeOf(p, rt.decl[p], "decl") : p \in {x \in DOMAIN rt.decl : x[1] \notin rt.loose}}
  \cup UNION {UNION {ProbeOf(<<n>> \o SubSeq(p, Len(rt.alias[n]) + 1, Len(p)), rt.decl[p], "use")
                       : p \in {x \in DOMAIN rt.decl : IsPrefix(rt.alias[n], x)}}
              : n \in {m \in DOMAIN rt.alias : m \notin rt.loose}}

(* "exactly": an item in a module / type is not usable under a shorter     *)
(* path (bare name, or with one scope left out) unless something else is   *)
(* declared or imported there (method-call syntax has no path: skipped)    *)
Shorter(p) == {SubSeq(p, 1, i - 1) \o SubSeq(p, i + 1, Len(p)) : i \in 1..(Len(p) - 1)} \cup {<<Last(p)>>}
NegativeProbes(rt) ==
  UNION {UNION {{[q EXCEPT !.path = s, !.tag = -1, !.via = "neg", !.neg = TRUE]
                   : s \in {x \in Shorter(p) : ~Resolve(rt, x)[1] /\ Resolve(rt, x)[2] = "none"}}
                : q \in {x \in ProbeOf(p, rt.decl[p], "neg") : x.kind # "method"}}
         : p \in {x \in DOMAIN rt.decl : Len(x) >= 2}}

(* "with the declared signature": a function is not usable with one        *)
(* parameter more (or, for two parameters, one less) than declared          *)
SigProbes(rt) ==
  UNION {{[q EXCEPT !.ps = IF Len(q.ps) < 2 THEN Append(q.ps, 0) ELSE Front(q.ps),
                    !.tag = -1, !.via = "sig", !.neg = TRUE]
            : q \in {x \in ProbeOf(p, rt.decl[p], "sig") : x.kind = "fn"}}
         : p \in {x \in DOMAIN rt.decl : x[1] \notin rt.loose /\ rt.decl[x].kind = "fn" /\ ValTy(rt.decl[x]) = 0}}

(***************************************************************************)
(* The state machine: a runtime and a sequence of Add calls.               *)
(***************************************************************************)
VARIABLES rt,        \* runtime state (meaningful while valid)
          valid,     \* FALSE when nothing more is asserted: after an Add whose outcome was left open and that
                     \* failed, or that succeeded although it uses names of a refused library
          outcome    \* outcome of the last Add: "init" | "Ok" | "Err" | "Unspec"
vars == <<rt, valid, outcome>>

Init == rt = EmptyRt /\ valid = TRUE /\ outcome = "init"

(* Add with the outcome the implementation reported (got \in {"ok","err"}); *)
(* enabled only if the specification allows that outcome                    *)
Add(lib, got) ==
  /\ valid
  /\ LET a == Analyse(rt, lib) IN
     /\ \/ a.out = "Ok" /\ got = "ok"
        \/ a.out = "Err" /\ got = "err"
        \/ a.out = "Unspec" /\ got \in {"ok", "err"}
     /\ outcome' = a.out
     /\ valid' = \/ got = "ok" /\ ~a.touches
                 \/ got = "err" /\ a.out = "Err"          \* refused as specified: earlier items stay as they are
     /\ rt' = IF got = "ok" THEN a.rt ELSE IF a.out = "Err" THEN Refused(rt, a) ELSE rt

TypeOK == /\ valid \in BOOLEAN
          /\ outcome \in {"init", "Ok", "Err", "Unspec"}
          /\ \A p \in DOMAIN rt.decl : Len(p) >= 1
          /\ \A t \in DOMAIN rt.rtypes : t = 0 \/ rt.rtypes[t] \in DOMAIN rt.decl
(* every declared item lives in a module or a type, or at the root *)
ScopesClosed == \A p \in DOMAIN rt.decl :
                   Len(p) = 1 \/ Front(p) = <<"i32">> \/
                   (Front(p) \in DOMAIN rt.decl /\ rt.decl[Front(p)].kind \in {"mod", "type"})
(* aliases point at declarations *)
AliasesResolve == \A n \in DOMAIN rt.alias : rt.alias[n] \in DOMAIN rt.decl
(* a refused Add changes nothing that was reachable: the action property checked by MCRegistration *)
RefusedKeeps == [][outcome' = "Err" /\ valid' =>
                     /\ rt'.decl = rt.decl /\ rt'.rtypes = rt.rtypes /\ rt'.alias = rt.alias
                     /\ \A p \in DOMAIN rt.decl : Resolve(rt, p)[1] => Resolve(rt', p) = Resolve(rt, p)]_vars
=============================================================================
