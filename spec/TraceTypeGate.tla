---------------------------- MODULE TraceTypeGate ----------------------------
(* I->S binding for C04.  Every line of the trace is one retrieval that was   *)
(* really attempted on a compiled package:                                   *)
(*   [item |-> the script item (TypeGate.Fn / TypeGate.Fm record),           *)
(*    nameclass |-> "declared" | "unknown" | "helper" | "nonfn",                       *)
(*    rust |-> [params, ret] of the Rust function type F that was requested, *)
(*    res |-> "ok" (a handle came back) | "err"]                             *)
(* The event is a step of this spec iff res is exactly TypeGate's verdict,   *)
(* so both a handle handed out wrongly and a refusal of the true signature   *)
(* stop the trace at that line.                                              *)
EXTENDS TypeGate, Json, IOUtils, TLCExt

Rec == ndJsonDeserialize(IOEnv.TRACE)

VARIABLE l

Ev == Rec[l]

TraceInit == l = 1

Get ==
  /\ l <= Len(Rec)
  /\ Ev.nameclass \in NameClasses
  /\ Ev.res = Verdict(Ev.item, Ev.nameclass, Ev.rust)
  /\ l' = l + 1

TraceNext == Get
TraceSpec == TraceInit /\ [][TraceNext]_l

TraceAccepted ==
  LET d == TLCGet("stats").diameter IN
  IF d - 1 = Len(Rec) THEN TRUE
  ELSE /\ PrintT(<<"UNMATCHED", ToJson([line |-> d, ev |-> Rec[d]])>>)
       /\ FALSE
=============================================================================
