----------------------------- MODULE TraceNoCrash -----------------------------
(* I->S binding for C10.  The check executes points of the call domain in    *)
(* sacrificial worker processes and records two events per point:            *)
(*    {"e": "call", "point": {..}}          before the point is executed     *)
(*    {"e": "done", "outcome": "returned" | "signal:N" | "panic" | "hang"}   *)
(* A recorded run is accepted iff it is a behaviour of NoCrash: every "call" *)
(* names a point of the domain (PointOk - this also decides the membership   *)
(* of the concrete points made by the check's seeded generator) and every    *)
(* call is followed by Return.  NoCrash has no action for any other outcome, *)
(* so such an event cannot be matched.  Because a crash kills only the       *)
(* sacrificial worker, validation does not stop there: the unmatched event   *)
(* is printed, counted, and matching resumes with the next call in a fresh   *)
(* worker (pc = "pending"); the run is accepted iff nothing was unmatched.   *)
EXTENDS NoCrash, Json, IOUtils, TLCExt

Rec == ndJsonDeserialize(IOEnv.TRACE)

VARIABLE l
tvars == <<pc, cur, outcome, l>>

Ev == Rec[l]
More == l <= Len(Rec)

MatchCall == More /\ Ev.e = "call" /\ pc \in {"pending", "returned"} /\ PointOk(Ev.point)
MatchDone == More /\ Ev.e = "done" /\ pc = "called" /\ Ev.outcome \in AllowedOutcomes

TraceInit == Init /\ l = 1 /\ TLCSet(42, 0)

TraceNext ==
  \/ MatchCall /\ Call(Ev.point) /\ l' = l + 1
  \/ MatchDone /\ Return /\ l' = l + 1
  \* not a step of NoCrash: report, count, resynchronise on a fresh worker
  \/ /\ More /\ ~MatchCall /\ ~MatchDone
     /\ PrintT(<<"UNMATCHED", ToJson([line |-> l, ev |-> Ev, point |-> cur])>>)
     /\ TLCSet(42, TLCGet(42) + 1)
     /\ l' = l + 1 /\ pc' = "pending" /\ cur' = NoPoint /\ outcome' = "none"

TraceSpec == TraceInit /\ [][TraceNext]_tvars

(* accepted iff every event was consumed and none of them was unmatched *)
TraceAccepted ==
  /\ TLCGet("stats").diameter - 1 = Len(Rec)
  /\ TLCGet(42) = 0
=============================================================================
