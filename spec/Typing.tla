------------------------------- MODULE Typing -------------------------------
(* C07 - "ill-typed scripts never compile": the typing judgement of a        *)
(* fragment of roto, written after the language reference and the rule list  *)
(* of the property statement (anchored in typechecker/{mod,expr,function,    *)
(* scope,type_cycle,value_cycle}.rs).                                        *)
(*                                                                           *)
(* A program is a JSON-able value  [decls |-> <<decl..>>, nodes |-> <<node..>>]:*)
(* the expression/statement/block nodes live in one table and refer to each  *)
(* other by (1-based) index, so that an edit is a local change of the table. *)
(*                                                                           *)
(*   types   [k |-> "i32"] .. (all records with a field k):                  *)
(*           i8 i16 i32 i64 u8 u16 u32 u64 f32 f64 bool String unit          *)
(*           [k|->"opt",a|->T]  [k|->"list",a|->T]  [k|->"named",n|->"R"]    *)
(*           internal only: never, any (unconstrained), int / sint (integer  *)
(*           literal / literal that must be signed), float (float literal),  *)
(*           [k|->"anon",fs|-><<[n,t]..>>] (record literal), [k|->"verdict"] *)
(*           A type in a program is the WRITTEN type: see "name resolution"  *)
(*           (a declared record / enum may carry the name of a built-in).    *)
(*   decls   record(n,fs) enum(n,vs) const(n,t,e) fn(n,ps,ret,body)          *)
(*           filtermap(n,ps,body)                                            *)
(*   nodes   int float bool str unit var neg not bin if blk let assign       *)
(*           cassign call ctor rec fld match try ret list while for          *)
(*           mcall (a method call  recv.m(args), see "methods")              *)
(*                                                                           *)
(* Chk(P, i, env, exp) is bidirectional like TypeChecker::expr: `exp` is the *)
(* expected type (AnyT = a fresh variable), the result is the type after      *)
(* unification with the expectation, plus the "diverges" flag.               *)
(*                                                                           *)
(* Where roto infers by unification over mutable variables (an integer       *)
(* literal bound by an un-annotated let, the element type of [], the         *)
(* accept/reject types of a filtermap) this judgement keeps the flexible     *)
(* type (int, any) and lets every use choose again: it accepts MORE than     *)
(* roto there, never less.  C07 only uses the direction "the judgement       *)
(* rejects => roto must reject", so this is the safe side.                   *)
(***************************************************************************)
EXTENDS Naturals, Sequences, FiniteSets

T(k)      == [k |-> k]
Err       == T("err")
AnyT       == T("any")
Never     == T("never")
Unit      == T("unit")
Bool      == T("bool")
Str       == T("String")
Opt(a)    == [k |-> "opt", a |-> a]
ListOf(a) == [k |-> "list", a |-> a]
Named(n)  == [k |-> "named", n |-> n]
Anon(fs)  == [k |-> "anon", fs |-> fs]
Verdict(a, r) == [k |-> "verdict", a |-> a, r |-> r]
NoRet     == T("none")

SignedK   == {"i8", "i16", "i32", "i64"}
UnsignedK == {"u8", "u16", "u32", "u64"}
IntK      == SignedK \cup UnsignedK
FloatK    == {"f32", "f64"}
PrimK     == IntK \cup FloatK \cup {"bool", "String", "unit", "IpAddr", "Prefix"}

IsIntTy(t)     == t.k \in IntK \cup {"int", "sint"}
IsNumericTy(t) == t.k \in IntK \cup FloatK \cup {"int", "sint", "float"}

Range(s) == {s[x] : x \in DOMAIN s}
NoDup(s) == \A x, y \in DOMAIN s : x # y => s[x] # s[y]
Names(fs) == [x \in DOMAIN fs |-> fs[x].n]

(* ------------------------------------------------------------ declarations *)
HasDecl(P, n)  == \E d \in DOMAIN P.decls : P.decls[d].n = n
DeclOf(P, n)   == P.decls[CHOOSE d \in DOMAIN P.decls : P.decls[d].n = n]
IsRecordTy(P, t) == t.k = "named" /\ HasDecl(P, t.n) /\ DeclOf(P, t.n).k = "record"
IsEnumTy(P, t)   == t.k = "named" /\ HasDecl(P, t.n) /\ DeclOf(P, t.n).k = "enum"

HasField(fs, n) == \E x \in DOMAIN fs : fs[x].n = n
FieldTy(fs, n)  == fs[CHOOSE x \in DOMAIN fs : fs[x].n = n].t

(* a type expression written in the source is well formed *)
(* Declared types may be generic: a record / enum declaration with a field tp  *)
(* (its type parameter names); its members may mention [k|->"tparam",n|->..]; *)
(* an instantiation is [k |-> "gen", n |-> "G", as |-> <<T..>>].  Generic     *)
(* types are supported in DECLARATIONS only (well-formedness, recursion); no  *)
(* expression of this fragment has such a type.                               *)
TParams(d) == IF "tp" \in DOMAIN d THEN d.tp ELSE <<>>
RECURSIVE WfTypeIn(_, _, _)
WfTypeIn(P, t, tps) ==
  CASE t.k \in PrimK   -> TRUE
    [] t.k = "opt"     -> WfTypeIn(P, t.a, tps)
    [] t.k = "list"    -> WfTypeIn(P, t.a, tps)
    [] t.k = "named"   -> HasDecl(P, t.n) /\ DeclOf(P, t.n).k \in {"record", "enum"} /\ TParams(DeclOf(P, t.n)) = <<>>
    [] t.k = "tparam"  -> t.n \in tps
    [] t.k = "gen"     -> /\ HasDecl(P, t.n) /\ DeclOf(P, t.n).k \in {"record", "enum"}
                          /\ Len(TParams(DeclOf(P, t.n))) = Len(t.as) /\ t.as # <<>>
                          /\ \A x \in DOMAIN t.as : WfTypeIn(P, t.as[x], tps)
    [] OTHER           -> FALSE
WfType(P, t) == WfTypeIn(P, t, {})

(* ------------------------------------------------------------ name resolution *)
(* A script may declare a record or an enum under ANY name, also the name of a  *)
(* built-in type (Option, Verdict, Result, List, String, bool, u32, ...): the   *)
(* declaration shadows the built-in inside the module (scope.rs: a path is      *)
(* looked up from the innermost scope outwards; the built-ins live in the       *)
(* global scope; cf. tests/scripts/type_errors/overriding_builtin.roto).  Such a *)
(* NAMESAKE is a type of its own: no rule that mentions a built-in applies to   *)
(* it.  What stays the built-in whatever the script declares:                    *)
(*   - the sugar `T?` (evaluate_type_expr: TypeExpr::Option => Type::option),    *)
(*   - the bare constructors Some(..) / None (the prelude imports the variants   *)
(*     of the built-in Option; a path `Option.Some` is resolved by name and      *)
(*     therefore means the script's Option when there is one),                   *)
(*   - the types of literals, of operator results, of `accept` / `reject` and   *)
(*     of a filtermap, the iterated type of `for`, the conditions of if / while. *)
(* In a program AST a type is WRITTEN: T("String"), Named("String") are both    *)
(* the name `String`; ListOf(a) is `List[a]`; Opt(a) is `a?`.  Res gives the     *)
(* type the written form denotes in program P; Norm resolves every annotation of *)
(* a program.  The judgement below works on resolved programs only.              *)
BuiltinNames == (PrimK \ {"unit"}) \cup {"Option", "List", "Verdict", "Result"}
TyDeclared(P, n) == HasDecl(P, n) /\ DeclOf(P, n).k \in {"record", "enum"}
IllFormed == T("illformed")        \* wrong number of type arguments for the declared type: WfType rejects it
RECURSIVE Res(_, _)
Res(P, t) ==
  CASE t.k \in PrimK \ {"unit"} ->
         IF TyDeclared(P, t.k) THEN (IF TParams(DeclOf(P, t.k)) = <<>> THEN Named(t.k) ELSE IllFormed) ELSE t
    [] t.k = "named" -> IF ~HasDecl(P, t.n) /\ t.n \in PrimK \ {"unit"} THEN T(t.n) ELSE t
    [] t.k = "opt"   -> Opt(Res(P, t.a))
    [] t.k = "list"  -> IF TyDeclared(P, "List")
                        THEN (IF Len(TParams(DeclOf(P, "List"))) = 1
                              THEN [k |-> "gen", n |-> "List", as |-> <<Res(P, t.a)>>] ELSE IllFormed)
                        ELSE ListOf(Res(P, t.a))
    [] t.k = "gen"   -> [k |-> "gen", n |-> t.n, as |-> [x \in DOMAIN t.as |-> Res(P, t.as[x])]]
    [] OTHER         -> t

NormDecl(P, d) ==
  CASE d.k = "record" -> [d EXCEPT !.fs = [x \in DOMAIN d.fs |-> [n |-> d.fs[x].n, t |-> Res(P, d.fs[x].t)]]]
    [] d.k = "enum"   -> [d EXCEPT !.vs = [x \in DOMAIN d.vs |->
                              [n |-> d.vs[x].n, ts |-> [y \in DOMAIN d.vs[x].ts |-> Res(P, d.vs[x].ts[y])]]]]
    [] d.k = "const"  -> [d EXCEPT !.t = Res(P, d.t)]
    [] d.k = "fn"     -> [d EXCEPT !.ps = [x \in DOMAIN d.ps |-> [n |-> d.ps[x].n, t |-> Res(P, d.ps[x].t)]],
                                   !.ret = Res(P, d.ret)]
    [] d.k = "filtermap" -> [d EXCEPT !.ps = [x \in DOMAIN d.ps |-> [n |-> d.ps[x].n, t |-> Res(P, d.ps[x].t)]]]
    [] OTHER          -> d
NormNode(P, n) == IF n.k = "let" /\ n.t # <<>> THEN [n EXCEPT !.t = <<Res(P, n.t[1])>>] ELSE n
(* nothing to resolve unless the script declares a type under a built-in name or *)
(* writes Named(<primitive>) (the same written form as T(<primitive>))           *)
NeedsNorm(P) ==
  \/ \E x \in DOMAIN P.decls : P.decls[x].k \in {"record", "enum"} /\ P.decls[x].n \in BuiltinNames
  \/ \E x \in DOMAIN P.decls :
        LET d == P.decls[x]
            IsPN(t) == t.k = "named" /\ t.n \in PrimK
        IN CASE d.k = "record" -> \E y \in DOMAIN d.fs : IsPN(d.fs[y].t)
             [] d.k = "enum"   -> \E y \in DOMAIN d.vs : \E z \in DOMAIN d.vs[y].ts : IsPN(d.vs[y].ts[z])
             [] d.k = "const"  -> IsPN(d.t)
             [] d.k = "fn"     -> IsPN(d.ret) \/ \E y \in DOMAIN d.ps : IsPN(d.ps[y].t)
             [] d.k = "filtermap" -> \E y \in DOMAIN d.ps : IsPN(d.ps[y].t)
             [] OTHER -> FALSE
  \/ \E x \in DOMAIN P.nodes : P.nodes[x].k = "let" /\ P.nodes[x].t # <<>>
                                  /\ P.nodes[x].t[1].k = "named" /\ P.nodes[x].t[1].n \in PrimK
Norm(P) ==
  IF ~NeedsNorm(P) THEN P
  ELSE [P EXCEPT !.decls = [x \in DOMAIN P.decls |-> NormDecl(P, P.decls[x])],
                 !.nodes = [x \in DOMAIN P.nodes |-> NormNode(P, P.nodes[x])]]

(* --------------------------------------------------------------- unification *)
(* mod.rs unify_inner: identical types; never with anything; integer literal *)
(* variables with integer types (MustBeSigned only with signed ones); float  *)
(* variables with float types; record literals with records of the same      *)
(* field names; names with equal names and unifiable arguments.              *)
FsComparable(afs, bfs) == Len(afs) = Len(bfs) /\ NoDup(Names(afs)) /\ NoDup(Names(bfs))
RECURSIVE Unify(_, _, _), UnifyFs(_, _, _, _)
Unify(P, a, b) ==
  IF a.k = "err" \/ b.k = "err" THEN Err
  ELSE IF a = b THEN a
  ELSE IF a.k = "never" THEN b
  ELSE IF b.k = "never" THEN a
  ELSE IF a.k = "any" THEN b
  ELSE IF b.k = "any" THEN a
  ELSE IF a.k = "int" THEN (IF b.k \in IntK \cup {"sint"} THEN b ELSE Err)
  ELSE IF b.k = "int" THEN (IF a.k \in IntK \cup {"sint"} THEN a ELSE Err)
  ELSE IF a.k = "sint" THEN (IF b.k \in SignedK THEN b ELSE Err)
  ELSE IF b.k = "sint" THEN (IF a.k \in SignedK THEN a ELSE Err)
  ELSE IF a.k = "float" THEN (IF b.k \in FloatK THEN b ELSE Err)
  ELSE IF b.k = "float" THEN (IF a.k \in FloatK THEN a ELSE Err)
  ELSE IF a.k = "opt" /\ b.k = "opt" THEN
         LET u == Unify(P, a.a, b.a) IN IF u.k = "err" THEN Err ELSE Opt(u)
  ELSE IF a.k = "list" /\ b.k = "list" THEN
         LET u == Unify(P, a.a, b.a) IN IF u.k = "err" THEN Err ELSE ListOf(u)
  ELSE IF a.k = "verdict" /\ b.k = "verdict" THEN
         LET u == Unify(P, a.a, b.a)
             v == Unify(P, a.r, b.r)
         IN IF u.k = "err" \/ v.k = "err" THEN Err ELSE Verdict(u, v)
  ELSE IF a.k = "anon" /\ b.k = "anon" THEN
         IF ~FsComparable(a.fs, b.fs) THEN Err ELSE
         LET u == UnifyFs(P, a.fs, b.fs, 1) IN IF u.ok THEN Anon(u.fs) ELSE Err
  ELSE IF a.k = "anon" /\ IsRecordTy(P, b) THEN
         IF ~FsComparable(a.fs, DeclOf(P, b.n).fs) THEN Err ELSE
         LET u == UnifyFs(P, a.fs, DeclOf(P, b.n).fs, 1) IN IF u.ok THEN b ELSE Err
  ELSE IF b.k = "anon" /\ IsRecordTy(P, a) THEN Unify(P, b, a)
  ELSE Err

(* fields of a (from position k on) unified with the equally named fields of b *)
UnifyFs(P, afs, bfs, k) ==
  IF k > Len(afs) THEN [ok |-> TRUE, fs |-> <<>>]
  ELSE IF ~HasField(bfs, afs[k].n) THEN [ok |-> FALSE, fs |-> <<>>]
  ELSE LET u == Unify(P, afs[k].t, FieldTy(bfs, afs[k].n)) IN
       IF u.k = "err" THEN [ok |-> FALSE, fs |-> <<>>]
       ELSE LET rest == UnifyFs(P, afs, bfs, k + 1) IN
            [ok |-> rest.ok, fs |-> <<[n |-> afs[k].n, t |-> u]>> \o rest.fs]

(* ---------------------------------------------------------------- environment *)
(* env.sc : stack of scopes (innermost last), a scope is a sequence of [n,t]  *)
(* env.ret: return type of the enclosing function-like item, NoRet in a const *)
Env(sc, ret)   == [sc |-> sc, ret |-> ret]
Push(env, s)   == [env EXCEPT !.sc = Append(env.sc, s)]
CurScope(env)  == env.sc[Len(env.sc)]
InCur(env, n)  == HasField(CurScope(env), n)
Bind(env, n, t) == [env EXCEPT !.sc[Len(env.sc)] = Append(env.sc[Len(env.sc)], [n |-> n, t |-> t])]
IsLocal(env, n) == \E x \in DOMAIN env.sc : HasField(env.sc[x], n)
LocalTy(env, n) ==
  LET x == CHOOSE y \in DOMAIN env.sc :
             HasField(env.sc[y], n) /\ \A z \in DOMAIN env.sc : z > y => ~HasField(env.sc[z], n)
  IN FieldTy(env.sc[x], n)

R(t, d)  == [t |-> t, d |-> d]
Bad      == R(Err, FALSE)
Ok(r)    == r.t.k # "err"

(* Two rules can be switched off individually (Lax) so that a check can say   *)
(* whether they are the ONLY rules a program breaks:                           *)
(*  "dup-arm": the property statement lists "unreachable match arm"; an arm    *)
(*     for a variant that an earlier unguarded arm already covers is           *)
(*     unreachable.                                                            *)
(*  "loop-diverge": a while / for loop may run zero times, so an exit in its   *)
(*     body does not make the statements after the loop unreachable: a block   *)
(*     ending in such a loop has type () and cannot be the value of a          *)
(*     function that must return something (like `if` without else, for which  *)
(*     expr.rs says so itself).  With the rule off, a loop whose body always   *)
(*     exits counts as diverging.                                              *)
LaxOpts(P) == IF "lax" \in DOMAIN P THEN P.lax ELSE {}
DupArmIsUnreachable(P) == "dup-arm" \notin LaxOpts(P)
LoopBodyMayBeSkipped(P) == "loop-diverge" \notin LaxOpts(P)
Lax(P, opts) == [decls |-> P.decls, nodes |-> P.nodes, lax |-> opts]

(* variants of a type one can match on *)
Variants(P, t) ==
  CASE t.k = "opt"      -> <<[n |-> "Some", ts |-> <<t.a>>], [n |-> "None", ts |-> <<>>]>>
    [] t.k = "verdict"  -> <<[n |-> "Accept", ts |-> <<t.a>>], [n |-> "Reject", ts |-> <<t.r>>]>>
    [] IsEnumTy(P, t)   -> DeclOf(P, t.n).vs
    [] OTHER            -> <<>>
CanMatch(P, t) == t.k \in {"opt", "verdict", "any"} \/ IsEnumTy(P, t)

(* A value whose type this judgement could not determine (`any`: the result of *)
(* a diverging initialiser, the payload of Option.None, an element of [])     *)
(* may have been pinned by roto through a later unification (an assignment,   *)
(* an argument position).  The judgement cannot know, so such a value is      *)
(* accepted wherever a particular class of type is required (operand of an    *)
(* arithmetic / ordering operator, field access, match): the permissive side. *)
Flex(t) == t.k = "any"

(* type of the field path fs[k..] starting from type t (Err when missing) *)
RECURSIVE PathTy(_, _, _, _)
PathTy(P, t, fs, k) ==
  IF k > Len(fs) THEN t
  ELSE IF Flex(t) THEN AnyT
  ELSE IF t.k = "anon" /\ HasField(t.fs, fs[k]) THEN PathTy(P, FieldTy(t.fs, fs[k]), fs, k + 1)
  ELSE IF IsRecordTy(P, t) /\ HasField(DeclOf(P, t.n).fs, fs[k])
       THEN PathTy(P, FieldTy(DeclOf(P, t.n).fs, fs[k]), fs, k + 1)
  ELSE Err

(* ------------------------------------------------------------------ methods *)
(* Built-in methods (docs/source/reference/std; registered in runtime/basic.rs). *)
(* A method call  recv.m(args)  is typed like a call of the function m of the   *)
(* receiver's type whose FIRST parameter is the receiver (expr.rs method_call /  *)
(* path_function_call, ResolvedPath::Method): the method is looked up by the     *)
(* NAME of the receiver's type only (List, String, u32, ...), then               *)
(*   - the receiver's type must unify with the method's receiver parameter (for  *)
(*     a generic method fn[T](List[T], ..) that binds T to the element type; a   *)
(*     method WITHOUT type parameters may still demand one instantiation of a    *)
(*     generic type: List.join is fn(List[String], String) -> String),           *)
(*   - the arguments must match the remaining parameters in number and type,     *)
(*   - the result has the documented type.                                       *)
(* Only built-in types have methods; Option, Verdict, (), records and enums      *)
(* declared by the script have none (so a namesake of a built-in has none).      *)
(* MethodSig(t, m): signature of method m for a receiver of (resolved) type t,   *)
(* NoMethod when the type has no method of that name.  A result type outside the *)
(* fragment (the views String.bytes / chars / lines) is left open (AnyT).        *)
(* Functions of a type that take no receiver (List.new, String.from_chars,       *)
(* Prefix.new) are not methods: called through a value they are ill typed (their *)
(* first parameter, if any, never is the receiver's type).                       *)
U64T == T("u64")
MS(self, ps, ret) == [self |-> self, ps |-> ps, ret |-> ret]
NoMethod == MS(Err, <<>>, Err)
StringSig(m) ==
  CASE m \in {"contains", "starts_with", "ends_with", "eq"} -> MS(Str, <<Str>>, Bool)
    [] m = "append"  -> MS(Str, <<Str>>, Str)
    [] m = "repeat"  -> MS(Str, <<U64T>>, Str)
    [] m = "replace" -> MS(Str, <<Str, Str>>, Str)
    [] m = "split"   -> MS(Str, <<Str>>, ListOf(Str))
    [] m \in {"splitn", "rsplitn"} -> MS(Str, <<U64T, Str>>, ListOf(Str))
    [] m \in {"to_lowercase", "to_uppercase", "trim", "trim_start", "trim_end", "to_string"} -> MS(Str, <<>>, Str)
    [] m \in {"strip_prefix", "strip_suffix"} -> MS(Str, <<Str>>, Opt(Str))
    [] m \in {"bytes", "chars", "lines"} -> MS(Str, <<>>, AnyT)
    [] OTHER -> NoMethod
(* a: the element type of the receiver (the T of the generic methods) *)
ListSig(a, m) ==
  CASE m \in {"len", "capacity"} -> MS(ListOf(a), <<>>, U64T)
    [] m = "is_empty" -> MS(ListOf(a), <<>>, Bool)
    [] m = "contains" -> MS(ListOf(a), <<a>>, Bool)
    [] m = "get"      -> MS(ListOf(a), <<U64T>>, Opt(a))
    [] m = "index"    -> MS(ListOf(a), <<a>>, Opt(U64T))
    [] m = "push"     -> MS(ListOf(a), <<a>>, Unit)
    [] m = "swap"     -> MS(ListOf(a), <<U64T, U64T>>, Unit)
    [] m = "concat"   -> MS(ListOf(a), <<ListOf(a)>>, ListOf(a))
    [] m = "join"     -> MS(ListOf(Str), <<Str>>, Str)          \* not generic: lists of strings only
    [] OTHER -> NoMethod
FloatSig(t, m) ==
  CASE m \in {"abs", "ceil", "floor", "round", "sqrt"} -> MS(t, <<>>, t)
    [] m = "pow" -> MS(t, <<t>>, t)
    [] m \in {"is_nan", "is_finite", "is_infinite"} -> MS(t, <<>>, Bool)
    [] m = "to_string" -> MS(t, <<>>, Str)
    [] OTHER -> NoMethod
IpAddrSig(t, m) ==
  CASE m = "eq" -> MS(t, <<t>>, Bool)
    [] m \in {"is_ipv4", "is_ipv6"} -> MS(t, <<>>, Bool)
    [] m = "to_canonical" -> MS(t, <<>>, t)
    [] m = "to_string" -> MS(t, <<>>, Str)
    [] OTHER -> NoMethod
PrefixSig(t, m) ==
  CASE m = "eq" -> MS(t, <<t>>, Bool)
    [] m \in {"addr", "min_addr", "max_addr"} -> MS(t, <<>>, T("IpAddr"))
    [] m = "len" -> MS(t, <<>>, T("u8"))
    [] m = "to_string" -> MS(t, <<>>, Str)
    [] OTHER -> NoMethod
MethodSig(t, m) ==
  CASE t.k = "String" -> StringSig(m)
    [] t.k = "list"   -> ListSig(t.a, m)
    [] t.k \in IntK \cup {"bool"} -> IF m = "to_string" THEN MS(t, <<>>, Str) ELSE NoMethod
    [] t.k \in FloatK -> FloatSig(t, m)
    [] t.k = "IpAddr" -> IpAddrSig(t, m)
    [] t.k = "Prefix" -> PrefixSig(t, m)
    [] OTHER -> NoMethod
(* A receiver whose type the judgement keeps open (an un-suffixed literal or a   *)
(* variable bound to one, an undetermined value): roto looks the method up in    *)
(* the type the variable has been resolved to at that point (none: "no method on *)
(* {integer}").  The judgement does not decide: the permissive side.             *)
FlexRecv(t) == t.k \in {"any", "never", "int", "sint", "float"}

(* ------------------------------------------------------------------ checker *)
RECURSIVE Chk(_, _, _, _), ChkBlock(_, _, _, _), ChkStmts(_, _, _, _, _),
          ChkArgs(_, _, _, _, _, _), ChkElems(_, _, _, _, _, _), ChkFields(_, _, _, _, _, _),
          ChkArms(_, _, _, _, _, _)

(* arithmetic on a left operand of type lt: expected type for the right one, *)
(* Err when the operator does not apply (expr.rs binop)                      *)
ArithRight(op, lt) ==
  IF Flex(lt) THEN AnyT
  ELSE IF op = "add" /\ lt.k \in {"String", "list"} THEN lt
  ELSE IF op = "mod" THEN (IF IsIntTy(lt) THEN lt ELSE Err)
  ELSE IF IsNumericTy(lt) THEN lt ELSE Err

Chk(P, i, env, exp) ==
  LET n == P.nodes[i] IN
  CASE n.k = "int"   -> R(Unify(P, exp, IF n.suf = "" THEN T("int") ELSE T(n.suf)), FALSE)
    [] n.k = "float" -> R(Unify(P, exp, IF n.suf = "" THEN T("float") ELSE T(n.suf)), FALSE)
    [] n.k = "bool"  -> R(Unify(P, exp, Bool), FALSE)
    [] n.k = "str"   -> R(Unify(P, exp, Str), FALSE)
    [] n.k = "unit"  -> R(Unify(P, exp, Unit), FALSE)
    [] n.k = "ip"    -> R(Unify(P, exp, T("IpAddr")), FALSE)      \* an IPv4 / IPv6 address literal
    [] n.k = "var"   ->
         (* innermost local, else a global constant; functions, types and    *)
         (* unknown names are not values                                     *)
         IF IsLocal(env, n.n) THEN R(Unify(P, exp, LocalTy(env, n.n)), FALSE)
         ELSE IF HasDecl(P, n.n) /\ DeclOf(P, n.n).k = "const"
              THEN R(Unify(P, exp, DeclOf(P, n.n).t), FALSE)
         ELSE Bad
    [] n.k = "neg"   ->
         (* operand checked on its own; unsigned operand rejected; an integer *)
         (* literal operand becomes "must be signed"                          *)
         LET r == Chk(P, n.e, env, AnyT) IN
         IF ~Ok(r) THEN Bad
         ELSE IF Flex(r.t) THEN R(Unify(P, exp, AnyT), r.d)
         ELSE IF r.t.k \in UnsignedK \/ ~IsNumericTy(r.t) THEN Bad
         ELSE R(Unify(P, exp, IF r.t.k = "int" THEN T("sint") ELSE r.t), r.d)
    [] n.k = "not"   ->
         LET r == Chk(P, n.e, env, Bool) IN
         IF ~Ok(r) THEN Bad ELSE R(Unify(P, exp, Bool), r.d)
    [] n.k = "bin"   ->
         IF n.op \in {"and", "or"} THEN
           LET l == Chk(P, n.l, env, Bool)
               r == Chk(P, n.r, env, Bool)
           (* the right operand is skipped when the left one decides: only the left   *)
           (* operand can make the whole expression diverge                          *)
           IN IF ~Ok(l) \/ ~Ok(r) THEN Bad ELSE R(Unify(P, exp, Bool), l.d)
         ELSE IF n.op \in {"eq", "ne"} THEN
           LET l == Chk(P, n.l, env, AnyT) IN
           IF ~Ok(l) THEN Bad ELSE
           LET r == Chk(P, n.r, env, l.t) IN
           IF ~Ok(r) THEN Bad ELSE R(Unify(P, exp, Bool), l.d \/ r.d)
         ELSE IF n.op \in {"lt", "le", "gt", "ge"} THEN
           LET l == Chk(P, n.l, env, AnyT) IN
           IF ~Ok(l) \/ (~IsNumericTy(l.t) /\ ~Flex(l.t)) THEN Bad ELSE
           LET r == Chk(P, n.r, env, l.t) IN
           IF ~Ok(r) THEN Bad ELSE R(Unify(P, exp, Bool), l.d \/ r.d)
         ELSE
           LET l == Chk(P, n.l, env, AnyT) IN
           IF ~Ok(l) THEN Bad ELSE
           (* the one operator whose result is not of its left operand's type: *)
           (* IpAddr / u8 builds a Prefix (expr.rs binop, special case of Div) *)
           IF n.op = "div" /\ l.t.k = "IpAddr" THEN
             LET r == Chk(P, n.r, env, T("u8")) IN
             IF ~Ok(r) THEN Bad ELSE R(Unify(P, exp, T("Prefix")), l.d \/ r.d)
           ELSE
           LET rt == ArithRight(n.op, l.t) IN
           IF rt.k = "err" THEN Bad ELSE
           LET r == Chk(P, n.r, env, rt) IN
           IF ~Ok(r) THEN Bad ELSE R(Unify(P, exp, r.t), l.d \/ r.d)
    [] n.k = "if"    ->
         LET c == Chk(P, n.c, env, Bool) IN
         IF ~Ok(c) THEN Bad
         ELSE IF n.e = <<>> THEN
           (* no else: the expression and its block have type () *)
           LET u == Unify(P, exp, Unit) IN
           IF u.k = "err" THEN Bad ELSE
           LET t == ChkBlock(P, n.t, Push(env, <<>>), Unit) IN
           IF ~Ok(t) THEN Bad ELSE R(Unit, FALSE)
         ELSE
           LET t == ChkBlock(P, n.t, Push(env, <<>>), exp) IN
           IF ~Ok(t) THEN Bad ELSE
           LET e == ChkBlock(P, n.e[1], Push(env, <<>>), t.t) IN
           IF ~Ok(e) THEN Bad ELSE R(e.t, t.d /\ e.d)
    [] n.k = "blk"   -> ChkBlock(P, i, Push(env, <<>>), exp)
    [] n.k = "assign" ->
         (* target: a LOCAL variable (optionally with a field path) *)
         IF Unify(P, exp, Unit).k = "err" \/ ~IsLocal(env, n.p[1]) THEN Bad ELSE
         LET ft == PathTy(P, LocalTy(env, n.p[1]), n.p, 2) IN
         IF ft.k = "err" THEN Bad ELSE
         LET r == Chk(P, n.e, env, ft) IN
         IF ~Ok(r) THEN Bad ELSE R(Unit, r.d)
    [] n.k = "cassign" ->
         IF Unify(P, exp, Unit).k = "err" \/ ~IsLocal(env, n.p[1]) THEN Bad ELSE
         LET ft == PathTy(P, LocalTy(env, n.p[1]), n.p, 2) IN
         IF ft.k = "err" THEN Bad ELSE
         (* `p op= e` stores the result of `p op e` in p: the result must have p's   *)
         (* type, which IpAddr / u8 (a Prefix) has not                              *)
         IF n.op = "div" /\ ft.k = "IpAddr" THEN Bad ELSE
         LET rt == ArithRight(n.op, ft) IN
         IF rt.k = "err" THEN Bad ELSE
         LET r == Chk(P, n.e, env, rt) IN
         IF ~Ok(r) THEN Bad ELSE R(Unit, r.d)
    [] n.k = "call"  ->
         (* the name must denote a function: a local of that name hides it *)
         IF IsLocal(env, n.f) \/ ~HasDecl(P, n.f) \/ DeclOf(P, n.f).k \notin {"fn", "filtermap"} THEN Bad ELSE
         LET d == DeclOf(P, n.f)
             ret == IF d.k = "fn" THEN d.ret ELSE Verdict(AnyT, AnyT)
         IN IF Len(n.args) # Len(d.ps) THEN Bad ELSE
            LET a == ChkArgs(P, n.args, [x \in DOMAIN d.ps |-> d.ps[x].t], env, 1, FALSE) IN
            IF ~a.ok THEN Bad ELSE R(Unify(P, exp, ret), a.d)
    [] n.k = "mcall" ->
         (* the receiver is checked on its own (a fresh variable in method_call, the declared type of *)
         (* the path in path_function_call), then unified with the receiver parameter of the method   *)
         LET r == Chk(P, n.e, env, AnyT) IN
         IF ~Ok(r) THEN Bad
         ELSE IF FlexRecv(r.t) THEN
           LET a == ChkArgs(P, n.args, [x \in DOMAIN n.args |-> AnyT], env, 1, r.d) IN
           IF ~a.ok THEN Bad ELSE R(Unify(P, exp, AnyT), a.d)
         ELSE
           LET sg == MethodSig(r.t, n.m) IN
           IF sg.self.k = "err" THEN Bad                               \* no method of that name on this type
           ELSE IF Unify(P, r.t, sg.self).k = "err" THEN Bad           \* the receiver is an argument like any other
           ELSE IF Len(n.args) # Len(sg.ps) THEN Bad
           ELSE LET a == ChkArgs(P, n.args, sg.ps, env, 1, r.d) IN
                IF ~a.ok THEN Bad ELSE R(Unify(P, exp, sg.ret), a.d)
    [] n.k = "ctor"  ->
         (* bare Some(..) / None (en = ""): always the built-in Option; the path Option.Some / Option.None *)
         (* means the built-in only when the script declares no type called Option                         *)
         (* (a script item or local called Some / None would shadow the bare constructor in turn: no program *)
         (* of this fragment has one; the judgement then does not decide - the permissive side)             *)
         IF n.en = "" /\ (HasDecl(P, n.v) \/ IsLocal(env, n.v)) THEN R(Unify(P, exp, AnyT), FALSE)
         ELSE IF n.en = "" \/ (n.en = "Option" /\ ~TyDeclared(P, "Option")) THEN
           IF n.v = "Some" THEN
             IF ~n.call \/ Len(n.args) # 1 THEN Bad ELSE
             LET a == Chk(P, n.args[1], env, AnyT) IN
             IF ~Ok(a) THEN Bad ELSE R(Unify(P, exp, Opt(a.t)), a.d)
           ELSE IF n.v = "None" THEN
             IF Len(n.args) # 0 THEN Bad ELSE R(Unify(P, exp, Opt(AnyT)), FALSE)
           ELSE Bad
         ELSE IF ~IsEnumTy(P, Named(n.en)) THEN Bad
         ELSE LET vs == DeclOf(P, n.en).vs IN
           IF ~HasField(vs, n.v) THEN Bad ELSE
           LET v == vs[CHOOSE x \in DOMAIN vs : vs[x].n = n.v] IN
           IF ~n.call THEN (IF v.ts = <<>> /\ n.args = <<>> THEN R(Unify(P, exp, Named(n.en)), FALSE) ELSE Bad)
           ELSE IF Len(n.args) # Len(v.ts) THEN Bad
           ELSE LET a == ChkArgs(P, n.args, v.ts, env, 1, FALSE) IN
                IF ~a.ok THEN Bad ELSE R(Unify(P, exp, Named(n.en)), a.d)
    [] n.k = "rec"   ->
         IF ~NoDup(Names(n.fs)) THEN Bad                      \* duplicate field
         ELSE IF n.n # "" THEN
           IF ~IsRecordTy(P, Named(n.n)) THEN Bad ELSE
           LET dfs == DeclOf(P, n.n).fs IN
           IF Range(Names(n.fs)) # Range(Names(dfs)) THEN Bad    \* missing / unknown field
           ELSE LET f == ChkFields(P, n.fs, dfs, env, 1, FALSE) IN
                IF ~f.ok THEN Bad ELSE R(Unify(P, exp, Named(n.n)), f.d)
         ELSE
           (* anonymous literal: first unified with the expectation (coercion *)
           (* to a named record needs exactly its fields), then the fields    *)
           LET efs == IF IsRecordTy(P, exp) THEN DeclOf(P, exp.n).fs
                      ELSE IF exp.k = "anon" THEN exp.fs
                      ELSE [x \in DOMAIN n.fs |-> [n |-> n.fs[x].n, t |-> AnyT]]
           IN IF exp.k \notin {"any", "never", "anon"} /\ ~IsRecordTy(P, exp) THEN Bad
              ELSE IF Range(Names(n.fs)) # Range(Names(efs)) \/ Len(n.fs) # Len(efs) THEN Bad
              ELSE LET f == ChkFields(P, n.fs, efs, env, 1, FALSE) IN
                   IF ~f.ok THEN Bad
                   ELSE IF IsRecordTy(P, exp) THEN R(exp, f.d)
                   ELSE R(Anon([x \in DOMAIN n.fs |-> [n |-> n.fs[x].n, t |-> f.ts[x]]]), f.d)
    [] n.k = "fld"   ->
         LET r == Chk(P, n.e, env, AnyT) IN
         IF ~Ok(r) THEN Bad ELSE
         LET ft == PathTy(P, r.t, <<n.f>>, 1) IN
         IF ft.k = "err" THEN Bad ELSE R(Unify(P, exp, ft), r.d)
    [] n.k = "match" ->
         LET s == Chk(P, n.e, env, AnyT) IN
         IF ~Ok(s) \/ s.d \/ ~CanMatch(P, s.t) THEN Bad
         ELSE IF Flex(s.t) THEN
              (* unknown scrutinee type: the arms themselves say which variants exist; no exhaustiveness claim *)
              ChkArms(P, n.arms, [x \in DOMAIN n.arms |-> [n |-> n.arms[x].v, ts |-> [y \in DOMAIN n.arms[x].bs |-> AnyT]]],
                      env, exp, [k |-> 1, used |-> {}, dflt |-> FALSE, d |-> TRUE, open |-> TRUE])
         ELSE ChkArms(P, n.arms, Variants(P, s.t), env, exp,
                      [k |-> 1, used |-> {}, dflt |-> FALSE, d |-> TRUE, open |-> FALSE])
    [] n.k = "try"   ->
         (* operand is an Option of the expected type; only in a function     *)
         (* returning an Option                                               *)
         LET r == Chk(P, n.e, env, Opt(exp)) IN
         IF ~Ok(r) \/ env.ret.k # "opt" THEN Bad ELSE R(r.t.a, r.d)
    [] n.k = "ret"   ->
         IF env.ret.k = "none" THEN Bad                         \* not inside a function
         ELSE LET want ==
                CASE n.kind = "return" -> env.ret
                  [] n.kind = "accept" -> IF env.ret.k = "verdict" THEN env.ret.a ELSE Err
                  [] n.kind = "reject" -> IF env.ret.k = "verdict" THEN env.ret.r ELSE Err
              IN IF want.k = "err" THEN Bad
                 ELSE IF n.e = <<>> THEN (IF Unify(P, want, Unit).k = "err" THEN Bad ELSE R(exp, TRUE))
                 ELSE LET r == Chk(P, n.e[1], env, want) IN
                      IF ~Ok(r) THEN Bad ELSE R(exp, TRUE)
    [] n.k = "list"  ->
         LET u == Unify(P, exp, ListOf(AnyT)) IN
         IF u.k = "err" THEN Bad ELSE
         LET e == ChkElems(P, n.es, env, u.a, 1, FALSE) IN
         IF ~e.ok THEN Bad ELSE R(ListOf(e.t), e.d)
    [] n.k = "while" ->
         LET c == Chk(P, n.c, env, Bool)
             u == Unify(P, exp, Unit)
         IN IF ~Ok(c) \/ u.k = "err" THEN Bad ELSE
            LET b == ChkBlock(P, n.b, Push(env, <<>>), Unit) IN
            IF ~Ok(b) THEN Bad ELSE R(Unit, c.d \/ (b.d /\ ~LoopBodyMayBeSkipped(P)))
    [] n.k = "for"   ->
         LET it == Chk(P, n.e, env, ListOf(AnyT))
             u == Unify(P, exp, Unit)
         IN IF ~Ok(it) \/ u.k = "err" THEN Bad ELSE
            LET b == ChkBlock(P, n.b, Push(env, <<[n |-> n.n, t |-> it.t.a]>>), Unit) IN
            IF ~Ok(b) THEN Bad ELSE R(Unit, it.d \/ (b.d /\ ~LoopBodyMayBeSkipped(P)))
    [] OTHER -> Bad

(* a block checked in the scope that is current in env (the caller opened it: *)
(* the parameters of a function, the bindings of a match arm and the variable *)
(* of a for loop live in the same scope as the lets of the body)              *)
ChkBlock(P, b, env, exp) ==
  LET n == P.nodes[b] IN
  IF n.k # "blk" THEN Bad ELSE
  LET s == ChkStmts(P, n.ss, 1, env, FALSE) IN
  IF ~s.ok THEN Bad
  ELSE IF n.last = <<>> THEN
    IF s.d THEN R(exp, TRUE)
    ELSE LET u == Unify(P, exp, Unit) IN IF u.k = "err" THEN Bad ELSE R(u, FALSE)
  ELSE LET r == Chk(P, n.last[1], s.env, exp) IN
       IF ~Ok(r) THEN Bad ELSE R(r.t, s.d \/ r.d)

ChkStmts(P, ss, k, env, d) ==
  IF k > Len(ss) THEN [ok |-> TRUE, env |-> env, d |-> d]
  ELSE LET n == P.nodes[ss[k]] IN
    IF n.k = "let" THEN
      IF n.t # <<>> /\ ~WfType(P, n.t[1]) THEN [ok |-> FALSE, env |-> env, d |-> d] ELSE
      LET r == Chk(P, n.e, env, IF n.t = <<>> THEN AnyT ELSE n.t[1]) IN
      (* the name is declared after its initialiser, once per scope *)
      IF ~Ok(r) \/ InCur(env, n.n) THEN [ok |-> FALSE, env |-> env, d |-> d]
      ELSE ChkStmts(P, ss, k + 1, Bind(env, n.n, r.t), d \/ r.d)
    ELSE
      LET r == Chk(P, ss[k], env, AnyT) IN
      IF ~Ok(r) THEN [ok |-> FALSE, env |-> env, d |-> d]
      ELSE ChkStmts(P, ss, k + 1, env, d \/ r.d)

ChkArgs(P, args, tys, env, k, d) ==
  IF k > Len(args) THEN [ok |-> TRUE, d |-> d]
  ELSE LET r == Chk(P, args[k], env, tys[k]) IN
       IF ~Ok(r) THEN [ok |-> FALSE, d |-> d] ELSE ChkArgs(P, args, tys, env, k + 1, d \/ r.d)

ChkElems(P, es, env, t, k, d) ==
  IF k > Len(es) THEN [ok |-> TRUE, t |-> t, d |-> d]
  ELSE LET r == Chk(P, es[k], env, t) IN
       IF ~Ok(r) THEN [ok |-> FALSE, t |-> t, d |-> d] ELSE ChkElems(P, es, env, r.t, k + 1, d \/ r.d)

(* field initialisers against the declared/expected field types; ts = resulting types *)
ChkFields(P, fs, dfs, env, k, d) ==
  IF k > Len(fs) THEN [ok |-> TRUE, d |-> d, ts |-> <<>>]
  ELSE LET r == Chk(P, fs[k].e, env, FieldTy(dfs, fs[k].n)) IN
       IF ~Ok(r) THEN [ok |-> FALSE, d |-> d, ts |-> <<>>]
       ELSE LET rest == ChkFields(P, fs, dfs, env, k + 1, d \/ r.d) IN
            [ok |-> rest.ok, d |-> rest.d, ts |-> <<r.t>> \o rest.ts]

(* the arms of a match, in order (expr.rs match_expr).  Divergence accounting:  *)
(* a construct diverges only if EVERY way through it exits.  A match diverges   *)
(* iff every arm does - an arm with a guard and a `_` arm count like any other   *)
(* (a guarded arm that is taken and finishes normally makes the match finish     *)
(* normally), whereas for EXHAUSTIVENESS a guarded arm does not count (its guard *)
(* may be false).  `if` without else, a loop, the right operand of && / || may   *)
(* be skipped: they never diverge through their body (see above).  A block       *)
(* without a final expression that does not diverge has type ().                 *)
ChkArms(P, arms, vs, env, exp, st) ==
  IF st.k > Len(arms) THEN
    (* exhaustive: a default arm or every variant covered by an unguarded arm *)
    IF ~st.open /\ ~st.dflt /\ st.used # Range(Names(vs)) THEN Bad ELSE R(exp, st.d)
  ELSE LET a == arms[st.k] IN
    IF st.dflt THEN Bad                                      \* unreachable after `_`
    ELSE IF a.v = "_" THEN
      IF a.hb THEN Bad ELSE
      LET env2 == Push(env, <<>>)
          g == IF a.g = <<>> THEN R(Bool, FALSE) ELSE Chk(P, a.g[1], env2, Bool)
      IN IF ~Ok(g) THEN Bad ELSE
         LET b == ChkBlock(P, a.b, env2, exp) IN
         IF ~Ok(b) THEN Bad
         ELSE ChkArms(P, arms, vs, env, b.t,
                      [k |-> st.k + 1, used |-> st.used, dflt |-> (a.g = <<>>), d |-> st.d /\ b.d, open |-> st.open])
    ELSE IF ~HasField(vs, a.v) THEN Bad                        \* unknown variant
    ELSE LET v == vs[CHOOSE x \in DOMAIN vs : vs[x].n = a.v] IN
      IF (a.hb /\ (v.ts = <<>> \/ Len(a.bs) # Len(v.ts))) \/ (~a.hb /\ (v.ts # <<>> \/ a.bs # <<>>))
         \/ ~NoDup(a.bs) THEN Bad
      ELSE IF DupArmIsUnreachable(P) /\ a.g = <<>> /\ a.v \in st.used THEN Bad   \* covered already
      ELSE
      LET env2 == Push(env, [x \in DOMAIN a.bs |-> [n |-> a.bs[x], t |-> v.ts[x]]])
          g == IF a.g = <<>> THEN R(Bool, FALSE) ELSE Chk(P, a.g[1], env2, Bool)
      IN IF ~Ok(g) THEN Bad ELSE
         LET b == ChkBlock(P, a.b, env2, exp) IN
         IF ~Ok(b) THEN Bad
         ELSE ChkArms(P, arms, vs, env, b.t,
                      [k |-> st.k + 1, used |-> IF a.g = <<>> THEN st.used \cup {a.v} ELSE st.used,
                       dflt |-> FALSE, d |-> st.d /\ b.d, open |-> st.open])

(* ------------------------------------------------------------- whole program *)
(* nodes of the subtree rooted at node i *)
Kids(n) ==
  CASE n.k \in {"neg", "not", "fld", "try", "let"} -> {n.e}
    [] n.k = "bin"     -> {n.l, n.r}
    [] n.k = "if"      -> {n.c, n.t} \cup Range(n.e)
    [] n.k = "blk"     -> Range(n.ss) \cup Range(n.last)
    [] n.k \in {"assign", "cassign"} -> {n.e}
    [] n.k \in {"call", "ctor"} -> Range(n.args)
    [] n.k = "mcall"   -> {n.e} \cup Range(n.args)
    [] n.k = "rec"     -> {n.fs[x].e : x \in DOMAIN n.fs}
    [] n.k = "match"   -> {n.e} \cup UNION {Range(n.arms[x].g) \cup {n.arms[x].b} : x \in DOMAIN n.arms}
    [] n.k = "ret"     -> Range(n.e)
    [] n.k = "list"    -> Range(n.es)
    [] n.k = "while"   -> {n.c, n.b}
    [] n.k = "for"     -> {n.e, n.b}
    [] OTHER           -> {}

RECURSIVE Subtree(_, _)
Subtree(P, i) == {i} \cup UNION {Subtree(P, j) : j \in Kids(P.nodes[i])}

Root(d) == IF d.k = "const" THEN d.e ELSE d.body
ItemIdx(P) == {x \in DOMAIN P.decls : P.decls[x].k \in {"const", "fn", "filtermap"}}

(* reference graph between constants and functions (value_cycle.rs): an item *)
(* refers to the constants it reads and the functions it calls               *)
Refs(P, x) ==
  LET d == P.decls[x]
      ns == Subtree(P, Root(d))
      used == {P.nodes[j].n : j \in {y \in ns : P.nodes[y].k = "var"}}
              \cup {P.nodes[j].f : j \in {y \in ns : P.nodes[y].k = "call"}}
  IN {y \in ItemIdx(P) : P.decls[y].n \in used}

RECURSIVE Reach(_, _, _)
Reach(P, frontier, seen) ==
  LET next == (UNION {Refs(P, x) : x \in frontier}) \ seen IN
  IF next = {} THEN seen ELSE Reach(P, next, seen \cup next)
(* items reachable from x in one or more steps *)
ReachFrom(P, x) == Reach(P, Refs(P, x), Refs(P, x))

(* a constant must not depend on itself, directly or through functions *)
NoConstCycle(P) == \A x \in ItemIdx(P) : P.decls[x].k = "const" => x \notin ReachFrom(P, x)

(* named types a declared type refers to, also through the arguments of       *)
(* Option and List (type_cycle.rs: type arguments are part of the cycle check) *)
(* member types of a type declaration *)
MemberTys(d) ==
  IF d.k = "record" THEN {d.fs[x].t : x \in DOMAIN d.fs}
  ELSE IF d.k = "enum" THEN UNION {Range(d.vs[x].ts) : x \in DOMAIN d.vs}
  ELSE {}
RECURSIVE Mentions(_, _)
Mentions(t, p) == CASE t.k = "tparam" -> t.n = p
                    [] t.k \in {"opt", "list"} -> Mentions(t.a, p)
                    [] t.k = "gen" -> \E x \in DOMAIN t.as : Mentions(t.as[x], p)
                    [] OTHER -> FALSE
(* the x-th type parameter of generic G occurs in a member of G: only then is *)
(* an argument part of the instantiated type (a phantom parameter is not; the *)
(* judgement stays on the permissive side there)                              *)
ParamUsed(P, g, x) ==
  HasDecl(P, g) /\ x \in DOMAIN TParams(DeclOf(P, g))
  /\ \E m \in MemberTys(DeclOf(P, g)) : Mentions(m, TParams(DeclOf(P, g))[x])
RECURSIVE Inline(_, _)
Inline(P, t) == CASE t.k = "named" -> {t.n}
                  [] t.k \in {"opt", "list"} -> Inline(P, t.a)
                  [] t.k = "gen" -> {t.n} \cup UNION {Inline(P, t.as[x]) : x \in {y \in DOMAIN t.as : ParamUsed(P, t.n, y)}}
                  [] OTHER         -> {}
TypeRefs(P, nm) ==
  IF ~HasDecl(P, nm) THEN {} ELSE UNION {Inline(P, m) : m \in MemberTys(DeclOf(P, nm))}
RECURSIVE TReach(_, _, _)
TReach(P, frontier, seen) ==
  LET next == (UNION {TypeRefs(P, x) : x \in frontier}) \ seen IN
  IF next = {} THEN seen ELSE TReach(P, next, seen \cup next)
NoTypeCycle(P) ==
  \A x \in DOMAIN P.decls : P.decls[x].k \in {"record", "enum"} =>
     P.decls[x].n \notin TReach(P, TypeRefs(P, P.decls[x].n), TypeRefs(P, P.decls[x].n))

DeclOk(P, d) ==
  CASE d.k = "record" -> NoDup(Names(d.fs)) /\ NoDup(TParams(d))
                         /\ \A x \in DOMAIN d.fs : WfTypeIn(P, d.fs[x].t, Range(TParams(d)))
    [] d.k = "enum"   -> NoDup(Names(d.vs))
                         /\ NoDup(TParams(d))
                         /\ \A x \in DOMAIN d.vs : \A y \in DOMAIN d.vs[x].ts : WfTypeIn(P, d.vs[x].ts[y], Range(TParams(d)))
    [] d.k = "const"  -> WfType(P, d.t) /\ Ok(Chk(P, d.e, Env(<<<<>>>>, NoRet), d.t))
    [] d.k = "fn"     -> /\ NoDup(Names(d.ps))
                         /\ \A x \in DOMAIN d.ps : WfType(P, d.ps[x].t)
                         /\ WfType(P, d.ret)
                         /\ Ok(ChkBlock(P, d.body, Env(<<d.ps>>, d.ret), d.ret))
    [] d.k = "filtermap" -> /\ NoDup(Names(d.ps))
                            /\ \A x \in DOMAIN d.ps : WfType(P, d.ps[x].t)
                            /\ Ok(ChkBlock(P, d.body, Env(<<d.ps>>, Verdict(AnyT, AnyT)), Verdict(AnyT, AnyT)))
    [] OTHER -> FALSE

(* all items of a module share one namespace (scope.rs insert_declaration) *)
WellTypedR(P) ==
  /\ NoDup([x \in DOMAIN P.decls |-> P.decls[x].n])
  /\ \A x \in DOMAIN P.decls : P.decls[x].k \in {"record", "enum"} => DeclOk(P, P.decls[x])
  /\ NoTypeCycle(P)
  /\ \A x \in DOMAIN P.decls : P.decls[x].k \notin {"record", "enum"} => DeclOk(P, P.decls[x])
  /\ NoConstCycle(P)
(* a program is judged after name resolution *)
WellTyped(P) == WellTypedR(Norm(P))

(* "" when P is well typed or breaks other rules too; otherwise the switchable *)
(* rule(s) that alone make P ill typed                                         *)
LaxRule(P) ==
  IF WellTyped(P) THEN ""
  ELSE IF WellTyped(Lax(P, {"dup-arm"})) THEN "duplicate-variant-arm"
  ELSE IF WellTyped(Lax(P, {"loop-diverge"})) THEN "loop-body-divergence"
  ELSE IF WellTyped(Lax(P, {"dup-arm", "loop-diverge"})) THEN "duplicate-variant-arm+loop-body-divergence"
  ELSE ""
=============================================================================
