---------------------------- MODULE MCConstOrder ----------------------------
(* Model-checking / case-generation wrapper of ConstOrder (C14).           *)
(*                                                                         *)
(* Mode "all"  : the initial states are ALL dependency graphs on N items   *)
(*               (every kind assignment, every set of reference edges      *)
(*               including self references, every set of context users     *)
(*               of size <= MaxCtx); every behaviour of ConstOrder from    *)
(*               each of them is explored and the invariants checked.      *)
(* Mode "build": used with `-simulate`: a graph on N items is built edge   *)
(*               by edge (AddEdge keeps the script acceptable), then       *)
(*               optionally damaged by InjectEdge (an arbitrary extra      *)
(*               reference, typically closing a cycle) or InjectCtx (an    *)
(*               item starts reading the context), then Start hands it to  *)
(*               ConstOrder.                                               *)
(* Mode "typed": like "all", and the constants have every combination of   *)
(*               value types (ConstOrder.Types; functions are i32): the    *)
(*               evaluate-once / dependencies-first / reject-first rules   *)
(*               for constants of every type, zero-sized ones included.    *)
(*               With MutOn the run phase also explores GetV and Mut       *)
(*               (copies of constants modified by functions, lists bounded *)
(*               by MaxLen) and checks that the stored values never change *)
(*               (ValuesAgree).                                            *)
(* Mode "walk" : used with `-simulate`: kinds and types are chosen in the  *)
(*               initial state, the graph is built edge by edge as in      *)
(*               "build" (no damage), the compilation runs, and then       *)
(*               WalkLen Call-phase actions (Mut / GetV / Get / Call) are  *)
(*               taken and recorded, with what each of them shows, in      *)
(*               hist: the case that is emitted is the graph plus this     *)
(*               programme of function calls and their expected results.   *)
(* Every graph that is (mode all) or can be (mode build) handed to         *)
(* ConstOrder is printed as a REPLAY case with                             *)
(* the specification's verdict, the constants each constant must wait for, *)
(* and (accepted scripts) the value of every constant, the argument its    *)
(* initialiser passes to mark, and the value every function returns.       *)
EXTENDS ConstOrder, Json, IOUtils, SequencesExt

CONSTANTS N,          \* number of items
          Mode,       \* "all" | "build"
          MaxCtx,     \* mode all: bound on the number of context users
          MinEdges,   \* mode build: edges to add (if possible) before Inject* / Start
          MaxEdges,   \* mode build: bound on the number of AddEdge steps
          MaxInject,  \* mode build: bound on the number of Inject* steps
          MutOn,      \* mode typed: explore GetV / Mut in the run phase
          Ws,         \* the numbers a modification of a copy may use
          MaxLen,     \* bound on the length of a list (pushes through copies)
          WalkLen     \* mode walk: number of recorded Call-phase actions

VARIABLES phase,      \* "build" | "run"
          inj,        \* number of injections so far
          hist        \* mode walk: the Call-phase actions taken so far, with what they showed

mcvars == <<vars, phase, inj, hist>>

AllPairs == (1..N) \X (1..N)
Kinds    == [1..N -> {"c", "f"}]
I32s     == [i \in 1..N |-> "i32"]
(* every assignment of value types to the constants (functions: i32) *)
TypesFor(k) == {t \in [1..N -> Types] : \A i \in 1..N : k[i] = "f" => t[i] = "i32"}
Graph(k, r, x, t) == [n |-> N, kind |-> k, refs |-> r, ctx |-> x, ty |-> t]
Building == Mode \in {"build", "walk"}

MCInit ==
  /\ inj = 0 /\ hist = <<>>
  /\ IF ~Building
     THEN /\ phase = "run"
          /\ \E k \in Kinds, r \in SUBSET AllPairs, x \in {s \in SUBSET (1..N) : Cardinality(s) <= MaxCtx} :
               \E t \in (IF Mode = "typed" THEN TypesFor(k) ELSE {I32s}) :
                InitState(Graph(k, r, x, t))
     ELSE /\ phase = "build"
          /\ \E k \in Kinds : \E t \in (IF Mode = "walk" THEN TypesFor(k) ELSE {I32s}) :
                InitState(Graph(k, {}, {}, t))

(* would the script still be acceptable with graph h?  (ConstOrder's Bad,  *)
(* evaluated for a candidate graph)                                         *)
SuccIn(h, i) == {j \in 1..h.n : <<i, j>> \in h.refs}
RECURSIVE GrowIn(_, _)
GrowIn(h, S) == LET T == S \cup UNION {SuccIn(h, x) : x \in S} IN IF T = S THEN S ELSE GrowIn(h, T)
BadIn(h) == \E c \in {i \in 1..h.n : h.kind[i] = "c"} :
               LET R == GrowIn(h, SuccIn(h, c)) IN c \in R \/ (({c} \cup R) \cap h.ctx) # {}

Keep == UNCHANGED <<vals, order, rejected, compiled, obs>>

CanAdd(i, j) ==
  /\ inj = 0 /\ Cardinality(g.refs) < MaxEdges /\ <<i, j>> \notin g.refs
  /\ ~BadIn([g EXCEPT !.refs = @ \cup {<<i, j>>}])
(* the build phase adds at least MinEdges edges when that is possible *)
Enough == Cardinality(g.refs) >= MinEdges \/ inj > 0 \/ ~(\E i, j \in 1..N : CanAdd(i, j))

AddEdge(i, j) ==
  /\ CanAdd(i, j)
  /\ g' = [g EXCEPT !.refs = @ \cup {<<i, j>>}]
  /\ Keep /\ UNCHANGED <<phase, inj, hist>>

InjectEdge(i, j) ==
  /\ Enough /\ inj < MaxInject /\ <<i, j>> \notin g.refs
  /\ g' = [g EXCEPT !.refs = @ \cup {<<i, j>>}]
  /\ inj' = inj + 1 /\ Keep /\ UNCHANGED <<phase, hist>>

InjectCtx(i) ==
  /\ Enough /\ inj < MaxInject /\ i \notin g.ctx
  /\ g' = [g EXCEPT !.ctx = @ \cup {i}]
  /\ inj' = inj + 1 /\ Keep /\ UNCHANGED <<phase, hist>>

Start == Enough /\ phase' = "run" /\ UNCHANGED <<vars, inj, hist>>

InBuild == phase = "build"
InRun   == phase = "run" /\ UNCHANGED <<phase, inj>>

MCAddEdge    == InBuild /\ \E i, j \in 1..N : AddEdge(i, j)
MCInjectEdge == InBuild /\ \E i, j \in 1..N : InjectEdge(i, j)
MCInjectCtx  == InBuild /\ \E i \in 1..N : InjectCtx(i)
MCStart      == InBuild /\ Start
MCEvalConst  == InRun /\ (\E c \in Nodes : EvalConst(c)) /\ UNCHANGED hist
MCReject     == InRun /\ Reject /\ UNCHANGED hist
MCDone       == InRun /\ Done /\ UNCHANGED hist
(* Call-phase actions: in mode walk at most WalkLen of them, recorded *)
More         == Mode = "walk" => Len(hist) < WalkLen
Log(e)       == hist' = IF Mode = "walk" THEN Append(hist, e) ELSE hist
Typed        == Mode = "walk" \/ (Mode = "typed" /\ MutOn)
MCCall       == InRun /\ More /\ \E f \in Nodes : Call(f) /\ Log([op |-> "call", id |-> f, v |-> obs'])
MCGet        == InRun /\ More /\ \E c \in Nodes : Get(c) /\ Log([op |-> "get", id |-> c, v |-> obs'])
MCGetV       == InRun /\ More /\ Typed
                /\ \E c \in Nodes : GetV(c) /\ Log([op |-> "getv", id |-> c, v |-> obs'])
MCMut        == InRun /\ More /\ Typed
                /\ \E c \in Nodes, via \in Vias, h \in AllHows, w \in Ws :
                      /\ c \in Consts /\ compiled /\ h \in Hows(g.ty[c])
                      /\ (h = "push" => Len(vals[c]) < MaxLen)
                      /\ Mut(c, via, h, w)
                      /\ Log([op |-> "mut", id |-> c, via |-> via, how |-> h, w |-> w, v |-> obs'])

MCNext == \/ MCAddEdge \/ MCInjectEdge \/ MCInjectCtx \/ MCStart
          \/ MCEvalConst \/ MCReject \/ MCDone \/ MCCall \/ MCGet \/ MCGetV \/ MCMut

MCSpec == MCInit /\ [][MCNext]_mcvars

(* ------------------------------ emission -------------------------------- *)
SetSeq(S) == SetToSeq(S)
Why == IF \E c \in Consts : Cyclic(c)
       THEN (IF \E c \in Consts : UsesCtx(c) THEN "cycle+ctx" ELSE "cycle")
       ELSE (IF Bad THEN "ctx" ELSE "none")

Case ==
  LET F == IF Bad THEN <<>> ELSE Final     \* evaluated once per case
  IN
  [n       |-> g.n,
   kind    |-> g.kind,
   ty      |-> g.ty,
   refs    |-> SetSeq(g.refs),
   ctx     |-> SetSeq(g.ctx),
   verdict |-> IF Bad THEN "rejected" ELSE "ok",
   why     |-> Why,
   deps    |-> [i \in Nodes |-> IF i \in Consts THEN SetSeq(ConstDeps(i)) ELSE <<>>],
   sums    |-> [i \in Nodes |-> IF ~Bad /\ i \in Consts THEN RefSum(i, F) ELSE 0],
   vals    |-> [i \in Nodes |-> IF Bad THEN 0
                                ELSE IF i \in Consts THEN Num(g.ty[i], F[i]) ELSE FnVal(i, Fuel, F)],
   flat    |-> [i \in Nodes |-> IF ~Bad /\ i \in Consts THEN Flat(g.ty[i], F[i]) ELSE <<>>],
   prog    |-> hist]

(* mode all / typed: once per graph (its initial state); mode build: every    *)
(* graph the build phase could hand over (every build state in which Start is *)
(* enabled); mode walk: every completed programme of WalkLen recorded actions *)
Emit == (CASE Mode \in {"all", "typed"} -> order = <<>> /\ ~rejected /\ ~compiled
           [] Mode = "build"            -> phase = "build" /\ Enough
           [] Mode = "walk"             -> phase = "run" /\ compiled /\ Len(hist) = WalkLen)
          => PrintT(<<"REPLAY", ToJson(Case)>>)
=============================================================================
