---------------------------- MODULE MCConstOrder ----------------------------
(* Model-checking / case-generation wrapper of ConstOrder (C14).           *)
(*                                                                         *)
(* Mode "all"  : the initial states are ALL dependency graphs on N items   *)
(*               (every kind assignment, every set of reference edges      *)
(*               including self references, every set of context users     *)
(*               of size <= MaxCtx); every behaviour of ConstOrder from    *)
(*               each of them is explored and the invariants checked.      *)
(* Mode "build": used with `-simulate`: a graph on N items is built edge   *)
(*               by edge (AddEdge keeps the script acceptable), then       *)
(*               optionally damaged by InjectEdge (an arbitrary extra      *)
(*               reference, typically closing a cycle) or InjectCtx (an    *)
(*               item starts reading the context), then Start hands it to  *)
(*               ConstOrder.                                               *)
(* Every graph that is (mode all) or can be (mode build) handed to         *)
(* ConstOrder is printed as a REPLAY case with                             *)
(* the specification's verdict, the constants each constant must wait for, *)
(* and (accepted scripts) the value of every constant, the argument its    *)
(* initialiser passes to mark, and the value every function returns.       *)
EXTENDS ConstOrder, Json, IOUtils, SequencesExt

CONSTANTS N,          \* number of items
          Mode,       \* "all" | "build"
          MaxCtx,     \* mode all: bound on the number of context users
          MinEdges,   \* mode build: edges to add (if possible) before Inject* / Start
          MaxEdges,   \* mode build: bound on the number of AddEdge steps
          MaxInject   \* mode build: bound on the number of Inject* steps

VARIABLES phase,      \* "build" | "run"
          inj         \* number of injections so far

mcvars == <<vars, phase, inj>>

AllPairs == (1..N) \X (1..N)
Kinds    == [1..N -> {"c", "f"}]
Graph(k, r, x) == [n |-> N, kind |-> k, refs |-> r, ctx |-> x]

MCInit ==
  /\ inj = 0
  /\ IF Mode = "all"
     THEN /\ phase = "run"
          /\ \E k \in Kinds, r \in SUBSET AllPairs, x \in {s \in SUBSET (1..N) : Cardinality(s) <= MaxCtx} :
                InitState(Graph(k, r, x))
     ELSE /\ phase = "build"
          /\ \E k \in Kinds : InitState(Graph(k, {}, {}))

(* would the script still be acceptable with graph h?  (ConstOrder's Bad,  *)
(* evaluated for a candidate graph)                                         *)
SuccIn(h, i) == {j \in 1..h.n : <<i, j>> \in h.refs}
RECURSIVE GrowIn(_, _)
GrowIn(h, S) == LET T == S \cup UNION {SuccIn(h, x) : x \in S} IN IF T = S THEN S ELSE GrowIn(h, T)
BadIn(h) == \E c \in {i \in 1..h.n : h.kind[i] = "c"} :
               LET R == GrowIn(h, SuccIn(h, c)) IN c \in R \/ (({c} \cup R) \cap h.ctx) # {}

Keep == UNCHANGED <<vals, order, rejected, compiled, obs>>

CanAdd(i, j) ==
  /\ inj = 0 /\ Cardinality(g.refs) < MaxEdges /\ <<i, j>> \notin g.refs
  /\ ~BadIn([g EXCEPT !.refs = @ \cup {<<i, j>>}])
(* the build phase adds at least MinEdges edges when that is possible *)
Enough == Cardinality(g.refs) >= MinEdges \/ inj > 0 \/ ~(\E i, j \in 1..N : CanAdd(i, j))

AddEdge(i, j) ==
  /\ CanAdd(i, j)
  /\ g' = [g EXCEPT !.refs = @ \cup {<<i, j>>}]
  /\ Keep /\ UNCHANGED <<phase, inj>>

InjectEdge(i, j) ==
  /\ Enough /\ inj < MaxInject /\ <<i, j>> \notin g.refs
  /\ g' = [g EXCEPT !.refs = @ \cup {<<i, j>>}]
  /\ inj' = inj + 1 /\ Keep /\ UNCHANGED phase

InjectCtx(i) ==
  /\ Enough /\ inj < MaxInject /\ i \notin g.ctx
  /\ g' = [g EXCEPT !.ctx = @ \cup {i}]
  /\ inj' = inj + 1 /\ Keep /\ UNCHANGED phase

Start == Enough /\ phase' = "run" /\ UNCHANGED <<vars, inj>>

InBuild == phase = "build"
InRun   == phase = "run" /\ UNCHANGED <<phase, inj>>

MCAddEdge    == InBuild /\ \E i, j \in 1..N : AddEdge(i, j)
MCInjectEdge == InBuild /\ \E i, j \in 1..N : InjectEdge(i, j)
MCInjectCtx  == InBuild /\ \E i \in 1..N : InjectCtx(i)
MCStart      == InBuild /\ Start
MCEvalConst  == InRun /\ \E c \in Nodes : EvalConst(c)
MCReject     == InRun /\ Reject
MCDone       == InRun /\ Done
MCCall       == InRun /\ \E f \in Nodes : Call(f)
MCGet        == InRun /\ \E c \in Nodes : Get(c)

MCNext == \/ MCAddEdge \/ MCInjectEdge \/ MCInjectCtx \/ MCStart
          \/ MCEvalConst \/ MCReject \/ MCDone \/ MCCall \/ MCGet

MCSpec == MCInit /\ [][MCNext]_mcvars

(* ------------------------------ emission -------------------------------- *)
SetSeq(S) == SetToSeq(S)
Why == IF \E c \in Consts : Cyclic(c)
       THEN (IF \E c \in Consts : UsesCtx(c) THEN "cycle+ctx" ELSE "cycle")
       ELSE (IF Bad THEN "ctx" ELSE "none")

Case ==
  [n       |-> g.n,
   kind    |-> g.kind,
   refs    |-> SetSeq(g.refs),
   ctx     |-> SetSeq(g.ctx),
   verdict |-> IF Bad THEN "rejected" ELSE "ok",
   why     |-> Why,
   deps    |-> [i \in Nodes |-> IF i \in Consts THEN SetSeq(ConstDeps(i)) ELSE <<>>],
   sums    |-> [i \in Nodes |-> IF ~Bad /\ i \in Consts THEN RefSum(i, Final) ELSE 0],
   vals    |-> [i \in Nodes |-> IF Bad THEN 0
                                ELSE IF i \in Consts THEN Final[i] ELSE FnVal(i, Fuel, Final)]]

(* mode all: once per graph (its initial state); mode build: every graph the  *)
(* build phase could hand over (every build state in which Start is enabled)  *)
Emit == (IF Mode = "all" THEN order = <<>> /\ ~rejected /\ ~compiled
                         ELSE phase = "build" /\ Enough)
          => PrintT(<<"REPLAY", ToJson(Case)>>)
=============================================================================
