----------------------------- MODULE MCListConc -----------------------------
(* Model-checking constants of ListConc (C16): operation alphabet, initial  *)
(* contents.                                                               *)
EXTENDS ListConc, Json

CONSTANT OpKinds     \* which operation kinds are enabled in this run

AllOps ==
  { [k |-> "get", l |-> 1, i |-> 0], [k |-> "get", l |-> 1, i |-> 3], [k |-> "get", l |-> 1, i |-> 4],
    [k |-> "sget", l |-> 1, i |-> 0], [k |-> "sget", l |-> 1, i |-> 3],
    [k |-> "push", l |-> 1, v |-> 7], [k |-> "push", l |-> 2, v |-> 8],
    [k |-> "swap", l |-> 1, i |-> 0, j |-> 3],
    [k |-> "len", l |-> 1], [k |-> "contains", l |-> 1, v |-> 7], [k |-> "tovec", l |-> 1],
    [k |-> "concat", a |-> 1, b |-> 2], [k |-> "concat", a |-> 1, b |-> 1], [k |-> "concat", a |-> 2, b |-> 1],
    [k |-> "eq", a |-> 1, b |-> 2], [k |-> "eq", a |-> 2, b |-> 1], [k |-> "eq", a |-> 1, b |-> 1],
    [k |-> "seq", a |-> 1, b |-> 2], [k |-> "seq", a |-> 2, b |-> 1],
    [k |-> "clonedrop", l |-> 1] }

MCOps == {o \in AllOps : o.k \in OpKinds}
(* list 1 is full (4 of 4) so that one push relocates it; list 2 has room *)
MCInitBuf == [l \in Lists |-> IF l = 1 THEN <<10, 11, 12, 13>> ELSE <<20>>]

=============================================================================
