SPECIFICATION Spec
CONSTANTS
  Threads = {1, 2}
  Lists = {1, 2}
  MaxOps = 2
  Ops <- MCOps
  InitBuf <- MCInitBuf
  FixGet = FALSE
  FixSGet = FALSE
  FixEq = FALSE
  FixSEq = FALSE
  FixConcat = FALSE
  OpKinds = {"get", "sget", "push", "swap", "len", "contains", "tovec", "concat", "eq", "seq", "clonedrop"}
INVARIANTS TypeOK
