------------------------------ MODULE Boundary ------------------------------
(***************************************************************************)
(* Values cross the host boundary unchanged (property C05).                *)
(*                                                                         *)
(* A value travels between the host (Rust) and a compiled script over six  *)
(* kinds of crossings:                                                     *)
(*   rust_arg  Rust passes an argument to a script function                *)
(*   rust_ret  a script function returns to Rust                           *)
(*   host_arg  the script passes an argument to a registered host function *)
(*             or method                                                   *)
(*   host_ret  a registered host function or method returns to the script  *)
(*   ctx       the script reads a field of the context struct              *)
(*   const     the script reads a registered constant                      *)
(* and inside the script an enum / list is put together (`construct`) or   *)
(* taken apart (`match`) following the same layout rule (module Layout).   *)
(*                                                                         *)
(* A configuration fixes a route (a sequence of such hops), the types of   *)
(* the values that travel (one, seven for the argument-position routes, or *)
(* the fields of a context struct), the position under test and the values *)
(* sent.  The only transition is Transfer: one hop, after which what was   *)
(* received is what was sent.  `obs` collects what an observer on the      *)
(* receiving side sees at the observable hops; the property is             *)
(* obs = ExpectedObs, which is defined from the sent values alone.         *)
(***************************************************************************)
EXTENDS Layout

Crossings == {"rust_arg", "rust_ret", "host_arg", "host_ret", "ctx", "const"}
ScriptOps == {"construct", "match", "select", "index"}
(* on the Rust side a list is put together from its elements (`rconstruct`: List::from(Vec), collect(), *)
(* List::new + push, List::from([..])) and read back with to_vec (`rread`)                             *)
RustOps   == {"rconstruct", "rread"}
(* the registered constant read back in the other ways: taken apart by the script (constm), handed on  *)
(* to a registered function (consth); `const` returns it                                               *)
ConstRoutes == {"const", "constm", "consth"}
(* construction routes of a list on the Rust side *)
ListRoutes  == {"lvec", "lcollect", "lpush", "larray"}
Routes    == {"id", "hecho", "hmeth", "hgive", "const", "ctx", "build", "buildf", "match", "index", "pick", "hpick"}
               \cup ConstRoutes \cup ListRoutes

(* ---- value classes of the leaves (the harness maps a class to a concrete value) -------- *)
ClassSeq(l) ==
  CASE l = "bool" -> <<"false", "true">>
    [] l \in {"u8", "u16", "u32", "u64", "C1"} -> <<"zero", "one", "hibit", "max">>
    [] l \in {"i8", "i16", "i32", "i64"} -> <<"zero", "one", "max", "m1", "min">>
    [] l \in {"f32", "f64"} -> <<"zero", "nzero", "one5", "max", "lowest", "minsub", "inf", "ninf", "nan", "nanp", "nnan">>
    [] l = "char" -> <<"nul", "a", "eacute", "d7ff", "e000", "max">>
    [] l = "Asn" -> <<"zero", "one", "as65535", "max">>
    [] l = "IpAddr" -> <<"v4zero", "v4max", "v4", "v6zero", "v6", "v6mapped", "v6max">>
    [] l = "Prefix" -> <<"v4_0", "v4_8", "v4_32", "v6_0", "v6_32", "v6_127", "v6_128">>
    [] l = "String" -> <<"empty", "a", "nul", "long", "multibyte">>
    [] l = "()" -> <<"unit">>
    [] l = "Z0" -> <<"z">>
    [] l = "T24" -> <<"zero", "t123", "max", "mix">>

Map(s, Op(_)) == [i \in 1..Len(s) |-> Op(s[i])]

(* the values of a type that are sent: every class of a leaf; every variant with every value *)
(* of its payload; the empty list, a singleton and the list of all element values            *)
RECURSIVE ValueSeq(_)
ValueSeq(t) ==
  IF IsLeaf(t) THEN Map(ClassSeq(t[1]), LeafV)
  ELSE IF IsList(t) THEN
       LET es == ValueSeq(t[2]) IN <<ListV(<<>>), ListV(<<es[Len(es)]>>), ListV(es)>>
  ELSE LET vs == Variants(t)
           ns == VariantNames(t)
           Of(i) == IF vs[i] = <<>> THEN <<[k |-> ns[i]]>>
                    ELSE Map(ValueSeq(vs[i][1]), LAMBDA v : EnumV(ns[i], v))
       IN Of(1) \o Of(2)
LastOf(s) == s[Len(s)]
(* the value a filler position of an argument vector carries *)
FillV(t) == LastOf(ValueSeq(t))

(* ---- configurations ---------------------------------------------------------------------- *)
(* [route, vec (types that travel), vals (values sent, aligned with vec), pos (position under *)
(*  test), k (position observed by pick / hpick)]                                             *)
TypeOf(c) == c.vec[c.pos]
Sent(c)   == c.vals[c.pos]

Hops(c) ==
  LET t == TypeOf(c)
      v == Sent(c)
      payload == IF IsList(t) THEN TRUE ELSE IsEnum(t) /\ HasPayload(t, v)
  IN CASE c.route = "id"    -> <<"rust_arg", "rust_ret">>
       [] c.route \in {"hecho", "hmeth"} -> <<"rust_arg", "host_arg", "host_ret", "rust_ret">>   \* function / method
       [] c.route = "hgive" -> <<"host_ret", "rust_ret">>
       [] c.route = "const" -> <<"const", "rust_ret">>
       [] c.route = "consth" -> <<"const", "host_arg", "host_ret", "rust_ret">>
       [] c.route = "constm" -> <<"const", "match">> \o (IF payload THEN <<"host_arg">> ELSE <<>>)
       (* Rust puts the list together, reads it back (to_vec), hands it to the script, which iterates over it *)
       [] c.route \in ListRoutes -> <<"rconstruct", "rread", "rust_arg", "match", "host_arg">>
       [] c.route = "ctx"   -> <<"ctx", "rust_ret">>
       (* build: Option.Some(x) / Result.Err(e) / Verdict.Accept(x) / [x, ..]; buildf: `accept x` / `reject e` *)
       [] c.route \in {"build", "buildf"} -> (IF payload THEN <<"host_ret">> ELSE <<>>) \o <<"construct", "rust_ret">>
       [] c.route = "match" -> <<"rust_arg", "match">> \o (IF payload THEN <<"host_arg">> ELSE <<>>)
       (* index: Rust builds a list, the script takes element k - 1 out of it (`l.get(k - 1)`) *)
       [] c.route = "index" -> <<"rust_arg", "index">> \o (IF c.k <= Len(v.e) THEN <<"host_arg">> ELSE <<>>)
       [] c.route = "pick"  -> <<"rust_arg", "select", "rust_ret">>
       [] c.route = "hpick" -> <<"host_ret", "host_arg", "select", "host_ret", "rust_ret">>

(* what is in flight before the first hop *)
Start(c) ==
  LET t == TypeOf(c)
      v == Sent(c)
  IN CASE c.route \in {"pick", "hpick"} -> [ts |-> c.vec, vs |-> c.vals]
       [] c.route \in {"build", "buildf"} \cup ListRoutes /\ IsList(t) -> [ts |-> [i \in 1..Len(v.e) |-> t[2]], vs |-> v.e]
       [] c.route \in {"build", "buildf"} /\ IsEnum(t) /\ HasPayload(t, v) -> [ts |-> <<PayloadType(t, v)>>, vs |-> <<v.p>>]
       [] c.route \in {"build", "buildf"} /\ IsEnum(t) /\ ~HasPayload(t, v) -> [ts |-> <<>>, vs |-> <<>>]
       [] OTHER -> [ts |-> <<t>>, vs |-> <<v>>]

(* a tuple of values handed over together (arguments of one call): parameters of size zero *)
(* occupy no slot on either side, the others travel in slot order                          *)
DeliverAll(ts, vs) ==
  LET sl   == Slots(ts)
      wire == [j \in 1..Len(sl) |-> Deliver(ts[sl[j]], vs[sl[j]])]
      SlotOf(i) == CHOOSE j \in 1..Len(sl) : sl[j] = i
  IN [i \in 1..Len(ts) |-> IF ZeroSized(ts[i]) THEN Deliver(ts[i], vs[i]) ELSE wire[SlotOf(i)]]

CodeO(n)  == [k |-> "code", n |-> n]
ArgsO(vs) == [k |-> "args", e |-> vs]

(* one hop: [cur |-> what is in flight afterwards, obs |-> what the receiving side shows] *)
Step(c, h, cur) ==
  LET t == TypeOf(c) IN
  CASE h \in Crossings ->
         LET got == DeliverAll(cur.ts, cur.vs)
             seen == CASE h = "rust_ret" -> got                               \* Rust inspects the return value
                       [] h = "host_arg" /\ c.route = "hpick" -> <<ArgsO(got)>>  \* the host function logs its arguments
                       [] h = "host_arg" -> got
                       [] OTHER -> <<>>
         IN [cur |-> [ts |-> cur.ts, vs |-> got], obs |-> seen]
    [] h = "construct" ->
         (* the script writes tag and payload / the list elements; the result is a value of t *)
         LET whole == IF IsList(t) THEN ListV(cur.vs)
                      ELSE IF cur.vs = <<>> THEN [k |-> Sent(c).k]
                      ELSE EnumV(Sent(c).k, cur.vs[1])
         IN [cur |-> [ts |-> <<t>>, vs |-> <<Deliver(t, whole)>>], obs |-> <<>>]
    [] h = "rconstruct" ->
         (* Rust stores every element in its Roto representation, whichever way the list is made *)
         [cur |-> [ts |-> <<t>>, vs |-> <<Deliver(t, ListV([i \in 1..Len(cur.vs) |-> Deliver(cur.ts[i], cur.vs[i])]))>>], obs |-> <<>>]
    [] h = "rread" ->
         (* Rust reads the list back (to_vec): every element in its Rust representation again *)
         LET d == Deliver(t, cur.vs[1]) IN [cur |-> [ts |-> <<t>>, vs |-> <<d>>], obs |-> <<d>>]
    [] h = "match" ->
         (* the script reads the tag and binds the payload / iterates over the elements *)
         LET d == Deliver(t, cur.vs[1]) IN
         IF IsList(t) THEN [cur |-> [ts |-> [i \in 1..Len(d.e) |-> t[2]], vs |-> d.e], obs |-> <<CodeO(Len(d.e))>>]
         ELSE IF HasPayload(t, d) THEN [cur |-> [ts |-> <<PayloadType(t, d)>>, vs |-> <<d.p>>], obs |-> <<CodeO(Tag(t, d))>>]
         ELSE [cur |-> [ts |-> <<>>, vs |-> <<>>], obs |-> <<CodeO(Tag(t, d))>>]
    [] h = "index" ->
         (* the script addresses element k of the list's storage: element size = CLayout of the element type *)
         LET d == Deliver(t, cur.vs[1]) IN
         IF c.k <= Len(d.e) THEN [cur |-> [ts |-> <<t[2]>>, vs |-> <<Deliver(t[2], d.e[c.k])>>], obs |-> <<CodeO(1)>>]
         ELSE [cur |-> [ts |-> <<>>, vs |-> <<>>], obs |-> <<CodeO(0)>>]
    [] h = "select" ->
         [cur |-> [ts |-> <<cur.ts[c.k]>>, vs |-> <<cur.vs[c.k]>>], obs |-> <<>>]

(* ---- the state machine ---------------------------------------------------------------------- *)
VARIABLES cfg,    \* the configuration in progress
          hop,    \* number of hops done
          cur,    \* what is in flight: [ts, vs]
          obs     \* observations so far
bvars == <<cfg, hop, cur, obs>>

Begin(c) == cfg' = c /\ hop' = 0 /\ cur' = Start(c) /\ obs' = <<>>

Transfer ==
  /\ hop < Len(Hops(cfg))
  /\ LET r == Step(cfg, Hops(cfg)[hop + 1], cur) IN
       /\ cur' = r.cur
       /\ obs' = obs \o r.obs
  /\ hop' = hop + 1
  /\ UNCHANGED cfg

Done == hop = Len(Hops(cfg))

(* ---- the property --------------------------------------------------------------------------- *)
(* defined from the sent values alone (no layout, no hops): received = sent *)
ExpectedObs(c) ==
  LET t == TypeOf(c)
      v == Sent(c)
  IN CASE c.route \in {"id", "hgive", "const", "ctx", "build", "buildf"} -> <<v>>
       [] c.route \in {"hecho", "hmeth", "consth"} -> <<v, v>>
       [] c.route \in ListRoutes -> <<v, CodeO(Len(v.e))>> \o v.e
       [] c.route \in {"match", "constm"} ->
            IF IsList(t) THEN <<CodeO(Len(v.e))>> \o v.e
            ELSE <<CodeO(Tag(t, v))>> \o (IF HasPayload(t, v) THEN <<v.p>> ELSE <<>>)
       [] c.route = "index" -> IF c.k <= Len(v.e) THEN <<CodeO(1), v.e[c.k]>> ELSE <<CodeO(0)>>
       [] c.route = "pick"  -> <<c.vals[c.k]>>
       [] c.route = "hpick" -> <<ArgsO(c.vals), c.vals[c.k]>>

(* what is in flight never differs from what was sent *)
InFlightUnchanged ==
  \A i \in 1..Len(cur.vs) :
     \/ cfg.route \in {"pick", "hpick"} /\ (IF Len(cur.vs) = 1 THEN cur.vs[1] = cfg.vals[cfg.k] ELSE cur.vs[i] = cfg.vals[i])
     \/ cfg.route \notin {"pick", "hpick"} /\
          LET v == Sent(cfg) IN
            \/ cur.vs[i] = v
            \/ IsList(TypeOf(cfg)) /\ cfg.route # "index" /\ cur.vs[i] = v.e[i]
            \/ cfg.route = "index" /\ cur.vs[i] = v.e[cfg.k]
            \/ IsEnum(TypeOf(cfg)) /\ HasPayload(TypeOf(cfg), v) /\ cur.vs[i] = v.p

ReceivedIsSent == Done => obs = ExpectedObs(cfg)

(* the whole route in one go (used by the trace specification) *)
RECURSIVE RunFrom(_, _, _, _)
RunFrom(c, i, cu, ob) ==
  IF i > Len(Hops(c)) THEN ob
  ELSE LET r == Step(c, Hops(c)[i], cu) IN RunFrom(c, i + 1, r.cur, ob \o r.obs)
FinalObs(c) == RunFrom(c, 1, Start(c), <<>>)
=============================================================================
