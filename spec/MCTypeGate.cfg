SPECIFICATION MCSpec
CONSTANT Family = "ladder"
INVARIANT Emit
CHECK_DEADLOCK FALSE
