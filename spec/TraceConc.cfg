SPECIFICATION TraceSpec
CONSTANTS
  Threads = {1, 2, 3, 4, 5, 6, 7, 8, 9, 10, 11, 12, 13, 14, 15, 16, 17, 18, 19}
  NonSyncAllowed = FALSE
  UseRegLock = TRUE
INVARIANTS TraceInv Report
POSTCONDITION TraceAccepted
CHECK_DEADLOCK FALSE
