----------------------------- MODULE MCEvalMem -----------------------------
(* Bounded model / behaviour generator of EvalMem (C20, evaluator memory).  *)
(*                                                                          *)
(* Mode "check": the full reachable state graph under the structural        *)
(*   bounds; state invariants and the step properties of EvalMem are        *)
(*   checked on every transition.  Ghost variables, `out` and `last` are    *)
(*   kept out of the fingerprint (VIEW): they are functions of the          *)
(*   transition, and step properties are evaluated on every transition,     *)
(*   also those that lead to a state seen before.                           *)
(* Mode "cover": an edge cover of that graph.  `hist` is kept out of the    *)
(*   fingerprint while a behaviour is being built, so every memory state    *)
(*   keeps the first history that reached it; from every state every        *)
(*   operation of the alphabet is taken once as the FINAL operation of a    *)
(*   behaviour (done' = TRUE), which is then emitted.                       *)
(* Mode "all": every behaviour of exactly N operations (also used with      *)
(*   -simulate for seeded random walks: TLC evaluates the invariants on all *)
(*   successors of every state of a walk, so a walk of N - 1 operations is  *)
(*   emitted once with every operation of the alphabet as its final one).   *)
(*                                                                          *)
(* An emitted behaviour carries, per operation, the arguments, the          *)
(* specified outcome and the situation classes the operation falls in       *)
(* (computed here from the state before the operation, only counted by the  *)
(* driver), followed by a sweep over the final memory: one read of every    *)
(* live allocation through its base pointer and one get_byte through every  *)
(* pointer of the table, each with its specified outcome.                   *)
EXTENDS EvalMem, Json, IOUtils

CONSTANTS Mode, N,
          BuildChanges, \* TRUE: every operation but the final one changes the memory or the pointer table (random walks)
          MaxDepth,     \* frames on the stack
          MaxAllocs,    \* allocations per frame
          MaxPtrs,      \* size of the pointer table
          MaxIds,       \* bound on the id counter
          AllocSizes, Offsets, WriteLens, Seeds, ReadSizes, CopySizes,       \* argument alphabet of the operations that build a behaviour
          PAllocSizes, POffsets, PWriteLens, PReadSizes, PCopySizes          \* ... of its final operation

VARIABLES hist, done

(* the bytes written by the model: distinct within one write and between    *)
(* seeds                                                                     *)
Pat(l, s) == IF l = 0 THEN <<>> ELSE [i \in 1..l |-> (16 * s + i) % 256]

T(c, s) == IF c THEN <<s>> ELSE <<>>

(* situation of an access of n bytes through pointer index p; x prefixes the tag *)
PtrTags(x, p, n) ==
    IF ~Known(p) THEN <<x \o "unknown-pointer">>
    ELSE LET q == Ptr(p) IN
      IF q.si >= Len(stack) THEN <<x \o "dangling-beyond-stack">>
      ELSE IF stack[q.si + 1].id # q.id THEN
          LET f == stack[q.si + 1] IN
          IF q.ai >= Len(f.allocs) THEN <<x \o "dangling-reused-fewer-allocs">>
          ELSE <<x \o "dangling-reused-enough-allocs">>
               \o T(q.off + n <= Len(f.allocs[q.ai + 1]) /\ Mult(q.off, n), x \o "dangling-reused-would-fit")
      ELSE LET len == Len(AllocOf(q))
               m == IF n = 0 THEN 1 ELSE n IN
             T(q.off + n = len + 1, x \o "oob-by-one")
          \o T(q.off + n > len + 1, x \o "oob-by-more")
          \o T(q.off + n = len /\ n > 0 /\ Mult(q.off, n), x \o "ends-at-end")
          \o T(q.off + n < len /\ n > 0 /\ Mult(q.off, n), x \o "inside")
          \o T(q.off + n <= len /\ n > 0 /\ q.off % m = 1, x \o "misaligned-by-1")
          \o T(q.off + n <= len /\ n > 0 /\ q.off % m = 2, x \o "misaligned-by-2")
          \o T(q.off + n <= len /\ n > 0 /\ q.off % m = 4, x \o "misaligned-by-4")
          \o T(n = 0 /\ q.off = 0, x \o "zero-len-at-0")
          \o T(n = 0 /\ q.off # 0 /\ q.off <= len, x \o "zero-len-at-nonzero")

CopyTags(l) ==
    PtrTags("from:", l.from, l.n) \o PtrTags("to:", l.to, l.n)
    \o (IF Known(l.from) /\ Known(l.to) /\ OnStack(Ptr(l.from)) /\ OnStack(Ptr(l.to))
        THEN LET f == Ptr(l.from)
                 t == Ptr(l.to)
                 same == f.si = t.si /\ f.ai = t.ai
                 ok == Check(l.from, l.n) = "ok" /\ Check(l.to, l.n) = "ok"
                 w == 8 * (l.n \div 8) IN
                T(ok /\ l.n > 0, "succeeds")
             \o T(ok /\ l.n > 8 /\ l.n % 8 # 0, "size-not-multiple-of-8")
             \o T(ok /\ l.n > 8 /\ l.n % 8 # 0 /\
                  SubSeq(AllocOf(f), f.off + w + 1, f.off + l.n) # SubSeq(AllocOf(t), t.off + w + 1, t.off + l.n),
                  "size-not-multiple-of-8-tail-differs")
             \o T(ok /\ l.n > 0 /\ ~same /\ ReadRes(l.from, l.n) # ReadRes(l.to, l.n), "changes-destination")
             \o T(ok /\ f.si # t.si /\ l.n > 0, "between-frames")
             \o T(ok /\ f.si = t.si /\ f.ai # t.ai /\ l.n > 0, "between-allocations-of-one-frame")
             \o T(same /\ l.n > 0 /\ f.off = t.off /\ ok, "overlap-same-range")
             \o T(same /\ l.n > 0 /\ f.off # t.off /\ f.off < t.off + l.n /\ t.off < f.off + l.n,
                  "overlap-partial")
        ELSE <<>>)

(* situation classes of operation l (= last') in the state before it *)
Tags(l) ==
    CASE l.op = "allocate"   -> T(l.n = 0, "zero-sized") \o T(l.n > 0, "sized")
      [] l.op = "push_frame" -> T(\E p \in 0..(Len(ptrs) - 1) : Ptr(p).si = Len(stack), "over-dangling-pointers")
                                \o T(~\E p \in 0..(Len(ptrs) - 1) : Ptr(p).si = Len(stack), "fresh-index")
      [] l.op = "pop_frame"  -> T(Len(stack) = 1, "root") \o T(Len(stack) > 1, "frame")
      [] l.op = "offset_by"  -> T(~Known(l.p), "unknown-pointer")
                                \o T(Known(l.p) /\ l.k = 0, "by-zero")
                                \o (IF Known(l.p) THEN T(~OnStack(Ptr(l.p)), "of-dangling") \o T(OnStack(Ptr(l.p)), "of-live")
                                    ELSE <<>>)
      [] l.op = "write"      -> PtrTags("", l.p, Len(l.bytes))
      [] l.op = "read"       -> PtrTags("", l.p, l.n)
      [] l.op = "get_byte"   -> PtrTags("", l.p, 1)
                                \o (IF Known(l.p) /\ OnStack(Ptr(l.p))
                                    THEN T(Ptr(l.p).off = Len(AllocOf(Ptr(l.p))), "at-len")
                                         \o T(Len(AllocOf(Ptr(l.p))) = 0 /\ Ptr(l.p).off = 0, "at-len-zero-sized")
                                    ELSE <<>>)
      [] l.op = "copy"       -> CopyTags(l)
      [] OTHER               -> <<>>

(* the situation classes are attached to the final operation of a behaviour   *)
(* only: the driver counts behaviours per class of their final operation     *)
Entry(final) == IF final THEN last' @@ [out |-> out', tags |-> Tags(last')]
                ELSE last' @@ [out |-> out']

(* ---- sweep over the memory of the current state -------------------------- *)
RECURSIVE SweepFrom(_)
SweepFrom(p) ==
    IF p >= Len(ptrs) THEN <<>>
    ELSE (IF Ptr(p).off = 0 /\ OnStack(Ptr(p))
          THEN << [op |-> "read", p |-> p, n |-> Len(AllocOf(Ptr(p))),
                   out |-> ReadRes(p, Len(AllocOf(Ptr(p)))), tags |-> <<"sweep">>] >>
          ELSE <<>>)
         \o << [op |-> "get_byte", p |-> p, out |-> GetRes(p), tags |-> <<"sweep">>] >>
         \o SweepFrom(p + 1)

(* ---- the bounded next-state relation -------------------------------------- *)
PtrArgs == 0..Len(ptrs)          \* every pointer handed out and the first unknown index

(* `final`: the operation ends the behaviour, so the structural bounds (which *)
(* only keep the explored graph finite) do not apply to it, and its arguments *)
(* come from the richer alphabet                                              *)
Alpha(final, build, probe) == IF final THEN probe ELSE build
Step(final) ==
    \/ \E n \in Alpha(final, AllocSizes, PAllocSizes) :
          /\ final \/ (Len(Top.allocs) < MaxAllocs /\ Len(ptrs) < MaxPtrs)
          /\ Allocate(n)
    \/ (final \/ (Len(stack) < MaxDepth /\ idc < MaxIds)) /\ PushFrame
    \/ PopFrame
    \/ \E p \in PtrArgs, k \in Alpha(final, Offsets, POffsets) :
          /\ final \/ Len(ptrs) < MaxPtrs \/ ~Known(p)
          /\ OffsetBy(p, k)
    \/ \E p \in PtrArgs, l \in Alpha(final, WriteLens, PWriteLens), s \in Seeds : Write(p, Pat(l, s))
    \/ \E p \in PtrArgs, n \in Alpha(final, ReadSizes, PReadSizes) : Read(p, n)
    \/ \E t, f \in PtrArgs, n \in Alpha(final, CopySizes, PCopySizes) : Copy(t, f, n)
    \/ \E p \in PtrArgs : Get(p)

Finals == CASE Mode = "check" -> {FALSE}
            [] Mode = "cover" -> IF Len(hist) < N THEN {TRUE, FALSE} ELSE {TRUE}
            [] OTHER          -> {Len(hist) + 1 >= N}

MCInit == Init /\ hist = <<>> /\ done = FALSE

MCNext == /\ ~done
          /\ \E final \in Finals :
                /\ Step(final)
                /\ (BuildChanges /\ ~final) => mem' # mem
                /\ done' = final
                /\ hist' = IF Mode = "check" THEN hist ELSE Append(hist, Entry(final))

MCSpec == MCInit /\ [][MCNext]_<<vars, hist, done>>

MCView == CASE Mode = "check" -> <<stack, idc, ptrs>>
            [] Mode = "cover" -> IF done THEN <<1, hist>> ELSE <<0, stack, idc, ptrs>>
            [] OTHER          -> <<stack, idc, ptrs, hist, done>>

Emit == done => PrintT(<<"REPLAY", ToJson([mode |-> Mode, ops |-> hist \o SweepFrom(0)])>>)
=============================================================================
