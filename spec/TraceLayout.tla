----------------------------- MODULE TraceLayout -----------------------------
(* I->S binding of the layout rule (C05).  Every line of the trace is what    *)
(* rustc says about one boundary type T of the harness table:                 *)
(*   [ty |-> type term, size, align |-> size_of / align_of of                 *)
(*    <T as roto::Value>::Transformed (the mirror type handed to scripts),     *)
(*    offs |-> offset of the payload of every variant inside the mirror enum   *)
(*    (measured on a live value), passby |-> how T::AsParam travels            *)
(*    ("value" | "pointer" | "dropped"), param_size |-> size_of T::AsParam]    *)
(* The event is a step of this specification iff all of it is what             *)
(* Layout!CLayout / Layout!PassBy say, i.e. iff the compiler (which computes   *)
(* layouts with the same rule) and rustc agree on the representation.          *)
EXTENDS Layout, Json, IOUtils, TLCExt

Rec == ndJsonDeserialize(IOEnv.TRACE)

VARIABLE l

Ev == Rec[l]

TraceInit == l = 1

ParamSizeOK(t, n) ==
  CASE PassBy(t) = "pointer" -> n = PtrSize
    [] PassBy(t) = "value"   -> n = LeafSize(t[1])
    [] PassBy(t) = "dropped" -> n = 0

Measured ==
  /\ l <= Len(Rec)
  /\ LET t == Ev.ty
         c == CLayout(t)
     IN /\ Ev.size = c.size
        /\ Ev.align = c.align
        /\ Len(Ev.offs) = Len(c.offs)
        /\ \A i \in 1..Len(c.offs) : Ev.offs[i] = c.offs[i]
        /\ Ev.passby = PassBy(t)
        /\ ParamSizeOK(t, Ev.param_size)
  /\ l' = l + 1

TraceNext == Measured
TraceSpec == TraceInit /\ [][TraceNext]_l

TraceAccepted ==
  LET d == TLCGet("stats").diameter IN
  IF d - 1 = Len(Rec) THEN TRUE
  ELSE /\ PrintT(<<"UNMATCHED", ToJson([line |-> d, ev |-> Rec[d]])>>)
       /\ FALSE
=============================================================================
