------------------------------ MODULE TraceSem ------------------------------
(* I->S binding for C01 / C02 / C08 (and the reference side of C20): every  *)
(* recorded native execution of a compiled script - program (as AST), entry *)
(* function, arguments, host inputs, returned value and the ordered host-   *)
(* call log - must equal what RotoSem.Eval defines for that program.        *)
(* One event per execution; the trace is accepted iff all events match.     *)
EXTENDS RotoSem, Json, IOUtils, TLCExt

Rec == ndJsonDeserialize(IOEnv.TRACE)
Progs == ndJsonDeserialize(IOEnv.PROGS)     \* programs referenced by index

VARIABLE l
Ev1 == Rec[l]

(* C20 (LirAgree): when the event also carries the outcome of the LIR evaluator run on the  *)
(* same lowered program, that outcome must be a panic, or the same value and the same      *)
(* host-call sequence as the compiled code (which itself must equal RotoSem).             *)
LirAgree(e) ==
    "eval" \in DOMAIN e =>
        \/ e.eval.k = "panic"
        \/ /\ e.eval.k = "value"
           \* compared as JSON text: a value of another type is a disagreement, not an error
           /\ ToJson(<<e.eval.res, e.eval.log>>) = ToJson(<<e.res, e.log>>)

Matches(e) ==
    LET r == Eval(Progs[e.prog], e.fn, e.args, e.ins) IN
    /\ r.k = "ok"
    /\ r.v = e.res
    /\ r.log = e.log
    /\ LirAgree(e)

TraceInit == l = 1
TraceNext == l <= Len(Rec) /\ Matches(Ev1) /\ l' = l + 1
TraceSpec == TraceInit /\ [][TraceNext]_l

Expected(e) == Eval(Progs[e.prog], e.fn, e.args, e.ins)
TraceAccepted ==
  LET d == TLCGet("stats").diameter IN
  IF d - 1 = Len(Rec) THEN TRUE
  ELSE /\ PrintT(<<"UNMATCHED", ToJson([line |-> d, ev |-> Rec[d],
                                         spec |-> [k |-> Expected(Rec[d]).k, v |-> Expected(Rec[d]).v,
                                                   log |-> Expected(Rec[d]).log]])>>)
       /\ FALSE
=============================================================================
