SPECIFICATION MCSpec
CONSTANTS
  Dense = FALSE
INVARIANTS MCInv Emit
CHECK_DEADLOCK FALSE
