------------------------------ MODULE ListSeq ------------------------------
(***************************************************************************)
(* Roto lists as ONE shared growable array (property C15).                 *)
(*                                                                         *)
(* heap[id]  : the contents of list `id` (ids are never reused)            *)
(* hmap[h]   : the list a handle refers to, 0 = handle not bound           *)
(* obs       : what the last operation returned to its caller              *)
(*                                                                         *)
(* One action per public operation of roto::List<T> / the script-side      *)
(* List methods (src/value/list.rs, src/runtime/basic.rs).  Elements are   *)
(* abstract values; the harness maps them to u8/u64/String/List/tracked    *)
(* host types.  `Live` is the number of element instances that must be     *)
(* alive: the elements of every list that still has a handle.              *)
(***************************************************************************)
EXTENDS Naturals, Integers, Sequences, FiniteSets, TLC

CONSTANTS Handles,   \* handle names (strings)
          Vals,      \* abstract element values
          MaxLists,  \* bound on the number of list ids ever created
          MaxLen,    \* bound on list length
          Huge,      \* an index that stands for usize::MAX / u64::MAX
          GetIdx,    \* index arguments explored for get
          SwapIdx    \* index arguments explored for swap

VARIABLES heap, hmap, obs
vars == <<heap, hmap, obs>>

Bound(h)   == hmap[h] # 0
L(h)       == heap[hmap[h]]
LiveIds    == {hmap[h] : h \in {x \in Handles : hmap[x] # 0}}
RECURSIVE SumLen(_)
SumLen(S)  == IF S = {} THEN 0
              ELSE LET i == CHOOSE x \in S : TRUE IN Len(heap[i]) + SumLen(S \ {i})
Live       == SumLen(LiveIds)

Opt(s, i)  == IF i # Huge /\ i >= 0 /\ i < Len(s) THEN <<s[i + 1]>> ELSE <<>>

RECURSIVE FirstIdx(_, _, _)
FirstIdx(s, v, i) == IF i > Len(s) THEN <<>>
                     ELSE IF s[i] = v THEN <<i - 1>> ELSE FirstIdx(s, v, i + 1)

SwapSeq(s, i, j) ==
    IF i = Huge \/ j = Huge \/ i >= Len(s) \/ j >= Len(s) THEN s
    ELSE [k \in 1..Len(s) |-> IF k = i + 1 THEN s[j + 1] ELSE IF k = j + 1 THEN s[i + 1] ELSE s[k]]

TypeOK == /\ heap \in Seq(Seq(Vals))
          /\ Len(heap) <= MaxLists
          /\ hmap \in [Handles -> 0..Len(heap)]

Init == heap = <<>> /\ hmap = [h \in Handles |-> 0] /\ obs = "init"

(* Binding a handle to a fresh list; an already bound handle is rebound     *)
(* (the old handle value is dropped, as `let x = ...` over an old x does).  *)
Fresh(h, s) == /\ Len(heap) < MaxLists
               /\ heap' = Append(heap, s)
               /\ hmap' = [hmap EXCEPT ![h] = Len(heap) + 1]

New(h)          == Fresh(h, <<>>) /\ obs' = "ok"
FromVec(h, s)   == Fresh(h, s) /\ obs' = "ok"

Push(h, v)      == /\ Bound(h) /\ Len(L(h)) < MaxLen
                   /\ heap' = [heap EXCEPT ![hmap[h]] = Append(@, v)]
                   /\ UNCHANGED hmap /\ obs' = "ok"

Get(h, i)       == Bound(h) /\ obs' = Opt(L(h), i) /\ UNCHANGED <<heap, hmap>>
LenOp(h)        == Bound(h) /\ obs' = Len(L(h)) /\ UNCHANGED <<heap, hmap>>
IsEmpty(h)      == Bound(h) /\ obs' = (Len(L(h)) = 0) /\ UNCHANGED <<heap, hmap>>
(* capacity is only specified to be at least the length: the observation   *)
(* is the boolean `capacity >= len`                                         *)
Capacity(h)     == Bound(h) /\ obs' = TRUE /\ UNCHANGED <<heap, hmap>>

Swap(h, i, j)   == /\ Bound(h)
                   /\ heap' = [heap EXCEPT ![hmap[h]] = SwapSeq(@, i, j)]
                   /\ UNCHANGED hmap /\ obs' = "ok"

(* concat / `+`: a fresh list; operands unchanged (also when a = b, and    *)
(* when the target handle aliases an operand)                               *)
Concat(a, b, c) == /\ Bound(a) /\ Bound(b)
                   /\ Len(L(a)) + Len(L(b)) <= MaxLen
                   /\ Fresh(c, L(a) \o L(b)) /\ obs' = "ok"

Contains(h, v)  == Bound(h) /\ obs' = (\E k \in 1..Len(L(h)) : L(h)[k] = v) /\ UNCHANGED <<heap, hmap>>
Index(h, v)     == Bound(h) /\ obs' = FirstIdx(L(h), v, 1) /\ UNCHANGED <<heap, hmap>>
(* == always returns (termination is part of the property), structural     *)
Eq(a, b)        == Bound(a) /\ Bound(b) /\ obs' = (L(a) = L(b)) /\ UNCHANGED <<heap, hmap>>
ToVec(h)        == Bound(h) /\ obs' = L(h) /\ UNCHANGED <<heap, hmap>>
(* `for x in l` / IntoIterator: visits the elements in order              *)
Iter(h)         == Bound(h) /\ obs' = L(h) /\ UNCHANGED <<heap, hmap>>
(* for-loop that pushes to the list it iterates over while len < bound:    *)
(* the loop re-reads the shared list, so it sees its own pushes            *)
RECURSIVE GrowTo(_, _, _)
GrowTo(s, k, n) == IF k > Len(s) \/ Len(s) >= n THEN s ELSE GrowTo(Append(s, s[k]), k + 1, n)
IterPush(h, n)  == /\ Bound(h) /\ n <= MaxLen
                   /\ heap' = [heap EXCEPT ![hmap[h]] = GrowTo(@, 1, n)]
                   /\ UNCHANGED hmap /\ obs' = Len(GrowTo(L(h), 1, n))

CloneHandle(a, b) == /\ Bound(a) /\ a # b
                     /\ hmap' = [hmap EXCEPT ![b] = hmap[a]]
                     /\ UNCHANGED heap /\ obs' = "ok"
DropHandle(h)   == /\ Bound(h) /\ hmap' = [hmap EXCEPT ![h] = 0]
                   /\ UNCHANGED heap /\ obs' = "ok"

Next == \/ \E h \in Handles : New(h) \/ LenOp(h) \/ IsEmpty(h) \/ Capacity(h)
                              \/ ToVec(h) \/ Iter(h) \/ DropHandle(h)
        \/ \E h \in Handles, v \in Vals : Push(h, v) \/ Contains(h, v) \/ Index(h, v)
        \/ \E h \in Handles, i \in GetIdx : Get(h, i)
        \/ \E h \in Handles, i, j \in SwapIdx : Swap(h, i, j)
        \/ \E a, b, c \in Handles : Concat(a, b, c)
        \/ \E a, b \in Handles : Eq(a, b) \/ CloneHandle(a, b)
        \/ \E h \in Handles, n \in 0..MaxLen : IterPush(h, n)

Spec == Init /\ [][Next]_vars

(* ---- properties of the design itself ---------------------------------- *)
(* a list nobody holds is never observable again: handles only point at    *)
(* existing ids                                                             *)
HandlesValid == \A h \in Handles : hmap[h] \in 0..Len(heap)
(* aliasing: two handles bound to the same id always observe equal content *)
AliasesAgree == \A a, b \in Handles : (hmap[a] = hmap[b] /\ Bound(a)) => L(a) = L(b)
(* operands of concat unchanged / contents only change by push, swap,      *)
(* iter-push on that very list                                              *)
OnlyMutatorsChange ==
    [][\A id \in 1..Len(heap) :
         heap'[id] # heap[id] =>
            \/ \E v \in Vals : heap'[id] = Append(heap[id], v)
            \/ \E i, j \in 0..MaxLen : heap'[id] = SwapSeq(heap[id], i, j)
            \/ \E n \in 0..MaxLen : heap'[id] = GrowTo(heap[id], 1, n)]_vars
=============================================================================
