------------------------------- MODULE MCConc -------------------------------
(* Model-checking wrapper of Conc (C12): small fixed thread programs, every *)
(* interleaving of their steps.                                             *)
(*                                                                          *)
(* MCSpec     : threads execute the programs of `Plan`; invariants Inv,     *)
(*              deadlock freedom (every thread reaches the end of its       *)
(*              program: no circular wait on the registry lock / join).     *)
(* ProbeSpec  : a one-state specification whose invariant prints the cases  *)
(*              of the Register / context guards (every kind x route x      *)
(*              (send, sync) class with the specified accept / reject);     *)
(*              lib/checks/c12.py builds the probe program of each case     *)
(*              with rustc and compares.                                    *)
EXTENDS Conc, Json, IOUtils

CONSTANTS Plan      \* name of the thread programs

CB(m, fn, x, y) == [op |-> "call_begin", m |-> m, fn |-> fn, x |-> x, y |-> y]
CL == [op |-> "cl"]
CE == [op |-> "call_end"]
CallOps(m, fn, x, y) == <<CB(m, fn, x, y)>> \o [i \in 1..NCl(fn) |-> CL] \o <<CE>>
Comp(m, g, k, c, kt) == << [op |-> "compile_begin", m |-> m, g |-> g, k |-> k, c |-> c, kt |-> kt],
                           [op |-> "compile_end", m |-> m] >>
O1(name, f, v) == <<[op |-> name] @@ (f :> v)>>
BuildOp(g)     == O1("build_rt", "g", g)
DropRtOp(g)    == O1("drop_rt", "g", g)
GetOp(m)       == O1("get", "m", m)
DropPkgOp(m)   == O1("drop_pkg", "m", m)
DropHOp(m)     == O1("drop_handles", "m", m)
SpawnOp(t, ms) == <<[op |-> "spawn", t |-> t, ms |-> ms]>>
JoinOp         == <<[op |-> "join"]>>
QuiesceOp      == <<[op |-> "quiesce"]>>

(* the main thread: one runtime, module 1, its own bundle, the spawns, then it *)
(* releases its holders of module 1 while the others run                        *)
Main(spawns) == BuildOp(1) \o Comp(1, 1, 3, 5, 7) \o GetOp(1) \o spawns
                \o DropPkgOp(1) \o DropHOp(1) \o JoinOp \o DropRtOp(1) \o QuiesceOp

Prog ==
  CASE Plan = "w2bg" ->   \* 2 workers x 2 calls, a background thread compiling against the shared runtime
        << Main(SpawnOp(2, <<1>>) \o SpawnOp(3, <<1>>) \o SpawnOp(4, <<>>)),
           CallOps(1, "bump", 1, 2) \o CallOps(1, "arith", 2, 3) \o DropHOp(1),
           CallOps(1, "bump", 0, 1) \o CallOps(1, "keep", 4, 1) \o DropHOp(1),
           Comp(2, 1, 2, 1, 4) \o GetOp(2) \o DropPkgOp(2) \o CallOps(2, "ktag", 1, 0)
             \o CallOps(2, "bump", 0, 0) \o DropHOp(2) >>
    [] Plan = "w3" ->     \* 3 workers x 2 calls
        << Main(SpawnOp(2, <<1>>) \o SpawnOp(3, <<1>>) \o SpawnOp(4, <<1>>)),
           CallOps(1, "bump", 1, 2) \o CallOps(1, "lsum", 2, 3) \o DropHOp(1),
           CallOps(1, "bump2", 0, 1) \o CallOps(1, "slen", 4, 1) \o DropHOp(1),
           CallOps(1, "bump", 3, 3) \o CallOps(1, "ktag", 2, 0) \o DropHOp(1) >>
    [] Plan = "w2x3" ->   \* 2 workers x 3 calls, a background thread with its own runtime
        << Main(SpawnOp(2, <<1>>) \o SpawnOp(3, <<1>>) \o SpawnOp(4, <<>>)),
           CallOps(1, "bump", 1, 2) \o CallOps(1, "keep", 2, 3) \o CallOps(1, "bump", 0, 0) \o DropHOp(1),
           CallOps(1, "bump2", 0, 1) \o CallOps(1, "ktag", 4, 1) \o CallOps(1, "wide", 1, 1) \o DropHOp(1),
           BuildOp(2) \o Comp(2, 2, 2, 1, 4) \o GetOp(2) \o CallOps(2, "bump", 1, 1)
             \o DropHOp(2) \o DropPkgOp(2) \o DropRtOp(2) >>
    [] Plan = "comp2" ->  \* two threads compile at the same time, one worker calls
        << Main(SpawnOp(2, <<1>>) \o SpawnOp(3, <<>>) \o SpawnOp(4, <<>>)),
           CallOps(1, "bump", 1, 2) \o CallOps(1, "ktag", 2, 3) \o DropHOp(1),
           Comp(2, 1, 2, 1, 4) \o GetOp(2) \o CallOps(2, "bump", 0, 0) \o DropPkgOp(2) \o DropHOp(2),
           Comp(3, 1, 4, 2, 6) \o GetOp(3) \o DropPkgOp(3) \o CallOps(3, "keep", 1, 1) \o DropHOp(3) >>
    [] Plan = "w4x2" ->   \* 4 workers x 2 calls (Threads = 1..5)
        << Main(SpawnOp(2, <<1>>) \o SpawnOp(3, <<1>>) \o SpawnOp(4, <<1>>) \o SpawnOp(5, <<1>>)),
           CallOps(1, "bump", 1, 2) \o CallOps(1, "keep", 2, 3) \o DropHOp(1),
           CallOps(1, "bump2", 0, 1) \o CallOps(1, "arith", 1, 1) \o DropHOp(1),
           CallOps(1, "ktag", 1, 1) \o CallOps(1, "bump", 4, 1) \o DropHOp(1),
           CallOps(1, "bump", 2, 2) \o CallOps(1, "lsum", 4, 1) \o DropHOp(1) >>
    [] Plan = "w3x3bg" -> \* 3 workers x 3 calls and a compiling background thread (Threads = 1..5)
        << Main(SpawnOp(2, <<1>>) \o SpawnOp(3, <<1>>) \o SpawnOp(4, <<1>>) \o SpawnOp(5, <<>>)),
           CallOps(1, "bump", 1, 2) \o CallOps(1, "keep", 2, 3) \o CallOps(1, "bump", 0, 0) \o DropHOp(1),
           CallOps(1, "bump2", 0, 1) \o CallOps(1, "ktag", 4, 1) \o CallOps(1, "arith", 1, 1) \o DropHOp(1),
           CallOps(1, "lsum", 1, 1) \o CallOps(1, "bump", 4, 1) \o CallOps(1, "slen", 1, 1) \o DropHOp(1),
           Comp(2, 1, 2, 1, 4) \o GetOp(2) \o DropPkgOp(2) \o CallOps(2, "bump", 0, 0) \o DropHOp(2) >>
    [] Plan = "w3x3" ->   \* 3 workers x 3 calls
        << Main(SpawnOp(2, <<1>>) \o SpawnOp(3, <<1>>) \o SpawnOp(4, <<1>>)),
           CallOps(1, "bump", 1, 2) \o CallOps(1, "keep", 2, 3) \o CallOps(1, "bump", 0, 0) \o DropHOp(1),
           CallOps(1, "bump2", 0, 1) \o CallOps(1, "ktag", 4, 1) \o CallOps(1, "arith", 1, 1) \o DropHOp(1),
           CallOps(1, "lsum", 1, 1) \o CallOps(1, "bump", 4, 1) \o CallOps(1, "slen", 1, 1) \o DropHOp(1) >>

NoOp == [op |-> "none"]
Op(t) == IF ip[t] <= Len(Prog[t]) THEN Prog[t][ip[t]] ELSE NoOp
Finished(t) == ip[t] > Len(Prog[t])
OthersDone(t) == \A u \in Threads \ {t} : Finished(u)
AllDone == \A t \in Threads : Finished(t)

(* one named sub-action per Conc action, so that TLC's coverage shows that each is taken *)
Run(t) == t \in started
ABegin       == \E t \in Threads : Run(t) /\ Begin(t, Op(t))
AReadConst   == \E t \in Threads : Run(t) /\ ReadConst(t)
AClAtomic    == \E t \in Threads : Run(t) /\ ClAtomic(t, Op(t))
AClRead      == \E t \in Threads : Run(t) /\ ClRead(t)
AClWrite     == \E t \in Threads : Run(t) /\ ClWrite(t, Op(t))
AMk          == \E t \in Threads : Run(t) /\ Mk(t)
AEnd         == \E t \in Threads : Run(t) /\ End(t, Op(t))
ABuildRt     == \E t \in Threads : Run(t) /\ BuildRt(t, Op(t))
ADropRt      == \E t \in Threads : Run(t) /\ DropRt(t, Op(t))
ACompAcq     == \E t \in Threads : Run(t) /\ CompAcq(t, Op(t))
ACompRead    == \E t \in Threads : Run(t) /\ CompRead(t)
ACompUpd     == \E t \in Threads : Run(t) /\ CompUpd(t)
ACompRel     == \E t \in Threads : Run(t) /\ CompRel(t, Op(t))
AGet         == \E t \in Threads : Run(t) /\ Get(t, Op(t))
ASpawn       == \E t \in Threads : Run(t) /\ Spawn(t, Op(t))
ADropPkg     == \E t \in Threads : Run(t) /\ DropPkg(t, Op(t))
ADropHandles == \E t \in Threads : Run(t) /\ DropHandles(t, Op(t))
AJoin        == \E t \in Threads : Run(t) /\ Join(t, Op(t), OthersDone(t))
AQuiesce     == \E t \in Threads : Run(t) /\ Quiesce(t, Op(t))
ADone        == AllDone /\ UNCHANGED vars

MCNext == \/ ABegin \/ AReadConst \/ AClAtomic \/ AClRead \/ AClWrite \/ AMk \/ AEnd
          \/ ABuildRt \/ ADropRt \/ ACompAcq \/ ACompRead \/ ACompUpd \/ ACompRel
          \/ AGet \/ ASpawn \/ ADropPkg \/ ADropHandles \/ AJoin \/ AQuiesce \/ ADone
MCSpec == Init /\ [][MCNext]_vars

AtEnd == AllDone => QuiescentOK
Inv == TypeOK /\ ResultOK /\ CallValid /\ LiveExact /\ MutexOK /\ AtEnd

(* ---- cases of the guards, for the rustc probes -------------------------- *)
(* kind "closure" / "constant" / "value": registering a closure capturing,   *)
(*    a constant of, a script value type of the class (send, sync); accepted *)
(*    iff RegisterOK; a closure additionally must not need exclusive access  *)
(*    to its captured state (RegisterFnOK)                                   *)
(* kind "context": the context value is never stored in a handle, the caller *)
(*    passes it by exclusive reference to every call; so a handle may be     *)
(*    sent on its own whatever the context type is, and only Rust's own      *)
(*    rules decide whether the context value itself can be shared / moved    *)
Kinds  == {"closure", "constant", "value", "context"}
Routes(k) == CASE k = "closure"  -> {"library_macro", "item_api"}
               [] k = "constant" -> {"library_macro", "item_api"}
               [] k = "value"    -> {"library_macro", "item_api", "signature"}
               [] k = "context"  -> {"shared_by_ref", "moved_to_thread", "handle_only"}
CtxUseOK(route, send, sync) == CASE route = "handle_only"     -> TRUE
                                 [] route = "shared_by_ref"   -> sync
                                 [] route = "moved_to_thread" -> send
(* excl: the closure mutates captured state (FnMut); only closures have the dimension *)
Excl(k) == IF k = "closure" THEN BOOLEAN ELSE {FALSE}
ProbeSet == UNION { { [kind |-> k, route |-> r, send |-> se, sync |-> sy, excl |-> ex,
                       accepted |-> IF k = "context" THEN CtxUseOK(r, se, sy)
                                    ELSE IF k = "closure" THEN RegisterFnOK(se, sy, ex) ELSE RegisterOK(se, sy)] :
                      r \in Routes(k), se \in BOOLEAN, sy \in BOOLEAN, ex \in Excl(k) } : k \in Kinds }
ProbeSpec == Init /\ [][FALSE]_vars
EmitProbes == \A c \in ProbeSet : PrintT(<<"REPLAY", ToJson(c)>>)
=============================================================================
