------------------------------- MODULE Lexer -------------------------------
(* C06: the Roto lexer (src/parser/lexer.rs) as a transition system over    *)
(* strings of ABSTRACT symbols.  A symbol is a class name; W(c) is the      *)
(* UTF-8 width of every member of the class, so byte offsets are sums of    *)
(* widths and "on a character boundary" means "a sum of whole widths".      *)
(*                                                                          *)
(* One action per recogniser of Lexer::next_token, in the code's priority   *)
(* order (ipv6, ipv4, two_char_punctuation, one_char_punctuation,           *)
(* as_number, hex_number, number, f_string, string, char,                   *)
(* keyword_or_ident), plus skip_shebang, skip_whitespace (white space and   *)
(* // comments), the error token, and f_string_part (the part of the lexer  *)
(* the parser drives inside an f-string).  The lexer is deterministic: the  *)
(* state function Step describes the unique next step, the named actions    *)
(* are Step restricted to one recogniser.                                   *)
(*                                                                          *)
(* The spec describes the DOCUMENTED arithmetic: every offset the lexer     *)
(* cuts the input at is a character boundary.  Two constants switch three   *)
(* sites to the arithmetic of the code as it was written on the pinned tree *)
(* (since repaired by the fix commits 17b1024, bb8c38a and 5ef6c70):        *)
(*   CodeArith  = TRUE: keyword_or_ident steps one BYTE over the first      *)
(*                character (`&tail[1..]`), f_string_part uses the          *)
(*                character index as a byte count (`chars().enumerate()`),  *)
(*   CodeErrTok = TRUE: the error token is one BYTE (`start..start + 1`)    *)
(*                instead of one character.                                 *)
(* With either set TLC violates OnBoundary: the spec is sensitive to        *)
(* exactly these defects.  The check itself runs with both FALSE.           *)
(*                                                                          *)
(* Faithful to the code and therefore visible in the token ranges:          *)
(*  - a string/char literal whose closing quote is the LAST character of    *)
(*    the input is not recognised (`if tail.is_empty()` after the scan) and *)
(*    becomes an error token at the opening quote;                          *)
(*  - the lexer never advances past an error token: lexing stops there.     *)
EXTENDS Naturals, Sequences, FiniteSets, TLC

CONSTANTS CodeArith, CodeErrTok, WithShebang

VARIABLES inp,     \* the input: sequence of symbol classes (never changes during a run)
          pos,     \* symbols consumed so far
          pieces,  \* emitted tokens and skipped trivia, in order: [k, s, e] byte ranges
          cuts,    \* every byte offset the lexer split / sliced the input at
          mode,    \* "start" | "tok" | "fstr" | "end"
          stk,     \* open-brace count of every enclosing f-string hole
          stop,    \* why lexing ended: [why, s, e]
          prevM    \* the termination measure before the last step

lvars == <<inp, pos, pieces, cuts, mode, stk, stop, prevM>>

Classes == {"letter1", "hexl", "f", "A", "S", "x", "e", "letter2", "letter3", "letter4", "mark2",
            "zero", "digit", "underscore", "dquote", "squote", "backslash", "lbrace", "rbrace",
            "space", "newline", "wspace3", "dot", "colon", "slash", "minus", "plus", "eq", "gt",
            "hash", "bang", "other3"}

(* UTF-8 width of the members of a class *)
W(c) == CASE c \in {"letter2", "mark2"} -> 2
          [] c \in {"letter3", "other3", "wspace3"} -> 3
          [] c = "letter4" -> 4
          [] OTHER -> 1

N == Len(inp)
At(i) == IF i >= 1 /\ i <= N THEN inp[i] ELSE "EOF"

RECURSIVE Off(_)
Off(i) == IF i = 0 THEN 0 ELSE Off(i - 1) + W(inp[i])     \* byte offset after i symbols

IsBoundary(b) == \E k \in 0..N : Off(k) = b
SymAt(b) == CHOOSE k \in 0..N : Off(k) = b

(* character classes used by the recognisers *)
IsDigit(c)     == c \in {"zero", "digit"}
IsHex(c)       == c \in {"zero", "digit", "hexl", "e", "f", "A"}
IsHexOrColon(c) == IsHex(c) \/ c = "colon"
IsRotoDigit(c) == IsDigit(c) \/ c = "underscore"
IsXidStart(c)  == c \in {"letter1", "hexl", "f", "A", "S", "x", "e", "letter2", "letter3", "letter4"}
IsXidCont(c)   == IsXidStart(c) \/ c \in {"zero", "digit", "underscore", "mark2"}
IsWs(c)        == c \in {"space", "newline", "wspace3"}

(* eat_while: position after the longest run of symbols satisfying P *)
Run(i, P(_)) == CHOOSE j \in i..N : (\A k \in (i + 1)..j : P(inp[k])) /\ (j = N \/ ~P(inp[j + 1]))

(* eat_until('\n'): position after the first newline behind position i, or the end *)
LineEnd(i) == IF \E k \in (i + 1)..N : inp[k] = "newline"
              THEN CHOOSE k \in (i + 1)..N : inp[k] = "newline" /\ \A m \in (i + 1)..(k - 1) : inp[m] # "newline"
              ELSE N

(* skip_whitespace: white space and // comments, repeatedly *)
RECURSIVE TrivEnd(_)
TrivEnd(i) == LET j == Run(i, IsWs) IN
              IF At(j + 1) = "slash" /\ At(j + 2) = "slash" THEN TrivEnd(LineEnd(j + 2)) ELSE j

(* ---- recognisers: end position of the token starting at i, 0 = no match ---- *)
Ipv6End(i) == LET h1 == Run(i, IsHex) IN
              IF At(h1 + 1) # "colon" THEN 0 ELSE
              LET h2 == Run(h1 + 1, IsHex) IN
              IF At(h2 + 1) # "colon" THEN 0 ELSE Run(h2 + 1, IsHexOrColon)

Ipv4Group(i) == LET d == Run(i, IsDigit) IN IF d > i /\ At(d + 1) = "dot" THEN d + 1 ELSE 0
Ipv4End(i) == LET a == Ipv4Group(i) IN IF a = 0 THEN 0 ELSE
              LET b == Ipv4Group(a) IN IF b = 0 THEN 0 ELSE
              LET c == Ipv4Group(b) IN IF c = 0 THEN 0 ELSE Run(c, IsDigit)

Two(a, b) == CASE a = "eq" /\ b = "eq" -> "EqEq"
               [] a = "bang" /\ b = "eq" -> "BangEq"
               [] a = "gt" /\ b = "eq" -> "AngleRightEq"
               [] a = "minus" /\ b = "gt" -> "Arrow"
               [] a = "eq" /\ b = "gt" -> "FatArrow"
               [] a = "plus" /\ b = "eq" -> "PlusEq"
               [] a = "minus" /\ b = "eq" -> "MinusEq"
               [] a = "slash" /\ b = "eq" -> "SlashEq"
               [] a = "minus" /\ b = "minus" -> "HyphenHyphen"
               [] OTHER -> ""

One(a) == CASE a = "eq" -> "Eq"          [] a = "minus" -> "Hyphen"   [] a = "colon" -> "Colon"
            [] a = "dot" -> "Period"     [] a = "plus" -> "Plus"      [] a = "slash" -> "Slash"
            [] a = "bang" -> "Bang"      [] a = "lbrace" -> "CurlyLeft" [] a = "rbrace" -> "CurlyRight"
            [] a = "gt" -> "AngleRight"  [] a = "hash" -> "Hash"      [] OTHER -> ""

AsnEnd(i) == IF At(i + 1) = "A" /\ At(i + 2) = "S" /\ Run(i + 2, IsDigit) > i + 2 THEN Run(i + 2, IsDigit) ELSE 0
HexEnd(i) == IF At(i + 1) = "zero" /\ At(i + 2) = "x" THEN Run(i + 2, IsHex) ELSE 0

(* number: <<end, isFloat>>.  `10..`, `10._x`, `10.x` are the integer 10; the exponent is only *)
(* looked at when that edge case did not apply (the `break 'float` skips it too)              *)
ExpEnd(p) == IF At(p + 1) = "e"
             THEN LET q == IF At(p + 2) \in {"plus", "minus"} THEN p + 2 ELSE p + 1 IN <<Run(q, IsRotoDigit), TRUE>>
             ELSE <<p, FALSE>>
IsSuffix(c) == IsXidCont(c) \/ c = "underscore"
Num(i) == IF ~IsDigit(At(i + 1)) THEN <<0, FALSE>> ELSE
          LET a == Run(i, IsRotoDigit) IN
          IF At(a + 1) = "dot"
          THEN IF IsXidStart(At(a + 2)) \/ At(a + 2) \in {"dot", "underscore"}
               THEN <<Run(a, IsSuffix), FALSE>>
               ELSE LET b == Run(a + 1, IsRotoDigit) IN <<Run(ExpEnd(b)[1], IsSuffix), TRUE>>
          ELSE LET x == ExpEnd(a) IN <<Run(x[1], IsSuffix), x[2]>>

FStartEnd(i) == IF At(i + 1) = "f" /\ At(i + 2) = "dquote" THEN i + 2 ELSE 0

(* position after the first unescaped quote q behind position j, 0 if there is none *)
RECURSIVE Close(_, _, _)
Close(j, esc, q) == IF j >= N THEN 0
                    ELSE IF esc THEN Close(j + 1, FALSE, q)
                    ELSE IF inp[j + 1] = q THEN j + 1
                    ELSE Close(j + 1, inp[j + 1] = "backslash", q)
QuotedEnd(i, q) == IF At(i + 1) # q THEN 0 ELSE
                   LET c == Close(i + 1, FALSE, q) IN IF c = 0 \/ c = N THEN 0 ELSE c

WordEnd(i) == IF IsXidStart(At(i + 1)) \/ At(i + 1) = "underscore" THEN Run(i + 1, IsXidCont) ELSE 0

(* the first recogniser that fires at i: <<recogniser, end, token kind>> *)
Rec(i) ==
  IF Ipv6End(i) # 0 THEN <<"ipv6", Ipv6End(i), "IpV6">>
  ELSE IF Ipv4End(i) # 0 THEN <<"ipv4", Ipv4End(i), "IpV4">>
  ELSE IF Two(At(i + 1), At(i + 2)) # "" THEN <<"two", i + 2, Two(At(i + 1), At(i + 2))>>
  ELSE IF One(At(i + 1)) # "" THEN <<"one", i + 1, One(At(i + 1))>>
  ELSE IF AsnEnd(i) # 0 THEN <<"asn", AsnEnd(i), "Asn">>
  ELSE IF HexEnd(i) # 0 THEN <<"hex", HexEnd(i), "Hex">>
  ELSE IF Num(i)[1] # 0 THEN <<"num", Num(i)[1], IF Num(i)[2] THEN "Float" ELSE "Integer">>
  ELSE IF FStartEnd(i) # 0 THEN <<"fstart", FStartEnd(i), "FStringStart">>
  ELSE IF QuotedEnd(i, "dquote") # 0 THEN <<"str", QuotedEnd(i, "dquote"), "String">>
  ELSE IF QuotedEnd(i, "squote") # 0 THEN <<"chr", QuotedEnd(i, "squote"), "Char">>
  ELSE IF WordEnd(i) # 0 THEN <<"word", WordEnd(i), "Word">>
  ELSE <<"none", i, "">>

(* f_string_part: scan from j: <<"mid"|"end"|"none", position of the `{` / `"`>> *)
RECURSIVE FS(_)
FS(j) == IF j >= N THEN <<"none", j>>
         ELSE LET c == inp[j + 1] IN
           IF c = "backslash" THEN (IF j + 2 > N THEN <<"none", j>> ELSE FS(j + 2))
           ELSE IF c = "lbrace"
                THEN (IF j + 2 > N THEN <<"none", j>> ELSE IF inp[j + 2] = "lbrace" THEN FS(j + 2) ELSE <<"mid", j>>)
           ELSE IF c = "dquote" THEN <<"end", j>>
           ELSE FS(j + 1)

(* ---- the unique next step ---- *)
NoStop == [why |-> "", s |-> 0, e |-> 0]
Piece(k, s, e) == [k |-> k, s |-> s, e |-> e]
StepRec(act, pcs, npos, nmode, nstk, nstop, ncuts) ==
  [act |-> act, pcs |-> pcs, npos |-> npos, nmode |-> nmode, nstk |-> nstk, nstop |-> nstop, ncuts |-> ncuts]

Top == stk[Len(stk)]
Pop == SubSeq(stk, 1, Len(stk) - 1)
SetTop(v) == [stk EXCEPT ![Len(stk)] = v]

(* skip_shebang: "a first line starting with #! is ignored" *)
ShebangStep ==
  IF At(1) = "hash" /\ At(2) = "bang"
  THEN StepRec("shebang", <<Piece("Shebang", 0, Off(LineEnd(2)))>>, LineEnd(2), "tok", stk, NoStop, {0, Off(LineEnd(2))})
  ELSE StepRec("noshebang", <<>>, 0, "tok", stk, NoStop, {})

TokStep ==
  LET r == Rec(pos) IN
  IF TrivEnd(pos) > pos
  THEN StepRec("trivia", <<Piece("Trivia", Off(pos), Off(TrivEnd(pos)))>>, TrivEnd(pos), "tok", stk, NoStop,
               {Off(pos), Off(TrivEnd(pos))})
  ELSE IF pos = N THEN StepRec("done", <<>>, pos, "end", stk, [why |-> "eof", s |-> Off(N), e |-> Off(N)], {})
  ELSE IF r[1] = "none"
  THEN LET e == Off(pos) + (IF CodeErrTok THEN 1 ELSE W(inp[pos + 1])) IN
       StepRec("error", <<>>, pos, "end", stk, [why |-> "error", s |-> Off(pos), e |-> e], {Off(pos), e})
  ELSE IF r[1] = "word" /\ CodeArith /\ W(inp[pos + 1]) > 1
  THEN \* `&tail[1..]` inside the first character: the slice is not on a boundary (the code panics)
       StepRec("word", <<>>, pos, "end", stk, [why |-> "abort", s |-> Off(pos), e |-> Off(pos) + 1], {Off(pos), Off(pos) + 1})
  ELSE LET base == StepRec(r[1], <<Piece(r[3], Off(pos), Off(r[2]))>>, r[2], "tok", stk, NoStop, {Off(pos), Off(r[2])}) IN
       IF r[1] = "fstart" THEN [base EXCEPT !.nmode = "fstr"]
       ELSE IF r[3] = "CurlyLeft" /\ stk # <<>> THEN [base EXCEPT !.nstk = SetTop(Top + 1)]
       ELSE IF r[3] = "CurlyRight" /\ stk # <<>> /\ Top = 1 THEN [base EXCEPT !.nstk = Pop, !.nmode = "fstr"]
       ELSE IF r[3] = "CurlyRight" /\ stk # <<>> /\ Top > 1 THEN [base EXCEPT !.nstk = SetTop(Top - 1)]
       ELSE base

FStrStep ==
  LET r == FS(pos)
      j == r[2]
      \* documented: bump to the byte offset of the `{` / `"`; code (CodeArith): the number of characters before it
      cut == IF CodeArith THEN Off(pos) + (j - pos) ELSE Off(j)
  IN
  IF r[1] = "none"
  THEN StepRec("fstr_eof", <<>>, pos, "end", stk, [why |-> "fstr_eof", s |-> Off(N), e |-> Off(N)], {})
  ELSE IF r[1] = "mid"
  THEN IF IsBoundary(cut)
       THEN StepRec("fstr_mid", <<Piece("StringIntermediate", Off(pos), cut)>>, SymAt(cut), "tok", Append(stk, 0), NoStop, {Off(pos), cut})
       ELSE StepRec("fstr_mid", <<Piece("StringIntermediate", Off(pos), cut)>>, pos, "end", stk,
                    [why |-> "abort", s |-> Off(pos), e |-> cut], {Off(pos), cut})
  ELSE \* "end": the part, then bump(1) over the closing quote
       IF IsBoundary(cut) /\ IsBoundary(cut + 1)
       THEN StepRec("fstr_end", <<Piece("StringEnd", Off(pos), cut), Piece("FStringQuote", cut, cut + 1)>>, SymAt(cut + 1), "tok", stk, NoStop,
                    {Off(pos), cut, cut + 1})
       ELSE StepRec("fstr_end", <<Piece("StringEnd", Off(pos), cut)>>, pos, "end", stk,
                    [why |-> "abort", s |-> Off(pos), e |-> cut], {Off(pos), cut, cut + 1})

Step == CASE mode = "start" -> ShebangStep
          [] mode = "tok" -> TokStep
          [] mode = "fstr" -> FStrStep
          [] OTHER -> StepRec("stutter", <<>>, pos, mode, stk, stop, {})

(* termination measure: strictly decreases with every step *)
M == 2 * (N - pos) + (IF mode \in {"fstr", "start"} THEN 1 ELSE 0)

Apply(st) ==
  /\ pieces' = pieces \o st.pcs
  /\ pos' = st.npos
  /\ mode' = st.nmode
  /\ stk' = st.nstk
  /\ stop' = st.nstop
  /\ cuts' = cuts \cup st.ncuts
  /\ prevM' = M
  /\ UNCHANGED inp

Does(acts) == mode # "end" /\ Step.act \in acts /\ Apply(Step)

(* ---- actions, named like the code ---- *)
SkipShebang       == Does({"shebang", "noshebang"})
SkipWhitespace    == Does({"trivia"})
Ipv6              == Does({"ipv6"})
Ipv4              == Does({"ipv4"})
TwoCharPunctuation == Does({"two"})
OneCharPunctuation == Does({"one"})
AsNumber          == Does({"asn"})
HexNumber         == Does({"hex"})
Number            == Does({"num"})
FStringStart      == Does({"fstart"})
String            == Does({"str"})
Char              == Does({"chr"})
KeywordOrIdent    == Does({"word"})
ErrorToken        == Does({"error"})
EndOfInput        == Does({"done"})
FStringPart       == Does({"fstr_mid", "fstr_end", "fstr_eof"})

Next == \/ SkipShebang \/ SkipWhitespace \/ Ipv6 \/ Ipv4 \/ TwoCharPunctuation \/ OneCharPunctuation
        \/ AsNumber \/ HexNumber \/ Number \/ FStringStart \/ String \/ Char \/ KeywordOrIdent
        \/ ErrorToken \/ EndOfInput \/ FStringPart

InitWith(s) ==
  /\ inp = s /\ pos = 0 /\ pieces = <<>> /\ cuts = {} /\ stk = <<>> /\ stop = NoStop
  /\ mode = IF WithShebang THEN "start" ELSE "tok"
  /\ prevM = 2 * Len(s) + 2

(* the same as an action (trace validation starts a new run with it) *)
ResetTo(s) ==
  /\ inp' = s /\ pos' = 0 /\ pieces' = <<>> /\ cuts' = {} /\ stk' = <<>> /\ stop' = NoStop
  /\ mode' = IF WithShebang THEN "start" ELSE "tok"
  /\ prevM' = 2 * Len(s) + 2

(* ---- invariants ---- *)
TypeOK == /\ pos \in 0..N
          /\ mode \in {"start", "tok", "fstr", "end"}
          /\ \A i \in 1..Len(pieces) : pieces[i].s \in Nat /\ pieces[i].e \in Nat

(* every step consumes input (or leaves the f-string scanner): lexing terminates *)
Progress == mode # "end" => M < prevM

(* every offset the lexer cuts the input at - in particular every token start and end and the *)
(* error token - is a character boundary: a sum of whole symbol widths                        *)
OnBoundary == \A c \in cuts : IsBoundary(c)

(* tokens and skipped trivia partition the consumed input, in order; the error token starts  *)
(* where the consumed input ends                                                              *)
TokensTile ==
  /\ \A i \in 1..Len(pieces) : pieces[i].s <= pieces[i].e
  /\ \A i \in 1..(Len(pieces) - 1) : pieces[i + 1].s = pieces[i].e
  /\ (pieces # <<>> => pieces[1].s = 0)
  /\ (stop.why # "abort" => IF pieces = <<>> THEN pos = 0 ELSE pieces[Len(pieces)].e = Off(pos))
  /\ (stop.why = "error" => stop.s = Off(pos) /\ stop.e > stop.s /\ stop.e <= Off(N))
  /\ (stop.why = "eof" => pos = N)
=============================================================================
