------------------------------- MODULE MCIeee -------------------------------
(***************************************************************************)
(* Self-check of Ieee.tla, independent of every implementation: the SAME   *)
(* operators that specify binary32/binary64 are instantiated with a tiny   *)
(* format (1 + E + F <= 8: every bit pattern fits one byte) and compared,  *)
(* EXHAUSTIVELY over all operands / operand pairs, with a second           *)
(* definition written in a different way:                                  *)
(*                                                                         *)
(*   * a finite pattern denotes the INTEGER K(m) = its magnitude counted   *)
(*     in units of the smallest subnormal (plain TLC integers, no byte     *)
(*     vectors, no shifting, no guard bits);                               *)
(*   * the exact result of an operation is a rational n/d * 2^x of such    *)
(*     units;                                                              *)
(*   * the correctly rounded result is found by SEARCH: the two adjacent   *)
(*     representable magnitudes lo <= q < hi (the pattern of infinity      *)
(*     standing for 2^(emax+1)), the nearer of the two, on a tie the one   *)
(*     whose pattern is even; infinity if that is the nearer one;          *)
(*   * sqrt: the same search with  k <= sqrt(X)  decided as  k*k <= X.     *)
(*                                                                         *)
(* Also compared: the flags inexact / tie / overflow and the case class.   *)
(* One state per left operand x (the states form a binary tree so that     *)
(* TLC's workers share them); the invariant checks x against every right  *)
(* operand.                                                                *)
(***************************************************************************)
EXTENDS Ieee, FiniteSets, Json

CONSTANTS E, F
VARIABLE x

FM == Fmt(E, F)
NPat == Pow2(1 + E + F)
Pats == 0..(NPat - 1)
V(p) == <<p>>

(* ---------------------------- reference decoding ---------------------------- *)
SBit == Pow2(E + F)
RSign(p) == p \div SBit
RMag(p)  == p % SBit                      \* the pattern without its sign
RExp(p)  == RMag(p) \div Pow2(F)
RFrac(p) == p % Pow2(F)
RNaN(p)  == RExp(p) = Pow2(E) - 1 /\ RFrac(p) # 0
RInf(p)  == RExp(p) = Pow2(E) - 1 /\ RFrac(p) = 0
RFin(p)  == RExp(p) # Pow2(E) - 1
RSubn(p) == RExp(p) = 0 /\ RFrac(p) # 0
InfM == (Pow2(E) - 1) * Pow2(F)           \* magnitude pattern of infinity
REMin == 2 - Pow2(E - 1)                  \* exponent of the smallest normal number
(* magnitude of the pattern m in units of 2^(REMin - F); K(InfM) = 2^(emax+1) in these units *)
K(m) == IF m \div Pow2(F) = 0 THEN m ELSE (Pow2(F) + (m % Pow2(F))) * Pow2((m \div Pow2(F)) - 1)
Val(p) == IF RSign(p) = 1 THEN 0 - K(RMag(p)) ELSE K(RMag(p))
ONE == Pow2(F - REMin)                    \* the number 1 in units
RECURSIVE Tz(_)
Tz(n) == IF n % 2 = 1 THEN 0 ELSE 1 + Tz(n \div 2)
Odd(n) == n \div Pow2(Tz(n))
AbsI(v) == IF v < 0 THEN 0 - v ELSE v

(* ----------------------------- reference results ---------------------------- *)
NaNRef == [p |-> 0 - 1, inexact |-> FALSE, tie |-> FALSE, ovf |-> FALSE]
Exact(p) == [p |-> p, inexact |-> FALSE, tie |-> FALSE, ovf |-> FALSE]
WithSign(s, m) == s * SBit + m

(* sign of k - q for the rational q = n/d * 2^x (all in units) *)
Cmp(k, q) == LET l == IF q.x >= 0 THEN k * q.d ELSE k * q.d * Pow2(0 - q.x)
                 r == IF q.x >= 0 THEN q.n * Pow2(q.x) ELSE q.n
             IN IF l < r THEN 0 - 1 ELSE IF l = r THEN 0 ELSE 1

(* the representable value nearest to q > 0, ties to the even pattern *)
Nearest(s, q) ==
    LET lo == CHOOSE m \in 0..InfM : Cmp(K(m), q) <= 0 /\ (m = InfM \/ Cmp(K(m + 1), q) > 0) IN
    IF lo = InfM THEN [p |-> WithSign(s, InfM), inexact |-> TRUE, tie |-> FALSE, ovf |-> TRUE]
    ELSE LET hi == lo + 1
             c  == Cmp(K(lo) + K(hi), [q EXCEPT !.n = 2 * q.n])        \* lo + hi against 2 q
             m  == IF c > 0 THEN lo ELSE IF c < 0 THEN hi ELSE IF lo % 2 = 0 THEN lo ELSE hi
         IN [p |-> WithSign(s, m), inexact |-> Cmp(K(lo), q) # 0, tie |-> (c = 0 /\ m # InfM), ovf |-> (m = InfM)]   \* on overflow no tie is reported

RXor(p, r) == IF RSign(p) = RSign(r) THEN 0 ELSE 1

RefAdd(p, r) ==
    IF RNaN(p) \/ RNaN(r) THEN NaNRef
    ELSE IF RInf(p) /\ RInf(r) THEN (IF RSign(p) = RSign(r) THEN Exact(p) ELSE NaNRef)
    ELSE IF RInf(p) THEN Exact(p)
    ELSE IF RInf(r) THEN Exact(r)
    ELSE LET v == Val(p) + Val(r) IN
         IF v = 0 THEN Exact(WithSign(IF RSign(p) = 1 /\ RSign(r) = 1 THEN 1 ELSE 0, 0))
         ELSE Nearest(IF v < 0 THEN 1 ELSE 0, [n |-> AbsI(v), d |-> 1, x |-> 0])
RefNeg(p) == IF RNaN(p) THEN NaNRef ELSE Exact((p + SBit) % NPat)
RefAbs(p) == IF RNaN(p) THEN NaNRef ELSE Exact(RMag(p))
RefSub(p, r) == IF RNaN(r) THEN NaNRef ELSE RefAdd(p, (r + SBit) % NPat)

RefMul(p, r) ==
    LET s == RXor(p, r)  a == K(RMag(p))  b == K(RMag(r)) IN
    IF RNaN(p) \/ RNaN(r) THEN NaNRef
    ELSE IF RInf(p) \/ RInf(r) THEN (IF a = 0 \/ b = 0 THEN NaNRef ELSE Exact(WithSign(s, InfM)))
    ELSE IF a = 0 \/ b = 0 THEN Exact(WithSign(s, 0))
    \* (a u)(b u) = (a b u) units, u = 2^(REMin - F)
    ELSE Nearest(s, [n |-> Odd(a) * Odd(b), d |-> 1, x |-> Tz(a) + Tz(b) + REMin - F])

RefDiv(p, r) ==
    LET s == RXor(p, r)  a == K(RMag(p))  b == K(RMag(r)) IN
    IF RNaN(p) \/ RNaN(r) THEN NaNRef
    ELSE IF RInf(p) THEN (IF RInf(r) THEN NaNRef ELSE Exact(WithSign(s, InfM)))
    ELSE IF RInf(r) THEN Exact(WithSign(s, 0))
    ELSE IF b = 0 THEN (IF a = 0 THEN NaNRef ELSE Exact(WithSign(s, InfM)))
    ELSE IF a = 0 THEN Exact(WithSign(s, 0))
    \* (a u)/(b u) = a/b = (a/b)/u units
    ELSE Nearest(s, [n |-> Odd(a), d |-> Odd(b), x |-> Tz(a) - Tz(b) + F - REMin])

RefSqrt(p) ==
    IF RNaN(p) THEN NaNRef
    ELSE IF K(RMag(p)) = 0 THEN Exact(p)
    ELSE IF RSign(p) = 1 THEN NaNRef
    ELSE IF RInf(p) THEN Exact(p)
    ELSE LET X == K(p) * ONE                      \* (k u)^2 = K u  <=>  k^2 = K / u = K * ONE
             LeSq(k) == k = 0 \/ k <= X \div k     \* k^2 <= X without overflow
             lo == CHOOSE m \in 0..(InfM - 1) : LeSq(K(m)) /\ ~LeSq(K(m + 1))
             hi == lo + 1
             sq == (K(lo) + K(hi)) * (K(lo) + K(hi))
             m  == IF sq > 4 * X THEN lo ELSE IF sq < 4 * X THEN hi ELSE IF lo % 2 = 0 THEN lo ELSE hi
         IN [p |-> m, inexact |-> K(lo) * K(lo) # X, tie |-> (sq = 4 * X), ovf |-> FALSE]

(* floor / ceil / round-half-away: only where every integral result is representable *)
IntegralOK == Pow2(F) * ONE <= K(InfM - 1)
RefIntegral(p, mode) ==
    IF RNaN(p) THEN NaNRef
    ELSE IF RInf(p) \/ K(RMag(p)) = 0 THEN Exact(p)
    ELSE LET k == K(RMag(p))  s == RSign(p)
             fl == (k \div ONE) * ONE
             fr == k % ONE # 0
             kr == CASE mode = "floor" -> IF s = 1 /\ fr THEN fl + ONE ELSE fl
                     [] mode = "ceil"  -> IF s = 0 /\ fr THEN fl + ONE ELSE fl
                     [] mode = "round" -> ((k + ONE \div 2) \div ONE) * ONE
         IN [p |-> WithSign(s, CHOOSE m \in 0..(InfM - 1) : K(m) = kr), inexact |-> fr,
             tie |-> (k % ONE = ONE \div 2), ovf |-> FALSE]

RefCmp(op, p, r) ==
    IF RNaN(p) \/ RNaN(r) THEN op \in {"ne", "not_lt", "not_le", "not_gt", "not_ge"}
    ELSE LET a == Val(p)  b == Val(r) IN
         CASE op = "eq" -> a = b  [] op = "ne" -> a # b  [] op = "lt" -> a < b
           [] op = "le" -> a <= b [] op = "gt" -> a > b  [] op = "ge" -> a >= b
           [] op = "not_lt" -> a >= b  [] op = "not_le" -> a > b  [] op = "not_gt" -> a <= b  [] op = "not_ge" -> a < b

RefSmallNat(n) == IF n = 0 THEN Exact(0) ELSE Nearest(0, [n |-> n, d |-> 1, x |-> F - REMin])

(* reference classification *)
RefCls(ps, ref, arith) ==
    IF ref.p = 0 - 1 \/ \E i \in 1..Len(ps) : ~RFin(ps[i]) THEN "special"
    ELSE IF ref.ovf THEN "overflow"
    ELSE IF RInf(ref.p) THEN "special"
    ELSE IF RSubn(ref.p) \/ (arith /\ RMag(ref.p) = 0 /\ ref.inexact) \/ \E i \in 1..Len(ps) : RSubn(ps[i]) THEN "subnormal"
    ELSE IF ref.inexact THEN "inexact"
    ELSE "exact"
RefClsBool(ps) ==
    IF \E i \in 1..Len(ps) : ~RFin(ps[i]) THEN "special"
    ELSE IF \E i \in 1..Len(ps) : RSubn(ps[i]) THEN "subnormal" ELSE "exact"

(* -------------------------------- the checks -------------------------------- *)
Vs(ps) == [i \in 1..Len(ps) |-> V(ps[i])]

ChkVal(op, ps, ref) ==
    LET r == Apply(FM, op, Vs(ps))
        cls == RefCls(ps, ref, op \notin {"floor", "ceil", "round"}) IN
    \/ /\ ~r.bool
       /\ IF ref.p = 0 - 1 THEN r.nan
          ELSE ~r.nan /\ r.v = V(ref.p) /\ r.inexact = ref.inexact /\ r.tie = ref.tie /\ r.ovf = ref.ovf
       /\ r.cls = cls
       /\ Agrees(FM, r, IF ref.p = 0 - 1 THEN QNaN(FM) ELSE V(ref.p))
    \/ PrintT(<<"MISMATCH", op, ps, "spec", r, "reference", ref, cls>>) /\ FALSE

ChkBool(op, ps, ref) ==
    LET r == Apply(FM, op, Vs(ps)) IN
    \/ r.bool /\ r.v = ref /\ r.cls = RefClsBool(ps)
    \/ PrintT(<<"MISMATCH", op, ps, "spec", r, "reference", ref>>) /\ FALSE

Ref2(op, p, r) == CASE op = "add" -> RefAdd(p, r) [] op = "sub" -> RefSub(p, r)
                    [] op = "mul" -> RefMul(p, r) [] op = "div" -> RefDiv(p, r)
Ref1(op, p) == CASE op = "neg" -> RefNeg(p) [] op = "abs" -> RefAbs(p) [] op = "sqrt" -> RefSqrt(p)
                 [] op \in {"floor", "ceil", "round"} -> RefIntegral(p, op)
RefPred(op, p) == CASE op = "is_nan" -> RNaN(p) [] op = "is_infinite" -> RInf(p) [] op = "is_finite" -> RFin(p)

Un1 == IF IntegralOK THEN UnOps ELSE {"neg", "abs", "sqrt"}
(* constants of the compound operations, where the format has them *)
ConstOps == {o \in {"div3", "div10", "mul0_1"} : K(InfM - 1) >= 10 * ONE}
RefConst(op, p) ==
    CASE op = "div3"  -> RefDiv(p, RefSmallNat(3).p)
      [] op = "div10" -> RefDiv(p, RefSmallNat(10).p)
      [] op = "mul0_1" -> RefMul(p, RefDiv(RefSmallNat(1).p, RefSmallNat(10).p).p)

Cases(p) ==
    {<<op, <<p, r>>>> : op \in BinOps \cup CmpOps, r \in Pats}
    \cup {<<op, <<p>>>> : op \in Un1 \cup PredOps \cup ConstOps}

ChkCase(c) ==
    LET op == c[1]  ps == c[2] IN
    IF op \in BinOps THEN ChkVal(op, ps, Ref2(op, ps[1], ps[2]))
    ELSE IF op \in CmpOps THEN ChkBool(op, ps, RefCmp(op, ps[1], ps[2]))
    ELSE IF op \in PredOps THEN ChkBool(op, ps, RefPred(op, ps[1]))
    ELSE IF op \in ConstOps THEN ChkVal(op, ps, RefConst(op, ps[1]))
    ELSE ChkVal(op, ps, Ref1(op, ps[1]))

(* small integers, decoding and the sign of zero *)
ChkMisc(p) ==
    /\ IsNaN(FM, V(p)) = RNaN(p) /\ IsInf(FM, V(p)) = RInf(p) /\ IsSubnormal(FM, V(p)) = RSubn(p)
    /\ SignOf(FM, V(p)) = RSign(p) /\ ExpField(FM, V(p)) = RExp(p)
    /\ (p <= Pow2(F + 1) => LET ref == RefSmallNat(p) IN ref.ovf \/ FromSmallNat(FM, p) = V(ref.p))

Init == x = 0
Next == \E y \in {2 * x + 1, 2 * x + 2} : y \in Pats /\ x' = y
MCSpec == Init /\ [][Next]_x

Conforms == (\A c \in Cases(x) : ChkCase(c)) /\ ChkMisc(x)
(* one line per state: how many operator evaluations were compared in it *)
Emit == PrintT(<<"REPLAY", ToJson([x |-> x, n |-> Cardinality(Cases(x)) + 1])>>)
=============================================================================
