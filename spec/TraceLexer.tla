----------------------------- MODULE TraceLexer -----------------------------
(* I->S binding of the Lexer spec (C06): token streams recorded from the    *)
(* real lexer (roto::verif::lex) on seeded random concrete strings must be  *)
(* behaviours of Lexer.  The recorder maps every concrete character to its  *)
(* class and turns the token stream into the sequence of pieces (tokens and *)
(* the gaps between them) it implies; one event per Lexer step:             *)
(*   {op:"start", id, inp:[classes]}          a new run                     *)
(*   {op:"piece", id, k, s, e}                the next token / skipped gap  *)
(*   {op:"stop",  id, why:"eof"}              the lexer returned None       *)
(*   {op:"stop",  id, why:"error", s, e}      the error token               *)
(*   {op:"stop",  id, why:"fstart"}           the hook stops after `f"`     *)
(* An event that is not the unique next step of Lexer is printed            *)
(* (<<"UNMATCHED", ..>>) and the rest of that run is skipped, so one run of *)
(* TLC judges every recorded run.                                           *)
EXTENDS Lexer, Json, IOUtils, TLCExt

Recd == ndJsonDeserialize(IOEnv.TRACE)

VARIABLES l, skip
tvars == <<lvars, l, skip>>

Ev == Recd[l]
IsEv(name) == l <= Len(Recd) /\ Ev.op = name /\ l' = l + 1

Reject == /\ PrintT(<<"UNMATCHED", ToJson([line |-> l, ev |-> Ev, expected |-> [act |-> Step.act, pcs |-> Step.pcs, stop |-> Step.nstop]])>>)
          /\ skip' = TRUE
          /\ UNCHANGED lvars

TraceInit == InitWith(<<>>) /\ l = 1 /\ skip = FALSE

EvPiece == [k |-> Ev.k, s |-> Ev.s, e |-> Ev.e]

TraceNext ==
  \/ IsEv("start") /\ ResetTo(Ev.inp) /\ skip' = FALSE
  \/ IsEv("piece") /\ skip /\ UNCHANGED <<lvars, skip>>
  \/ IsEv("stop") /\ skip /\ UNCHANGED <<lvars, skip>>
  \/ IsEv("piece") /\ ~skip /\
       IF mode # "end" /\ Step.pcs = <<EvPiece>> THEN Apply(Step) /\ UNCHANGED skip ELSE Reject
  \/ IsEv("stop") /\ ~skip /\
       IF Ev.why = "fstart"
       THEN IF mode = "fstr" THEN UNCHANGED <<lvars, skip>> ELSE Reject
       ELSE IF mode # "end" /\ Step.pcs = <<>> /\ Step.nmode = "end" /\ Step.nstop.why = Ev.why
               /\ (Ev.why = "error" => Step.nstop.s = Ev.s /\ Step.nstop.e = Ev.e)
            THEN Apply(Step) /\ UNCHANGED skip ELSE Reject

TraceSpec == TraceInit /\ [][TraceNext]_tvars

TraceAccepted ==
  LET d == TLCGet("stats").diameter IN
  IF d - 1 = Len(Recd) THEN TRUE
  ELSE /\ PrintT(<<"UNMATCHED", ToJson([line |-> d, ev |-> Recd[d], expected |-> "trace reader stuck"])>>)
       /\ FALSE

Inv == Progress /\ OnBoundary /\ TokensTile
=============================================================================
