------------------------------ MODULE TraceIeee ------------------------------
(* I->S binding of Ieee.tla (C01: float arithmetic and comparisons of compiled  *)
(* scripts; C17: the float built-ins) and its calibration against the hardware. *)
(* One event per call of a function whose body is ONE float operation (or one   *)
(* of the compound forms of Ieee!ApplyRaw), recorded with the operand and       *)
(* result BIT PATTERNS (little-endian byte arrays):                             *)
(*                                                                              *)
(*    {"fmt": 32 | 64, "op": name, "a": bytes, "b": bytes, "c": bytes, "r": ..}  *)
(*    (b, c absent for unary / binary operations; r: bytes or a boolean)        *)
(*                                                                              *)
(* The event is accepted iff r is the result Ieee.tla specifies: the same bit   *)
(* pattern, the same boolean, or - where the specified result is a NaN - any    *)
(* NaN.  For every accepted event the spec's classification of the case is      *)
(* printed (evidence: which kinds of cases were really validated); for the      *)
(* first rejected event the specified result and its class.                     *)
EXTENDS Ieee, Json, IOUtils, TLCExt

Rec == ndJsonDeserialize(IOEnv.TRACE)

VARIABLE l
Ev1 == Rec[l]

FmtOf(e) == IF e.fmt = 32 THEN Binary32 ELSE IF e.fmt = 64 THEN Binary64
            ELSE Assert(FALSE, <<"unknown format", e.fmt>>)
Args(e) == <<e.a>> \o (IF "b" \in DOMAIN e THEN <<e.b>> ELSE <<>>) \o (IF "c" \in DOMAIN e THEN <<e.c>> ELSE <<>>)
Spec(e) == Apply(FmtOf(e), e.op, Args(e))
Kind(r) == IF r.tie THEN "tie" ELSE r.cls

TraceInit == l = 1
(* (evaluated as a state function - `= TRUE` below - so that TLC caches r: a LET at action level is   *)
(* re-evaluated at every use)                                                                        *)
(* With the environment variable CONTINUE=1 a rejected event does not end the validation: it is      *)
(* printed as UNMATCHED and the next event is looked at (used to collect ALL rejected events of a    *)
(* trace whose first rejection was found by a normal run).                                           *)
Continue == "CONTINUE" \in DOMAIN IOEnv /\ IOEnv.CONTINUE = "1"
Unmatched(e, i, r) ==
    PrintT(<<"UNMATCHED", ToJson([line |-> i, ev |-> e,
                                   spec |-> [v |-> r.v, nan |-> r.nan, cls |-> r.cls, tie |-> r.tie]])>>)
Accept(e, i) ==
    LET r == Spec(e) IN
    IF Agrees(FmtOf(e), r, e.r)
    THEN PrintT(<<"CLASS", ToJson([i |-> i, c |-> r.cls, t |-> r.tie, n |-> r.nan, s |-> r.sub, o |-> r.ovf,
                                    x |-> r.inexact])>>)
    ELSE Continue /\ Unmatched(e, i, r)
TraceNext ==
    /\ l <= Len(Rec)
    /\ Accept(Ev1, l) = TRUE
    /\ l' = l + 1
TraceSpec == TraceInit /\ [][TraceNext]_l

TraceAccepted ==
  LET d == TLCGet("stats").diameter IN
  IF d - 1 = Len(Rec) THEN TRUE
  ELSE Unmatched(Rec[d], d, Spec(Rec[d])) /\ FALSE
=============================================================================
