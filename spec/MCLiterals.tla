----------------------------- MODULE MCLiterals -----------------------------
(* Case generation for the literal part of C09.  One run enumerates one     *)
(* *family* of spellings (CONSTANT Family) and prints for each spelling     *)
(* what Literals says about it: Denote(sp) and TokenShape(sp).              *)
(*                                                                          *)
(* "grow" families are transition systems: the state is a sequence of       *)
(* indices into a menu of symbols/items, Next appends one (exhaustive up to *)
(* N, or seeded random walks with -simulate); the spellings of a state are  *)
(* Cases(s) (e.g. the digit groups with every suffix and context type).     *)
(* "static" families are finite sets enumerated as initial states.          *)
(* Families beyond one-literal spellings: "sufx" (suffix x spelling class x *)
(* context type x sign x kind of context), "prog" (programs with trivia in  *)
(* every gap and every ending of the input), "progg" (grown programs: chunk *)
(* sequences); for "prog" spellings Out also carries Features(sp), the      *)
(* classes the spelling exercises, for the anti-vacuity guard of the check. *)
EXTENDS Literals, Json, IOUtils

CONSTANTS Family,    \* which family of spellings
          N,         \* grow families: maximal sequence length
          MinEmit,   \* grow families: emit only sequences of at least this length
          Big        \* TRUE: larger menus (thorough tier)

VARIABLE s

SymOfDigit(d) == CASE d = 0 -> "0" [] d = 1 -> "1" [] d = 2 -> "2" [] d = 3 -> "3" [] d = 4 -> "4"
                   [] d = 5 -> "5" [] d = 6 -> "6" [] d = 7 -> "7" [] d = 8 -> "8" [] d = 9 -> "9"
Syms(be) == [i \in 1..Len(be) |-> SymOfDigit(be[i])]
BigSucc(be) == Canon(MulAddLE(Rev(be), 1, 1))
Rep(x, n) == [i \in 1..n |-> x]

-----------------------------------------------------------------------------
(* integers: digit groups *)
IntSyms == <<"0", "1", "5", "9", "_">>
IntCtx  == <<"u8", "u16", "u32", "u64", "i8", "i16", "i32", "i64">>
(* <<suffix, context type>> *)
IntSufCtx == {<<"", IntCtx[i]>> : i \in 1..8} \cup {<<IntCtx[i], IntCtx[i]>> : i \in 1..8}
               \cup {<<"f32", "f32">>, <<"f64", "f64">>, <<"", "f64">>}
IntCases(ds, radix) ==
  {[fam |-> "int", neg |-> n, radix |-> radix, ds |-> ds, suf |-> sc[1], ctx |-> sc[2]] :
     n \in BOOLEAN, sc \in IF radix = "dec" THEN IntSufCtx ELSE {<<"", IntCtx[i]>> : i \in 1..8}}

(* boundary magnitudes 2^b - 1, 2^b, 2^b + 1 with underscores in every kind of position *)
Boundaries == UNION {{BigPred(Pow2Big(b)), Pow2Big(b), BigSucc(Pow2Big(b))} : b \in {7, 8, 15, 16, 31, 32, 63, 64}}
RECURSIVE Interleave(_)
Interleave(ds) == IF Len(ds) <= 1 THEN ds ELSE <<ds[1], "_">> \o Interleave(Tail(ds))
Under(ds, pat) ==
  CASE pat = "none"  -> ds
    [] pat = "after1" -> <<ds[1], "_">> \o Tail(ds)
    [] pat = "trail" -> ds \o <<"_">>
    [] pat = "every" -> Interleave(ds) \o <<"_", "_">>
    [] pat = "zeros" -> <<"0", "0", "_">> \o ds
IntBoundCases ==
  UNION {IntCases(Under(Syms(b), pat), "dec") :
           b \in Boundaries, pat \in IF Big THEN {"none", "after1", "trail", "every", "zeros"} ELSE {"none", "every"}}

HexSymsMenu == <<"0", "1", "9", "a", "F", "7", "c">>
(* 2^b - 1, 2^b written in hexadecimal (b multiple of 4, or 4k+3 for the signed maxima) *)
HexBoundDigits ==
  UNION {{Rep("F", q), <<"1">> \o Rep("0", q), <<"7">> \o Rep("f", q - 1), <<"8">> \o Rep("0", q - 1)} : q \in {2, 4, 8, 16}}
HexBoundCases == UNION {IntCases(d, "hex") : d \in HexBoundDigits \cup {<<"0", "0", "F", "f">>}}

-----------------------------------------------------------------------------
(* floats: integer part x fraction x exponent x suffix x sign *)
FIps == IF Big THEN {<<"0">>, <<"1">>, <<"5">>, <<"1", "0">>, <<"1", "_", "0">>, <<"1", "_">>, <<"1", "2", "5">>,
                      <<"2", "_", "_", "5">>, <<"7", "5", "0">>, <<"0", "3">>, <<"1", "6", "7", "7", "7", "2", "1", "5">>}
        ELSE {<<"0">>, <<"1">>, <<"1", "_", "0">>, <<"1", "2", "5">>, <<"7", "_">>}
(* <<dot, fraction>> *)
FFps == IF Big THEN {<<FALSE, <<>>>>, <<TRUE, <<>>>>, <<TRUE, <<"0">>>>, <<TRUE, <<"5">>>>, <<TRUE, <<"2", "5">>>>,
                      <<TRUE, <<"5", "_">>>>, <<TRUE, <<"0", "_", "5">>>>, <<TRUE, <<"1", "2", "5">>>>, <<TRUE, <<"5", "0">>>>,
                      <<TRUE, <<"7", "5">>>>, <<TRUE, <<"0", "6", "2", "5">>>>, <<TRUE, <<"1">>>>}
        ELSE {<<FALSE, <<>>>>, <<TRUE, <<>>>>, <<TRUE, <<"0">>>>, <<TRUE, <<"5">>>>, <<TRUE, <<"2", "_", "5">>>>,
              <<TRUE, <<"1", "2", "5">>>>, <<TRUE, <<"1">>>>}
(* <<e/E, sign, digits>> *)
FExps == IF Big THEN {<<"", "", <<>>>>, <<"e", "", <<"0">>>>, <<"e", "", <<"1">>>>, <<"E", "", <<"1">>>>, <<"e", "+", <<"1">>>>,
                       <<"e", "-", <<"1">>>>, <<"E", "-", <<"2">>>>, <<"E", "+", <<"2">>>>, <<"e", "", <<"3">>>>,
                       <<"e", "", <<"_", "1">>>>, <<"e", "", <<"1", "_">>>>, <<"e", "+", <<"_", "2">>>>,
                       <<"e", "", <<"0", "_", "1">>>>, <<"e", "-", <<"3">>>>, <<"E", "", <<"1", "0">>>>}
         ELSE {<<"", "", <<>>>>, <<"e", "", <<"0">>>>, <<"E", "", <<"1">>>>, <<"e", "+", <<"1">>>>, <<"e", "-", <<"1">>>>,
               <<"E", "-", <<"2">>>>, <<"e", "", <<"_", "2">>>>, <<"e", "", <<"1", "_">>>>}
FSufCtx == {<<"", "f32">>, <<"", "f64">>, <<"f32", "f32">>, <<"f64", "f64">>}
FloatCases ==
  {[fam |-> "float", neg |-> n, ip |-> ip, dot |-> fp[1], fp |-> fp[2], ex |-> ex[1], es |-> ex[2], ed |-> ex[3],
    suf |-> sc[1], ctx |-> sc[2]] : n \in BOOLEAN, ip \in FIps, fp \in FFps, ex \in FExps, sc \in FSufCtx}

-----------------------------------------------------------------------------
(* strings, f-strings, characters: item menus (sequences, indexed by the state) *)
(* <<code point, UTF-8 width>> *)
PlainChars == << <<97, 1>>, <<32, 1>>, <<233, 2>>, <<26481, 3>>, <<119987, 4>>, <<769, 2>>, <<9, 1>>, <<39, 1>>,
                 <<34, 1>>, <<123, 1>>, <<125, 1>> >>
CItems(fam) ==
  SelectSeq([i \in 1..Len(PlainChars) |-> [k |-> "c", cp |-> PlainChars[i][1], w |-> PlainChars[i][2]]],
            LAMBDA it : PlainOk(fam, it.cp))
EItems == [i \in 1..7 |-> [k |-> "e", s |-> <<"0", "t", "n", "r", "dq", "sq", "bs">>[i]]]
XPairs == << <<"0", "0">>, <<"4", "1">>, <<"7", "f">>, <<"7", "B">>, <<"7", "d">>, <<"0", "a">> >>
XItems == [i \in 1..Len(XPairs) |-> [k |-> "x", hi |-> XPairs[i][1], lo |-> XPairs[i][2]]]
UDigits == << <<"0">>, <<"4", "1">>, <<"e", "9">>, <<"0", "0", "E", "9">>, <<"6", "7", "7", "1">>,
              <<"1", "D", "4", "B", "3">>, <<"1", "0", "F", "F", "F", "F">>, <<"7", "b">>, <<"7", "D">>,
              <<"D", "7", "F", "F">>, <<"E", "0", "0", "0">>, <<"0", "0", "0", "0", "4", "1">>,
              <<"D", "8", "0", "0">>, <<"D", "F", "F", "F">>, <<"1", "1", "0", "0", "0", "0">> >>
UItems == [i \in 1..Len(UDigits) |-> [k |-> "u", ds |-> UDigits[i]]]
ContWs == << <<>>, <<32>>, <<32, 32, 32, 32>>, <<9>>, <<32, 10, 32>>, <<10>> >>
ContItems == [i \in 1..Len(ContWs) |-> [k |-> "cont", ws |-> ContWs[i]]]
InterpNames == <<"int7", "int1_0", "neg3", "true", "padded", "str", "nested", "sum">>
FItems == <<[k |-> "lb"], [k |-> "rb"]>> \o [i \in 1..Len(InterpNames) |-> [k |-> "i", e |-> InterpNames[i]]]

TextMenu(fam) ==
  CASE fam = "str"  -> CItems(fam) \o EItems \o XItems \o UItems \o ContItems
    [] fam = "fstr" -> CItems(fam) \o EItems \o XItems \o UItems \o ContItems \o FItems
    [] fam = "char" -> CItems(fam) \o EItems \o XItems \o UItems

-----------------------------------------------------------------------------
(* identifiers *)
ClsMenu == <<"L", "D", "U", "S2", "S3", "S4", "C2", "C3", "C4", "N1", "N2", "N3", "N4">>
NearWords == {"fnx", "fn_", "fn1", "xfn", "Fn", "FN", "iff", "i", "truex", "True", "TRUE", "falsey", "letter",
              "lets", "matches", "format", "instd", "stdin", "packages", "tests", "testing", "whiles", "form",
              "enumerate", "constant", "depend", "rejected", "accepts", "imports", "returns", "superb", "records",
              "elsewhere", "filters", "filtermaps", "inn", "self", "loop", "use", "struct", "main", "u8", "String"}
WordCases == {[fam |-> "word", w |-> x] : x \in Keywords \cup NearWords}

-----------------------------------------------------------------------------
(* IP addresses, prefixes, AS numbers *)
Octets == IF Big THEN {<<"0">>, <<"1">>, <<"1", "0">>, <<"9", "9">>, <<"1", "2", "8">>, <<"2", "5", "5">>, <<"2", "5", "6">>}
          ELSE {<<"0">>, <<"1">>, <<"1", "0">>, <<"2", "5", "5">>, <<"2", "5", "6">>}
Ip4Cases == {[fam |-> "ip4", o |-> <<a, b, c, d>>] : a \in Octets, b \in Octets, c \in Octets, d \in Octets}

Groups == IF Big THEN {<<"0">>, <<"1">>, <<"a", "B">>, <<"0", "0", "0", "1">>, <<"f", "f", "f", "f">>, <<"d", "b", "8">>}
          ELSE {<<"0">>, <<"a", "B">>, <<"f", "f", "f", "f">>}
GSeqs(n) == UNION {[1..k -> Groups] : k \in 0..n}
Long == << <<"2", "0", "0", "1">>, <<"D", "B", "8">>, <<"2", "C", "A", "1">>, <<"0", "0", "0", "0">>,
           <<"0">>, <<"5", "6", "7">>, <<"5", "6", "7", "3">>, <<"2", "3", "b", "5">> >>
Ip6Cases ==
  {[fam |-> "ip6", pre |-> p, comp |-> TRUE, post |-> q] : p \in GSeqs(2), q \in GSeqs(2)}
  \cup {[fam |-> "ip6", pre |-> SubSeq(Long, 1, p), comp |-> TRUE, post |-> SubSeq(Long, 9 - q, 8)] :
          p \in 0..7, q \in 0..7}
  \cup {[fam |-> "ip6", pre |-> Long, comp |-> FALSE, post |-> <<>>],
        [fam |-> "ip6", pre |-> [i \in 1..8 |-> <<"0">>], comp |-> FALSE, post |-> <<>>]}

PfxLens == {<<"0">>, <<"1">>, <<"7">>, <<"8">>, <<"9">>, <<"1", "6">>, <<"2", "4">>, <<"3", "1">>, <<"3", "2">>,
            <<"3", "3">>, <<"6", "4">>, <<"1", "2", "7">>, <<"1", "2", "8">>}
PfxIp4 == {[fam |-> "ip4", o |-> <<a, b, c, d>>] :
             a \in {<<"0">>, <<"1", "0">>, <<"1", "9", "2">>}, b \in {<<"0">>, <<"1", "6", "8">>},
             c \in {<<"0">>, <<"1", "2", "8">>}, d \in {<<"0">>, <<"1">>, <<"2", "5", "4">>}}
PfxIp6 == {[fam |-> "ip6", pre |-> p, comp |-> TRUE, post |-> q] :
             p \in {<<>>, << <<"2", "0", "0", "1">>, <<"d", "b", "8">> >>, << <<"f", "e", "8", "0">> >>},
             q \in {<<>>, << <<"1">> >>, << <<"8", "0", "0", "0">>, <<"0">> >>}}
Pfx4Cases == {[fam |-> "pfx", ip |-> a, len |-> l] : a \in PfxIp4, l \in PfxLens}
Pfx6Cases == {[fam |-> "pfx", ip |-> a, len |-> l] : a \in PfxIp6, l \in PfxLens}

AsnCases ==
  {[fam |-> "asn", ds |-> d] :
     d \in {<<"0">>, <<"1">>, <<"1", "2", "3", "4">>, <<"0", "0", "7">>, Syms(BigPred(Pow2Big(16))), Syms(Pow2Big(16)),
            Syms(BigPred(Pow2Big(32))), Syms(Pow2Big(32)), Syms(BigSucc(Pow2Big(32))), Syms(Pow2Big(64))}}

-----------------------------------------------------------------------------
(* comments and shebang: one gap commented at a time with every comment     *)
(* form, every gap commented with the same form, each with every shebang    *)
NoGaps == Rep("", 10)
TriviaCases ==
  {[fam |-> "trivia", sheb |-> sh, gaps |-> [NoGaps EXCEPT ![g] = cf], val |-> <<"7">>] :
     sh \in {"", "path"}, g \in 1..10, cf \in CommentForms}
  \cup {[fam |-> "trivia", sheb |-> sh, gaps |-> Rep(cf, 10), val |-> <<"4", "2">>] :
          sh \in ShebangForms, cf \in CommentForms}

-----------------------------------------------------------------------------
(* suffix x spelling x context-type matrix: every spelling class of a number *)
(* (integer spelled, with underscores also directly before the suffix, a    *)
(* magnitude that f32 cannot hold; with fraction; with exponent) x no suffix *)
(* or any of the ten type names x every context type x sign x kind of       *)
(* context.  Denote says for each cell: value, or must not compile.         *)
TypeSeq == IntCtx \o <<"f32", "f64">>
TypeSet == {TypeSeq[i] : i \in 1..Len(TypeSeq)}
SufxIntDigits ==
  {<<"1", "0">>, <<"1", "_", "0">>, <<"1", "0", "_">>, <<"0">>, <<"1", "6", "7", "7", "7", "2", "1", "7">>}
  \cup (IF Big THEN {<<"1", "6", "_", "7", "7", "7", "_", "2", "1", "7", "_">>, <<"2", "5", "5">>, <<"1", "_", "_", "2", "8">>,
                     <<"0", "0", "7">>, Syms(Pow2Big(31)), Syms(Pow2Big(53)), Syms(BigSucc(Pow2Big(53)))} ELSE {})
(* <<ip, dot, fp, ex, es, ed>> *)
SufxFloatShapes ==
  {<<<<"1", "0">>, TRUE, <<"0">>, "", "", <<>>>>, <<<<"1", "_", "0">>, TRUE, <<"5", "_">>, "", "", <<>>>>,
   <<<<"1">>, FALSE, <<>>, "e", "", <<"1">>>>, <<<<"1">>, FALSE, <<>>, "e", "", <<"1", "_">>>>,
   <<<<"2">>, TRUE, <<"5">>, "E", "-", <<"0", "_">>>>}
  \cup (IF Big THEN {<<<<"1", "0">>, TRUE, <<>>, "", "", <<>>>>, <<<<"1", "6", "7", "7", "7", "2", "1", "7">>, TRUE, <<"0">>, "", "", <<>>>>,
                     <<<<"1", "6", "7", "7", "7", "2", "1", "7">>, FALSE, <<>>, "e", "+", <<"0">>>>,
                     <<<<"0">>, TRUE, <<"1", "2", "5">>, "", "", <<>>>>} ELSE {})
(* <<neg, pos>>: the quick tier runs both signs where the literal is returned and the positive literal elsewhere *)
SufxNegPos == IF Big THEN BOOLEAN \X PosForms ELSE {<<FALSE, "ret">>, <<TRUE, "ret">>, <<FALSE, "let">>, <<FALSE, "arg">>}
SufxCases ==
  {[fam |-> "int", neg |-> np[1], radix |-> "dec", ds |-> ds, suf |-> suf, ctx |-> ctx, pos |-> np[2]] :
     np \in SufxNegPos, ds \in SufxIntDigits, suf \in TypeSet \cup {""}, ctx \in TypeSet}
  \cup {[fam |-> "float", neg |-> np[1], ip |-> f[1], dot |-> f[2], fp |-> f[3], ex |-> f[4], es |-> f[5], ed |-> f[6],
         suf |-> suf, ctx |-> ctx, pos |-> np[2]] :
          np \in SufxNegPos, f \in SufxFloatShapes, suf \in TypeSet \cup {""}, ctx \in TypeSet}

-----------------------------------------------------------------------------
(* programs with trivia (Literals "Programs with trivia")                   *)
RECURSIVE Flat(_)
Flat(ss) == IF ss = <<>> THEN <<>> ELSE Head(ss) \o Flat(Tail(ss))

ItemToks(nm, ds) == <<Tk("fn"), Tk(nm), Tk("("), Tk(")"), Tk("->"), Tk("i32"), Tk("{"), Dg(ds), Tk("}")>>
(* tokens with trivia: fill[1] before the first token, fill[i + 1] behind   *)
(* token i (behind the separator); sep = "sp": one space between any two    *)
(* tokens, "tight": only where two words would run together                 *)
SepAt(toks, i, sep) ==
  IF i < Len(toks) /\ (sep = "sp" \/ (IsWord(toks[i]) /\ IsWord(toks[i + 1]))) THEN <<Ws("sp")>> ELSE <<>>
WithTrivia(toks, fill, sep) ==
  fill[1] \o Flat([i \in 1..Len(toks) |-> <<toks[i]>> \o SepAt(toks, i, sep) \o fill[i + 1]])
Spaced(toks) == WithTrivia(toks, [i \in 1..(Len(toks) + 1) |-> <<>>], "sp")
(* how the input ends: as the last gap leaves it | without its final line   *)
(* end (if it has one) | with one more line end                             *)
EndForms == {"asis", "chop", "nl"}
Ended(ps, e) ==
  CASE e = "asis" -> ps
    [] e = "chop" -> IF ps # <<>> /\ IsLineEnd(ps[Len(ps)]) THEN SubSeq(ps, 1, Len(ps) - 1) ELSE ps
    [] e = "nl"   -> ps \o <<Ws("nl")>>
ShebLine(b) == IF b = "" THEN <<>> ELSE <<Sheb(b), Ws("nl")>>
Prog(ps) == [fam |-> "prog", ps |-> ps]

ComLine(b) == <<Com(b), Ws("nl")>>
CommentedItem(nm, ds) == <<Com("empty"), Ws("sp")>> \o Spaced(ItemToks(nm, ds)) \o <<Ws("nl")>>
TriviaGroups ==
  {ComLine(b) : b \in ComBodies}
  \cup {CommentedItem("g", <<"2">>), CommentedItem("f", <<"9">>),             \* commented-out code, as tokens
        <<Ws("nl")>>, <<Ws("nl"), Ws("tab"), Ws("nl")>>, <<Ws("crlf")>>,       \* blank lines
        <<Com("plain"), Ws("crlf")>>,
        <<Com("plain"), Com("item_g"), Ws("nl")>>,                             \* `// a comment// fn g() ...`
        <<Com("plain"), Ws("nl"), Com("item_g"), Ws("nl")>>,                   \* two comment lines
        <<Com("empty"), Sheb("path"), Ws("nl")>>}                              \* `//#!/usr/bin/roto`
Skel1 == ItemToks("f", <<"7">>)
Skel2 == ItemToks("f", <<"4", "2">>) \o ItemToks("h", <<"3">>)
NoFill(toks) == [i \in 1..(Len(toks) + 1) |-> <<>>]
(* one gap at a time, every group, every ending *)
ProgOneGap(toks) ==
  {Prog(Ended(WithTrivia(toks, [NoFill(toks) EXCEPT ![g] = t], "sp"), e)) :
     g \in 1..(Len(toks) + 1), t \in TriviaGroups, e \in EndForms}
(* two gaps at a time (thorough tier) *)
ProgTwoGaps(toks) ==
  {Prog(Ended(WithTrivia(toks, [NoFill(toks) EXCEPT ![g[1]] = t1, ![g[2]] = t2], "sp"), e)) :
     g \in {x \in (1..(Len(toks) + 1)) \X (1..(Len(toks) + 1)) : x[1] < x[2]}, t1 \in TriviaGroups, t2 \in TriviaGroups, e \in {"asis", "chop"}}
(* every gap with the same group x separator x shebang line x ending *)
ProgAllGaps(toks) ==
  {Prog(Ended(ShebLine(sh) \o WithTrivia(toks, [i \in 1..(Len(toks) + 1) |-> t], sep), e)) :
     t \in TriviaGroups \cup {<<>>}, sep \in {"sp", "tight"}, sh \in ShebBodies \cup {""}, e \in EndForms}
(* no item at all: shebang line and / or one group, every ending (`#!/usr/bin/roto` alone, `//` alone, the empty input) *)
ProgNoItem ==
  {Prog(Ended(ShebLine(sh) \o t, e)) : t \in TriviaGroups \cup {<<>>}, sh \in ShebBodies \cup {""}, e \in EndForms}
ProgCases ==
  ProgOneGap(Skel1) \cup ProgOneGap(Skel2) \cup ProgAllGaps(Skel1) \cup ProgNoItem
  \cup (IF Big THEN ProgAllGaps(Skel2) \cup ProgTwoGaps(Skel1) ELSE {})

(* grown programs: sequences over a menu of chunks (whole items, comment    *)
(* openers, white space, a shebang): every order, so also an item behind a  *)
(* comment opener at the end of the input, a shebang that is not first, ... *)
ProgChunks == << Spaced(ItemToks("f", <<"7">>)) \o <<Ws("sp")>>,
                 Spaced(ItemToks("g", <<"2">>)) \o <<Ws("sp")>>,
                 WithTrivia(ItemToks("h", <<"0", "3">>), NoFill(Skel1), "tight"),
                 <<Com("plain")>>, <<Com("empty")>>, <<Com("item_g")>>,
                 <<Ws("nl")>>, <<Ws("sp")>>, <<Ws("crlf")>>, <<Sheb("path")>> >>

-----------------------------------------------------------------------------
GrowFamilies == {"intg", "hexg", "str", "fstr", "char", "ident", "progg"}

MenuLen ==
  CASE Family = "intg" -> Len(IntSyms) [] Family = "hexg" -> Len(HexSymsMenu)
    [] Family \in {"str", "fstr", "char"} -> Len(TextMenu(Family))
    [] Family = "ident" -> Len(ClsMenu)
    [] Family = "progg" -> Len(ProgChunks)
    [] OTHER -> 0

Cases(x) ==
  CASE Family = "intg" -> LET ds == [j \in 1..Len(x) |-> IntSyms[x[j]]]
                          IN IF Len(x) >= 1 /\ ds[1] # "_" THEN IntCases(ds, "dec") ELSE {}
    [] Family = "hexg" -> IF Len(x) >= 1 THEN IntCases([j \in 1..Len(x) |-> HexSymsMenu[x[j]]], "hex") ELSE {}
    [] Family \in {"str", "fstr", "char"} ->
         LET m == TextMenu(Family) IN {[fam |-> Family, items |-> [j \in 1..Len(x) |-> m[x[j]]]]}
    [] Family = "ident" -> IF Len(x) >= 1 THEN {[fam |-> "ident", cls |-> [j \in 1..Len(x) |-> ClsMenu[x[j]]]]} ELSE {}
    [] Family = "progg" -> {Prog(Flat([j \in 1..Len(x) |-> ProgChunks[x[j]]]))}

StaticCases ==
  CASE Family = "intb" -> IntBoundCases
    [] Family = "hexb" -> HexBoundCases
    [] Family = "float" -> FloatCases
    [] Family = "word" -> WordCases
    [] Family = "ip4" -> Ip4Cases
    [] Family = "ip6" -> Ip6Cases
    [] Family = "pfx4" -> Pfx4Cases
    [] Family = "pfx6" -> Pfx6Cases
    [] Family = "asn" -> AsnCases
    [] Family = "trivia" -> TriviaCases
    [] Family = "sufx" -> SufxCases
    [] Family = "prog" -> ProgCases

(* the written-out limits of Literals are the computed ones *)
ASSUME \A ty \in IntTypes, neg \in BOOLEAN : MaxMag(ty, neg) = MaxMagComputed(ty, neg)
ASSUME Max24 = BigPred(Pow2Big(24))

MCInit == IF Family \in GrowFamilies THEN s = <<>> ELSE s \in StaticCases
MCNext == /\ Family \in GrowFamilies /\ Len(s) < N
          /\ \E i \in 1..MenuLen : s' = Append(s, i)
MCSpec == MCInit /\ [][MCNext]_s

Out(sp) == [sp |-> sp, den |-> Denote(sp), toks |-> TokenShape(sp), dev |-> DeviantFstr(sp), feat |-> Features(sp)]

Emit ==
  IF Family \in GrowFamilies
  THEN Len(s) >= MinEmit => \A sp \in Cases(s) : PrintT(<<"REPLAY", ToJson(Out(sp))>>)
  ELSE PrintT(<<"REPLAY", ToJson(Out(s))>>)
=============================================================================
