------------------------------- MODULE NoCrash -------------------------------
(* C10 - well-typed scripts and built-ins cannot kill the host process.      *)
(*                                                                           *)
(* The specification has two parts.                                          *)
(*                                                                           *)
(* 1. The CALL DOMAIN: which (operator, type, operand, operand) tuples and   *)
(*    which (built-in, argument, ..) tuples a well-typed script can execute. *)
(*    Operands and arguments are named by CLASS ("MIN", "len+1", "multibyte",*)
(*    ..); the check maps a class to a concrete value of the type (TLC has   *)
(*    32 bit integers and no floats, so values are symbolic here) or, for    *)
(*    points produced by the seeded generator of the check, carries the      *)
(*    concrete value ("rnd" with little-endian bytes / code points), whose   *)
(*    membership in the domain is decided here (PointOk).  Documented        *)
(*    resource limits are outside the domain: repeat counts are bounded by   *)
(*    2^16 and generated strings / lists are short (memory exhaustion);      *)
(*    recursion and loops do not occur in a single operator / built-in call. *)
(*                                                                           *)
(* 2. The CALL PROTOCOL: a tiny transition system                            *)
(*        pending --Call(p)--> called --Return--> returned --Call(q)--> ..   *)
(*    whose only way out of `called` is Return.  There is no action for a    *)
(*    trap, an abort, a panic across the foreign-function boundary or a      *)
(*    call that never comes back: an execution in which one of those is      *)
(*    observed is not a behaviour of this specification.  The value that is  *)
(*    returned is not constrained (values are the business of C01 / C17).    *)
EXTENDS Naturals, Sequences, FiniteSets, TLC

CONSTANT Dense   \* FALSE: sampled prefix lengths / edge sets, TRUE: the denser sets

VARIABLES pc,       \* "pending" | "called" | "returned"
          cur,      \* the point being / last executed
          outcome   \* "none" | "returned"
vars == <<pc, cur, outcome>>

-----------------------------------------------------------------------------
(* Part 1a: arithmetic and comparison operators on the numeric types        *)

IntTypes   == {"u8", "u16", "u32", "u64", "i8", "i16", "i32", "i64"}
FloatTypes == {"f32", "f64"}
NumTypes   == IntTypes \cup FloatTypes
Signed(t)  == t \in {"i8", "i16", "i32", "i64"}
Width(t)   == CASE t \in {"u8", "i8"} -> 1 [] t \in {"u16", "i16"} -> 2
                [] t \in {"u32", "i32", "f32"} -> 4 [] t \in {"u64", "i64", "f64"} -> 8

(* edge operands.  Unsigned: HALF = 2^(n-1) and MAX are the bit patterns of  *)
(* the signed MIN and -1: an unsigned division lowered as a signed one would *)
(* trap on HALF / MAX.                                                       *)
Edge(t) ==
  IF t \in FloatTypes
    THEN {"0", "-0", "1", "-1", "inf", "-inf", "nan", "max", "tiny"}
           \cup (IF Dense THEN {"0.5", "-max", "-tiny", "2^31", "2^63"} ELSE {})
  ELSE IF Signed(t)
    THEN {"0", "1", "2", "-1", "MIN", "MIN+1", "MAX", "MAX-1"} \cup (IF Dense THEN {"-2", "3", "10"} ELSE {})
    ELSE {"0", "1", "2", "HALF", "MAX", "MAX-1"} \cup (IF Dense THEN {"3", "10", "HALF-1", "HALF+1"} ELSE {})

Arith    == {"add", "sub", "mul", "div", "rem"}
Compare  == {"eq", "ne", "lt", "le", "gt", "ge"}
(* form "bin": a OP b;  "compound": x OP= b;  "unary": -a                   *)
BinOps(t)      == (IF t \in FloatTypes THEN Arith \ {"rem"} ELSE Arith) \cup Compare
CompoundOps(t) == IF t \in FloatTypes THEN Arith \ {"rem"} ELSE Arith
HasNeg(t)      == Signed(t) \/ t \in FloatTypes
(* "lit": the operands are constants in the script text; "arg": they are    *)
(* parameters of the compiled function supplied by the host at call time    *)
Modes == {"lit", "arg"}

IsBytes(s, n) == Len(s) = n /\ \A i \in 1..n : s[i] \in 0..255
Cls(x)  == [c |-> x]
NoOperand == Cls("none")

(* an operand is an edge class or a concrete value of the type's width      *)
OperandOk(x, t) == \/ x.c \in Edge(t) /\ DOMAIN x = {"c"}
                   \/ x.c = "rnd" /\ DOMAIN x = {"c", "bytes"} /\ IsBytes(x.bytes, Width(t))

OpPointOk(p) ==
  /\ DOMAIN p = {"kind", "form", "op", "ty", "mode", "a", "b"}
  /\ p.ty \in NumTypes /\ p.mode \in Modes
  /\ \/ p.form = "bin" /\ p.op \in BinOps(p.ty) /\ OperandOk(p.a, p.ty) /\ OperandOk(p.b, p.ty)
     \/ p.form = "compound" /\ p.op \in CompoundOps(p.ty) /\ OperandOk(p.a, p.ty) /\ OperandOk(p.b, p.ty)
     \/ p.form = "unary" /\ p.op = "neg" /\ HasNeg(p.ty) /\ OperandOk(p.a, p.ty) /\ p.b = NoOperand

OpPoint(f, o, t, m, x, y) == [kind |-> "op", form |-> f, op |-> o, ty |-> t, mode |-> m, a |-> x, b |-> y]

(* every enumerated operator point is offered as a call (nested quantifiers: *)
(* the domain is never built as one big set)                                 *)
OpCall(Do(_)) ==
  \E t \in NumTypes, m \in Modes :
     \/ \E o \in BinOps(t), x \in Edge(t), y \in Edge(t) : Do(OpPoint("bin", o, t, m, Cls(x), Cls(y)))
     \/ \E o \in CompoundOps(t), x \in Edge(t), y \in Edge(t) : Do(OpPoint("compound", o, t, m, Cls(x), Cls(y)))
     \/ HasNeg(t) /\ \E x \in Edge(t) : Do(OpPoint("unary", "neg", t, m, Cls(x), NoOperand))

-----------------------------------------------------------------------------
(* Part 1b: the built-in functions and methods of the default runtime        *)
(*                                                                           *)
(* One entry per item of the generated reference docs/source/reference/std   *)
(* (the check compares this table with the reference in both directions and  *)
(* compiles a call of every entry), plus the operators that the type checker *)
(* resolves to a built-in or that act on non-numeric built-in types ("op:"). *)
(* `params` gives, per parameter, the ARGUMENT KIND that determines the      *)
(* classes the argument ranges over.  "L:T" / "Item:T": list of / element of *)
(* the point's element type.                                                 *)
(*                                                                           *)
(* THE TYPE-ARGUMENT DIMENSION.  A generic built-in (one whose signature     *)
(* mentions the type parameter T: all of List[T]) is one piece of host code  *)
(* that runs for every instantiation; what it is handed is the element's     *)
(* vtable (size, alignment, clone / drop / eq functions).  The domain of a   *)
(* generic built-in is therefore built-in x ELEMENT TYPE x arguments, and    *)
(* the element types are chosen per SIZE CLASS of their representation       *)
(* (ElemSize): zero-sized `()` (a list of them never allocates), 1, 2, 4 and *)
(* 8 byte scalars, String (reference counted: clone and drop functions), a   *)
(* nested list, an optional value (discriminant + payload) and a record of   *)
(* fields of mixed sizes (padding, a String inside).  Lists range over the   *)
(* LENGTH classes 0, 1, 2, 3 and 9 (GrowthLen: more than the first           *)
(* allocation of every element size holds, i.e. past one growth step).       *)

B(n, ps) == [name |-> n, params |-> ps]

Builtins ==
  { B("print", <<"Str">>),
    \* String
    B("String.from_chars", <<"L:char">>), B("String.append", <<"Str", "Str">>),
    B("String.contains", <<"Str", "Pat">>), B("String.starts_with", <<"Str", "Pat">>),
    B("String.ends_with", <<"Str", "Pat">>), B("String.to_lowercase", <<"Str">>),
    B("String.to_uppercase", <<"Str">>), B("String.repeat", <<"Str", "RepCnt">>),
    B("String.eq", <<"Str", "Str">>), B("String.replace", <<"Str", "Pat", "Pat">>),
    B("String.split", <<"Str", "Pat">>), B("String.bytes", <<"Str">>), B("String.chars", <<"Str">>),
    B("String.lines", <<"Str">>), B("String.trim", <<"Str">>), B("String.trim_start", <<"Str">>),
    B("String.trim_end", <<"Str">>), B("String.strip_prefix", <<"Str", "Pat">>),
    B("String.strip_suffix", <<"Str", "Pat">>), B("String.splitn", <<"Str", "Num", "Pat">>),
    B("String.rsplitn", <<"Str", "Num", "Pat">>), B("String.to_string", <<"Str">>),
    \* views of a string: the receiver is built from a string, indices are relative to the view's length
    B("StringBytes.len", <<"Str">>), B("StringBytes.get", <<"Str", "Idx">>),
    B("StringBytes.slice", <<"Str", "Idx", "Idx">>), B("StringBytes.list", <<"Str">>),
    B("StringChars.len", <<"Str">>), B("StringChars.get", <<"Str", "Idx">>),
    B("StringChars.slice", <<"Str", "Idx", "Idx">>), B("StringChars.list", <<"Str">>),
    B("StringLines.len", <<"Str">>), B("StringLines.get", <<"Str", "Idx">>),
    B("StringLines.slice", <<"Str", "Idx", "Idx">>), B("StringLines.list", <<"Str">>),
    \* StringBuf (receiver built from a string)
    B("StringBuf.new", <<>>), B("StringBuf.from", <<"Str">>), B("StringBuf.push_char", <<"Str", "Char">>),
    B("StringBuf.push_string", <<"Str", "Pat">>), B("StringBuf.as_string", <<"Str">>),
    \* List[T]
    B("List.new", <<>>), B("List.push", <<"L:T", "Item:T">>), B("List.contains", <<"L:T", "Item:T">>),
    B("List.index", <<"L:T", "Item:T">>), B("List.concat", <<"L:T", "L:T">>), B("List.get", <<"L:T", "Idx">>),
    B("List.swap", <<"L:T", "Idx", "Idx">>), B("List.len", <<"L:T">>), B("List.capacity", <<"L:T">>),
    B("List.is_empty", <<"L:T">>), B("List.join", <<"L:str", "Pat">>),
    \* Prefix, IpAddr, Asn
    B("Prefix.new", <<"Ip", "PfxLen">>), B("Prefix.addr", <<"Pfx">>), B("Prefix.min_addr", <<"Pfx">>),
    B("Prefix.max_addr", <<"Pfx">>), B("Prefix.len", <<"Pfx">>), B("Prefix.eq", <<"Pfx", "Pfx">>),
    B("Prefix.to_string", <<"Pfx">>),
    B("IpAddr.eq", <<"Ip", "Ip">>), B("IpAddr.is_ipv4", <<"Ip">>), B("IpAddr.is_ipv6", <<"Ip">>),
    B("IpAddr.to_canonical", <<"Ip">>), B("IpAddr.to_string", <<"Ip">>),
    B("LOCALHOSTV4", <<>>), B("LOCALHOSTV6", <<>>),
    B("Asn.to_string", <<"Asn">>),
    \* scalars
    B("bool.to_string", <<"Bool">>), B("char.to_string", <<"Char">>),
    B("u8.to_string", <<"Num:u8">>), B("u16.to_string", <<"Num:u16">>), B("u32.to_string", <<"Num:u32">>),
    B("u64.to_string", <<"Num:u64">>), B("i8.to_string", <<"Num:i8">>), B("i16.to_string", <<"Num:i16">>),
    B("i32.to_string", <<"Num:i32">>), B("i64.to_string", <<"Num:i64">>),
    B("f32.to_string", <<"Num:f32">>), B("f64.to_string", <<"Num:f64">>),
    B("f32.floor", <<"Num:f32">>), B("f32.ceil", <<"Num:f32">>), B("f32.round", <<"Num:f32">>),
    B("f32.abs", <<"Num:f32">>), B("f32.sqrt", <<"Num:f32">>), B("f32.pow", <<"Num:f32", "Num:f32">>),
    B("f32.is_nan", <<"Num:f32">>), B("f32.is_infinite", <<"Num:f32">>), B("f32.is_finite", <<"Num:f32">>),
    B("f64.floor", <<"Num:f64">>), B("f64.ceil", <<"Num:f64">>), B("f64.round", <<"Num:f64">>),
    B("f64.abs", <<"Num:f64">>), B("f64.sqrt", <<"Num:f64">>), B("f64.pow", <<"Num:f64", "Num:f64">>),
    B("f64.is_nan", <<"Num:f64">>), B("f64.is_infinite", <<"Num:f64">>), B("f64.is_finite", <<"Num:f64">>),
    \* operators on the non-numeric built-in types
    B("op:String.+", <<"Str", "Str">>), B("op:String.==", <<"Str", "Str">>), B("op:String.!=", <<"Str", "Str">>),
    B("op:List.+", <<"L:T", "L:T">>), B("op:List.==", <<"L:T", "L:T">>), B("op:List.!=", <<"L:T", "L:T">>),
    \* `for x in l { .. }` and the list literal `[e1, .., en]` of n element expressions
    B("op:List.for", <<"L:T">>), B("op:List.literal", <<"L:T">>),
    B("op:IpAddr./", <<"Ip", "PfxLen">>), B("op:IpAddr.==", <<"Ip", "Ip">>), B("op:IpAddr.!=", <<"Ip", "Ip">>),
    B("op:Prefix.==", <<"Pfx", "Pfx">>), B("op:Prefix.!=", <<"Pfx", "Pfx">>),
    B("op:Asn.==", <<"Asn", "Asn">>), B("op:Asn.!=", <<"Asn", "Asn">>),
    B("op:char.==", <<"Char", "Char">>), B("op:char.!=", <<"Char", "Char">>),
    B("op:bool.==", <<"Bool", "Bool">>), B("op:bool.!=", <<"Bool", "Bool">>),
    B("op:bool.&&", <<"Bool", "Bool">>), B("op:bool.||", <<"Bool", "Bool">>), B("op:bool.not", <<"Bool">>) }

BuiltinNames == {b.name : b \in Builtins}
Generic(b) == \E i \in 1..Len(b.params) : b.params[i] \in {"L:T", "Item:T"}
(* List.new has a type parameter but no parameter that mentions it *)
IsGeneric(b) == Generic(b) \/ b.name = "List.new"

(* element type -> size class of its representation.  "list_u64" is List[u64], *)
(* "opt_u64" is Option[u64], "rec" is a record { a: u8, b: u64, c: String,     *)
(* d: u16 } declared by the script.                                            *)
ElemSize == [unit |-> "0", u8 |-> "1", u16 |-> "2", u32 |-> "4", char |-> "4", u64 |-> "8",
             str |-> "String", list_u64 |-> "List", opt_u64 |-> "Option", rec |-> "record"]
ElemKinds   == DOMAIN ElemSize
SizeClasses == {"0", "1", "2", "4", "8", "String", "List", "Option", "record"}
ElemsOfSize(z) == {e \in ElemKinds : ElemSize[e] = z}
(* a type with a single value: no value of it is absent from a non-empty list *)
SingleValued(e) == e = "unit"
ListKind(e) == "L:" \o e
ItemKind(e) == "Item:" \o e
Subst(k, e) == IF k = "L:T" THEN ListKind(e) ELSE IF k = "Item:T" THEN ItemKind(e) ELSE k
ListKinds == {ListKind(e) : e \in ElemKinds}
ItemKinds == {ItemKind(e) : e \in ElemKinds}
NumKind(t) == CASE t = "u8" -> "Num:u8" [] t = "u16" -> "Num:u16" [] t = "u32" -> "Num:u32" [] t = "u64" -> "Num:u64"
                [] t = "i8" -> "Num:i8" [] t = "i16" -> "Num:i16" [] t = "i32" -> "Num:i32" [] t = "i64" -> "Num:i64"
                [] t = "f32" -> "Num:f32" [] t = "f64" -> "Num:f64"
NumKinds == {NumKind(t) : t \in NumTypes}
TypeOfNumKind(k) == CHOOSE t \in NumTypes : NumKind(t) = k

(* length classes of list arguments, and the lengths they stand for.  The     *)
(* first allocation of a list holds 8 elements of size 1 and 4 elements of    *)
(* any other non-zero size (compute_capacity): "nine" is past one growth step *)
(* for every element size.                                                    *)
LenOf      == [empty |-> 0, one |-> 1, two |-> 2, three |-> 3, nine |-> 9]
LenClasses == DOMAIN LenOf
GrowthLen  == 8
ASSUME \E c \in LenClasses : LenOf[c] > GrowthLen

(* argument classes per kind *)
PfxLenSample == {0, 1, 24, 32, 33, 64, 128, 129, 255}
PfxLenAll    == 0..255
LenStr(S)    == {ToString(n) : n \in S}
SmallRep     == {"0", "1", "2", "2^16"}

Classes(k) ==
  CASE k = "Str"    -> {"empty", "ascii", "multibyte", "lines_nl", "lines_nonl", "ws"}
    [] k = "Pat"    -> {"empty", "ascii", "multibyte", "nl", "self"}
    [] k = "Idx"    -> {"0", "1", "len-1", "len", "len+1", "2^32", "u64max"}
                         \cup (IF Dense THEN {"2", "len-2", "2^31", "2^63"} ELSE {})
    [] k = "Num"    -> {"0", "1", "2", "2^16", "2^32", "u64max"} \cup (IF Dense THEN {"3", "2^63"} ELSE {})
    [] k = "RepCnt" -> SmallRep \cup {"u64max"}    \* u64max only for the empty string, see Constraint
    [] k = "PfxLen" -> LenStr(IF Dense THEN PfxLenAll ELSE PfxLenSample)
    [] k = "Ip"     -> {"v4", "v4max", "v6", "v6mapped", "v6zero"}
    [] k = "Pfx"    -> {"v4/0", "v4/24", "v4/32", "v6/0", "v6/64", "v6/128"}
    [] k = "Asn"    -> {"0", "65535", "65536", "u32max"}
    [] k = "Bool"   -> {"true", "false"}
    [] k = "Char"   -> {"a", "nul", "nl", "2byte", "3byte", "4byte", "max"}
    [] k \in ListKinds -> LenClasses
    [] k \in ItemKinds -> {"present", "absent"}
    [] k \in NumKinds  -> Edge(TypeOfNumKind(k))

ScalarValue(cp) == cp \in 0..1114111 /\ cp \notin 55296..57343
MaxRndStr  == 48     \* generated strings: at most 48 code points
MaxRndList == 64     \* generated lists: at most 64 elements
(* little-endian 8 byte value <= 2^16 *)
AtMost2p16(b) == /\ IsBytes(b, 8) /\ \A i \in 4..8 : b[i] = 0
                 /\ (b[3] = 0 \/ (b[3] = 1 /\ b[1] = 0 /\ b[2] = 0))

(* a concrete ("rnd") argument of kind k produced by the check's generator  *)
RndOk(x, k) ==
  CASE k \in {"Str", "Pat"} -> /\ DOMAIN x = {"k", "c", "cps"} /\ Len(x.cps) <= MaxRndStr
                               /\ \A i \in 1..Len(x.cps) : ScalarValue(x.cps[i])
    [] k \in {"Idx", "Num"} -> DOMAIN x = {"k", "c", "bytes"} /\ IsBytes(x.bytes, 8)
    [] k = "RepCnt" -> DOMAIN x = {"k", "c", "bytes"} /\ AtMost2p16(x.bytes)
    [] k = "Ip"     -> DOMAIN x = {"k", "c", "bytes"} /\ (IsBytes(x.bytes, 4) \/ IsBytes(x.bytes, 16))
    [] k = "Asn"    -> DOMAIN x = {"k", "c", "bytes"} /\ IsBytes(x.bytes, 4)
    [] k = "Char"   -> DOMAIN x = {"k", "c", "cps"} /\ Len(x.cps) = 1 /\ ScalarValue(x.cps[1])
    [] k \in ListKinds -> DOMAIN x = {"k", "c", "n"} /\ x.n \in 0..MaxRndList
    [] k \in NumKinds  -> DOMAIN x = {"k", "c", "bytes"} /\ IsBytes(x.bytes, Width(TypeOfNumKind(k)))
    [] OTHER -> FALSE

ArgOk(x, k) ==
  /\ x.k = k
  /\ \/ DOMAIN x = {"k", "c"} /\ x.c \in (IF k = "PfxLen" THEN LenStr(PfxLenAll) ELSE Classes(k))
     \/ x.c = "rnd" /\ RndOk(x, k)

Arg(k, c) == [k |-> k, c |-> c]

(* what the documented resource limits exclude, and what cannot be built    *)
Constraint(name, args) ==
  /\ (name = "String.repeat") =>
        \/ args[2].c \in SmallRep \cup {"rnd"}
        \/ args[2].c = "u64max" /\ args[1].c = "empty"       \* repeating "" needs no memory
  /\ \A i \in 1..Len(args) :
        (args[i].k \in ItemKinds /\ args[i].c = "present") =>
            /\ args[1].k \in ListKinds                        \* "an element of the receiver"
            /\ args[1].c # "empty"
            /\ (args[1].c = "rnd" => args[1].n > 0)
  /\ \A i \in 1..Len(args) :
        (args[i].c = "absent" /\ \E e \in ElemKinds : SingleValued(e) /\ args[i].k = ItemKind(e)) =>
            /\ args[1].k \in ListKinds                        \* absent from the receiver: it must be empty
            /\ (args[1].c = "empty" \/ (args[1].c = "rnd" /\ args[1].n = 0))

BuiltinPointOk(p) ==
  /\ DOMAIN p = {"kind", "name", "elem", "mode", "args"}
  /\ p.mode \in Modes
  /\ \E b \in Builtins :
        /\ b.name = p.name
        /\ IF IsGeneric(b) THEN p.elem \in ElemKinds ELSE p.elem = "-"
        /\ Len(p.args) = Len(b.params)
        /\ \A i \in 1..Len(b.params) : ArgOk(p.args[i], Subst(b.params[i], p.elem))
        /\ Constraint(b.name, p.args)

(* all class tuples of a parameter list *)
RECURSIVE Tuples(_)
Tuples(ks) == IF ks = <<>> THEN {<<>>}
              ELSE {<<Arg(ks[1], c)>> \o rest : c \in Classes(ks[1]), rest \in Tuples(Tail(ks))}

BuiltinPoint(n, e, m, as) == [kind |-> "builtin", name |-> n, elem |-> e, mode |-> m, args |-> as]

ElemsOf(b) == IF IsGeneric(b) THEN ElemKinds ELSE {"-"}
(* enumeration only (not a limit of the domain): the prefix lengths outside   *)
(* the sample are combined with one address per family                       *)
Sampled(name, t) ==
  (name \in {"Prefix.new", "op:IpAddr./"}) => (t[2].c \in LenStr(PfxLenSample) \/ t[1].c \in {"v4", "v6"})
ArgTuples(b, e) == {t \in Tuples([i \in 1..Len(b.params) |-> Subst(b.params[i], e)]) :
                       Constraint(b.name, t) /\ Sampled(b.name, t)}

BuiltinCall(Do(_)) ==
  \E b \in Builtins, m \in Modes :
     \E e \in ElemsOf(b) : \E as \in ArgTuples(b, e) : Do(BuiltinPoint(b.name, e, m, as))

-----------------------------------------------------------------------------
(* the call domain: membership predicate (enumerated and generated points) *)
PointOk(p) == IF p.kind = "op" THEN OpPointOk(p)
              ELSE IF p.kind = "builtin" THEN BuiltinPointOk(p) ELSE FALSE

-----------------------------------------------------------------------------
(* Part 2: the call protocol *)
NoPoint == [kind |-> "none"]
AllowedOutcomes == {"returned"}

Init == pc = "pending" /\ cur = NoPoint /\ outcome = "none"

(* the host calls compiled code at a point of the domain *)
Call(p) == /\ pc \in {"pending", "returned"}
           /\ pc' = "called" /\ cur' = p /\ outcome' = "none"

(* the only thing a call may do: come back (with whatever value)            *)
Return == /\ pc = "called"
          /\ pc' = "returned" /\ outcome' = "returned" /\ UNCHANGED cur

Next == OpCall(Call) \/ BuiltinCall(Call) \/ Return

Spec == Init /\ [][Next]_vars

TypeOK == /\ pc \in {"pending", "called", "returned"}
          /\ outcome \in {"none"} \cup AllowedOutcomes
          /\ (pc = "returned") <=> (outcome = "returned")
          /\ (pc = "pending") <=> (cur = NoPoint)

(* whatever is called lies in the call domain *)
DomainInv == (pc # "pending") => PointOk(cur)
=============================================================================
