--------------------------- MODULE MCTestRunner ---------------------------
(* Case generation for C19: TLC enumerates every package / invocation of  *)
(* the bounded families below as initial states of TestRunner, runs the    *)
(* (deterministic) transition system to its end and prints one REPLAY case *)
(* per package with everything the specification says must be observed:    *)
(* does it compile, the log of marks (order + multiplicity), the verdict of *)
(* run_tests, the exit status class of the CLI, the number of entry runs.  *)
EXTENDS TestRunner, SequencesExt, Json, IOUtils, TLC

CONSTANTS
  Family,      \* "api": Package::run_tests from a host; "cli": the roto binary
  MaxTests1,   \* max number of test blocks in single-module packages
  MaxTests2,   \* max number of test blocks in two-module packages
  TNames,      \* names of test blocks (strings, see Code)
  SubNames,    \* names of the second module ({} = single-module packages only)
  FnNames,     \* names of functions that may exist next to the tests (collisions)
  CallNames,   \* names that a test body may call
  Brokens,     \* unrelated errors: subset of {"none","syntax","type"}
  MainSigs,    \* cli: variants of `main` in the root module: subset of {"none","unit","param","ret"}
  RunNames,    \* cli: function names passed explicitly to `run`
  SubMain,     \* cli: set of BOOLEAN: a decoy `fn main()` in the second module
  BodyForms,   \* statement forms of test bodies: subset of Bodies
  FnPositions, \* where functions / helper declarations stand: subset of {"first","last","mixed"}
  NoDups,      \* BOOLEAN: leave out packages with duplicate test names (body families)
  ModShapes,   \* shapes of the module tree: subset of {"single","sub","nested"}
  SubFnNames,  \* cli: names of unit functions that may exist in the modules below the root
  RunMods      \* cli: module paths of the entry names passed to `run` (strings, see ModCode)

Code(s) == CASE s = "a"    -> <<97>>
             [] s = "b"    -> <<98>>
             [] s = "A"    -> <<65>>
             [] s = "a_"   -> <<97, 95>>
             [] s = "m"    -> <<109>>
             [] s = "t"    -> <<116>>
             [] s = "u"    -> <<117>>
             [] s = "test" -> <<116, 101, 115, 116>>
             [] s = "tesu" -> <<116, 101, 115, 117>>
             [] s = "main" -> MAIN

Code120 == <<120>>   \* "x": never the name of a module of a package
ModCode(s) == CASE s = ""    -> Root
                [] s = "m"   -> <<Code("m")>>
                [] s = "u"   -> <<Code("u")>>
                [] s = "x"   -> <<Code120>>
                [] s = "m.u" -> <<Code("m"), Code("u")>>
                [] s = "m.x" -> <<Code("m"), Code120>>
                [] s = "u.m" -> <<Code("u"), Code("m")>>

ModSeqs == (IF "single" \in ModShapes THEN {<<Root>>} ELSE {})
           \cup (IF "sub" \in ModShapes THEN {<<Root, <<Code(s)>>>> : s \in SubNames} ELSE {})
           \cup (IF "nested" \in ModShapes
                   THEN {<<Root, <<Code(s)>>, <<Code(s), Code("u")>>>> : s \in SubNames} ELSE {})
MaxT(ms) == IF Len(ms) = 1 THEN MaxTests1 ELSE MaxTests2

BaseTest(ms) == [mod : ToSet(ms), name : {Code(n) : n \in TNames}, out : {"accept", "reject"},
                 body : BodyForms]
Distinct(ts) == \A i, j \in 1..Len(ts) : i < j => (ts[i].mod # ts[j].mod \/ ts[i].name # ts[j].name)
BaseSeqs(ms) == {ts \in UNION {[1..n -> BaseTest(ms)] : n \in 0..MaxT(ms)} : NoDups => Distinct(ts)}

(* at most one test body contains a call *)
Probes(n) == {[at |-> 0, callee |-> NoCall]} \cup [at : 1..n, callee : {Code(c) : c \in CallNames}]
WithCall(ts, pr) ==
  [i \in 1..Len(ts) |->
     [mod |-> ts[i].mod, name |-> ts[i].name, out |-> ts[i].out, body |-> ts[i].body,
      call |-> IF i = pr.at THEN pr.callee ELSE NoCall]]

Fn(m, n, s) == [mod |-> m, name |-> n, sig |-> s]

(* api family: any subset of unit functions named like tests, in any module *)
ApiFuncSets(ms) == SUBSET {Fn(m, Code(n), "unit") : m \in ToSet(ms), n \in FnNames}

(* cli family: a variant of main in the root, optionally other unit functions, *)
(* optionally a decoy main in the second module                              *)
CliFuncSets(ms) ==
  {  (IF sg = "none" THEN {} ELSE {Fn(Root, MAIN, sg)})
     \cup F
     \cup (IF dm /\ Len(ms) > 1 THEN {Fn(ms[2], MAIN, "unit")} ELSE {})
     \cup G
   : sg \in MainSigs, F \in SUBSET {Fn(Root, Code(n), "unit") : n \in FnNames},
     dm \in (IF Len(ms) > 1 THEN SubMain ELSE {FALSE}),
     G \in SUBSET {Fn(ms[k], Code(n), "unit") : k \in 2..Len(ms), n \in SubFnNames} }

FuncSets(ms) == IF Family = "api" THEN ApiFuncSets(ms) ELSE CliFuncSets(ms)

Cmds == IF Family = "api"
          THEN {[kind |-> "api", explicit |-> FALSE, mod |-> Root, fn |-> MAIN]}
          ELSE {[kind |-> k, explicit |-> FALSE, mod |-> Root, fn |-> MAIN] : k \in {"check", "test", "run"}}
               \cup {[kind |-> "run", explicit |-> TRUE, mod |-> ModCode(m), fn |-> Code(n)]
                      : m \in RunMods, n \in RunNames}

MCInit ==
  \E ms \in ModSeqs :
  \E ts \in BaseSeqs(ms) :
  \E pr \in Probes(Len(ts)) :
  \E F \in FuncSets(ms) :
  \E br \in Brokens :
  \E fp \in FnPositions :
  \E c \in Cmds :
     Init([mods |-> ms, tests |-> WithCall(ts, pr), funcs |-> SetToSeq(F), broken |-> br,
           fnpos |-> fp], c)

MCSpec == MCInit /\ [][Next]_vars

(* independent statement of the expected order (not via the transitions) *)
OrderInv ==
  (phase = "done" /\ cmd.kind \in {"api", "test"}) => TestMarksOf(log) = Sorted(TIdx)

Case == [pkg |-> pkg, cmd |-> cmd,
         compiles |-> (phase = "done"),
         ntests |-> Len(Tests),
         log |-> log, verdict |-> verdict, exit |-> exit, entry_runs |-> entryRuns]

Emit == Ended => PrintT(<<"REPLAY", ToJson(Case)>>)

MCInv == WellFormed(pkg) /\ Inv /\ OrderInv
=============================================================================
