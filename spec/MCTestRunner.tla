--------------------------- MODULE MCTestRunner ---------------------------
(* Case generation for C19: TLC enumerates every package / invocation of  *)
(* the bounded families below as initial states of TestRunner, runs the    *)
(* (deterministic) transition system to its end and prints one REPLAY case *)
(* per package with everything the specification says must be observed:    *)
(* does it compile, the log of marks (order + multiplicity), the verdict of *)
(* run_tests, the exit status class of the CLI, the number of entry runs.  *)
EXTENDS TestRunner, SequencesExt, Json, IOUtils, TLC

CONSTANTS
  Family,      \* "api": Package::run_tests from a host; "cli": the roto binary;
               \* "disk" / "diskcli": the same two, over package DIRECTORIES (see "disk families")
  MaxTests1,   \* max number of test blocks in single-module packages
  MaxTests2,   \* max number of test blocks in two-module packages
  TNames,      \* names of test blocks (strings, see Code)
  SubNames,    \* names of the second module ({} = single-module packages only)
  FnNames,     \* names of functions that may exist next to the tests (collisions)
  CallNames,   \* names that a test body may call
  Brokens,     \* unrelated errors: subset of {"none","syntax","type"}
  MainSigs,    \* cli: variants of `main` in the root module: subset of {"none","unit","param","ret"}
  RunNames,    \* cli: function names passed explicitly to `run`
  SubMain,     \* cli: set of BOOLEAN: a decoy `fn main()` in the second module
  BodyForms,   \* statement forms of test bodies: subset of Bodies
  FnPositions, \* where functions / helper declarations stand: subset of {"first","last","mixed"}
  NoDups,      \* BOOLEAN: leave out packages with duplicate test names (body families)
  ModShapes,   \* shapes of the module tree: subset of {"single","sub","nested"}
  SubFnNames,  \* cli: names of unit functions that may exist in the modules below the root
  RunMods,     \* cli: module paths of the entry names passed to `run` (strings, see ModCode)
  DiskOpt,     \* disk: indices of DiskUniverse (2..) that a package directory may contain
  DiskMaxOpt,  \* disk: at most that many of them at once
  DiskOrders,  \* disk: orders in which the entries are created: subset of {"fwd","rev"}
  DiskRoots,   \* disk: set of BOOLEAN: TRUE: pkg.roto exists, FALSE: it does not
  BadKinds,    \* disk: what may be wrong with one file: subset of {"reject","type","syntax","notest"}
  DiskMaxBad,  \* disk: at most that many files (1 or 2) have something wrong
  DiskTNames   \* disk: the name all test blocks of a package directory share

Code(s) == CASE s = "a"    -> <<97>>
             [] s = "b"    -> <<98>>
             [] s = "A"    -> <<65>>
             [] s = "a_"   -> <<97, 95>>
             [] s = "m"    -> <<109>>
             [] s = "t"    -> <<116>>
             [] s = "u"    -> <<117>>
             [] s = "test" -> <<116, 101, 115, 116>>
             [] s = "tesu" -> <<116, 101, 115, 117>>
             [] s = "main" -> MAIN
             [] s = "c"    -> <<99>>
             [] s = "d"    -> <<100>>
             [] s = "e"    -> <<101>>
             [] s = "n"    -> <<110>>
             [] s = "r"    -> <<114>>
             [] s = "s"    -> <<115>>
             [] s = "g"    -> <<103>>

Code120 == <<120>>   \* "x": never the name of a module of a package
ModCode(s) == CASE s = ""    -> Root
                [] s = "m"   -> <<Code("m")>>
                [] s = "u"   -> <<Code("u")>>
                [] s = "x"   -> <<Code120>>
                [] s = "m.u" -> <<Code("m"), Code("u")>>
                [] s = "m.x" -> <<Code("m"), Code120>>
                [] s = "u.m" -> <<Code("u"), Code("m")>>

ModSeqs == (IF "single" \in ModShapes THEN {<<Root>>} ELSE {})
           \cup (IF "sub" \in ModShapes THEN {<<Root, <<Code(s)>>>> : s \in SubNames} ELSE {})
           \cup (IF "nested" \in ModShapes
                   THEN {<<Root, <<Code(s)>>, <<Code(s), Code("u")>>>> : s \in SubNames} ELSE {})
MaxT(ms) == IF Len(ms) = 1 THEN MaxTests1 ELSE MaxTests2

BaseTest(ms) == [mod : ToSet(ms), name : {Code(n) : n \in TNames}, out : {"accept", "reject"},
                 body : BodyForms]
Distinct(ts) == \A i, j \in 1..Len(ts) : i < j => (ts[i].mod # ts[j].mod \/ ts[i].name # ts[j].name)
BaseSeqs(ms) == {ts \in UNION {[1..n -> BaseTest(ms)] : n \in 0..MaxT(ms)} : NoDups => Distinct(ts)}

(* at most one test body contains a call *)
Probes(n) == {[at |-> 0, callee |-> NoCall]} \cup [at : 1..n, callee : {Code(c) : c \in CallNames}]
WithCall(ts, pr) ==
  [i \in 1..Len(ts) |->
     [mod |-> ts[i].mod, name |-> ts[i].name, out |-> ts[i].out, body |-> ts[i].body,
      call |-> IF i = pr.at THEN pr.callee ELSE NoCall]]

Fn(m, n, s) == [mod |-> m, name |-> n, sig |-> s]

(* api family: any subset of unit functions named like tests, in any module *)
ApiFuncSets(ms) == SUBSET {Fn(m, Code(n), "unit") : m \in ToSet(ms), n \in FnNames}

(* cli family: a variant of main in the root, optionally other unit functions, *)
(* optionally a decoy main in the second module                              *)
CliFuncSets(ms) ==
  {  (IF sg = "none" THEN {} ELSE {Fn(Root, MAIN, sg)})
     \cup F
     \cup (IF dm /\ Len(ms) > 1 THEN {Fn(ms[2], MAIN, "unit")} ELSE {})
     \cup G
   : sg \in MainSigs, F \in SUBSET {Fn(Root, Code(n), "unit") : n \in FnNames},
     dm \in (IF Len(ms) > 1 THEN SubMain ELSE {FALSE}),
     G \in SUBSET {Fn(ms[k], Code(n), "unit") : k \in 2..Len(ms), n \in SubFnNames} }

FuncSets(ms) == IF Family = "api" THEN ApiFuncSets(ms) ELSE CliFuncSets(ms)

Cmds == IF Family = "api"
          THEN {[kind |-> "api", explicit |-> FALSE, mod |-> Root, fn |-> MAIN]}
          ELSE {[kind |-> k, explicit |-> FALSE, mod |-> Root, fn |-> MAIN] : k \in {"check", "test", "run"}}
               \cup {[kind |-> "run", explicit |-> TRUE, mod |-> ModCode(m), fn |-> Code(n)]
                      : m \in RunMods, n \in RunNames}

-----------------------------------------------------------------------------
(* disk families: package DIRECTORIES.                                       *)
(*                                                                           *)
(* TLC enumerates                                                            *)
(*   shape     : every subset (of at most DiskMaxOpt elements) of the        *)
(*               optional entries DiskOpt of DiskUniverse, with or without   *)
(*               pkg.roto: module files, module directories (nested), files  *)
(*               inside module directories, several sub-directories next to  *)
(*               files, directories without mod.roto (with Roto files and    *)
(*               module directories inside), empty directories, files that   *)
(*               are not Roto files.  Leaving out a mod.roto turns everything *)
(*               below that directory into files outside the package;        *)
(*   order     : the entries are created in the order of DiskUniverse or in  *)
(*               the reverse order (every pair of entries in both orders);   *)
(*   placement x outcome : every file (inside or outside the package) holds  *)
(*               one accepting test block, except for at most DiskMaxBad     *)
(*               files, anywhere in the tree, whose block rejects / is       *)
(*               missing / which hold a type or syntax error;                *)
(*   diskcli   : every file also holds a `fn main()`; check / test / run on  *)
(*               the directory, and run with `<module path>.main` for the    *)
(*               module path of every file.                                  *)
(* What must be observed is computed by TestRunner from the documented rules *)
(* (LiveMods): the marks of the blocks of exactly the module files, in the   *)
(* order of their full names, the verdict, the exit status.                  *)
DE(d, s, x) == [dir |-> d, stem |-> s, ext |-> x, mod |-> FileMod([dir |-> d, stem |-> s])]

DiskUniverse ==
  << DE(<<>>, PKG, "roto"),                                  \*  1  pkg.roto
     DE(<<>>, Code("b"), "roto"),                            \*  2  b.roto
     DE(<<Code("a")>>, MODSTEM, "roto"),                     \*  3  a/mod.roto
     DE(<<Code("a")>>, Code("s"), "roto"),                   \*  4  a/s.roto
     DE(<<Code("a"), Code("d")>>, MODSTEM, "roto"),          \*  5  a/d/mod.roto
     DE(<<Code("c")>>, MODSTEM, "roto"),                     \*  6  c/mod.roto
     DE(<<Code("n")>>, Code("r"), "txt"),                    \*  7  n/r.txt
     DE(<<>>, Code("e"), "dir"),                             \*  8  e/            (empty)
     DE(<<>>, Code("r"), "txt"),                             \*  9  r.txt
     DE(<<Code("n")>>, Code("g"), "roto"),                   \* 10  n/g.roto
     DE(<<Code("a"), Code("d")>>, Code("t"), "roto"),        \* 11  a/d/t.roto
     DE(<<Code("c")>>, Code("u"), "roto"),                   \* 12  c/u.roto
     DE(<<Code("a")>>, Code("e"), "dir"),                    \* 13  a/e/          (empty)
     DE(<<Code("n"), Code("m")>>, MODSTEM, "roto") >>        \* 14  n/m/mod.roto

IsDiskFamily == Family \in {"disk", "diskcli"}

DiskShapes == {S \in SUBSET DiskOpt : Cardinality(S) <= DiskMaxOpt}
DiskSeq(root, S, ord) ==
  LET fwd == SelectSeq([k \in 1..Len(DiskUniverse) |-> k], LAMBDA k : (k = 1 /\ root) \/ k \in S)
      ks  == IF ord = "fwd" THEN fwd ELSE Reverse(fwd)
  IN  [i \in 1..Len(ks) |-> DiskUniverse[ks[i]]]

DiskFiles(dk) == {k \in 1..Len(dk) : dk[k].ext # "dir"}

(* what is wrong, where: a set of [at: index of a file, kind] with distinct files, *)
(* at most one of them an unrelated error (a package has one `broken` field)        *)
BadSets(dk) ==
  LET B  == [at : DiskFiles(dk), kind : BadKinds]
      C  == {{}} \cup {{x} : x \in B} \cup (IF DiskMaxBad >= 2 THEN {{x, y} : x, y \in B} ELSE {})
  IN  {bs \in C : /\ \A x, y \in bs : x.at = y.at => x = y
                   /\ Cardinality({z \in bs : z.kind \in {"type", "syntax"}}) <= 1}

KindAt(bs, k) == IF \E x \in bs : x.at = k THEN (CHOOSE x \in bs : x.at = k).kind ELSE "none"

DiskTests(dk, bs, tn) ==
  LET ks == SelectSeq([k \in 1..Len(dk) |-> k], LAMBDA k : dk[k].ext # "dir" /\ KindAt(bs, k) # "notest")
  IN  [i \in 1..Len(ks) |->
         [mod |-> dk[ks[i]].mod, name |-> tn, call |-> NoCall, body |-> "plain",
          out |-> IF KindAt(bs, ks[i]) = "reject" THEN "reject" ELSE "accept"]]

DiskFuncs(dk) ==
  IF Family = "diskcli"
    THEN LET ks == SelectSeq([k \in 1..Len(dk) |-> k], LAMBDA k : dk[k].ext # "dir")
         IN  [j \in 1..Len(ks) |-> Fn(dk[ks[j]].mod, MAIN, "unit")]
    ELSE <<>>

DiskBroken(dk, bs) ==
  LET X == {x \in bs : x.kind \in {"type", "syntax"}}
  IN  IF X = {} THEN [kind |-> "none", at |-> Root]
      ELSE LET b == CHOOSE z \in X : TRUE IN [kind |-> b.kind, at |-> dk[b.at].mod]

DiskCmds(dk, bs) ==
  IF Family = "disk"
    THEN {[kind |-> "api", explicit |-> FALSE, mod |-> Root, fn |-> MAIN]}
    ELSE {[kind |-> k, explicit |-> FALSE, mod |-> Root, fn |-> MAIN] : k \in {"check", "test", "run"}}
         \cup (IF bs = {} THEN {[kind |-> "run", explicit |-> TRUE, mod |-> dk[k].mod, fn |-> MAIN]
                                  : k \in DiskFiles(dk)}
                           ELSE {})

DiskInit ==
  \E root \in DiskRoots :
  \E S \in DiskShapes :
  \E ord \in DiskOrders :
  \E tn \in {Code(n) : n \in DiskTNames} :
     LET dk == DiskSeq(root, S, ord) IN
     /\ dk # <<>>
     /\ (~root => Cardinality(S) <= 1)            \* without pkg.roto nothing is a module: small shapes
     /\ \E bs \in BadSets(dk) :
        \E c \in DiskCmds(dk, bs) :
           /\ (~root => bs = {})
           /\ LET br == DiskBroken(dk, bs) IN
              Init([mods |-> <<Root>>, tests |-> DiskTests(dk, bs, tn), funcs |-> DiskFuncs(dk),
                    broken |-> br.kind, fnpos |-> "mixed", disk |-> dk, brokenAt |-> br.at], c)

MemInit ==
  \E ms \in ModSeqs :
  \E ts \in BaseSeqs(ms) :
  \E pr \in Probes(Len(ts)) :
  \E F \in FuncSets(ms) :
  \E br \in Brokens :
  \E fp \in FnPositions :
  \E c \in Cmds :
     Init([mods |-> ms, tests |-> WithCall(ts, pr), funcs |-> SetToSeq(F), broken |-> br,
           fnpos |-> fp, disk |-> <<>>, brokenAt |-> Root], c)

MCInit == IF IsDiskFamily THEN DiskInit ELSE MemInit

MCSpec == MCInit /\ [][Next]_vars

(* independent statement of the expected order (not via the transitions) *)
OrderInv ==
  (phase = "done" /\ cmd.kind \in {"api", "test"}) => TestMarksOf(log) = Sorted(TIdx)

(* disk packages: which entries are source files of the package (for the     *)
(* classification of the cases only; the expectations are the fields below)   *)
DiskLive == [k \in DIdx(pkg) |-> pkg.disk[k].ext # "dir" /\ pkg.disk[k].mod \in LiveMods]

Case == [pkg |-> pkg, cmd |-> cmd,
         compiles |-> (phase = "done"),
         ntests |-> Cardinality(TIdx),
         live |-> DiskLive,
         log |-> log, verdict |-> verdict, exit |-> exit, entry_runs |-> entryRuns]

Emit == Ended => PrintT(<<"REPLAY", ToJson(Case)>>)

MCInv == WellFormed(pkg) /\ Inv /\ OrderInv
=============================================================================
