---------------------------- MODULE TraceTotality ----------------------------
(* I->S binding of Totality (C06): the events recorded while the real crate *)
(* compiled every generated input and rendered every report must be         *)
(* behaviours of the Totality outcome machine.                              *)
(*   every compile event carries must ("any" | "report") and at (<<>> or    *)
(*   <<start, end>>), the expectation MCTotality printed for the input      *)
(*   {op:"compile", id, outcome:"ok"}                                       *)
(*   {op:"compile", id, outcome:"report", spans:[{file,len,start,end,ok}]}  *)
(*   {op:"compile", id, outcome:"panic"|"crash"|"hang", ..}                 *)
(*   {op:"render",  id, colour, res:"done"|"panic"|.., labels, shown}       *)
(* An event no Totality action can produce is printed (<<"UNMATCHED", ..>>);*)
(* validation then continues with the next event (a report with a malformed *)
(* span is still rendered by the recorder, so its render events are judged  *)
(* too), so that one TLC run judges every recorded input.                   *)
EXTENDS Totality, Json, IOUtils, TLC, TLCExt

Recd == ndJsonDeserialize(IOEnv.TRACE)

VARIABLE l
tvars == <<phase, cited, shown, l>>

Ev == Recd[l]
IsEv(name) == l <= Len(Recd) /\ Ev.op = name /\ l' = l + 1

Reject(why) == PrintT(<<"UNMATCHED", ToJson([line |-> l, why |-> why, ev |-> Ev])>>)

BadSpans == {i \in 1..Len(Ev.spans) : ~WellFormed(Ev.spans[i])}

TraceInit == Init /\ l = 1

Forget == phase' = "idle" /\ cited' = <<>> /\ shown' = {}

TraceNext ==
  \/ /\ IsEv("compile")
     \* a previous report that was not rendered twice is reported, then this event is judged as usual
     /\ (phase # "idle" => Reject("compile while a report is pending"))
     /\ CASE Ev.outcome = "ok" ->
               IF Ev.must = "report"
               THEN Reject("an input that is erroneous by construction was accepted") /\ Forget
               ELSE IF phase = "idle" THEN CompileOk(Ev.must) ELSE Forget
          [] Ev.outcome = "report" ->
               IF BadSpans = {} /\ phase = "idle" /\ CitesExactly(Ev.spans, Ev.at) THEN CompileReport(Ev.spans, Ev.at)
               ELSE /\ (BadSpans # {} => Reject("cited location not inside its file on character boundaries"))
                    /\ (BadSpans = {} /\ ~CitesExactly(Ev.spans, Ev.at) =>
                          Reject("the report does not cite exactly the erroneous text"))
                    \* the recorder renders such a report too: judge its render events
                    /\ phase' = "report" /\ shown' = {} /\ cited' = IF BadSpans = {} THEN Ev.spans ELSE <<>>
          [] OTHER -> Reject("compile did not end in a package or a report") /\ Forget
  \/ /\ IsEv("render")
     /\ IF phase = "report" /\ Ev.colour \notin shown /\ Ev.res = "done" /\ Ev.shown = Ev.labels
        THEN Render(Ev.colour, Ev.labels, Ev.shown)
        ELSE /\ Reject(IF Ev.res # "done" THEN "rendering did not end" ELSE
                       IF Ev.shown # Ev.labels THEN "a label of the report is not shown" ELSE "render without report")
             /\ shown' = shown \cup {Ev.colour}
             /\ phase' = IF shown' = {TRUE, FALSE} THEN "idle" ELSE phase
             /\ cited' = IF phase' = "idle" THEN <<>> ELSE cited

TraceSpec == TraceInit /\ [][TraceNext]_tvars

TraceAccepted ==
  LET d == TLCGet("stats").diameter IN
  IF d - 1 = Len(Recd) THEN TRUE
  ELSE /\ PrintT(<<"UNMATCHED", ToJson([line |-> d, why |-> "trace reader stuck", ev |-> Recd[d]])>>)
       /\ FALSE
=============================================================================
