//! Common utilities of the roto verification harness.
pub mod batch;
pub mod tracked;
pub mod util;
