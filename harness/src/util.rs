use std::io::{BufRead, Write};

/// Read ndjson lines from a file.
pub fn read_ndjson(path: &str) -> Vec<serde_json::Value> {
    let f = std::fs::File::open(path).unwrap_or_else(|e| panic!("open {path}: {e}"));
    std::io::BufReader::new(f)
        .lines()
        .map(|l| l.unwrap())
        .filter(|l| !l.trim().is_empty())
        .map(|l| serde_json::from_str(&l).unwrap_or_else(|e| panic!("bad json {l}: {e}")))
        .collect()
}

pub struct NdjsonOut(std::io::BufWriter<std::fs::File>);

impl NdjsonOut {
    pub fn create(path: &str) -> Self {
        Self(std::io::BufWriter::new(
            std::fs::File::create(path).unwrap_or_else(|e| panic!("create {path}: {e}")),
        ))
    }
    pub fn put(&mut self, v: &serde_json::Value) {
        serde_json::to_writer(&mut self.0, v).unwrap();
        self.0.write_all(b"\n").unwrap();
    }
    pub fn flush(&mut self) {
        self.0.flush().unwrap();
    }
}

/// Silence the default panic hook (panics in code under test are data).
pub fn quiet_panics() {
    std::panic::set_hook(Box::new(|_| {}));
}

pub fn panic_message(e: &Box<dyn std::any::Any + Send>) -> String {
    if let Some(s) = e.downcast_ref::<&str>() {
        s.to_string()
    } else if let Some(s) = e.downcast_ref::<String>() {
        s.clone()
    } else {
        "<non-string panic>".into()
    }
}
