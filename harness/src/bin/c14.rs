//! C14 driver: compile one generated multi-module script per case in a fresh
//! Runtime and record what the real crate does:
//!
//!  - every call of the host function `mark(k, s)` made by a constant
//!    initialiser (k = constant id, s = the sum of the referenced values the
//!    initialiser computed), in the order observed, split into the calls seen
//!    during `FileTree::compile` and the calls seen afterwards,
//!  - the compile outcome (ok / err + error kinds from roto::verif::report_kinds),
//!  - for an accepted script: the value every constant getter and every
//!    function of the graph returns (getters are read twice, before and after
//!    the function calls), then the results of the case's Call-phase programme
//!    `prog` in order: typed getters (`getv`) and functions that copy a constant,
//!    modify the copy and read the constant again (`mut`) return a rendering of
//!    the values as a String ("copy|constant", leaves separated by commas) which
//!    is passed on unparsed; `get` / `call` return an i32 as above.
//!
//! `mark(k, s)` returns `(k + 3 * s) % modulus`: it is the environment of
//! the script (the TLA+ spec ConstOrder models exactly this function as `MarkVal`);
//! the harness computes no expected value, the comparison is done by TLC
//! (TraceConstOrder.tla) and, for TLC-generated cases, against the values TLC printed.
use std::sync::{Arc, Mutex};

use roto::{Context, FileTree, RotoString, Runtime, SourceFile, library};
use rvh::batch::{Progress, parse_args, run_batch};
use serde_json::{Value, json};

#[derive(Clone, Context)]
struct Ctx {
    pub ctxv: i32,
    pub ctxw: i32,
    /// the same value as a decimal string
    pub ctxs: RotoString,
}

type Log = Arc<Mutex<Vec<(i32, i32)>>>;

fn tree_of(case: &Value) -> FileTree {
    let files = case["files"]
        .as_array()
        .unwrap()
        .iter()
        .map(|f| SourceFile {
            name: f["name"].as_str().unwrap().to_string(),
            module_name: f["module"].as_str().unwrap().to_string(),
            contents: f["src"].as_str().unwrap().to_string(),
            location_offset: 0,
            children: f["children"].as_array().unwrap().iter().map(|c| c.as_u64().unwrap() as usize).collect(),
        })
        .collect();
    FileTree { files }
}

fn base_runtime(log: &Log, modulus: i32) -> Runtime<roto::NoCtx> {
    let l = log.clone();
    let lu = log.clone();
    Runtime::from_lib(library! {
        let mark = move |k: i32, s: i32| -> i32 {
            l.lock().unwrap().push((k, s));
            (k + 3 * s) % modulus
        };
        /// the same for a constant whose type has no value to carry (`()`, a record of units): the
        /// initialiser still runs exactly once, `marku` logs it and returns nothing
        let marku = move |k: i32, s: i32| {
            lu.lock().unwrap().push((k, s));
        };
        /// identity: lets a script mention an item as the argument of a host call
        let keep = |x: i32| -> i32 { x };
        /// parse a decimal string: lets a script mention a constant through a method (`C.to_string()`)
        /// or an f-string and still use its numeric value
        let num = |s: RotoString| -> i32 { s.parse::<i32>().expect("num: decimal string") };
    })
    .expect("runtime with mark")
}

fn strip_ansi(s: &str) -> String {
    let mut out = String::new();
    let mut it = s.chars();
    while let Some(c) = it.next() {
        if c == '\u{1b}' {
            for d in it.by_ref() {
                if d.is_ascii_alphabetic() {
                    break;
                }
            }
        } else {
            out.push(c);
        }
    }
    out
}

fn marks_json(v: &[(i32, i32)]) -> Value {
    Value::from(v.iter().map(|(k, s)| json!({"k": k, "s": s})).collect::<Vec<Value>>())
}

macro_rules! run_case {
    ($case:expr, $prog:expr, $rt:expr, $log:expr, |$f:ident, $a:ident| $call1:expr, |$g:ident| $call0:expr, |$h:ident| $calls:expr) => {{
        let case: &Value = $case;
        let prog: &Progress = $prog;
        let log: &Log = $log;
        prog.step(0);
        let compiled = tree_of(case).compile(&$rt);
        let during: Vec<(i32, i32)> = std::mem::take(&mut *log.lock().unwrap());
        match compiled {
            Err(report) => {
                let kinds = roto::verif::report_kinds(&report);
                let text = strip_ansi(&report.to_string());
                json!({
                    "marks": marks_json(&during),
                    "compile": "err",
                    "kinds": kinds,
                    "error": text.lines().next().unwrap_or("").chars().take(300).collect::<String>(),
                })
            }
            Ok(mut pkg) => {
                prog.step(1);
                let mut obs: Vec<Value> = vec![];
                let mut missing: Vec<String> = vec![];
                // (what, item, round): getters, then functions, then getters again
                let mut plan: Vec<(&str, &Value, i64)> = vec![];
                for g in case["gets"].as_array().unwrap() {
                    plan.push(("get", g, 1));
                }
                for c in case["calls"].as_array().unwrap() {
                    plan.push(("call", c, 1));
                }
                for g in case["gets"].as_array().unwrap() {
                    plan.push(("get", g, 2));
                }
                for (n, (what, item, round)) in plan.into_iter().enumerate() {
                    prog.step(2 + n as i64);
                    let name = item["name"].as_str().unwrap();
                    if what == "get" {
                        match pkg.get_function::<fn() -> i32>(name) {
                            Ok($g) => {
                                let v: i32 = $call0;
                                obs.push(json!({"what": "get", "id": item["id"], "v": v, "round": round}));
                            }
                            Err(e) => missing.push(format!("{name}: {e}")),
                        }
                    } else {
                        let $a = item["arg"].as_i64().unwrap() as i32;
                        match pkg.get_function::<fn(i32) -> i32>(name) {
                            Ok($f) => {
                                let v: i32 = $call1;
                                obs.push(json!({"what": "call", "id": item["id"], "v": v, "round": round}));
                            }
                            Err(e) => missing.push(format!("{name}: {e}")),
                        }
                    }
                }
                // the Call-phase programme of the case (ConstOrder actions GetV / Mut / Get / Call), in order.
                // Functions that return a rendering of a typed value return a String which is passed on as it is.
                let nplan = 2 * case["gets"].as_array().unwrap().len() + case["calls"].as_array().unwrap().len();
                if let Some(ops) = case["prog"].as_array() {
                    for (n, op) in ops.iter().enumerate() {
                        prog.step(2 + (nplan + n) as i64);
                        let name = op["name"].as_str().unwrap();
                        let what = op["what"].as_str().unwrap();
                        match op["ret"].as_str().unwrap() {
                            "str" => match pkg.get_function::<fn() -> RotoString>(name) {
                                Ok($h) => {
                                    let v: RotoString = $calls;
                                    obs.push(json!({"what": what, "id": op["id"], "p": n, "str": &*v}));
                                }
                                Err(e) => missing.push(format!("{name}: {e}")),
                            },
                            "i32" => match pkg.get_function::<fn() -> i32>(name) {
                                Ok($g) => {
                                    let v: i32 = $call0;
                                    obs.push(json!({"what": what, "id": op["id"], "p": n, "v": v}));
                                }
                                Err(e) => missing.push(format!("{name}: {e}")),
                            },
                            _ => {
                                let $a = op["arg"].as_i64().unwrap() as i32;
                                match pkg.get_function::<fn(i32) -> i32>(name) {
                                    Ok($f) => {
                                        let v: i32 = $call1;
                                        obs.push(json!({"what": what, "id": op["id"], "p": n, "v": v}));
                                    }
                                    Err(e) => missing.push(format!("{name}: {e}")),
                                }
                            }
                        }
                    }
                }
                let after: Vec<(i32, i32)> = std::mem::take(&mut *log.lock().unwrap());
                json!({
                    "marks": marks_json(&during),
                    "compile": "ok",
                    "kinds": [],
                    "obs": obs,
                    "marks_after": marks_json(&after),
                    "missing": missing,
                })
            }
        }
    }};
}

fn main() {
    let args = parse_args();
    run_batch(&args, |case: &Value, prog: &Progress| -> Value {
        let log: Log = Arc::new(Mutex::new(Vec::new()));
        let modulus = case["modulus"].as_i64().unwrap() as i32;
        let rt = base_runtime(&log, modulus);
        if case["ctx"].as_bool().unwrap() {
            let rt = rt.with_context_type::<Ctx>().expect("context type");
            let mut ctx = Ctx {
                ctxv: case["ctxv"].as_i64().unwrap() as i32,
                ctxw: case["ctxv"].as_i64().unwrap() as i32,
                ctxs: RotoString::from(case["ctxv"].as_i64().unwrap().to_string()),
            };
            run_case!(case, prog, rt, &log, |f, a| f.call(&mut ctx, a), |g| g.call(&mut ctx), |h| h.call(&mut ctx))
        } else {
            run_case!(case, prog, rt, &log, |f, a| f.call(a), |g| g.call(), |h| h.call())
        }
    });
}
