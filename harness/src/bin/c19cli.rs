//! The `roto` command-line front end, built from /repo's current tree into the
//! harness target directory: exactly what /repo/src/main.rs does (default runtime
//! + io functions, then `Runtime::cli`), so that lib/checks/c19.py can observe
//! exit status and stdout of the real CLI code (src/cli.rs).
use std::process::ExitCode;

use roto::Runtime;

fn main() -> ExitCode {
    let mut rt = Runtime::new();
    rt.add_io_functions();
    rt.cli()
}
