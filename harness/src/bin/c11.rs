//! C11 replay / recording driver: histories of the Lifetime specification
//! (spec/Lifetime.tla) performed on real roto objects.
//!
//! One case = `{"ops":[..]}`; every op is one Lifetime action:
//!   build{g}            Runtime::from_lib(..) with a tracked constant RC (tag 50+g) and three
//!                       closures next1..next3 made by ONE factory function (same Rust
//!                       type), each capturing its own tracked counter (start 2000 * f)
//!   compile{v,m}        FileTree::test_file(script version v).compile(&rt) -> Package m
//!   get{m,h}            pkg[m].get_function::<fn() -> u64>("main") -> handle h
//!   clone{a,b}          handle b = handle a .clone()
//!   call{h}             handle h .call()
//!   drop_handle{h}, drop_pkg{m}, drop_rt
//!   add_const           Runtime::add of one more tracked constant LC (tag 100 * g) on the live
//!                       runtime; scripts compiled afterwards read it (tag(RC) + tag(LC))
//!   move{h}             handle h is moved to a new thread, called and dropped there
//!   into_func{h,c}      closure c = handle h .into_func()  (the handle is consumed)
//!   call_closure{c}, drop_closure{c}
//! Extra argument `noctx` (default) / `ctx`: with `ctx` the runtime has a context type and
//! every call passes a context (TypedFunc<Ctx<HostCtx>, _>::call / into_func).
//! After every step the number of live tracked instances per resource class
//! (script constants of version 1 / version 2, registered constant, capture of
//! closure 1 / 2 / 3) and the call result (if any) are written; the comparison with the
//! specification's expectations happens in lib/checks/c11.py.
use std::collections::HashMap;
use std::sync::atomic::{AtomicI64, AtomicU64, Ordering};

use roto::{Constant, Context, Ctx, FileTree, Function, NoCtx, Package, Runtime, TypedFunc, Val, library, location};
use rvh::batch::{Progress, parse_args, run_batch};
use serde_json::{Value, json};

/// live instances per resource class:
/// 0 = script constants of version 1, 1 = script constants of version 2,
/// 2 = registered constant, 3 / 4 / 5 = state captured by the registered closure 1 / 2 / 3,
/// 6 = the late registered constant
static LIVE: [AtomicI64; 7] = [
    AtomicI64::new(0),
    AtomicI64::new(0),
    AtomicI64::new(0),
    AtomicI64::new(0),
    AtomicI64::new(0),
    AtomicI64::new(0),
    AtomicI64::new(0),
];
/// set when a tracked value is used or dropped after it was dropped / never built
static CORRUPT: AtomicI64 = AtomicI64::new(0);

const MAGIC: u64 = 0xA5A5_5A5A_DEAD_BEEF;

/// Drop-tracked host value; `class` selects the counter.
#[derive(Debug)]
struct Tk {
    class: u64,
    tag: u64,
    check: u64,
}

impl Tk {
    fn new(class: u64, tag: u64) -> Self {
        LIVE[class as usize].fetch_add(1, Ordering::SeqCst);
        Tk { class, tag, check: tag ^ MAGIC }
    }
    fn valid(&self) -> bool {
        (self.class < 3 || self.class == 6) && self.check == self.tag ^ MAGIC
    }
}

impl Clone for Tk {
    fn clone(&self) -> Self {
        if !self.valid() {
            CORRUPT.fetch_add(1, Ordering::SeqCst);
            return Tk { class: 0, tag: 0, check: 1 };
        }
        LIVE[self.class as usize].fetch_add(1, Ordering::SeqCst);
        Tk { class: self.class, tag: self.tag, check: self.check }
    }
}

impl PartialEq for Tk {
    fn eq(&self, other: &Self) -> bool {
        self.tag == other.tag
    }
}

impl Drop for Tk {
    fn drop(&mut self) {
        if !self.valid() {
            CORRUPT.fetch_add(1, Ordering::SeqCst);
            return;
        }
        LIVE[self.class as usize].fetch_sub(1, Ordering::SeqCst);
        self.check = 0x0BAD_0BAD_0BAD_0BAD;
    }
}

/// The state captured by the registered closure number `f` (1..=3).
struct Counter {
    f: usize,
    n: AtomicU64,
    check: AtomicU64,
}

impl Counter {
    fn new(f: usize) -> Self {
        LIVE[2 + f].fetch_add(1, Ordering::SeqCst);
        Counter { f, n: AtomicU64::new(2000 * f as u64), check: AtomicU64::new(MAGIC) }
    }
    fn bump(&self) -> u64 {
        if self.check.load(Ordering::SeqCst) != MAGIC {
            CORRUPT.fetch_add(1, Ordering::SeqCst);
        }
        self.n.fetch_add(1, Ordering::SeqCst)
    }
}

impl Drop for Counter {
    fn drop(&mut self) {
        if self.check.load(Ordering::SeqCst) != MAGIC {
            CORRUPT.fetch_add(1, Ordering::SeqCst);
            return;
        }
        self.check.store(0x0BAD, Ordering::SeqCst);
        if (1..=3).contains(&self.f) {
            LIVE[2 + self.f].fetch_sub(1, Ordering::SeqCst);
        } else {
            CORRUPT.fetch_add(1, Ordering::SeqCst);
        }
    }
}

/// The one factory of all registered closures: every closure it returns has the same
/// Rust type (hence the same trampoline) but its own captured state.
fn make_next(c: Counter) -> impl Fn() -> u64 + Send + Sync + 'static {
    move || {
        // use the whole struct so that the closure owns `c`
        let c: &Counter = &c;
        c.bump()
    }
}

/// Script versions.  Version 1 has one script constant and calls the closures 1 and 2,
/// version 2 has two script constants and calls the closures 2 and 3; both read the
/// registered constant.  The result encodes (sum of script constant tags, registered
/// constant tag, first counter, second counter) as
/// k * 10^11 + rc * 10^8 + na * 10^4 + nb   (rc < 1000, na, nb < 10^4).
fn script(v: u64, ctx: bool, late: bool) -> String {
    let s = match v {
        1 => {
            r#"
const K: Tk = mk(0, 11);
fn main() -> u64 {
    tag(K) * 100000000000 + tag(RC) * 100000000 + next1() * 10000 + next2()
}
"#
        }
        2 => {
            r#"
const K: Tk = mk(1, 22);
const K2: Tk = mk(1, 20);
fn helper() -> u64 {
    tag(K) + tag(K2)
}
fn main() -> u64 {
    helper() * 100000000000 + tag(RC) * 100000000 + next2() * 10000 + next3()
}
"#
        }
        _ => panic!("unknown script version {v}"),
    };
    // with a context type the script also reads a context field (always 0)
    // version 2 has a LARGE constant section: 36 constants of a 128-byte record type (4608 bytes, more than a page
    // of constant storage) declared between the tracked ones; helper() reads a field of the first, of a middle and
    // of the last of them (their sum, 3 * 35 / 2 .. is subtracted again, so the specified result does not change)
    let s = if v == 2 {
        let fields: Vec<String> = (0..16).map(|j| format!("a{j}: u64")).collect();
        let mut big = format!("record Wide {{ {} }}\n", fields.join(", "));
        for i in 0..36u64 {
            let vals: Vec<String> = (0..16u64).map(|j| format!("a{j}: {}", i * 100 + j)).collect();
            big.push_str(&format!("const C{i}: Wide = Wide {{ {} }};\n", vals.join(", ")));
        }
        // C0.a0 = 0, C17.a9 = 1709, C35.a15 = 3515
        s.replace("const K2: Tk = mk(1, 20);", &format!("{big}const K2: Tk = mk(1, 20);"))
            .replace("tag(K) + tag(K2)", "tag(K) + tag(K2) + (C0.a0 + C17.a9 + C35.a15 - 5224)")
    } else {
        s.to_string()
    };
    let s = s.as_str();
    // after the late constant was added the script reads it too
    let s = if late { s.replace("tag(RC) * 100000000", "(tag(RC) + tag(LC)) * 100000000") } else { s.to_string() };
    if ctx { s.replace("fn main() -> u64 {", "fn main() -> u64 {\n    bias +") } else { s }
}

/// The context type of the `ctx` flavour.
#[derive(Clone, Context)]
struct HostCtx {
    pub bias: u64,
}

fn build_runtime(g: u64) -> Runtime<NoCtx> {
    let mut rt = Runtime::from_lib(library! {
        #[clone] type Tk = Val<Tk>;

        fn mk(class: u64, tag: u64) -> Val<Tk> {
            Val(Tk::new(class, tag))
        }

        fn tag(t: Val<Tk>) -> u64 {
            if t.0.valid() { t.0.tag } else { 77 }
        }

        const RC: Val<Tk> = Val(Tk::new(2, 50 + g));
    })
    .expect("registration of the C11 library must succeed");
    for f in 1..=3usize {
        rt.add(
            Function::new(format!("next{f}").as_str(), "the next value of a captured counter", vec![], make_next(Counter::new(f)), location!())
                .expect("closure must be registerable"),
        )
        .expect("closure must register");
    }
    rt
}

fn live() -> Value {
    json!([
        LIVE[0].load(Ordering::SeqCst),
        LIVE[1].load(Ordering::SeqCst),
        LIVE[2].load(Ordering::SeqCst),
        LIVE[3].load(Ordering::SeqCst),
        LIVE[4].load(Ordering::SeqCst),
        LIVE[5].load(Ordering::SeqCst),
        LIVE[6].load(Ordering::SeqCst)
    ])
}

/// bumped before every action; read by the emergency watchdog
static BEAT: AtomicU64 = AtomicU64::new(0);

/// A use-after-free in the code under test can corrupt the heap of this process, after
/// which neither its memory use nor the (allocating, locking) watchdog of rvh::batch can
/// be relied on.  Cap the address space (normal use: < 0.5 GiB) and run a second watchdog
/// that neither allocates nor locks; both end the process abnormally, which the python
/// side records as a crash of the current history.
fn safety_net() {
    unsafe {
        let lim = libc::rlimit { rlim_cur: 6 << 30, rlim_max: 6 << 30 };
        libc::setrlimit(libc::RLIMIT_AS, &lim);
    }
    std::thread::spawn(|| {
        let mut last = u64::MAX;
        let mut same = 0u32;
        loop {
            std::thread::sleep(std::time::Duration::from_secs(1));
            let now = BEAT.load(Ordering::SeqCst);
            if now == last && now != 0 {
                same += 1;
                if same > 300 {
                    unsafe { libc::_exit(4) };
                }
            } else {
                same = 0;
                last = now;
            }
        }
    });
}

/// The driver, once per flavour: `$call` calls a handle, `$wrap` turns a handle into the
/// boxed closure made by `into_func`.  The closure is deliberately not required to be
/// `Send`/`Sync`: only what `into_func` promises (`impl Fn`) is used.
macro_rules! flavour {
    ($fname:ident, $ctx:ty, $isctx:expr, $mkrt:expr, |$f:ident| $call:expr, |$g:ident| $wrap:expr) => {
        fn $fname(args: &rvh::batch::Args) {
            run_batch(args, |case: &Value, prog: &Progress| -> Value {
                let base = live();
                let corrupt0 = CORRUPT.load(Ordering::SeqCst);
                let mut rt: Option<Runtime<$ctx>> = None;
                let mut gen_now = 0u64;
                let mut late = false;
                let mut pkgs: HashMap<u64, Package<$ctx>> = HashMap::new();
                let mut hs: HashMap<u64, TypedFunc<$ctx, fn() -> u64>> = HashMap::new();
                let mut cls: HashMap<u64, Box<dyn Fn() -> u64>> = HashMap::new();
                let mut out = vec![];
                for (k, op) in case["ops"].as_array().unwrap().iter().enumerate() {
                    prog.step(k as i64);
                    BEAT.fetch_add(1, Ordering::SeqCst);
                    let name = op["op"].as_str().unwrap();
                    let n = |f: &str| op[f].as_u64().unwrap_or_else(|| panic!("op {op} lacks {f}"));
                    let res: Value = match name {
                        "build" => {
                            assert!(rt.is_none(), "harness: runtime already alive");
                            let mk: fn(u64) -> Runtime<$ctx> = $mkrt;
                            rt = Some(mk(n("g")));
                            gen_now = n("g");
                            late = false;
                            Value::Null
                        }
                        "add_const" => {
                            let r = rt.as_mut().expect("harness: add_const without runtime");
                            r.add(
                                Constant::new("LC", "a constant registered later", Val(Tk::new(6, 100 * gen_now)), location!())
                                    .expect("late constant must be constructible"),
                            )
                            .expect("late constant must register");
                            late = true;
                            Value::Null
                        }
                        "compile" => {
                            let r = rt.as_ref().expect("harness: compile without runtime");
                            let pkg = FileTree::test_file("c11.roto", &script(n("v"), $isctx, late), 0)
                                .compile(r)
                                .map_err(|e| e.to_string())
                                .expect("C11 script must compile");
                            assert!(pkgs.insert(n("m"), pkg).is_none(), "harness: package id reused");
                            Value::Null
                        }
                        "get" => {
                            let pkg = pkgs.get_mut(&n("m")).expect("harness: no such package");
                            let f = pkg
                                .get_function::<fn() -> u64>("main")
                                .expect("main must be retrievable as fn() -> u64");
                            assert!(hs.insert(n("h"), f).is_none(), "harness: handle slot in use");
                            Value::Null
                        }
                        "clone" => {
                            let f = hs.get(&n("a")).expect("harness: no such handle").clone();
                            assert!(hs.insert(n("b"), f).is_none(), "harness: handle slot in use");
                            Value::Null
                        }
                        "call" => {
                            let $f = hs.get(&n("h")).expect("harness: no such handle");
                            json!($call)
                        }
                        "drop_handle" => {
                            let f = hs.remove(&n("h")).expect("harness: no such handle");
                            drop(f);
                            Value::Null
                        }
                        "drop_pkg" => {
                            let p = pkgs.remove(&n("m")).expect("harness: no such package");
                            drop(p);
                            Value::Null
                        }
                        "drop_rt" => {
                            let r = rt.take().expect("harness: no runtime");
                            drop(r);
                            Value::Null
                        }
                        "move" => {
                            let f = hs.remove(&n("h")).expect("harness: no such handle");
                            let t = std::thread::spawn(move || {
                                let r = {
                                    let $f = &f;
                                    $call
                                };
                                drop(f);
                                r
                            });
                            match t.join() {
                                Ok(r) => json!(r),
                                Err(e) => panic!("thread panicked: {}", rvh::util::panic_message(&e)),
                            }
                        }
                        "into_func" => {
                            let $g = hs.remove(&n("h")).expect("harness: no such handle");
                            let c: Box<dyn Fn() -> u64> = $wrap;
                            assert!(cls.insert(n("c"), c).is_none(), "harness: closure slot in use");
                            Value::Null
                        }
                        "call_closure" => {
                            let c = cls.get(&n("c")).expect("harness: no such closure");
                            json!(c())
                        }
                        "drop_closure" => {
                            let c = cls.remove(&n("c")).expect("harness: no such closure");
                            drop(c);
                            Value::Null
                        }
                        other => panic!("unknown op {other}"),
                    };
                    out.push(json!({"res": res, "live": live()}));
                }
                // clean-up: closures, handles, then packages, then the runtime
                cls.clear();
                hs.clear();
                pkgs.clear();
                drop(rt);
                json!({"steps": out, "base": base, "end_live": live(),
                       "corrupt": CORRUPT.load(Ordering::SeqCst) - corrupt0})
            });
        }
    };
}

flavour!(run_noctx, NoCtx, false, build_runtime, |f| f.call(), |g| Box::new(g.into_func()));
flavour!(
    run_ctx,
    Ctx<HostCtx>,
    true,
    |g| build_runtime(g).with_context_type::<HostCtx>().expect("context type must register"),
    |f| f.call(&mut HostCtx { bias: 0 }),
    |g| {
        let c = g.into_func();
        Box::new(move || c(&mut HostCtx { bias: 0 }))
    }
);

fn main() {
    let args = parse_args();
    safety_net();
    match args.extra.first().map(|s| s.as_str()) {
        None | Some("noctx") => run_noctx(&args),
        Some("ctx") => run_ctx(&args),
        Some(other) => panic!("unknown flavour {other}"),
    }
}
