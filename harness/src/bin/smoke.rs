use roto::{FileTree, List, Runtime, Val, library};
use rvh::tracked::{LIVE0, Tr0};
use std::sync::atomic::Ordering;
fn live() -> i64 { LIVE0.load(Ordering::SeqCst) }
fn main() {
    let lib = library! { #[clone] type Tr0 = Val<Tr0>; };
    let rt = Runtime::from_lib(lib).unwrap();
    let src = std::env::args().nth(1).unwrap();
    let mut pkg = FileTree::test_file("smoke.roto", &src, 0).compile(&rt).map_err(|e| e.to_string()).unwrap();
    let f = pkg.get_function::<fn(List<Val<Tr0>>) -> List<Val<Tr0>>>("f").unwrap();
    let l: List<Val<Tr0>> = List::new();
    l.push(Val(Tr0::new())); l.push(Val(Tr0::new()));
    println!("before {}", live());
    let o = f.call(l.clone());
    println!("after call {} (out len {})", live(), o.len());
    drop(o);
    println!("after drop out {}", live());
    drop(l);
    println!("end {}", live());
}
