use roto::{FileTree, Runtime};
fn main() {
    let rt = Runtime::new();
    let src = std::env::args().nth(1).unwrap();
    println!("{:?}", roto::verif::lex(&src));
    match roto::verif::mir_json(FileTree::test_file("s.roto", &src, 0), &rt) {
        Ok(j) => println!("{}", &j[..j.len().min(600)]),
        Err(e) => { println!("spans {:?} kinds {:?}", roto::verif::report_spans(&e), roto::verif::report_kinds(&e)); return; }
    }
    let l = roto::verif::lower(FileTree::test_file("s.roto", &src, 0), &rt).map_err(|e| e.to_string()).unwrap();
    let o = l.eval_main(&[("i32".into(), 5)]);
    println!("{o:?}");
    let mut pkg = l.codegen();
    let f = pkg.get_function::<fn(i32) -> bool>("main").unwrap();
    println!("{}", f.call(5));
}
