//! C07 driver: compile one roto script per case with the real compiler and report
//! what happened, stage by stage.  No expectation is computed here: whether a script
//! must be rejected is decided by the TLA+ specification (spec/Typing.tla) and compared
//! in lib/checks/c07.py.
//!
//! Case:   {"src": "<roto source>", ...}            (other fields are ignored)
//! Result: {"outcome": "ok" | "err",
//!          "stage":   "parse" | "type" | "done",   (stage that produced the verdict)
//!          "kinds":   ["type", ..],                (roto::verif::report_kinds of the report)
//!          "msg":     "<first line of the rendered report>"}
//!
//! Progress steps (visible in a `panic`/`hang` record): 0 = parsing, 1 = type checking,
//! 2 = lowering + code generation (only reached when the type checker ACCEPTED the script).
use roto::{FileTree, Runtime};
use rvh::batch::{Progress, parse_args, run_batch};
use serde_json::{Value, json};

fn first_line(s: &str) -> String {
    // strip ANSI escapes, keep the first two non-empty lines (headline + message)
    let mut out = String::new();
    let mut it = s.chars();
    while let Some(c) = it.next() {
        if c == '\u{1b}' {
            for d in it.by_ref() {
                if d.is_ascii_alphabetic() {
                    break;
                }
            }
        } else {
            out.push(c);
        }
    }
    out.lines()
        .map(|l| l.trim())
        .filter(|l| !l.is_empty())
        .take(1)
        .collect::<Vec<_>>()
        .join(" | ")
        .chars()
        .take(240)
        .collect()
}

fn err(stage: &str, e: &roto::RotoReport) -> Value {
    json!({"outcome": "err", "stage": stage, "kinds": roto::verif::report_kinds(e), "msg": first_line(&e.to_string())})
}

fn main() {
    let args = parse_args();
    let rt = Runtime::new();
    let full = !args.extra.iter().any(|a| a == "typecheck-only");
    run_batch(&args, |case: &Value, prog: &Progress| -> Value {
        let src = case["src"].as_str().expect("case.src");
        prog.step(0);
        let tree = FileTree::test_file("c07.roto", src, 0);
        let parsed = match tree.parse() {
            Ok(p) => p,
            Err(e) => return err("parse", &e),
        };
        prog.step(1);
        let checked = match parsed.typecheck(&rt) {
            Ok(c) => c,
            Err(e) => return err("type", &e),
        };
        prog.step(2);
        if full {
            let _pkg = checked.lower_to_mir().lower_to_lir().codegen();
        }
        json!({"outcome": "ok", "stage": "done", "kinds": [], "msg": ""})
    });
}
